/*
 * System-call interposer for the Radicale verification harness (LD_PRELOAD).
 *
 * Observes the file-system related libc calls of a Python process (and of the children it spawns),
 * writes one line per call to a log, and can inject a crash (immediate exit_group, no clean-up) or an
 * errno at the N-th *mutating* call.  Nothing inside Radicale is changed.
 *
 * Control (from Python through ctypes.CDLL(None)):
 *   rverif_start(path)            start logging to `path` (append)
 *   rverif_stop()                 stop logging
 *   rverif_inject(mode, n, err)   mode 1: _exit(137) just before the n-th mutating call
 *                                 mode 2: make the n-th mutating call fail with errno `err`
 *   rverif_mutcount()             number of mutating calls seen since rverif_start/rverif_inject
 *   rverif_mark(text)             write a marker line
 *   rverif_delay(max_us, seed)    sleep a pseudo-random time < max_us before every logged call
 * A child process starts logging by itself when RVERIF_LOG is set in its environment.
 *
 * Line format (tab separated):  tid  op  path  path2  detail
 */
#define _GNU_SOURCE
#include <dlfcn.h>
#include <errno.h>
#include <fcntl.h>
#include <pthread.h>
#include <stdarg.h>
#include <stdio.h>
#include <stdlib.h>
#include <string.h>
#include <sys/file.h>
#include <sys/stat.h>
#include <sys/syscall.h>
#include <sys/types.h>
#include <unistd.h>
#include <dirent.h>

#define MAXFD 4096
#define PATHLEN 1024

static int log_fd = -1;
static volatile int armed = 0;
static volatile int inject_mode = 0;
static volatile long inject_n = 0;
static volatile int inject_errno = 0;
static volatile long mut_count = 0;
static volatile int delay_max_us = 0;
static unsigned int delay_state = 1;
static char fdpath[MAXFD][PATHLEN];
static pthread_mutex_t mu = PTHREAD_MUTEX_INITIALIZER;
static __thread int in_hook = 0;

static long gettid_(void) { return syscall(SYS_gettid); }

static void raw_write(const char *buf, size_t n) {
    if (log_fd >= 0) syscall(SYS_write, log_fd, buf, n);
}

static void sanitize(char *s) {
    for (; *s; s++) if (*s == '\t' || *s == '\n') *s = '?';
}

static void logline(const char *op, const char *p1, const char *p2, const char *detail) {
    if (!armed || log_fd < 0) return;
    char buf[2 * PATHLEN + 256];
    char a[PATHLEN], b[PATHLEN];
    snprintf(a, sizeof a, "%s", p1 ? p1 : "");
    snprintf(b, sizeof b, "%s", p2 ? p2 : "");
    sanitize(a); sanitize(b);
    int n = snprintf(buf, sizeof buf, "%ld\t%s\t%s\t%s\t%s\n", gettid_(), op, a, b, detail ? detail : "");
    if (n > 0) raw_write(buf, (size_t)n);
}

static void maybe_delay(void) {
    if (delay_max_us > 0 && armed) {
        pthread_mutex_lock(&mu);
        delay_state = delay_state * 1103515245u + 12345u;
        unsigned int r = (delay_state >> 8) % (unsigned int)delay_max_us;
        pthread_mutex_unlock(&mu);
        if (r) usleep(r);
    }
}

/* returns 1 if the call must fail (errno set), may not return at all (crash) */
static int mutating(const char *op, const char *p1) {
    if (!armed) return 0;
    long k = __sync_add_and_fetch(&mut_count, 1);
    if (inject_mode == 1 && k == inject_n) {
        logline("CRASH", p1, "", op);
        syscall(SYS_exit_group, 137);
    }
    if (inject_mode == 2 && k == inject_n) {
        logline("FAULT", p1, "", op);
        errno = inject_errno;
        return 1;
    }
    return 0;
}

static void absjoin(int dirfd, const char *path, char *out) {
    if (!path) { out[0] = 0; return; }
    if (path[0] == '/') { snprintf(out, PATHLEN, "%s", path); return; }
    if (dirfd == AT_FDCWD) {
        char cwd[PATHLEN];
        if (syscall(SYS_getcwd, cwd, sizeof cwd) > 0) snprintf(out, PATHLEN, "%.500s/%.500s", cwd, path);
        else snprintf(out, PATHLEN, "%s", path);
        return;
    }
    if (dirfd >= 0 && dirfd < MAXFD && fdpath[dirfd][0]) snprintf(out, PATHLEN, "%.500s/%.500s", fdpath[dirfd], path);
    else snprintf(out, PATHLEN, "<fd%d>/%.900s", dirfd, path);
}

static void remember(int fd, const char *p) {
    if (fd >= 0 && fd < MAXFD) snprintf(fdpath[fd], PATHLEN, "%s", p);
}

static const char *fdname(int fd) {
    if (fd >= 0 && fd < MAXFD && fdpath[fd][0]) return fdpath[fd];
    return "";
}

/* ---------------------------------------------------------------- control */

void rverif_start(const char *path) {
    if (log_fd >= 0) { syscall(SYS_close, log_fd); log_fd = -1; }
    log_fd = (int)syscall(SYS_openat, AT_FDCWD, path, O_WRONLY | O_CREAT | O_APPEND | O_CLOEXEC, 0644);
    /* move the log descriptor out of the way of the fd table the process uses */
    if (log_fd >= 0 && log_fd < 900) {
        int hi = (int)syscall(SYS_fcntl, log_fd, F_DUPFD_CLOEXEC, 900);
        if (hi >= 0) { syscall(SYS_close, log_fd); log_fd = hi; }
    }
    mut_count = 0;
    armed = 1;
}
void rverif_stop(void) { armed = 0; if (log_fd >= 0) { syscall(SYS_close, log_fd); log_fd = -1; } }
void rverif_inject(int mode, long n, int err) { inject_mode = mode; inject_n = n; inject_errno = err; mut_count = 0; }
long rverif_mutcount(void) { return mut_count; }
void rverif_mark(const char *s) { logline("MARK", s, "", ""); }
void rverif_delay(int max_us, unsigned seed) { delay_max_us = max_us; delay_state = seed ? seed : 1; }

__attribute__((constructor)) static void init(void) {
    const char *p = getenv("RVERIF_LOG");
    if (p && *p) {
        rverif_start(p);
        const char *d = getenv("RVERIF_DELAY_US");
        if (d) rverif_delay(atoi(d), (unsigned)getpid());
    }
}

/* ---------------------------------------------------------------- hooks */

#define REAL(name) static __typeof__(name) *real = NULL; if (!real) real = dlsym(RTLD_NEXT, #name)

static int is_write_open(int flags) {
    return (flags & (O_WRONLY | O_RDWR | O_CREAT | O_TRUNC | O_APPEND)) != 0;
}

static int do_open(const char *which, int dirfd, const char *path, int flags, mode_t mode,
                   int (*fn_at)(int, const char *, int, ...)) {
    char abs[PATHLEN];
    absjoin(dirfd, path, abs);
    char det[64];
    int w = is_write_open(flags) && !(flags & O_DIRECTORY);
    maybe_delay();
    if (w && !in_hook && mutating("openw", abs)) return -1;
    int fd = fn_at(dirfd, path, flags, mode);
    int e = errno;
    snprintf(det, sizeof det, "flags=%x ret=%d", flags, fd);
    if (!in_hook) logline(w ? "openw" : ((flags & O_DIRECTORY) ? "opendir" : "open"), abs, "", det);
    if (fd >= 0) remember(fd, abs);
    errno = e;
    return fd;
}

int open(const char *path, int flags, ...) {
    static int (*real_openat)(int, const char *, int, ...) = NULL;
    if (!real_openat) real_openat = dlsym(RTLD_NEXT, "openat");
    mode_t mode = 0;
    if (flags & (O_CREAT | O_TMPFILE)) { va_list ap; va_start(ap, flags); mode = va_arg(ap, mode_t); va_end(ap); }
    return do_open("open", AT_FDCWD, path, flags, mode, real_openat);
}
int open64(const char *path, int flags, ...) {
    static int (*real_openat)(int, const char *, int, ...) = NULL;
    if (!real_openat) real_openat = dlsym(RTLD_NEXT, "openat64");
    mode_t mode = 0;
    if (flags & (O_CREAT | O_TMPFILE)) { va_list ap; va_start(ap, flags); mode = va_arg(ap, mode_t); va_end(ap); }
    return do_open("open", AT_FDCWD, path, flags, mode, real_openat);
}
int openat(int dirfd, const char *path, int flags, ...) {
    static int (*real_openat)(int, const char *, int, ...) = NULL;
    if (!real_openat) real_openat = dlsym(RTLD_NEXT, "openat");
    mode_t mode = 0;
    if (flags & (O_CREAT | O_TMPFILE)) { va_list ap; va_start(ap, flags); mode = va_arg(ap, mode_t); va_end(ap); }
    return do_open("openat", dirfd, path, flags, mode, real_openat);
}
int openat64(int dirfd, const char *path, int flags, ...) {
    static int (*real_openat)(int, const char *, int, ...) = NULL;
    if (!real_openat) real_openat = dlsym(RTLD_NEXT, "openat64");
    mode_t mode = 0;
    if (flags & (O_CREAT | O_TMPFILE)) { va_list ap; va_start(ap, flags); mode = va_arg(ap, mode_t); va_end(ap); }
    return do_open("openat", dirfd, path, flags, mode, real_openat);
}

int close(int fd) {
    REAL(close);
    if (fd == log_fd && log_fd >= 0) { errno = EBADF; return -1; }   /* protect the log from os.closerange */
    if (armed && fd >= 0 && fd < MAXFD && fdpath[fd][0]) logline("close", fdpath[fd], "", "");
    if (fd >= 0 && fd < MAXFD) fdpath[fd][0] = 0;
    return real(fd);
}

int mkdir(const char *path, mode_t mode) {
    REAL(mkdir);
    char abs[PATHLEN]; absjoin(AT_FDCWD, path, abs);
    maybe_delay();
    if (mutating("mkdir", abs)) return -1;
    int r = real(path, mode); int e = errno;
    logline("mkdir", abs, "", r == 0 ? "ok" : strerror(e)); errno = e; return r;
}
int mkdirat(int dirfd, const char *path, mode_t mode) {
    REAL(mkdirat);
    char abs[PATHLEN]; absjoin(dirfd, path, abs);
    maybe_delay();
    if (mutating("mkdir", abs)) return -1;
    int r = real(dirfd, path, mode); int e = errno;
    logline("mkdir", abs, "", r == 0 ? "ok" : strerror(e)); errno = e; return r;
}
int rmdir(const char *path) {
    REAL(rmdir);
    char abs[PATHLEN]; absjoin(AT_FDCWD, path, abs);
    maybe_delay();
    if (mutating("rmdir", abs)) return -1;
    int r = real(path); int e = errno;
    logline("rmdir", abs, "", r == 0 ? "ok" : strerror(e)); errno = e; return r;
}
int unlink(const char *path) {
    REAL(unlink);
    char abs[PATHLEN]; absjoin(AT_FDCWD, path, abs);
    maybe_delay();
    if (mutating("unlink", abs)) return -1;
    int r = real(path); int e = errno;
    logline("unlink", abs, "", r == 0 ? "ok" : strerror(e)); errno = e; return r;
}
int unlinkat(int dirfd, const char *path, int flags) {
    REAL(unlinkat);
    char abs[PATHLEN]; absjoin(dirfd, path, abs);
    const char *op = (flags & AT_REMOVEDIR) ? "rmdir" : "unlink";
    maybe_delay();
    if (mutating(op, abs)) return -1;
    int r = real(dirfd, path, flags); int e = errno;
    logline(op, abs, "", r == 0 ? "ok" : strerror(e)); errno = e; return r;
}
int rename(const char *a, const char *b) {
    REAL(rename);
    char pa[PATHLEN], pb[PATHLEN]; absjoin(AT_FDCWD, a, pa); absjoin(AT_FDCWD, b, pb);
    maybe_delay();
    if (mutating("rename", pa)) return -1;
    int r = real(a, b); int e = errno;
    logline("rename", pa, pb, r == 0 ? "ok" : strerror(e)); errno = e; return r;
}
int renameat(int da, const char *a, int db, const char *b) {
    REAL(renameat);
    char pa[PATHLEN], pb[PATHLEN]; absjoin(da, a, pa); absjoin(db, b, pb);
    maybe_delay();
    if (mutating("rename", pa)) return -1;
    int r = real(da, a, db, b); int e = errno;
    logline("rename", pa, pb, r == 0 ? "ok" : strerror(e)); errno = e; return r;
}
int renameat2(int da, const char *a, int db, const char *b, unsigned int flags) {
    REAL(renameat2);
    char pa[PATHLEN], pb[PATHLEN]; absjoin(da, a, pa); absjoin(db, b, pb);
    const char *op = (flags & 2) ? "exchange" : "rename";
    maybe_delay();
    if (mutating(op, pa)) return -1;
    int r = real(da, a, db, b, flags); int e = errno;
    logline(op, pa, pb, r == 0 ? "ok" : strerror(e)); errno = e; return r;
}
int fsync(int fd) {
    REAL(fsync);
    maybe_delay();
    if (mutating("fsync", fdname(fd))) return -1;
    int r = real(fd); int e = errno;
    logline("fsync", fdname(fd), "", r == 0 ? "ok" : strerror(e)); errno = e; return r;
}
int fdatasync(int fd) {
    REAL(fdatasync);
    maybe_delay();
    if (mutating("fsync", fdname(fd))) return -1;
    int r = real(fd); int e = errno;
    logline("fsync", fdname(fd), "", r == 0 ? "ok" : strerror(e)); errno = e; return r;
}
int flock(int fd, int op) {
    REAL(flock);
    char det[32]; snprintf(det, sizeof det, "%s", (op & LOCK_EX) ? "EX" : (op & LOCK_SH) ? "SH" : (op & LOCK_UN) ? "UN" : "?");
    maybe_delay();
    logline("flock-req", fdname(fd), "", det);
    int r = real(fd, op); int e = errno;
    logline("flock", fdname(fd), "", det); errno = e; return r;
}
ssize_t write(int fd, const void *buf, size_t n) {
    REAL(write);
    if (armed && fd >= 0 && fd < MAXFD && fdpath[fd][0] && fd > 2) {
        maybe_delay();
        if (mutating("write", fdpath[fd])) return -1;
        ssize_t r = real(fd, buf, n); int e = errno;
        char det[48]; snprintf(det, sizeof det, "n=%zu ret=%zd", n, r);
        logline("write", fdpath[fd], "", det); errno = e; return r;
    }
    return real(fd, buf, n);
}
int utimensat(int dirfd, const char *path, const struct timespec times[2], int flags) {
    REAL(utimensat);
    char abs[PATHLEN];
    if (path) absjoin(dirfd, path, abs); else snprintf(abs, sizeof abs, "%s", fdname(dirfd));
    if (mutating("utime", abs)) return -1;
    int r = real(dirfd, path, times, flags); int e = errno;
    logline("utime", abs, "", r == 0 ? "ok" : strerror(e)); errno = e; return r;
}
int futimens(int fd, const struct timespec times[2]) {
    REAL(futimens);
    if (mutating("utime", fdname(fd))) return -1;
    int r = real(fd, times); int e = errno;
    logline("utime", fdname(fd), "", r == 0 ? "ok" : strerror(e)); errno = e; return r;
}
DIR *opendir(const char *path) {
    REAL(opendir);
    char abs[PATHLEN]; absjoin(AT_FDCWD, path, abs);
    in_hook++;
    DIR *d = real(path);
    in_hook--;
    logline("opendir", abs, "", d ? "ok" : "fail");
    if (d) remember(dirfd(d), abs);
    return d;
}
DIR *fdopendir(int fd) {
    REAL(fdopendir);
    logline("opendir", fdname(fd), "", "fd");
    return real(fd);
}
int stat(const char *path, struct stat *st) {
    REAL(stat);
    int r = real(path, st); int e = errno;
    if (armed) { char abs[PATHLEN]; absjoin(AT_FDCWD, path, abs); logline("stat", abs, "", r == 0 ? "ok" : "ENOENT"); }
    errno = e; return r;
}
int lstat(const char *path, struct stat *st) {
    REAL(lstat);
    int r = real(path, st); int e = errno;
    if (armed) { char abs[PATHLEN]; absjoin(AT_FDCWD, path, abs); logline("stat", abs, "", r == 0 ? "ok" : "ENOENT"); }
    errno = e; return r;
}
int fstatat(int dirfd, const char *path, struct stat *st, int flags) {
    REAL(fstatat);
    int r = real(dirfd, path, st, flags); int e = errno;
    if (armed && path && path[0]) { char abs[PATHLEN]; absjoin(dirfd, path, abs); logline("stat", abs, "", r == 0 ? "ok" : "ENOENT"); }
    errno = e; return r;
}
int statx(int dirfd, const char *path, int flags, unsigned int mask, struct statx *stx) {
    REAL(statx);
    int r = real(dirfd, path, flags, mask, stx); int e = errno;
    if (armed && path && path[0]) { char abs[PATHLEN]; absjoin(dirfd, path, abs); logline("stat", abs, "", r == 0 ? "ok" : "ENOENT"); }
    errno = e; return r;
}
int access(const char *path, int mode) {
    REAL(access);
    int r = real(path, mode); int e = errno;
    if (armed) { char abs[PATHLEN]; absjoin(AT_FDCWD, path, abs); logline("stat", abs, "", r == 0 ? "ok" : "ENOENT"); }
    errno = e; return r;
}
int execve(const char *path, char *const argv[], char *const envp[]) {
    REAL(execve);
    if (armed) {
        char det[PATHLEN]; size_t off = 0; det[0] = 0;
        for (int i = 0; argv && argv[i] && off < sizeof det - 2; i++) {
            int n = snprintf(det + off, sizeof det - off, "%s%s", i ? "\x1f" : "", argv[i]);
            if (n < 0) break;
            off += (size_t)n;
        }
        sanitize(det);
        logline("execve", path, "", det);
    }
    return real(path, argv, envp);
}
