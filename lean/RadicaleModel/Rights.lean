import RadicaleModel.Str
import RadicaleModel.Path
import RadicaleModel.Regex
/-
  Rights: radicale/rights/{authenticated,owner_only,owner_write,from_file}.py and `rights.intersect`.
  Paths are sanitised paths (as the app passes them); `verify` = (auth type ≠ none).
-/
namespace Radicale
namespace Rights
open Str

/-- `pathutils.strip_path(path)` then the two tests the back-ends make -/
def sane (path : Str) : Str := strip '/' path
def slashCount (s : Str) : Nat := s.count '/'
def firstComp (s : Str) : Str := s.takeWhile (· ≠ '/')

def authenticated (verify : Bool) (user path : Str) : Str :=
  if verify ∧ user = [] then [] else
  let p := sane path
  if slashCount p = 0 then "RW".toList
  else if slashCount p = 1 then "rw".toList
  else []

def ownerOnly (verify : Bool) (user path : Str) : Str :=
  if verify ∧ user = [] then [] else
  let p := sane path
  if p = [] then "R".toList
  else if verify ∧ user ≠ firstComp p then []
  else if slashCount p = 0 then "RW".toList
  else if slashCount p = 1 then "rw".toList
  else []

def ownerWrite (verify : Bool) (user path : Str) : Str :=
  if verify ∧ user = [] then [] else
  let p := sane path
  if p = [] then "R".toList
  else
    let owned := if verify then user = firstComp p else true
    if slashCount p = 0 then (if owned then "RW".toList else "R".toList)
    else if slashCount p = 1 then (if owned then "rw".toList else "r".toList)
    else []

/-! ### str.format (the part rights files use) -/

inductive FmtErr | value | index | key | unsupported
  deriving DecidableEq, Repr

def parseNat? (s : Str) : Option Nat :=
  if s = [] ∨ ¬ s.all Char.isDigit then none
  else some (s.foldl (fun n c => n * 10 + (c.toNat - 48)) 0)

/-- `tpl.format(*args, user=user)`; `user = none` models a call without the keyword (→ KeyError).
    `auto`: state of automatic field numbering (none = undecided, some (true, n) = automatic, next index n;
    some (false, _) = manual). -/
def pyFormatAux : Nat → Str → List Str → Option Str → Option (Bool × Nat) → Str → Except FmtErr Str
  | 0, _, _, _, _, _ => .error .unsupported
  | _, [], _, _, _, acc => .ok acc.reverse
  | fuel + 1, '{' :: '{' :: rest, args, user, auto, acc => pyFormatAux fuel rest args user auto ('{' :: acc)
  | fuel + 1, '}' :: '}' :: rest, args, user, auto, acc => pyFormatAux fuel rest args user auto ('}' :: acc)
  | _, '}' :: _, _, _, _, _ => .error .value                       -- single '}' encountered
  | fuel + 1, '{' :: rest, args, user, auto, acc =>
    let name := rest.takeWhile (· ≠ '}')
    let after := rest.dropWhile (· ≠ '}')
    match after with
    | [] => .error .value                                          -- expected '}' before end of string
    | _ :: rest' =>
      if name.any (fun c => c == '{' || c == '!' || c == ':' || c == '.' || c == '[') then .error .unsupported
      else if name = [] then
        match auto with
        | some (false, _) => .error .value                         -- manual → automatic
        | _ =>
          let i := match auto with | some (_, n) => n | none => 0
          match args[i]? with
          | some a => pyFormatAux fuel rest' args user (some (true, i + 1)) (a.reverse ++ acc)
          | none => .error .index
      else match parseNat? name with
        | some i =>
          match auto with
          | some (true, _) => .error .value                        -- automatic → manual
          | _ =>
            match args[i]? with
            | some a => pyFormatAux fuel rest' args user (some (false, 0)) (a.reverse ++ acc)
            | none => .error .index
        | none =>
          if name = "user".toList then
            match user with
            | some u => pyFormatAux fuel rest' args user auto (u.reverse ++ acc)
            | none => .error .key
          else .error .key
  | fuel + 1, c :: rest, args, user, auto, acc => pyFormatAux fuel rest args user auto (c :: acc)

def pyFormat (tpl : Str) (args : List Str) (user : Option Str) : Except FmtErr Str :=
  pyFormatAux (tpl.length + 1) tpl args user none []

/-! ### from_file -/

structure Rule where
  userPat : Str
  collPat : Str
  perms : Str
  deriving Repr

inductive Outcome
  | perms (p : Str)
  | error              -- RuntimeError("Error in section …")
  | unsupported        -- a pattern outside the modelled regex grammar was reached
  deriving DecidableEq, Repr

/-- does rule `r` apply to (user, sane path)? -/
inductive RuleRes | yes | no | err | unsup
  deriving DecidableEq, Repr

def ruleMatches (r : Rule) (user p : Str) : RuleRes :=
  if r.userPat = [] then .no            -- `user_match` stays None (groups are not modelled)
  else
    match pyFormat r.userPat [] none with
    | .error .unsupported => .unsup
    | .error _ => .err
    | .ok up =>
      match Regex.parse up with
      | none => .unsup
      | some (ure, ng) =>
        match Regex.fullmatch ure ng user with
        | none => .no
        | some caps =>
          -- `re.escape(s) for s in user_match.groups()`: an unmatched group is None → TypeError
          if caps.any Option.isNone then .err
          else
            let gs := caps.map (fun c => Regex.escape (c.getD []))
            match pyFormat r.collPat gs (some (Regex.escape user)) with
            | .error .unsupported => .unsup
            | .error _ => .err
            | .ok cp =>
              match Regex.parse cp with
              | none => .unsup
              | some (cre, cng) => if (Regex.fullmatch cre cng p).isSome then .yes else .no

/-- `Rights.authorization` of from_file: permissions of the first matching section, "" if none -/
def fromFile : List Rule → Str → Str → Outcome
  | [], _, _ => .perms []
  | r :: rest, user, path =>
    match ruleMatches r user (sane path) with
    | .err => .error
    | .unsup => .unsupported
    | .yes => .perms r.perms
    | .no => fromFile rest user path

/-- `rights.intersect(a, b)` as a set of letters -/
def intersect (a b : Str) : Str := (a.filter (b.contains ·)).eraseDups

end Rights
end Radicale
