import RadicaleModel.Str
/-
  Path: radicale/pathutils.py — `posixpath.normpath`, `sanitize_path`, the two safe-component
  predicates, `strip_path`/`unstrip_path`, `path_to_filesystem` (name part), `name_from_path`.
-/
namespace Radicale
namespace Path
open Str

/-- `is_safe_path_component` -/
def safeComp (c : Str) : Bool :=
  c ≠ [] && !c.contains '/' && c ≠ ['.'] && c ≠ ['.', '.']

/-- `is_safe_filesystem_path_component` (POSIX branch: no drive, no NTFS test) -/
def safeFsComp (c : Str) : Bool :=
  c ≠ [] && !c.contains '/' && c ≠ ['.'] && c ≠ ['.', '.'] &&
  c.head? ≠ some '.' && c.getLast? ≠ some '~'

/-- one step of the component loop of `posixpath.normpath`; `acc` is the reversed list of kept components -/
def normStep (initialSlash : Bool) (acc : List Str) (comp : Str) : List Str :=
  if comp = [] ∨ comp = ['.'] then acc
  else if comp ≠ ['.', '.'] ∨ (!initialSlash ∧ acc = []) ∨ (acc.head? = some ['.', '.']) then comp :: acc
  else acc.tail   -- `elif new_comps: new_comps.pop()`; for an empty list nothing happens (tail [] = [])

/-- components kept by `posixpath.normpath` (in order) -/
def normComps (p : Str) : List Str :=
  ((split '/' p).foldl (normStep (p.head? = some '/')) []).reverse

/-- `posixpath.normpath` -/
def normpath (p : Str) : Str :=
  if p = [] then ['.'] else
  let slashes : Nat :=
    if p.head? = some '/' then
      (if startsWith p ['/', '/'] && !startsWith p ['/', '/', '/'] then 2 else 1)
    else 0
  let body := join '/' (normComps p)
  let r := List.replicate slashes '/' ++ body
  if r = [] then ['.'] else r

/-- the components `sanitize_path` keeps -/
def sanitizeComps (p : Str) : List Str :=
  (split '/' (normpath p)).filter safeComp

/-- `sanitize_path` -/
def sanitize (p : Str) : Str :=
  let comps := sanitizeComps p
  let trailing := endsWith p ['/']
  '/' :: join '/' comps ++ (if comps ≠ [] ∧ trailing then ['/'] else [])

/-- `strip_path` (on a sanitised path) -/
def stripPath (p : Str) : Str := strip '/' p

/-- `path_to_filesystem`, name part only: the relative components or the first unsafe one -/
def toFilesystem (sane : Str) : Except Str (List Str) :=
  let parts := if sane = [] then [] else split '/' sane
  match parts.find? (fun c => !safeFsComp c) with
  | some bad => .error bad
  | none => .ok parts

end Path
end Radicale

namespace Radicale
namespace Path

/-- `check_token_name` of `sync()`: 64 lower-case hex digits -/
def checkTokenName (t : Str) : Bool :=
  t.length == 64 && t.all (fun c => "0123456789abcdef".toList.contains c)

end Path
end Radicale
