/-
  PropsReq: `xmlutils.props_from_request` and how PROPPATCH / MKCOL / MKCALENDAR apply its result.

  A request body is seen as its instructions in document order: (is_set, property name, value).  The function keeps
  one entry per property — the last instruction for it — ordered by the position of that last instruction
  (`result[key] = value; result.move_to_end(key)`); `none` stands for "remove".
-/
namespace Radicale
namespace PropsReq

structure Instr where
  isSet : Bool
  key : String
  value : String
  deriving DecidableEq, Repr

abbrev Result := List (String × Option String)

def step (res : Result) (i : Instr) : Result :=
  (res.filter (fun e => e.1 != i.key)) ++ [(i.key, if i.isSet then some i.value else none)]

/-- `props_from_request` -/
def propsFromRequest (is : List Instr) : Result := is.foldl step []

/-- the stored properties of a collection -/
abbrev Props := List (String × String)

def lookup (ps : Props) (k : String) : Option String := (ps.find? (fun e => e.1 == k)).map (·.2)

/-- PROPPATCH: `for short_name, value in props.items(): if value is None: remove else: set` -/
def applyOne (ps : Props) (e : String × Option String) : Props :=
  match e.2 with
  | none => ps.filter (fun x => x.1 != e.1)
  | some v => (ps.filter (fun x => x.1 != e.1)) ++ [(e.1, v)]

def apply (ps : Props) (res : Result) : Props := res.foldl applyOne ps

/-- the last instruction of the body for property `k` -/
def lastFor (is : List Instr) (k : String) : Option Instr := (is.reverse.find? (fun i => i.key == k))

end PropsReq
end Radicale
