import RadicaleModel.Quote
/-
  UrlSplit: the step *before* the decoders of Quote.lean — how a client-supplied URL (MOVE `Destination`, `D:href` of a
  multiget REPORT) is cut down to its path: `urllib.parse.urlsplit(url).path` (after fix F28; Python 3.12), and
  `urllib.parse.urlparse(url).path` as used before the fix, which in addition cuts `;parameters` off the last segment.

  Modelled: leading C0 controls / blanks stripped, tab / CR / LF removed anywhere, scheme detection (`url[:i]` before the
  first ":" when it starts with an ASCII letter and consists of scheme characters), `//authority` up to the first of
  "/?#", fragment and query cut.  Not modelled: the `ValueError`s of urlsplit (unbalanced brackets, NFKC-unsafe
  authority) — the request fails before anything is decoded.
-/
namespace Radicale
namespace UrlSplit
open Str

def isSchemeChar (c : Char) : Bool := c.isAlphanum || c == '+' || c == '-' || c == '.'

def removed (c : Char) : Bool := c == '\t' || c == '\n' || c == '\r'

/-- `url.lstrip(_WHATWG_C0_CONTROL_OR_SPACE)`, then `_UNSAFE_URL_BYTES_TO_REMOVE` taken out everywhere -/
def clean (url : Str) : Str := (url.dropWhile (fun c => c.toNat ≤ 32)).filter (fun c => !removed c)

/-- the text before the first ":" when that is a scheme -/
def schemeOf (url : Str) : Option Str :=
  let s := url.takeWhile (· != ':')
  if s.length < url.length && s != [] && (s.head?.map Char.isAlpha).getD false && s.all isSchemeChar then some s else none

def dropScheme (url : Str) : Str :=
  match schemeOf url with
  | some s => url.drop (s.length + 1)
  | none => url

def isDelim (c : Char) : Bool := c == '/' || c == '?' || c == '#'

/-- `_splitnetloc(url, 2)` when the rest starts with "//" -/
def dropNetloc : Str → Str
  | '/' :: '/' :: rest => rest.dropWhile (fun c => !isDelim c)
  | url => url

/-- fragment and query cut off -/
def pathOf (url : Str) : Str := url.takeWhile (fun c => c != '#' && c != '?')

/-- `urlsplit(url).path` -/
def urlsplitPath (url : Str) : Str := pathOf (dropNetloc (dropScheme (clean url)))

/-- `_splitparams`: the last segment is cut at its first ";" -/
def splitParams (p : Str) : Str :=
  let last := (p.reverse.takeWhile (· != '/')).reverse
  p.take (p.length - last.length) ++ last.takeWhile (· != ';')

def usesParams (scheme : Option Str) : Bool :=
  match scheme with
  | none => true
  | some s => ["ftp", "hdl", "prospero", "http", "imap", "https", "shttp", "rtsp", "rtspu", "sip", "sips", "mms", "sftp", "tel"].contains
                (String.ofList (s.map Char.toLower))

/-- `urlparse(url).path` (what `do_MOVE` and the multiget branch of `xml_report` used before fix F28) -/
def urlparsePath (url : Str) : Str :=
  let p := urlsplitPath url
  if usesParams (schemeOf (clean url)) then splitParams p else p

/-- MOVE: `sanitize_path(unquote(urlsplit(Destination).path))` -/
def decodeDestinationUrl (dest : Str) : Str := Quote.decodeDestination true (urlsplitPath dest)

/-- multiget: `sanitize_path(unquote(urlsplit(href).path))` -/
def decodeMultigetUrl (href : Str) : Str := Quote.decodeMultigetHref (urlsplitPath href)

end UrlSplit
end Radicale
