/-
  Conc: requests as lock windows executed by concurrent threads under a readers-writer lock
  (radicale/storage/multifilesystem/lock.py::acquire_lock around every handler body; the lock itself is C11's
  subject, that all storage access lies inside windows is C10's).

  A window has a mode and a body = a list of micro-operations on the abstract store `σ` (each returns an
  observation).  Bodies of `r` windows do not change the abstract store (C13: cache writes are invisible).
  The scheduler interleaves acquisitions, micro-operations and releases of all threads arbitrarily, subject to the
  lock: a writer enters only when nobody is inside, a reader only when no writer is inside.
-/
namespace Radicale
namespace Conc

inductive Mode | r | w
  deriving DecidableEq, Repr

structure Window (σ Obs : Type) where
  mode : Mode
  ops : List (σ → σ × Obs)

inductive Status
  | waiting
  | running (k : Nat)
  | done
  deriving DecidableEq, Repr

/-- run a list of micro-operations: final store and the observations -/
def runBody {σ Obs : Type} : List (σ → σ × Obs) → σ → σ × List Obs
  | [], s => (s, [])
  | op :: rest, s =>
    let r := op s
    let q := runBody rest r.1
    (q.1, r.2 :: q.2)

structure Config (σ Obs : Type) where
  s : σ
  st : Nat → Status
  acq : List (Nat × σ)          -- threads in order of acquisition, each with the store it found (ghost)
  obs : Nat → List Obs

def isRunning : Status → Bool
  | .running _ => true
  | _ => false

variable {σ Obs : Type}

/-- the lock admits thread `i` -/
def admits (ws : Nat → Window σ Obs) (c : Config σ Obs) (i : Nat) : Prop :=
  ∀ j, isRunning (c.st j) = true → (ws j).mode = .r ∧ (ws i).mode = .r

def upd {β : Type} (f : Nat → β) (i : Nat) (v : β) : Nat → β := fun x => if x = i then v else f x

inductive Step (ws : Nat → Window σ Obs) : Config σ Obs → Config σ Obs → Prop
  | acquire (c i) : c.st i = .waiting → admits ws c i →
      Step ws c { c with st := upd c.st i (.running 0), acq := c.acq ++ [(i, c.s)] }
  | micro (c i k op) : c.st i = .running k → (ws i).ops[k]? = some op →
      Step ws c { c with s := (op c.s).1, st := upd c.st i (.running (k + 1)), obs := upd c.obs i (c.obs i ++ [(op c.s).2]) }
  | release (c i k) : c.st i = .running k → k = (ws i).ops.length →
      Step ws c { c with st := upd c.st i .done }

inductive Reach (ws : Nat → Window σ Obs) (s0 : σ) : Config σ Obs → Prop
  | init : Reach ws s0 ⟨s0, fun _ => .waiting, [], fun _ => []⟩
  | step (c c') : Reach ws s0 c → Step ws c c' → Reach ws s0 c'

/-! ### the one-at-a-time execution -/

/-- store after running the windows of `l` one after the other -/
def serialFinal (ws : Nat → Window σ Obs) : List Nat → σ → σ
  | [], s => s
  | i :: rest, s => serialFinal ws rest (runBody (ws i).ops s).1

/-- each thread with the store it starts from in the serial execution -/
def serialTrace (ws : Nat → Window σ Obs) : List Nat → σ → List (Nat × σ)
  | [], _ => []
  | i :: rest, s => (i, s) :: serialTrace ws rest (runBody (ws i).ops s).1

end Conc
end Radicale
