import RadicaleModel.Str
/-
  CondHeaders: what the handlers make of the request headers that condition a request, on the header text as the
  client sent it (`none` = header absent).

    PUT      app/put.py     `etag = environ.get("HTTP_IF_MATCH", "")`; `if not item and etag` → 412;
                            `if item and etag and item.etag != etag` → 412;
                            `match = environ.get("HTTP_IF_NONE_MATCH", "") == "*"`; `if item and match` → 412
    DELETE   app/delete.py  `if_match = environ.get("HTTP_IF_MATCH", "*")`; `if if_match not in ("*", item.etag)` → 412
    MOVE     app/move.py    `if to_item and environ.get("HTTP_OVERWRITE", "F") != "T"` → 412
    PROPFIND app/propfind.py `environ.get("HTTP_DEPTH", "0")` handed to `discover(path, depth)`, which lists the members
                            of a collection unless `depth == "0"` (storage/multifilesystem/discover.py)

  The comparison is Python's `==` on `str`: no trimming, no case folding, no list syntax, no weak validators.
  `digestPut` / `digestDelete` turn the header text into the arguments of the `Dav` request model (content ids instead
  of ETag text) through a table `ETag text ↦ content id`; `RadicaleProofs/CondHeaders.lean` proves that the `Dav`
  model's tests on the digest are the tests above on the text whenever the table is faithful.
-/
namespace Radicale
namespace CondHeaders

structure Wire where
  ifMatch : Option Str := none
  ifNoneMatch : Option Str := none
  depth : Option Str := none
  overwrite : Option Str := none
  deriving Repr, DecidableEq

/-- PUT answers 412: `cur` = the ETag text of the resource at the path (`none`: nothing there) -/
def putRefuses (cur : Option Str) (w : Wire) : Bool :=
  let etag := w.ifMatch.getD []
  (cur.isNone && etag != []) || (cur.isSome && etag != [] && cur != some etag) ||
    (cur.isSome && w.ifNoneMatch.getD [] == ['*'])

/-- DELETE answers 412 (`cur` = the ETag text of the existing resource) -/
def deleteRefuses (cur : Str) (w : Wire) : Bool :=
  let m := w.ifMatch.getD ['*']
  !(m == ['*'] || m == cur)

/-- MOVE onto an existing resource goes ahead -/
def overwrites (w : Wire) : Bool := w.overwrite.getD ['F'] == ['T']

/-- PROPFIND lists the members of a collection -/
def listsChildren (w : Wire) : Bool := w.depth.getD ['0'] != ['0']

/-- the conditional part of a `Dav.Request.put`: (ifMatchRaw, ifMatch, ifNoneMatchStar) -/
structure PutDigest where
  raw : Bool
  ifMatch : Option Nat
  star : Bool
  deriving Repr, DecidableEq

def lookup (tbl : List (Str × Nat)) (e : Str) : Option Nat := (tbl.find? (fun p => p.1 == e)).map (·.2)

def digestPut (tbl : List (Str × Nat)) (w : Wire) : PutDigest :=
  { raw := w.ifMatch.getD [] != [],
    ifMatch := w.ifMatch.bind (lookup tbl),
    star := w.ifNoneMatch.getD [] == ['*'] }

/-- the conditional part of a `Dav.Request.delete`: `none` = no condition, `some none` = an ETag naming no known content -/
def digestDelete (tbl : List (Str × Nat)) (w : Wire) : Option (Option Nat) :=
  match w.ifMatch with
  | none => none
  | some m => if m == ['*'] then none else some (lookup tbl m)

/-- the `Dav` model's test for PUT of an item (`putItemU`), on content ids -/
def davPutRefuses (cur : Option Nat) (d : PutDigest) : Bool :=
  (d.raw && (match cur, d.ifMatch with | some c, some e => c != e | _, _ => true)) || (d.star && cur.isSome)

/-- the `Dav` model's test for DELETE of an item (`deleteU`) -/
def davDeleteRefuses (cur : Nat) (d : Option (Option Nat)) : Bool :=
  match d with | none => false | some e => e != some cur

end CondHeaders
end Radicale
