/-
  Dav: the ideal in-memory DAV store and the request handlers of radicale/app/*.py over it
  (decision order as in DESIGN.md Appendix A).  Request bodies are abstract: what the body parses to.
  Item content is identified by a content id (`cid`); the ETag of an item is an injective function of it
  (SHA-256 modelled as a perfect hash), so ETags are compared up to renaming.
  The model follows the repaired code (fix F4: PROPPATCH builds its answer before writing).
-/
namespace Dav

inductive Tag | none | cal | book
  deriving DecidableEq, Repr
inductive Kind | event | todo | journal | card
  deriving DecidableEq, Repr

structure Item where
  uid : String
  kind : Kind
  cid : Nat
  deriving DecidableEq, Repr

structure Coll where
  tag : Tag
  props : List (String × String)          -- without "tag", sorted by key
  items : List (String × Item)            -- href ↦ item, sorted by href
  deriving DecidableEq, Repr

abbrev Path := List String
abbrev Store := List (Path × Coll)

def Store.init : Store := [([], ⟨.none, [], []⟩)]

def coll? (s : Store) (p : Path) : Option Coll := (s.find? (fun e => e.1 == p)).map (·.2)

def item? (c : Coll) (h : String) : Option Item := (c.items.find? (fun e => e.1 == h)).map (·.2)

inductive Target
  | absent
  | coll (p : Path) (c : Coll)
  | item (parent : Path) (c : Coll) (href : String) (it : Item)
  deriving Repr

/-- `storage.discover(path)`: a collection, or an item of its parent collection -/
def resolve (s : Store) (p : Path) : Target :=
  match coll? s p with
  | some c => .coll p c
  | none =>
    match p.getLast? with
    | none => .absent
    | some h =>
      match coll? s p.dropLast with
      | some c => (match item? c h with | some it => .item p.dropLast c h it | none => .absent)
      | none => .absent

def setColl (s : Store) (p : Path) (c : Coll) : Store :=
  if (s.any (fun e => e.1 == p)) then s.map (fun e => if e.1 == p then (p, c) else e) else s ++ [(p, c)]

/-- remove a collection and everything below it -/
def removeTree (s : Store) (p : Path) : Store := s.filter (fun e => !(p.isPrefixOf e.1))

def insertSorted (h : String) (it : Item) : List (String × Item) → List (String × Item)
  | [] => [(h, it)]
  | (k, v) :: rest => if h < k then (h, it) :: (k, v) :: rest else if h = k then (h, it) :: rest
                      else (k, v) :: insertSorted h it rest

/-- writing the file `h`: whatever was stored under that name is replaced -/
def putEntry (h : String) (it : Item) (l : List (String × Item)) : List (String × Item) :=
  insertSorted h it (l.filter (fun e => e.1 != h))

def Coll.put (c : Coll) (h : String) (it : Item) : Coll := { c with items := putEntry h it c.items }
def Coll.del (c : Coll) (h : String) : Coll := { c with items := c.items.filter (fun e => e.1 != h) }
def Coll.hasUid (c : Coll) (u : String) : Bool := c.items.any (fun e => e.2.uid == u)

/-! ### rights -/

abbrev Rights := String → Path → String        -- user → sanitised collection path → permission letters

def has (perms : String) (letters : String) : Bool := letters.toList.any (fun c => perms.toList.contains c)

inductive Subject | nothing | collTagged | collPlain | anItem
  deriving DecidableEq

/-- `Access.check(permission, item)` -/
def check (rights : Rights) (user : String) (p : Path) (perm : Char) (subj : Subject) : Bool :=
  let perms := rights user p
  let parent := p.dropLast
  let pperms := if p = [] then perms else rights user parent
  let (own, par) : String × String := match subj with
    | .nothing => (String.mk [perm, perm.toUpper], String.mk [perm])
    | .collTagged => (String.mk [perm], "")
    | .collPlain => (String.mk [perm.toUpper], "")
    | .anItem => ("", String.mk [perm])
  has perms own || (p ≠ [] && has pperms par)

def subjectOf : Target → Subject
  | .absent => .nothing
  | .coll _ c => if c.tag = .none then .collPlain else .collTagged
  | .item .. => .anItem

/-! ### requests -/

structure Obj where
  uid : String
  kind : Kind
  cid : Nat
  deriving DecidableEq, Repr

inductive Body
  | unparsable                       -- `read_components` fails
  | cal (objs : List Obj)            -- one VCALENDAR with these components
  | cards (objs : List Obj)          -- a sequence of VCARDs
  deriving Repr

structure Cfg where
  permitDelete : Bool := true        -- [rights] permit_delete_collection
  permitOverwrite : Bool := true     -- [rights] permit_overwrite_collection
  deriving Repr

inductive Req
  | mkcol (p : Path) (tag : Tag) (props : List (String × String)) (badBody : Bool)
  | mkcalendar (p : Path) (props : List (String × String)) (badBody : Bool)
  | put (p : Path) (body : Body) (ifMatch : Option Nat) (ifMatchRaw : Bool) (ifNoneMatchStar : Bool)
      (ifMatchColl : Option (List (String × Nat) × List (String × String)) := none)
  | delete (p : Path) (ifMatch : Option (Option Nat))      -- none = no header / "*"; some none = foreign etag
      (ifMatchColl : Option (List (String × Nat) × List (String × String)) := none)   -- the header as a collection ETag
  | move (src dst : Path) (overwrite : Bool)
  | proppatch (p : Path) (set : List (String × String)) (remove : List String) (setsType : Bool) (badBody : Bool)
  | get (p : Path)
  | propfind (p : Path) (depth1 : Bool)
  | multiget (p : Path) (hrefs : List Path) (book : Bool)     -- calendar-multiget / addressbook-multiget
  deriving Repr

/-- what an answer shows, canonically -/
inductive Entry
  | coll (p : Path) (tag : Tag) (displayname : Option String) (etag : List (String × Nat) × List (String × String))
  | item (p : Path) (etag : Nat)
  | missing (p : Path)
  deriving DecidableEq, Repr

structure Resp where
  status : Nat
  etag : Option Nat := none                                  -- ETag header of an item
  cetag : Option (List (String × Nat) × List (String × String)) := none     -- ETag header of a collection
  entries : List Entry := []
  deriving Repr

def collEtag (c : Coll) : List (String × Nat) × List (String × String) :=
  (c.items.map (fun e => (e.1, e.2.cid)),
   (if c.tag = .none then c.props else ("tag", match c.tag with | .cal => "VCALENDAR" | .book => "VADDRESSBOOK" | .none => "") :: c.props))

def displayname (c : Coll) : Option String := (c.props.find? (fun e => e.1 == "D:displayname")).map (·.2)

/-! ### bodies → items -/

/-- one object = one component with a UID (several components sharing a UID need RECURRENCE-IDs, which the
    abstract bodies do not carry: two plain components with one UID are "multiple main components") -/
def sameUidKind : List Obj → Bool
  | [o] => o.uid != ""
  | _ => false

/-- content id of an object made of several components -/
def groupCid (objs : List Obj) : Nat := objs.foldl (fun a o => a * 1000 + o.cid) 0

/-- a single item for a collection with tag `tag` (`check_and_sanitize_items(is_collection=False)`) -/
def asItem (tag : Tag) (b : Body) : Option Item :=
  match tag, b with
  | .cal, .cal [] => some ⟨"", .event, 0⟩       -- an empty VCALENDAR passes every check (finding F19)
  | .cal, .cal objs =>
    if sameUidKind objs && objs.all (fun o => o.kind != .card) then
      match objs with | o :: _ => some ⟨o.uid, o.kind, groupCid objs⟩ | [] => none
    else none
  | .book, .cards [o] => if o.uid != "" && o.kind == .card then some ⟨o.uid, .card, o.cid⟩ else none
  | _, _ => none

def insertGroup (o : Obj) : List (String × List Obj) → List (String × List Obj)
  | [] => [(o.uid, [o])]
  | (u, g) :: rest => if o.uid < u then (o.uid, [o]) :: (u, g) :: rest
                      else if o.uid = u then (u, g ++ [o]) :: rest else (u, g) :: insertGroup o rest

/-- `get_safe_free_hrefs` of `_upload_all_nonatomic`: the UID itself (with the suffix unless it already ends
    with it, case-insensitively); if that name is taken, the hash of the UID ("#H(uid)" stands for the hex
    digest, perfect hash); if that is taken too, a random name -/
def bulkHref (suffix uid : String) (taken : List String) : String :=
  let h1 := if uid.toLower.endsWith suffix then uid else uid ++ suffix
  if !taken.contains h1 then h1
  else
    let h2 := "#H(" ++ uid ++ ")" ++ suffix
    if !taken.contains h2 then h2 else "#R" ++ suffix

def assignHrefs (suffix : String) : List Item → List String → List (String × Item)
  | [], _ => []
  | it :: rest, taken =>
    let h := bulkHref suffix it.uid taken
    (h, it) :: assignHrefs suffix rest (h :: taken)

/-- a whole collection: tag, and the members (href ↦ item); bulk content ids are offset so that the
    re-serialised member differs from the same object uploaded alone -/
def asCollection (b : Body) : Option (Tag × List (String × Item)) :=
  match b with
  | .cal objs =>
    if objs.all (fun o => o.uid != "" && o.kind != .card) && (objs.map (·.uid)).Nodup then
      let groups := objs.foldl (fun acc o => insertGroup o acc) []
      let items := groups.map (fun (u, g) => (⟨u, (g.head?.map (·.kind)).getD .event, 1000000 + groupCid g⟩ : Item))
      some (.cal, (assignHrefs ".ics" items []).foldl (fun acc e => putEntry e.1 e.2 acc) [])
    else none
  | .cards objs =>
    if objs ≠ [] && objs.all (fun o => o.uid != "" && o.kind == .card) && (objs.map (·.uid)).Nodup then
      some (.book, (assignHrefs ".vcf" (objs.map (fun o => (⟨o.uid, .card, o.cid⟩ : Item))) [])
                     |>.foldl (fun acc e => putEntry e.1 e.2 acc) [])
    else none
  | .unparsable => none

/-! ### handlers -/

def forbiddenNA : Resp := { status := 403 }       -- httputils.NOT_ALLOWED (rewritten to 401 for anonymous)

/-- the parent collection (`Access.parent_path`; the parent of the root is the root itself) -/
def parentOk (s : Store) (p : Path) : Option Coll := coll? s p.dropLast

def childColls (s : Store) (p : Path) : List (Path × Coll) :=
  s.filter (fun e => e.1.length = p.length + 1 && p.isPrefixOf e.1)

/-- which entries PROPFIND / multiget may show to `user` (`_collect_allowed_items`) -/
def mayShowColl (rights : Rights) (user : String) (p : Path) (c : Coll) : Bool :=
  if c.tag = .none then has (rights user p) "RW" else has (rights user p) "rw"
def mayShowItem (rights : Rights) (user : String) (parent : Path) : Bool := has (rights user parent) "rw"

/-- PROPFIND `D:displayname`: the property, or for calendars / address books the collection path as fall-back -/
def shownName (p : Path) (c : Coll) : Option String :=
  match displayname c with
  | some d => if d ≠ "" then some d else (if c.tag = .none then none else some ("/".intercalate p))
  | none => if c.tag = .none then none else some ("/".intercalate p)

def collEntry (p : Path) (c : Coll) : Entry := .coll p c.tag (shownName p c) (collEtag c)

/-- what a successful modifying request does to the store -/
inductive Update
  | setColl (p : Path) (c : Coll)             -- create one collection, or replace its properties / members
  | replaceTree (p : Path) (c : Coll)         -- whole-collection PUT: everything at and below `p` becomes `c`
  | removeTree (p : Path)                     -- DELETE of a collection
  | resetRoot                                 -- DELETE of "/": the root is re-created empty on the next access
  | moveItem (parent : Path) (h : String) (dparent : Path) (dh : String) (it : Item)
  deriving Repr

def applyUpdate (s : Store) : Update → Store
  | .setColl p c => setColl s p c
  | .replaceTree p c => setColl (removeTree s p) p c
  | .removeTree p => removeTree s p
  | .resetRoot => [([], ⟨.none, [], []⟩)]
  | .moveItem parent h dparent dh it =>
    match coll? s parent with
    | none => s
    | some c =>
      let s1 := setColl s parent (c.del h)
      match coll? s1 dparent with
      | none => s1
      | some dc => setColl s1 dparent (dc.put dh it)

def mkcolU (cfg : Cfg) (rights : Rights) (user : String) (s : Store) (p : Path) (tag : Tag) (props : List (String × String)) (badBody : Bool) : Resp × Option Update :=
    let perms := rights user p
    if !has perms "Ww" then (forbiddenNA, none)
    else if badBody then ({ status := 400 }, none)
    else if tag ≠ .none && !has perms "w" then (forbiddenNA, none)
    else if tag = .none && !has perms "W" then (forbiddenNA, none)
    else match resolve s p with
      | .absent =>
        (match parentOk s p with
         | none => (match p with
             | [] => ({ status := 405 }, none)
             | _ => (match resolve s p.dropLast with
                 | .item .. => ({ status := 403 }, none)
                 | _ => ({ status := 409 }, none)))
         | some pc => if pc.tag ≠ .none then ({ status := 403 }, none)
                      else ({ status := 201 }, some (.setColl p ⟨tag, props, []⟩)))
      | _ => ({ status := 405 }, none)

def mkcalendarU (cfg : Cfg) (rights : Rights) (user : String) (s : Store) (p : Path) (props : List (String × String)) (badBody : Bool) : Resp × Option Update :=
    let perms := rights user p
    if !has perms "w" then (forbiddenNA, none)
    else if badBody then ({ status := 400 }, none)
    else match resolve s p with
      | .absent =>
        (match parentOk s p with
         | none => (match p with
             | [] => ({ status := 409 }, none)
             | _ => (match resolve s p.dropLast with
                 | .item .. => ({ status := 403 }, none)
                 | _ => ({ status := 409 }, none)))
         | some pc => if pc.tag ≠ .none then ({ status := 403 }, none)
                      else ({ status := 201 }, some (.setColl p ⟨.cal, props, []⟩)))
      | _ => ({ status := 409 }, none)

/-- PUT onto a collection path / below a plain collection: the whole collection is written -/
def putWholeU (cfg : Cfg) (rights : Rights) (user : String) (p : Path) (body : Body) (target : Target)
    (ifMatchRaw ifNoneMatchStar : Bool) (ifMatchColl : Option (List (String × Nat) × List (String × String))) :
    Resp × Option Update :=
  let perms := rights user p
  -- the tag is predicted from the kind of body, before the body is validated
  let tag : Tag := match body with | .cal _ => .cal | .cards _ => .book | .unparsable => .none
  -- the letter follows the tag that is going to be written (repaired: fix F21)
  if !has perms (if tag = .none then "W" else "w") then (forbiddenNA, none)
  else if (!cfg.permitOverwrite && !has perms "O") || (cfg.permitOverwrite && has perms "o") then (forbiddenNA, none)
  else
    let cur : Option (List (String × Nat) × List (String × String)) :=
      match target with | .coll _ c => some (collEtag c) | _ => none
    -- If-Match on a collection compares with the collection's ETag
    if ifMatchRaw && (cur.isNone || ifMatchColl ≠ cur) then ({ status := 412 }, none)
    else if ifNoneMatchStar && cur.isSome then ({ status := 412 }, none)
    else match asCollection body with
      | none => ({ status := 400 }, none)
      | some (_, items) =>
        let c : Coll := ⟨tag, [], items⟩
        ({ status := 201, cetag := some (collEtag c) }, some (.replaceTree p c))

/-- PUT of a single item into the calendar / address book `pc` -/
def putItemU (rights : Rights) (user : String) (p : Path) (body : Body) (pc : Coll) (target : Target)
    (ifMatch : Option Nat) (ifMatchRaw ifNoneMatchStar : Bool) : Resp × Option Update :=
  if !has (rights user p.dropLast) "w" then (forbiddenNA, none)
  else
    let cur : Option Item := match target with | .item _ _ _ it => some it | _ => none
    if ifMatchRaw && (match cur, ifMatch with | some it, some e => it.cid != e | _, _ => true) then ({ status := 412 }, none)
    else if ifNoneMatchStar && cur.isSome then ({ status := 412 }, none)
    else match asItem pc.tag body with
      | none => ({ status := 400 }, none)
      | some it =>
        let conflict := match cur with
          | some old => old.uid != it.uid
          | none => pc.hasUid it.uid
        if conflict then ({ status := 409 }, none)
        else ({ status := 201, etag := some it.cid }, some (.setColl p.dropLast (pc.put (p.getLast?.getD "") it)))

def Body.isUnparsable : Body → Bool
  | .unparsable => true
  | _ => false

/-- `write_whole_collection`: the target is a collection, or the parent is a plain collection -/
def isWhole (target : Target) (pc : Coll) : Bool :=
  (match target with | .coll .. => true | _ => false) || pc.tag = .none

def putDispatch (cfg : Cfg) (rights : Rights) (user : String) (p : Path) (body : Body) (pc : Coll) (target : Target)
    (ifMatch : Option Nat) (ifMatchRaw ifNoneMatchStar : Bool)
    (ifMatchColl : Option (List (String × Nat) × List (String × String))) : Resp × Option Update :=
  if isWhole target pc then putWholeU cfg rights user p body target ifMatchRaw ifNoneMatchStar ifMatchColl
  else putItemU rights user p body pc target ifMatch ifMatchRaw ifNoneMatchStar

def putU (cfg : Cfg) (rights : Rights) (user : String) (s : Store) (p : Path) (body : Body) (ifMatch : Option Nat) (ifMatchRaw : Bool) (ifNoneMatchStar : Bool) (ifMatchColl : Option (List (String × Nat) × List (String × String))) : Resp × Option Update :=
  if !check rights user p 'w' .nothing then (forbiddenNA, none)
  else if body.isUnparsable then ({ status := 400 }, none)
  else match parentOk s p with
    | none => ({ status := 409 }, none)
    | some pc => putDispatch cfg rights user p body pc (resolve s p) ifMatch ifMatchRaw ifNoneMatchStar ifMatchColl

def deleteU (cfg : Cfg) (rights : Rights) (user : String) (s : Store) (p : Path) (ifMatch : Option (Option Nat))
    (ifMatchColl : Option (List (String × Nat) × List (String × String)) := none) : Resp × Option Update :=
    if !check rights user p 'w' .nothing then (forbiddenNA, none)
    else match resolve s p with
      | .absent => ({ status := 404 }, none)
      | .item parent c h it =>
        if !check rights user p 'w' .anItem then (forbiddenNA, none)
        else if (match ifMatch with | none => false | some e => e != some it.cid) then ({ status := 412 }, none)
        else ({ status := 200 }, some (.setColl parent (c.del h)))
      | .coll _ c =>
        let subj := if c.tag = .none then Subject.collPlain else .collTagged
        if !check rights user p 'w' subj then (forbiddenNA, none)
        -- If-Match on a collection compares with the collection's ETag
        else if ifMatch.isSome && ifMatchColl ≠ some (collEtag c) then ({ status := 412 }, none)
        else if cfg.permitDelete && check rights user p 'd' subj then (forbiddenNA, none)
        else if !cfg.permitDelete && !check rights user p 'D' subj then (forbiddenNA, none)
        else if p = [] then ({ status := 200 }, some .resetRoot)   -- the root is re-created on the next access
        else ({ status := 200 }, some (.removeTree p))

def moveU (cfg : Cfg) (rights : Rights) (user : String) (s : Store) (src dst : Path) (overwrite : Bool) : Resp × Option Update :=
    if !check rights user src 'w' .nothing then (forbiddenNA, none)
    else if !check rights user dst 'w' .nothing then (forbiddenNA, none)
    else match resolve s src with
      | .absent => ({ status := 404 }, none)
      | .coll _ c =>
        let subj := if c.tag = .none then Subject.collPlain else .collTagged
        if !check rights user src 'w' subj || !check rights user dst 'w' subj then (forbiddenNA, none)
        else ({ status := 405 }, none)
      | .item parent c h it =>
        if !check rights user src 'w' .anItem || !check rights user dst 'w' .anItem then (forbiddenNA, none)
        else match resolve s dst with
          | .coll .. => ({ status := 403 }, none)
          | tdst =>
            match parentOk s dst with
            | none => (match dst with
                | [] => ({ status := 403 }, none)
                | _ => (match resolve s dst.dropLast with
                    | .item .. => ({ status := 500 }, none)      -- `assert isinstance(to_collection, BaseCollection)`
                    | _ => ({ status := 409 }, none)))
            | some dc =>
              if c.tag = .none || c.tag ≠ dc.tag then ({ status := 403 }, none)
              else
                let existing : Option Item := match tdst with | .item _ _ _ x => some x | _ => none
                if existing.isSome && !overwrite then ({ status := 412 }, none)
                else
                  let conflict := match existing with
                    | some x => it.uid != x.uid
                    | none => dst.dropLast ≠ parent && dc.hasUid it.uid
                  if conflict then ({ status := 409 }, none)
                  else
                    ({ status := if existing.isSome then 204 else 201 },
                     some (.moveItem parent h dst.dropLast (dst.getLast?.getD "") it))

def proppatchU (cfg : Cfg) (rights : Rights) (user : String) (s : Store) (p : Path) (set : List (String × String)) (remove : List String) (setsType : Bool) (badBody : Bool) : Resp × Option Update :=
    if !check rights user p 'w' .nothing then (forbiddenNA, none)
    else if badBody then ({ status := 400 }, none)
    else match resolve s p with
      | .absent => ({ status := 404 }, none)
      | .item .. => if !check rights user p 'w' .anItem then (forbiddenNA, none) else ({ status := 403 }, none)
      | .coll _ c =>
        let subj := if c.tag = .none then Subject.collPlain else .collTagged
        if !check rights user p 'w' subj then (forbiddenNA, none)
        else if setsType then ({ status := 400 }, none)       -- repaired: fails before anything is written
        else
          -- `<set>` elements are applied first, `<remove>` elements afterwards (document order of the harness)
          let kept := c.props.filter (fun e => !(set.any (fun x => x.1 == e.1)))
          let merged := ((kept ++ set).foldl (fun acc e => (acc.filter (fun x => x.1 != e.1)) ++ [e]) []).filter
            (fun e => !(remove.contains e.1))
          let sorted := merged.foldl (fun acc e =>
            let (lo, hi) := acc.partition (fun x => x.1 < e.1); lo ++ [e] ++ hi) []
          ({ status := 207 }, some (.setColl p { c with props := sorted }))

def getU (cfg : Cfg) (rights : Rights) (user : String) (s : Store) (p : Path) : Resp × Option Update :=
    if !check rights user p 'r' .nothing && !has (rights user p) "i" then (forbiddenNA, none)
    else match resolve s p with
      | .absent => ({ status := 404 }, none)
      | .item _ _ _ it =>
        if check rights user p 'r' .anItem then ({ status := 200, etag := some it.cid }, none) else (forbiddenNA, none)
      | .coll _ c =>
        let subj := if c.tag = .none then Subject.collPlain else .collTagged
        let full := check rights user p 'r' subj
        if !full && !has (rights user p) "i" then (forbiddenNA, none)
        else if c.tag = .none then (if full then ({ status := 403 }, none) else (forbiddenNA, none))
        else ({ status := 200, cetag := some (collEtag c) }, none)

def propfindU (cfg : Cfg) (rights : Rights) (user : String) (s : Store) (p : Path) (depth1 : Bool) : Resp × Option Update :=
    if !check rights user p 'r' .nothing then (forbiddenNA, none)
    else match resolve s p with
      | .absent => ({ status := 404 }, none)
      | .item parent _ _ it =>
        if !check rights user p 'r' .anItem then (forbiddenNA, none)
        else ({ status := 207, entries := if mayShowItem rights user parent then [.item p it.cid] else [] }, none)
      | .coll _ c =>
        let subj := if c.tag = .none then Subject.collPlain else .collTagged
        if !check rights user p 'r' subj then (forbiddenNA, none)
        else
          let self := if mayShowColl rights user p c then [collEntry p c] else []
          let members := if depth1 then
              (if mayShowItem rights user p then c.items.map (fun e => Entry.item (p ++ [e.1]) e.2.cid) else []) ++
              ((childColls s p).filter (fun e => mayShowColl rights user e.1 e.2)).map (fun e => collEntry e.1 e.2)
            else []
          ({ status := 207, entries := self ++ members }, none)

/-- the multiget answer once the collection is settled (`xml_report` + `retrieve_items`) -/
def multigetOn (rights : Rights) (user : String) (cp : Path) (c : Coll) (hrefs : List Path) (book : Bool) : Resp × Option Update :=
  if c.tag = .none || (c.tag = .cal && book) || (c.tag = .book && !book) then ({ status := 403 }, none)
  else
    let es := hrefs.eraseDups.map (fun h =>
      if h.dropLast = cp then
        match item? c (h.getLast?.getD "") with
        | some it => if mayShowItem rights user cp then Entry.item h it.cid else Entry.missing h
        | none => Entry.missing h
      else Entry.missing h)
    ({ status := 207, entries := es }, none)

/-- REPORT (multiget); on the path of an item the report runs on the item's collection -/
def multigetU (cfg : Cfg) (rights : Rights) (user : String) (s : Store) (p : Path) (hrefs : List Path) (book : Bool) : Resp × Option Update :=
    if !check rights user p 'r' .nothing then (forbiddenNA, none)
    else match resolve s p with
      | .absent => ({ status := 404 }, none)
      | .item pp c _ _ =>
        if !check rights user p 'r' .anItem then (forbiddenNA, none)
        else multigetOn rights user pp c hrefs book
      | .coll _ c =>
        let subj := if c.tag = .none then Subject.collPlain else .collTagged
        if !check rights user p 'r' subj then (forbiddenNA, none)
        else multigetOn rights user p c hrefs book

def handleU (cfg : Cfg) (rights : Rights) (user : String) (s : Store) : Req → Resp × Option Update
  | .mkcol p tag props badBody => mkcolU cfg rights user s p tag props badBody
  | .mkcalendar p props badBody => mkcalendarU cfg rights user s p props badBody
  | .put p body ifMatch ifMatchRaw ifNoneMatchStar ifMatchColl => putU cfg rights user s p body ifMatch ifMatchRaw ifNoneMatchStar ifMatchColl
  | .delete p ifMatch imc => deleteU cfg rights user s p ifMatch imc
  | .move src dst overwrite => moveU cfg rights user s src dst overwrite
  | .proppatch p set remove setsType badBody => proppatchU cfg rights user s p set remove setsType badBody
  | .get p => getU cfg rights user s p
  | .propfind p depth1 => propfindU cfg rights user s p depth1
  | .multiget p hrefs book => multigetU cfg rights user s p hrefs book

/-- the handler on stores: decide, then apply -/
def handle (cfg : Cfg) (rights : Rights) (user : String) (s : Store) (r : Req) : Resp × Store :=
  match handleU cfg rights user s r with
  | (resp, none) => (resp, s)
  | (resp, some u) => (resp, applyUpdate s u)

/-- the gate's automatic creation of the authenticated user's home collection -/
def ensureHome (rights : Rights) (user : String) (s : Store) : Store :=
  if user = "" then s
  else match coll? s [user] with
    | some _ => s
    | none => (match resolve s [user] with
        | .absent => if has (rights user [user]) "W" then setColl s [user] ⟨.none, [], []⟩ else s
        | _ => s)

def request (cfg : Cfg) (rights : Rights) (user : String) (s : Store) (r : Req) : Resp × Store :=
  handle cfg rights user (ensureHome rights user s) r

end Dav
