/-
  Cache: the item cache of one collection (radicale/storage/multifilesystem/get.py::_get, cache.py, and the
  places that write / carry / drop entries: upload.py, move.py, delete.py).

  A file is (content id, size, mtime); `parse` gives what a reader derives from the bytes (uid, etag, text, name,
  tag, time range — one number stands for the tuple; `none` = the bytes are not a valid item).  A cache entry is
  (key, derived).  The key is SHA-256(version + bytes) — the content id, SHA-256 being injective — or, in
  mtime+size mode, (size, mtime).
-/
namespace Radicale
namespace Cache

structure File where
  content : Nat
  size : Nat
  mtime : Nat
  deriving DecidableEq, Repr

inductive Mode | hash | stat
  deriving DecidableEq, Repr

inductive Key
  | h (content : Nat)
  | s (size mtime : Nat)
  deriving DecidableEq, Repr

def key : Mode → File → Key
  | .hash, f => .h f.content
  | .stat, f => .s f.size f.mtime

abbrev Entry := Key × Nat

structure State where
  files : Nat → Option File
  cache : Nat → Option Entry

def set {β : Type} (f : Nat → Option β) (k : Nat) (v : Option β) : Nat → Option β := fun x => if x = k then v else f x

inductive Lookup | hit | miss | absent | broken
  deriving DecidableEq, Repr

/-- `_get(href)`: the answer, whether the cache was used, and the state afterwards -/
def get (m : Mode) (parse : Nat → Option Nat) (s : State) (h : Nat) : State × Option Nat × Lookup :=
  match s.files h with
  | none => (s, none, .absent)
  | some f =>
    let miss : State × Option Nat × Lookup :=
      match parse f.content with
      | none => (s, none, .broken)                       -- skipped (or an error): nothing is stored
      | some d =>
        -- the entry is stored; then `_clean_item_cache` drops the entries of names that have no file (it runs
        -- after the first miss of a request)
        ({ s with cache := fun x => if x = h then some (key m f, d) else if (s.files x).isSome then s.cache x else none },
         some d, .miss)
    match s.cache h with
    | some (k, d) => if k = key m f then (s, some d, .hit) else miss
    | none => miss

/-- requests (what the storage API does to files and cache) -/
inductive Req
  | get (h : Nat)
  | upload (h : Nat) (f : File)        -- `upload`: file, matching entry, then read back through `_get`
  | delete (h : Nat)
  | move (h h' : Nat)                  -- inside the collection: file and entry are renamed
  | moveOut (h : Nat)                  -- to another collection
  | moveIn (h : Nat) (f : File) (e : Option Entry)   -- from another collection, with the entry it had there
  | replaceAll (items : List (Nat × File)) (sub : Bool)
      -- whole collection: files and entries written afresh; with the cache in the sub-folder layout the fresh
      -- entries land beside the temporary folder and the old entries stay
  | edit (h : Nat) (f : Option File)   -- the file is replaced / removed by other means (storage locked)

/-- what happens to the cache behind the server's back -/
inductive Adv
  | wipe
  | drop (h : Nat)
  | plant (h : Nat) (e : Entry)        -- an entry left over from earlier content, or written under the other mode

/-- `mode`: the server is restarted with the other [storage] use_mtime_and_size_for_item_cache setting -/
inductive Op | req (r : Req) | adv (a : Adv) | mode (m : Mode)

def ofList {β : Type} : List (Nat × β) → Nat → Option β
  | [], _ => none
  | (h, e) :: rest, x => if x = h then some e else ofList rest x

/-- `up c` = what the uploader derives from the item it holds in memory (it wrote `c`) -/
def stepReq (m : Mode) (parse : Nat → Option Nat) (up : Nat → Nat) (s : State) : Req → State × Option Nat
  | .get h => let r := get m parse s h; (r.1, r.2.1)
  | .upload h f =>
    let s1 : State := ⟨set s.files h (some f), set s.cache h (some (key m f, up f.content))⟩
    let r := get m parse s1 h
    (r.1, r.2.1)
  | .delete h => (⟨set s.files h none, set s.cache h none⟩, none)
  | .move h h' =>
    -- the request reads the item first (`discover`); only an item that can be read is moved; its entry (which
    -- exists after the read) is renamed along and replaces whatever was stored under the destination name
    let r := get m parse s h
    match r.2.1, r.1.files h with
    | some _, some f =>
      if h = h' then (r.1, none)
      else
        let c := match r.1.cache h with
          | some e => set (set r.1.cache h' (some e)) h none
          | none => r.1.cache
        (⟨set (set r.1.files h' (some f)) h none, c⟩, none)
    | _, _ => (r.1, none)
  | .moveOut h => (⟨set s.files h none, set s.cache h none⟩, none)       -- the entry (if any) went along
  | .moveIn h f e => (⟨set s.files h (some f), match e with | some x => set s.cache h (some x) | none => s.cache⟩, none)
  | .replaceAll items sub =>
    (⟨ofList items, if sub then s.cache else ofList (items.map (fun p => (p.1, (key m p.2, up p.2.content))))⟩, none)
  | .edit h f => (⟨set s.files h f, s.cache⟩, none)

def stepAdv (s : State) : Adv → State
  | .wipe => { s with cache := fun _ => none }
  | .drop h => { s with cache := set s.cache h none }
  | .plant h e => { s with cache := set s.cache h (some e) }

def step (m : Mode) (parse : Nat → Option Nat) (up : Nat → Nat) (s : State) : Op → Mode × State × List (Option Nat)
  | .req r => let x := stepReq m parse up s r; (m, x.1, [x.2])
  | .adv a => (m, stepAdv s a, [])
  | .mode m' => (m', s, [])

/-- all answers of a history -/
def run (parse : Nat → Option Nat) (up : Nat → Nat) : Mode → State → List Op → List (Option Nat)
  | _, _, [] => []
  | m, s, op :: ops => let x := step m parse up s op; x.2.2 ++ run parse up x.1 x.2.1 ops

/-! ### the cache-free reference -/

def refReq (parse : Nat → Option Nat) (files : Nat → Option File) : Req → (Nat → Option File) × Option Nat
  | .get h => (files, (files h).bind (fun f => parse f.content))
  | .upload h f => (set files h (some f), parse f.content)
  | .delete h => (set files h none, none)
  | .move h h' =>
    match files h with
    | none => (files, none)
    | some f =>
      if (parse f.content).isNone then (files, none)
      else if h = h' then (files, none) else (set (set files h' (some f)) h none, none)
  | .moveOut h => (set files h none, none)
  | .moveIn h f _ => (set files h (some f), none)
  | .replaceAll items _ => (ofList items, none)
  | .edit h f => (set files h f, none)

def refRun (parse : Nat → Option Nat) : (Nat → Option File) → List Op → List (Option Nat)
  | _, [] => []
  | files, .req r :: ops => let x := refReq parse files r; x.2 :: refRun parse x.1 ops
  | files, .adv _ :: ops => refRun parse files ops
  | files, .mode _ :: ops => refRun parse files ops

end Cache
end Radicale
