/-
  Str: list-of-characters helpers shared by the models.
  Python `str` is modelled as `List Char` (Unicode scalar values; lone surrogates are outside the model).
-/
namespace Radicale

abbrev Str := List Char

namespace Str

/-- Python `s.split(sep)` for a single-character separator (never returns `[]`). -/
def split (sep : Char) : Str → List Str
  | [] => [[]]
  | c :: cs =>
    if c = sep then [] :: split sep cs
    else match split sep cs with
      | [] => [[c]]
      | h :: t => (c :: h) :: t

/-- Python `sep.join(parts)` for a single-character separator. -/
def join (sep : Char) : List Str → Str
  | [] => []
  | [p] => p
  | p :: q :: rest => p ++ sep :: join sep (q :: rest)

/-- Python `s.startswith(p)`. -/
def startsWith : Str → Str → Bool
  | _, [] => true
  | [], _ :: _ => false
  | c :: cs, p :: ps => c == p && startsWith cs ps

/-- Python `s.endswith(p)`. -/
def endsWith (s p : Str) : Bool := startsWith s.reverse p.reverse

/-- Python `s.rstrip(c)` for a single character. -/
def rstrip (c : Char) (s : Str) : Str := (s.reverse.dropWhile (· == c)).reverse

/-- Python `s.lstrip(c)` for a single character. -/
def lstrip (c : Char) (s : Str) : Str := s.dropWhile (· == c)

/-- Python `s.strip(c)`. -/
def strip (c : Char) (s : Str) : Str := rstrip c (lstrip c s)

def ofString (s : String) : Str := s.toList
def toString (s : Str) : String := String.ofList s

end Str
end Radicale
