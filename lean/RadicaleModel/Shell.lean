import RadicaleModel.Str
/-
  Shell: `shlex.quote` and a model of how a POSIX shell splits a command line into words
  (the part that matters for text produced by `shlex.quote`: unquoted safe characters, single quotes,
  double quotes without `$`, backquote, backslash).  Anything else makes `words` fail (`none`): an
  unquoted metacharacter, an expansion, an unterminated quote.
-/
namespace Radicale
namespace Shell

/-- the characters `shlex.quote` leaves unquoted: word characters (re.ASCII) and `@ % + = : , . / -` (hyphen) -/
def safeChar (c : Char) : Bool :=
  c.isAlphanum || c == '_' || c == '@' || c == '%' || c == '+' || c == '=' || c == ':' || c == ',' ||
  c == '.' || c == '/' || c == '-'

/-- `s.replace("'", "'\"'\"'")` -/
def escapeQuotes : Str → Str
  | [] => []
  | c :: cs => if c = '\'' then '\'' :: '"' :: '\'' :: '"' :: '\'' :: escapeQuotes cs else c :: escapeQuotes cs

/-- `shlex.quote(s)` -/
def quote (s : Str) : Str :=
  if s = [] then ['\'', '\'']
  else if s.all safeChar then s
  else '\'' :: (escapeQuotes s ++ ['\''])

inductive Mode | bare | sq | dq
  deriving DecidableEq, Repr

/-- shell word splitting: `cur = none` between words.  Returns `none` on anything that is not plain text. -/
def wordsAux : Mode → Option Str → List Str → Str → Option (List Str)
  | .bare, cur, acc, [] => some ((match cur with | some w => w.reverse :: acc | none => acc).reverse)
  | .sq, _, _, [] => none
  | .dq, _, _, [] => none
  | .bare, cur, acc, c :: cs =>
    if c = ' ' ∨ c = '\t' ∨ c = '\n' then
      wordsAux .bare none (match cur with | some w => w.reverse :: acc | none => acc) cs
    else if c = '\'' then wordsAux .sq (some (cur.getD [])) acc cs
    else if c = '"' then wordsAux .dq (some (cur.getD [])) acc cs
    else if safeChar c then wordsAux .bare (some (c :: cur.getD [])) acc cs
    else none                                     -- metacharacter / expansion / escape outside quotes
  | .sq, cur, acc, c :: cs =>
    if c = '\'' then wordsAux .bare cur acc cs else wordsAux .sq (some (c :: cur.getD [])) acc cs
  | .dq, cur, acc, c :: cs =>
    if c = '"' then wordsAux .bare cur acc cs
    else if c = '$' ∨ c = '`' ∨ c = '\\' then none
    else wordsAux .dq (some (c :: cur.getD [])) acc cs

def words (s : Str) : Option (List Str) := wordsAux .bare none [] s

/-- the storage hook template, seen as words separated by single blanks: literal text or one of the three
    placeholders `%(user)s`, `%(path)s`, `%(cwd)s` (lock.py, `acquire_lock`) -/
inductive HookTok
  | lit (w : Str)
  | user
  | path
  | cwd
  deriving Repr, DecidableEq

/-- what the request contributes: the login (may be empty), the sanitized path handed to `acquire_lock`
    (empty unless the caller passes it), and the two configured folders -/
structure HookEnv where
  user : Str
  path : Str
  folder : Str            -- filesystem_folder
  root : Str              -- filesystem_folder/collection-root
  deriving Repr

def anonymous : Str := "Anonymous".toList

/-- the text the placeholder stands for -/
def HookTok.value (e : HookEnv) : HookTok → Str
  | .lit w => w
  | .user => if e.user = [] then anonymous else e.user
  | .path => e.root ++ e.path
  | .cwd => e.folder

/-- what is pasted into the command line: literal words as they are, placeholders through `shlex.quote` -/
def HookTok.render (e : HookEnv) : HookTok → Str
  | .lit w => w
  | t => quote (t.value e)

def joinBlank : List Str → Str
  | [] => []
  | [w] => w
  | w :: ws => w ++ ' ' :: joinBlank ws

/-- `self._hook % {"path": quote(root + path), "cwd": quote(folder), "user": quote(user or "Anonymous")}` -/
def hookCommand (t : List HookTok) (e : HookEnv) : Str := joinBlank (t.map (HookTok.render e))

end Shell
end Radicale
