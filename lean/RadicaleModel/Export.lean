import RadicaleModel.Str
/-
  Export: `BaseCollection.serialize()` for a calendar (radicale/storage/__init__.py) — the line-level loop that
  concatenates the components of all items and keeps one VTIMEZONE per TZID.

  An item is the list of lines `item.serialize().split("\r\n")` (the last one is empty).  `depth` restarts at 0 for
  every item; `in_vcalendar`, the VTIMEZONE buffer and the current TZID are carried over from item to item, as in the
  code.  `emitted` is a ghost field: the TZID (if one was seen) of every VTIMEZONE block copied to the output, in order.
-/
namespace Radicale
namespace Export

abbrev Line := Str

structure St where
  depth : Int := 0
  inVcal : Bool := false
  vtz : List Line := []            -- `vtimezone`: the block being collected
  tzid : Option Str := none
  included : List Str := []        -- `included_tzids`
  tzOut : List Line := []          -- `vtimezones`
  compOut : List Line := []        -- `components`
  emitted : List (Option Str) := []
  deriving Repr

def pBegin : Str := "BEGIN:".toList
def pEnd : Str := "END:".toList
def pTzid : Str := "TZID:".toList
def lBeginCal : Str := "BEGIN:VCALENDAR".toList
def lBeginTz : Str := "BEGIN:VTIMEZONE".toList

/-- the end of a VTIMEZONE block: copy it unless its TZID is already there -/
def closeTz (s : St) : St :=
  let emit := match s.tzid with
    | none => true
    | some t => !s.included.contains t
  { s with
    tzOut := if emit then s.tzOut ++ s.vtz else s.tzOut
    emitted := if emit then s.emitted ++ [s.tzid] else s.emitted
    included := match s.tzid with
      | none => s.included
      | some t => if s.included.contains t then s.included else s.included ++ [t]
    vtz := []
    tzid := none }

def bump (s : St) (line : Line) : St :=
  if pBegin.isPrefixOf line then { s with depth := s.depth + 1 } else s

def unbump (s : St) (line : Line) : St :=
  if pEnd.isPrefixOf line then { s with depth := s.depth - 1 } else s

/-- a line while a VTIMEZONE block is being collected -/
def tzLine (s0 : St) (line : Line) : St :=
  let s := { s0 with vtz := s0.vtz ++ [line] }
  if s.depth = 2 ∧ pTzid.isPrefixOf line then { s with tzid := some (line.drop 5) }
  else if s.depth = 2 ∧ pEnd.isPrefixOf line then closeTz s
  else s

/-- a line inside `BEGIN:VCALENDAR … END:VCALENDAR` -/
def inCal (s0 : St) (line : Line) : St :=
  let s := if s0.depth = 1 ∧ pEnd.isPrefixOf line then { s0 with inVcal := false } else s0
  if s.depth = 2 ∧ line = lBeginTz then { s with vtz := s.vtz ++ [line] }
  else if s.vtz ≠ [] then tzLine s line
  else if s.depth ≥ 2 then { s with compOut := s.compOut ++ [line] }
  else s

def mid (s : St) (line : Line) : St :=
  if s.depth = 1 ∧ line = lBeginCal then { s with inVcal := true }
  else if s.inVcal then inCal s line
  else s

/-- one line of one item -/
def stepLine (s : St) (line : Line) : St := unbump (mid (bump s line) line) line

def stepItem (s : St) (lines : List Line) : St := lines.foldl stepLine { s with depth := 0 }

/-- the whole loop over `get_all()` -/
def run (items : List (List Line)) : St := items.foldl stepItem {}

/-- what is inserted before `END:VCALENDAR` of the template -/
def body (items : List (List Line)) : List Line := (run items).tzOut ++ (run items).compOut

/-- the TZIDs of the VTIMEZONE blocks in the output -/
def emittedTzids (items : List (List Line)) : List Str := (run items).emitted.filterMap id

end Export
end Radicale
