/-
  LockCV: the condition-variable readers-writer lock of radicale/storage/multifilesystem_nolock.py (`RwLock`),
  at the granularity of its own synchronisation operations, for any number of threads.
-/
namespace CV

inductive Mode | r | w deriving DecidableEq, Repr

inductive PC
  | idle
  | wantA (m : Mode) | testA (m : Mode) | exitA (m : Mode)
  | asleep (m : Mode) | woken (m : Mode)
  | cs (m : Mode)
  | wantR (m : Mode) | bookR (m : Mode) | exitR
  deriving DecidableEq, Repr

def holdR : PC → Bool
  | .exitA .r | .cs .r | .wantR .r | .bookR .r => true
  | _ => false
def holdW : PC → Bool
  | .exitA .w | .cs .w | .wantR .w | .bookR .w => true
  | _ => false
def wake : PC → PC
  | .asleep m => .woken m
  | p => p

structure State where
  readers : Nat
  writer : Bool
  mutex : Option Nat
  pcs : List PC

def pred (s : State) : Mode → Bool
  | .r => !s.writer
  | .w => !s.writer && s.readers == 0

inductive Step : State → State → Prop
  | request (s : State) (t : Nat) (m : Mode) (h : t < s.pcs.length) : s.pcs[t] = .idle →
      Step s { s with pcs := s.pcs.set t (.wantA m) }
  | lockA (s : State) (t : Nat) (m : Mode) (h : t < s.pcs.length) : s.pcs[t] = .wantA m → s.mutex = none →
      Step s { s with pcs := s.pcs.set t (.testA m), mutex := some t }
  | relock (s : State) (t : Nat) (m : Mode) (h : t < s.pcs.length) : s.pcs[t] = .woken m → s.mutex = none →
      Step s { s with pcs := s.pcs.set t (.testA m), mutex := some t }
  | okR (s : State) (t : Nat) (h : t < s.pcs.length) : s.pcs[t] = .testA .r → pred s .r = true →
      Step s { s with pcs := s.pcs.set t (.exitA .r), readers := s.readers + 1 }
  | okW (s : State) (t : Nat) (h : t < s.pcs.length) : s.pcs[t] = .testA .w → pred s .w = true →
      Step s { s with pcs := s.pcs.set t (.exitA .w), writer := true }
  | sleep (s : State) (t : Nat) (m : Mode) (h : t < s.pcs.length) : s.pcs[t] = .testA m → pred s m = false →
      Step s { s with pcs := s.pcs.set t (.asleep m), mutex := none }
  | exitA (s : State) (t : Nat) (m : Mode) (h : t < s.pcs.length) : s.pcs[t] = .exitA m →
      Step s { s with pcs := s.pcs.set t (.cs m), mutex := none }
  | leave (s : State) (t : Nat) (m : Mode) (h : t < s.pcs.length) : s.pcs[t] = .cs m →
      Step s { s with pcs := s.pcs.set t (.wantR m) }
  | lockR (s : State) (t : Nat) (m : Mode) (h : t < s.pcs.length) : s.pcs[t] = .wantR m → s.mutex = none →
      Step s { s with pcs := s.pcs.set t (.bookR m), mutex := some t }
  | bookRr (s : State) (t : Nat) (h : t < s.pcs.length) : s.pcs[t] = .bookR .r →
      Step s { s with readers := s.readers - 1, writer := false,
                      pcs := if s.readers - 1 = 0 then (s.pcs.set t .exitR).map wake else s.pcs.set t .exitR }
  | bookRw (s : State) (t : Nat) (h : t < s.pcs.length) : s.pcs[t] = .bookR .w →
      Step s { s with writer := false,
                      pcs := if s.readers = 0 then (s.pcs.set t .exitR).map wake else s.pcs.set t .exitR }
  | exitR (s : State) (t : Nat) (h : t < s.pcs.length) : s.pcs[t] = .exitR →
      Step s { s with pcs := s.pcs.set t .idle, mutex := none }

structure Inv (s : State) : Prop where
  rd : s.readers = s.pcs.countP holdR
  wr : s.writer = decide (0 < s.pcs.countP holdW)
  w1 : s.pcs.countP holdW ≤ 1
  ex : 0 < s.pcs.countP holdW → s.pcs.countP holdR = 0
  slR : ∀ p ∈ s.pcs, p = .asleep .r → s.writer = true
  slW : ∀ p ∈ s.pcs, p = .asleep .w → s.writer = true ∨ 0 < s.readers


end CV

namespace CV

/-- does a thread at this program counter own the internal mutex? -/
def holdsM : PC → Bool
  | .testA _ | .exitA _ | .bookR _ | .exitR => true
  | _ => false

/-- `RwLock.locked` (evaluated under the mutex) -/
def lockedView (s : State) : Option Mode :=
  if s.readers > 0 then some .r else if s.writer then some .w else none

/-- the step of thread `t` as a function (what the driver executes); `m` is only used when `t` is idle -/
def next (s : State) (t : Nat) (m : Mode) : Option State :=
  match s.pcs[t]? with
  | none => none
  | some .idle => some { s with pcs := s.pcs.set t (.wantA m) }
  | some (.wantA m') => if s.mutex = none then some { s with pcs := s.pcs.set t (.testA m'), mutex := some t } else none
  | some (.woken m') => if s.mutex = none then some { s with pcs := s.pcs.set t (.testA m'), mutex := some t } else none
  | some (.testA .r) =>
    if pred s .r then some { s with pcs := s.pcs.set t (.exitA .r), readers := s.readers + 1 }
    else some { s with pcs := s.pcs.set t (.asleep .r), mutex := none }
  | some (.testA .w) =>
    if pred s .w then some { s with pcs := s.pcs.set t (.exitA .w), writer := true }
    else some { s with pcs := s.pcs.set t (.asleep .w), mutex := none }
  | some (.exitA m') => some { s with pcs := s.pcs.set t (.cs m'), mutex := none }
  | some (.asleep _) => none
  | some (.cs m') => some { s with pcs := s.pcs.set t (.wantR m') }
  | some (.wantR m') => if s.mutex = none then some { s with pcs := s.pcs.set t (.bookR m'), mutex := some t } else none
  | some (.bookR .r) =>
    some { s with readers := s.readers - 1, writer := false,
                  pcs := if s.readers - 1 = 0 then (s.pcs.set t .exitR).map wake else s.pcs.set t .exitR }
  | some (.bookR .w) =>
    some { s with writer := false,
                  pcs := if s.readers = 0 then (s.pcs.set t .exitR).map wake else s.pcs.set t .exitR }
  | some .exitR => some { s with pcs := s.pcs.set t .idle, mutex := none }

def init (n : Nat) : State := ⟨0, false, none, List.replicate n .idle⟩

end CV
