import RadicaleModel.BasicHeader
/-
  ContentLength: what a request with a given raw `Content-Length` header makes the application take in from the
  connection — `int(environ.get("CONTENT_LENGTH") or 0)` in the gate of `_handle_request` (app/__init__.py, built-in
  server only) and in `httputils.read_raw_request_body`, followed by `wsgi.input.read(content_length)`.

  Modelled: Python's `int()` on the header text (white space stripped, optional sign, decimal digits with single
  underscores between them; ASCII digits only — the built-in server hands the header over as Latin-1 text), the 413
  gate, the reader's treatment of zero, negative and too-large values, and `BufferedReader.read(n)` (n = -1: everything
  up to the end of the stream; n < -1: ValueError; n ≥ 2^63: OverflowError).  `fixed = false` is the reader before fix F29 (no test for a
  negative length).  `avail` = the number of body bytes the client sends before it stops.
-/
namespace Radicale
namespace ContentLength
open Str

/-- decimal digits, single underscores allowed between digits -/
def digitsGo : Str → Bool → Nat → Option Nat
  | [], prev, acc => if prev then some acc else none
  | c :: rest, prev, acc =>
    if c.isDigit then digitsGo rest true (acc * 10 + (c.toNat - 48))
    else if c = '_' && prev then digitsGo rest false acc
    else none

/-- `int(text or 0)`: `none` = ValueError -/
def pyInt (s : Str) : Option Int :=
  if s = [] then some 0
  else match BasicHeader.pyStrip s with
    | '-' :: r => (digitsGo r false 0).map (fun n => -(n : Int))
    | '+' :: r => (digitsGo r false 0).map (fun n => (n : Int))
    | r => (digitsGo r false 0).map (fun n => (n : Int))

inductive Outcome
  | tooLarge          -- 413 from the gate, nothing read
  | error500          -- ValueError (header text, or read(n) with n < -1)
  | badRequest        -- the reader refuses (body shorter than declared; after the fix: negative length)
  | proceeds          -- the handler goes on with the bytes it took in
  deriving DecidableEq, Repr

/-- outcome and number of body bytes taken in, for a handler that reads its body -/
def handle (fixed internal : Bool) (maxLen : Int) (raw : Str) (avail : Nat) : Outcome × Nat :=
  match pyInt raw with
  | none => (.error500, 0)
  | some cl =>
    if internal && cl != 0 && decide (maxLen > 0) && decide (cl > maxLen) then (.tooLarge, 0)
    else if cl = 0 then (.proceeds, 0)
    else if cl < 0 then
      if fixed then (.badRequest, 0)
      else if cl = -1 then (.proceeds, avail)
      else (.error500, 0)
    else if cl.toNat ≥ 2 ^ 63 then (.error500, 0)          -- read(n): OverflowError, n does not fit a Py_ssize_t
    else if avail < cl.toNat then (.badRequest, avail)
    else (.proceeds, cl.toNat)

end ContentLength
end Radicale
