import RadicaleModel.Str
/-
  CacheFolder: where the item cache, the history and the sync tokens of a collection live —
  `StorageBase._get_collection_cache_subfolder(path, folder, subfolder)` (storage/multifilesystem/base.py):

      if <the option for this kind of data> : path = path.replace(collection_root_folder, collection_cache_folder)
      return os.path.join(path, folder, subfolder)

  `path` is the collection's file-system path (it begins with the collection root folder), `folder` is ".Radicale.cache",
  `subfolder` one of "item", "history", "sync-token".  `str.replace` replaces EVERY occurrence of the root folder's text.
-/
namespace Radicale
namespace CacheFolder
open Str

/-- Python `s.replace(old, new)` (`old` non-empty; with `old = []` nothing is replaced here, the code never does that):
    scan from the left, `skip` = characters of a matched occurrence still to be dropped -/
def replaceGo (old new : Str) : Nat → Str → Str
  | _, [] => []
  | skip + 1, _ :: cs => replaceGo old new skip cs
  | 0, c :: cs =>
    if old ≠ [] ∧ startsWith (c :: cs) old = true then new ++ replaceGo old new (old.length - 1) cs
    else c :: replaceGo old new 0 cs

def replaceAll (old new s : Str) : Str := replaceGo old new 0 s

/-- `os.path.join(path, folder, subfolder)` for relative, non-empty `folder` and `subfolder` and a `path` without trailing slash -/
def join3 (path folder sub : Str) : Str := path ++ '/' :: folder ++ '/' :: sub

def cacheSubfolder (relocated : Bool) (root cache path folder sub : Str) : Str :=
  join3 (if relocated then replaceAll root cache path else path) folder sub

end CacheFolder
end Radicale
