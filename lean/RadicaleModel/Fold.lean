/-
  Fold: the content-line folding of vobject as Radicale uses it
  (vobject/base.py::foldOneLine on serialisation — radicale/item/__init__.py::Item.serialize — and
   vobject/base.py::getLogicalLines(allowQP=True) on every read — radicale/item/__init__.py::read_components).
  What is written to the item file is the folded text; every later read goes through the unfolder.
-/
namespace Radicale
namespace Fold

abbrev Line := List Char

/-- Python's `str.isspace` (what `line.rstrip() == ''` tests) -/
def pySpace (c : Char) : Bool :=
  let n := c.toNat
  (9 ≤ n && n ≤ 13) || (28 ≤ n && n ≤ 32) || n == 0x85 || n == 0xA0 || n == 0x1680 || (0x2000 ≤ n && n ≤ 0x200A) ||
  n == 0x2028 || n == 0x2029 || n == 0x202F || n == 0x205F || n == 0x3000

def isBlank (l : Line) : Bool := l.all pySpace

def spaceOrTab (c : Char) : Bool := c == ' ' || c == '\t'

/-! ### folding (foldOneLine, lineLength = 75) -/

/-- the loop: `n` = bytes on the current physical line, `cur` = that line so far -/
def foldGo : List Char → Nat → Line → List Line
  | [], _, cur => [cur]
  | c :: rest, n, cur =>
    if n + c.utf8Size > 75 then cur :: foldGo rest (1 + c.utf8Size) [' ', c]
    else foldGo rest (n + c.utf8Size) (cur ++ [c])

/-- physical lines of one logical line (each is followed by CRLF in the output) -/
def foldLine (s : Line) : List Line := if s.length < 75 then [s] else foldGo s 0 []

/-! ### unfolding (getLogicalLines with allowQP=True) -/

def lower (c : Char) : Char := if 'A' ≤ c ∧ c ≤ 'Z' then Char.ofNat (c.toNat + 32) else c

def isPrefixCI : List Char → List Char → Bool
  | [], _ => true
  | _ :: _, [] => false
  | p :: ps, c :: cs => p == lower c && isPrefixCI ps cs

def containsCI (needle : List Char) : List Char → Bool
  | [] => needle.isEmpty
  | c :: cs => isPrefixCI needle (c :: cs) || containsCI needle cs

/-- `val[-1] == '=' and val.lower().find('quoted-printable') >= 0` -/
def endsQP (l : Line) : Bool := l.getLast? == some '=' && containsCI "quoted-printable".toList l

structure RState where
  cur : Line
  qp : Bool
  out : List Line
  deriving Repr

def readStep (st : RState) (line : Line) : RState :=
  if isBlank line then
    { cur := [], qp := false, out := if st.cur.isEmpty then st.out else st.out ++ [st.cur] }
  else
    let st' : RState :=
      if st.qp then { st with cur := st.cur ++ '\n' :: line }
      else if (line.head?.map spaceOrTab).getD false then { st with cur := st.cur ++ line.tail }
      else if !st.cur.isEmpty then { cur := line, qp := false, out := st.out ++ [st.cur] }
      else { st with cur := line }
    { st' with qp := endsQP st'.cur }

def finish (st : RState) : List Line := if st.cur.isEmpty then st.out else st.out ++ [st.cur]

/-- the logical lines the reader yields for a sequence of physical lines -/
def readLines (lines : List Line) : List Line := finish (lines.foldl readStep ⟨[], false, []⟩)

/-! ### what a faithful unfolder returns, and when vobject's reader agrees with it -/

/-- the ideal inverse of folding: drop the first character of every continuation line -/
def unfoldPhys : List Line → Line
  | [] => []
  | l :: conts => l ++ (conts.map List.tail).flatten

/-- the continuation lines are read back correctly when none of them is blank and the text accumulated so far
    never ends in `=` while containing "quoted-printable" -/
def contsOk : Line → List Line → Bool
  | _, [] => true
  | acc, l :: rest =>
    (l.head?.map spaceOrTab).getD false && !isBlank l && !endsQP (acc ++ l.tail) && contsOk (acc ++ l.tail) rest

/-- a group of physical lines that vobject's reader turns back into one logical line -/
def groupOk : List Line → Bool
  | [] => false
  | l :: conts => !isBlank l && !(l.head?.map spaceOrTab).getD false && !endsQP l && contsOk l conts

/-- a logical line that survives being written and read again -/
def safe (s : Line) : Bool := groupOk (foldLine s)

end Fold
end Radicale
