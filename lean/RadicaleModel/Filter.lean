/-
  Filter: radicale/item/filter.py `visit_time_ranges` / `time_range_match` for VEVENT, VTODO, VJOURNAL,
  `find_time_range` (the enclosing hull kept in the item cache), the pre-selection shortcut of
  `BaseCollection.get_filtered`, and — independently — the tables of RFC 4791 §9.9 (`Rfc`).
  Times are integer seconds (UTC); DATE values are midnights.  The model follows the repaired code
  (fix F1: `duration > 0` instead of `duration.seconds > 0`; fix F2: VTODO row COMPLETED+CREATED;
  fix F3: the time-range child itself is evaluated).
-/
namespace Filter


def DAY : Int := 86400

structure Range where
  s : Int
  e : Int
  deriving DecidableEq, Repr

/-- the test in `range_fn`: `start < range_end and range_start < end` -/
def overlaps (fs fe : Int) (r : Range) : Bool := fs < r.e && r.s < fe

/-! ### one occurrence → the ranges the visitor emits -/

inductive EvEnd
  | dtend (origDur : Int)      -- DTEND present: the occurrence lasts DTEND - DTSTART of the master
  | duration (d : Int)         -- DURATION present
  | none
  deriving DecidableEq, Repr

/-- VEVENT, occurrence starting at `s` (`isDatetime`: DTSTART is a DATE-TIME) -/
def eventRange (isDatetime : Bool) (en : EvEnd) (s : Int) : Range :=
  match en with
  | .dtend od => ⟨s, s + od⟩                                   -- line 1
  | .duration d => if d > 0 then ⟨s, s + d⟩ else ⟨s, s + 1⟩    -- lines 2, 3
  | .none => if isDatetime then ⟨s, s + 1⟩ else ⟨s, s + DAY⟩   -- lines 4, 5

/-- the defective test of the original code: `duration.seconds > 0` looks at the seconds *field* -/
def eventRangeF1 (isDatetime : Bool) (en : EvEnd) (s : Int) : Range :=
  match en with
  | .duration d => if d % DAY > 0 then ⟨s, s + d⟩ else ⟨s, s + 1⟩
  | en => eventRange isDatetime en s

/-- which of the VTODO properties are present, with the derived durations the code computes -/
structure Todo where
  hasStart : Bool
  duration : Option Int        -- DURATION
  dueDelta : Option Int        -- DUE - DTSTART when both are present, DUE present otherwise marks `hasDue`
  hasDue : Bool
  hasCompleted : Bool
  hasCreated : Bool
  complDelta : Int             -- COMPLETED - CREATED when both are present
  deriving DecidableEq, Repr

/-- VTODO, reference date `r` (an occurrence of DTSTART / the single DUE, COMPLETED or CREATED) -/
def todoRanges (t : Todo) (r : Int) : List Range :=
  if t.hasStart then
    match t.duration with
    | some d => [⟨r, r + d + 1⟩, ⟨r + d - 1, r + d + 1⟩]                        -- line 1
    | none =>
      if t.hasDue then
        let due := r + t.dueDelta.getD 0
        [⟨r, due⟩, ⟨r, r + 1⟩, ⟨due - 1, due⟩, ⟨due - 1, r + 1⟩]                 -- line 2
      else [⟨r, r + 1⟩]                                                         -- line 3
  else if t.hasDue then [⟨r - 1, r⟩]                                            -- line 4
  else if t.hasCompleted && t.hasCreated then
    -- line 5 (repaired): r is COMPLETED, CREATED = r - complDelta
    let cr := r - t.complDelta
    [⟨cr - 1, r + 1⟩, ⟨cr - 1, cr + 1⟩, ⟨r - 1, cr + 1⟩, ⟨r - 1, r + 1⟩]
  else if t.hasCompleted then [⟨r - 1, r + 1⟩]                                  -- line 6
  else [⟨r, r⟩]     -- placeholder, lines 7 and 8 are unbounded and handled by `todoOpen`

/-- lines 7 (CREATED only: [created, +∞)) and 8 (nothing: always) -/
def todoOpen (t : Todo) (r : Int) (fe : Int) : Option Bool :=
  if t.hasStart || t.hasDue || t.hasCompleted then none
  else if t.hasCreated then some (r < fe) else some true

/-- VJOURNAL -/
def journalRange (isDatetime : Bool) (s : Int) : Range := if isDatetime then ⟨s, s + 1⟩ else ⟨s, s + DAY⟩

/-! ### the visitor with its early exit -/

/-- visit the ranges of the main (non-override) component in order; `range_fn` of `time_range_match`:
    stop with a match at the first overlap, stop without one when a range starts after the filter's end -/
def visitMain (fs fe : Int) : List Range → Bool
  | [] => false
  | r :: rs => if overlaps fs fe r then true else if fe < r.s then false else visitMain fs fe rs

/-- overrides (RECURRENCE-ID components) come first and never cancel on "past the end" -/
def timeRangeMatch (fs fe : Int) (overrides mainRanges : List Range) : Bool :=
  overrides.any (overlaps fs fe) || visitMain fs fe mainRanges

/-- `find_time_range`: the hull of everything visited -/
def hull : List Range → Option Range
  | [] => none
  | r :: rs => match hull rs with
    | none => some r
    | some h => some ⟨min r.s h.s, max r.e h.e⟩

/-- `get_filtered` (repaired, fixes F27 and F37): skip (none), report as certainly matching (some true), or hand to full
    evaluation; an enclosing range that only touches the requested range, or shares an end point with it, is always handed
    to full evaluation.  `tmin` / `tmax` are the smallest and largest time stamps (`TIMESTAMP_MIN` / `TIMESTAMP_MAX`), which
    stand for "no limit" in a requested range and for "no date" in an enclosing range: an end point shared there is no
    coincidence of two dates (a query without time-range selects contacts and undated objects through the shortcut) -/
def prefilter (simple : Bool) (fs fe : Int) (h : Range) (tmin tmax : Int) : Option Bool :=
  if h.s > fe || h.e < fs then none
  else some (simple && !(h.s == fe || h.e == fs || (h.s == fs && decide (fs > tmin)) || (h.e == fe && decide (fe < tmax)))
             && (decide (fs ≤ tmin ∧ fe ≥ tmax) || !decide (h.s ≤ tmin ∧ h.e ≥ tmax))     -- fix F38: undated item, limited request
             && (fs ≤ h.s || h.e ≤ fe))

/-- `get_filtered` between fixes F37 and F38 (an undated item was reported as matched for a request open at one end) -/
def prefilterF37 (simple : Bool) (fs fe : Int) (h : Range) (tmin tmax : Int) : Option Bool :=
  if h.s > fe || h.e < fs then none
  else some (simple && !(h.s == fe || h.e == fs || (h.s == fs && decide (fs > tmin)) || (h.e == fe && decide (fe < tmax)))
             && (fs ≤ h.s || h.e ≤ fe))

/-- `get_filtered` between fixes F27 and F37: only ranges touching from outside were handed to full evaluation -/
def prefilterF27 (simple : Bool) (fs fe : Int) (h : Range) : Option Bool :=
  if h.s > fe || h.e < fs then none
  else some (simple && !(h.s == fe || h.e == fs) && (fs ≤ h.s || h.e ≤ fe))

/-- `get_filtered` before fix F27: an enclosing range touching the requested range was skipped -/
def prefilterStrict (simple : Bool) (fs fe : Int) (h : Range) : Option Bool :=
  if h.s ≥ fe || h.e ≤ fs then none else some (simple && (fs ≤ h.s || h.e ≤ fe))

/-- the report: shortcut on (when the storage claims a full match the filter is not evaluated) vs off -/
def reportWithShortcut (simple : Bool) (fs fe : Int) (rs : List Range) (tmin tmax : Int) : Bool :=
  -- `find_time_range`: an object for which nothing is visited (a VJOURNAL without DTSTART) gets the whole time line
  let h := (hull rs).getD ⟨tmin, tmax⟩
  match prefilter simple fs fe h tmin tmax with
    | none => false
    | some true => true
    | some false => rs.any (overlaps fs fe)

/-- the report for a series without end (`infinity_fn` of `find_time_range`): the enclosing range kept in the cache
    starts at the first occurrence's *date* `occ0` — not at the start of the first visited range, which for a to-do can
    lie one second earlier — and ends at the largest time stamp -/
def reportUnbounded (simple : Bool) (tmax : Int) (fs fe : Int) (occ0 : Int) (rs : List Range) (tmin : Int) : Bool :=
  match prefilter simple fs fe ⟨occ0, tmax⟩ tmin tmax with
  | none => false
  | some true => true
  | some false => rs.any (overlaps fs fe)

def reportUnboundedStrict (simple : Bool) (tmax : Int) (fs fe : Int) (occ0 : Int) (rs : List Range) : Bool :=
  match prefilterStrict simple fs fe ⟨occ0, tmax⟩ with
  | none => false
  | some true => true
  | some false => rs.any (overlaps fs fe)

/-- occurrence starts of FREQ=DAILY|WEEKLY;INTERVAL=i with `n` occurrences: s, s+p, …, s+(n-1)p -/
def occurrences (s : Int) (period : Int) : Nat → List Int
  | 0 => []
  | n + 1 => s :: occurrences (s + period) period n

/-! ### free-busy: `time_range_fill` and the occurrence limit of `free_busy_report` -/

/-- `range_fn` of `time_range_fill` over a list of visited ranges: collect the overlapping ones; stop when `n > 0`
    of them have been collected, or (main component only, `isRec = false`) when a range starts after the filter's
    end.  Result: what has been collected, and whether the visit was cancelled. -/
def fillRec (fs fe : Int) (n : Nat) (isRec : Bool) : List Range → List Range → List Range × Bool
  | [], acc => (acc, false)
  | r :: rs, acc =>
    let acc' := if overlaps fs fe r then acc ++ [r] else acc
    if (overlaps fs fe r && decide (n > 0) && decide (acc'.length ≥ n)) || (decide (fe < r.s) && !isRec) then (acc', true)
    else fillRec fs fe n isRec rs acc'

/-- overrides (RECURRENCE-ID components) are visited first, then the occurrences of the main component -/
def timeRangeFill (fs fe : Int) (n : Nat) (overrides mainRanges : List Range) : List Range :=
  let a := fillRec fs fe n true overrides []
  if a.2 then a.1 else (fillRec fs fe n false mainRanges a.1).1

/-- one event in `free_busy_report`: transparent events contribute nothing; otherwise up to `max + 1` occurrences
    are collected and the report is refused (`none`) when `max` or more were found -/
def fbEvent (isOpaque : Bool) (max : Nat) (fs fe : Int) (overrides mainRanges : List Range) : Option (List Range) :=
  if !isOpaque then some []
  else
    let occ := timeRangeFill fs fe (if max > 0 then max + 1 else 0) overrides mainRanges
    if occ.length ≥ max then none else some occ

/-! ### RFC 4791 §9.9, written down independently -/
namespace Rfc

def vevent (isDatetime : Bool) (en : EvEnd) (s fs fe : Int) : Prop :=
  match en with
  | .dtend od => fs < s + od ∧ fe > s
  | .duration d => if d > 0 then fs < s + d ∧ fe > s else fs ≤ s ∧ fe > s
  | .none => if isDatetime then fs ≤ s ∧ fe > s else fs < s + DAY ∧ fe > s

def vtodo (t : Todo) (r fs fe : Int) : Prop :=
  if t.hasStart then
    match t.duration with
    | some d => fs ≤ r + d ∧ (fe > r ∨ fe ≥ r + d)
    | none =>
      if t.hasDue then
        let due := r + t.dueDelta.getD 0
        (fs < due ∨ fs ≤ r) ∧ (fe > r ∨ fe ≥ due)
      else fs ≤ r ∧ fe > r
  else if t.hasDue then fs < r ∧ fe ≥ r
  else if t.hasCompleted && t.hasCreated then
    let cr := r - t.complDelta
    (fs ≤ cr ∨ fs ≤ r) ∧ (fe ≥ cr ∨ fe ≥ r)
  else if t.hasCompleted then fs ≤ r ∧ fe ≥ r
  else if t.hasCreated then fe > r
  else True

def vjournal (isDatetime : Bool) (s fs fe : Int) : Prop :=
  if isDatetime then fs ≤ s ∧ fe > s else fs < s + DAY ∧ fe > s

end Rfc
end Filter
