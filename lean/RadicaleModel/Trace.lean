import RadicaleModel.Str
import RadicaleModel.Path
/-
  Trace: the *data projection* of what the multifilesystem storage does to the file system — every
  mutating or syncing operation on a path outside the cache trees (`.Radicale.cache`, collection-cache)
  and other than the lock file, per storage call, as a list of primitive operations.
  Paths are lists of components relative to the storage folder; the collection root is ["collection-root"].

  Existence facts the code tests (`os.path.lexists`, `os.rmdir` failing on a non-empty directory,
  missing ancestors for `_makedirs_synced`) are *parameters*: the theorems hold for every value, the
  correspondence run supplies the values observed on the real file system.
  Temporary names: `TemporaryDirectory(prefix=".Radicale.tmp-")` is modelled as `tmpName k` for a counter k
  (the harness renumbers real temporary names by first occurrence).
-/
namespace Radicale
namespace Trace

abbrev Comp := Str
abbrev FPath := List Comp

inductive Op
  | mkdir (p : FPath)
  | rmdir (p : FPath)
  | openw (p : FPath)            -- open(..., "w"): create or truncate
  | write (p : FPath)
  | fsync (p : FPath)            -- file or directory
  | rename (a b : FPath)         -- os.rename / os.replace
  | exchange (a b : FPath)       -- renameat2(RENAME_EXCHANGE)
  | unlink (p : FPath)
  | rmtree (p : FPath)           -- TemporaryDirectory clean-up / shutil.rmtree
  deriving DecidableEq, Repr

def tmpName (k : Nat) : Comp :=
  '.' :: (['R', 'a', 'd', 'i', 'c', 'a', 'l', 'e', '.', 't', 'm', 'p', '-'] ++ (toString k).toList)
def propsName : Comp := ['.', 'R', 'a', 'd', 'i', 'c', 'a', 'l', 'e', '.', 'p', 'r', 'o', 'p', 's']
def rootName : Comp := "collection-root".toList
def collName : Comp := ['c', 'o', 'l', 'l', 'e', 'c', 't', 'i', 'o', 'n']

def syncDir (fsync : Bool) (d : FPath) : List Op := if fsync then [.fsync d] else []

/-- `_atomic_write(dir/name)` -/
def atomicWrite (fsync : Bool) (dir : FPath) (name : Comp) (k : Nat) : List Op :=
  let t := dir ++ [tmpName k]
  [.mkdir t, .openw (t ++ [name]), .write (t ++ [name])] ++
  (if fsync then [.fsync (t ++ [name])] else []) ++
  [.rename (t ++ [name]) (dir ++ [name]), .rmtree t] ++ syncDir fsync dir

/-- `_makedirs_synced(p)` when exactly the last `missing` components of `p` do not exist yet -/
def makedirs (fsync : Bool) (p : FPath) : Nat → List Op
  | 0 => []
  | missing + 1 => makedirs fsync p.dropLast missing ++ [.mkdir p] ++ syncDir fsync p.dropLast

/-- `collection.upload(href, item)` -/
def upload (fsync : Bool) (coll : FPath) (href : Comp) (k : Nat) : List Op :=
  atomicWrite fsync coll href k

/-- `collection.set_meta(props)` -/
def setMeta (fsync : Bool) (coll : FPath) (k : Nat) : List Op :=
  atomicWrite fsync coll propsName k

/-- `collection.delete(href)` (item) -/
def deleteItem (fsync : Bool) (coll : FPath) (href : Comp) : List Op :=
  [.unlink (coll ++ [href])] ++ syncDir fsync coll

/-- `collection.delete()` : `rmdir` if the directory is empty, otherwise rename into a temporary directory -/
def deleteColl (fsync : Bool) (coll : FPath) (empty : Bool) (k : Nat) : List Op :=
  let parent := coll.dropLast
  if empty then [.rmdir coll] ++ syncDir fsync parent
  else
    let t := parent ++ [tmpName k]
    [.mkdir t, .rename coll (t ++ [coll.getLast?.getD []])] ++ syncDir fsync parent ++ [.rmtree t]

/-- `storage.move(item, to_collection, to_href)` -/
def move (fsync : Bool) (c1 : FPath) (h1 : Comp) (c2 : FPath) (h2 : Comp) : List Op :=
  [.rename (c1 ++ [h1]) (c2 ++ [h2])] ++ syncDir fsync c2 ++ (if c1 ≠ c2 then syncDir fsync c1 else [])

/-- the item files written by `_upload_all_nonatomic` into the temporary collection `tc` -/
def uploadAll (fsync : Bool) (tc : FPath) : List Comp → List Op
  | [] => []
  | h :: hs => [.openw (tc ++ [h]), .write (tc ++ [h])] ++ (if fsync then [.fsync (tc ++ [h])] else []) ++
      uploadAll fsync tc hs

/-- `storage.create_collection(href, items, props)`.
    `props = false`: plain `_makedirs_synced`.  `items = none`: no upload (MKCOL/MKCALENDAR);
    `some hrefs`: whole-collection PUT with the hrefs chosen for the items (tag is a calendar / address book).
    `missing`: how many trailing components of the path do not exist; `existsTarget`: `os.path.lexists(path)`;
    `cacheInColl`: the item cache lives inside the collection (`use_cache_subfolder_for_item` off). -/
def createCollection (fsync : Bool) (coll : FPath) (props : Bool) (items : Option (List Comp))
    (missing : Nat) (existsTarget : Bool) (k : Nat) (cacheInColl : Bool := true) : List Op :=
  if !props then makedirs fsync coll missing
  else
    let parent := coll.dropLast
    let t := parent ++ [tmpName k]
    let tc := t ++ [collName]
    makedirs fsync parent (missing - 1) ++
    [.mkdir t, .mkdir tc] ++ atomicWrite fsync tc propsName (k + 1) ++
    (match items with
     | none => []
     | some hs =>
       -- `_makedirs_synced(cache folder)`: creating `.Radicale.cache` inside the collection syncs the collection
       (if cacheInColl then syncDir fsync tc else []) ++ uploadAll fsync tc hs ++ syncDir fsync tc) ++
    [if existsTarget then .exchange tc coll else .rename tc coll] ++ syncDir fsync parent ++ [.rmtree t]

/-! ### classification -/

def isDot (c : Comp) : Bool := c.head? = some '.'

/-- a component that hides everything below it from clients: a dot-name other than the properties file
    (lock, cache, temporary names) -/
def hiddenComp (c : Comp) : Bool := isDot c && c != propsName

/-- temporary names (`TemporaryDirectory(prefix=".Radicale.tmp-")`) -/
def isTmp (c : Comp) : Bool :=
  ('.' :: ['R', 'a', 'd', 'i', 'c', 'a', 'l', 'e', '.', 't', 'm', 'p', '-']).isPrefixOf c

/-- a path clients can never observe: some component is a hidden name -/
def hidden (p : FPath) : Bool := p.any hiddenComp

def Op.paths : Op → List FPath
  | .mkdir p | .rmdir p | .openw p | .write p | .fsync p | .unlink p | .rmtree p => [p]
  | .rename a b | .exchange a b => [a, b]

/-- operations that cannot change what clients see: every path hidden, or a pure sync -/
def Op.hiddenOnly : Op → Bool
  | .fsync _ => true
  | o => o.paths.all hidden

/-! ### a file system, and what clients can see of it -/

inductive Node
  | dir
  | file (written : Bool)      -- content abstracted to "has been written since creation/truncation"
  deriving DecidableEq, Repr

abbrev FS := FPath → Option Node

def isPrefix (a p : FPath) : Bool := a.isPrefixOf p

def apply (fs : FS) : Op → FS
  | .mkdir p => fun q => if q = p then some .dir else fs q
  | .rmdir p => fun q => if q = p then none else fs q
  | .unlink p => fun q => if q = p then none else fs q
  | .openw p => fun q => if q = p then some (.file false) else fs q
  | .write p => fun q => if q = p then some (.file true) else fs q
  | .fsync _ => fs
  | .rmtree p => fun q => if isPrefix p q then none else fs q
  | .rename a b => fun q =>
      if isPrefix b q then fs (a ++ q.drop b.length)
      else if isPrefix a q then none else fs q
  | .exchange a b => fun q =>
      if isPrefix b q then fs (a ++ q.drop b.length)
      else if isPrefix a q then fs (b ++ q.drop a.length) else fs q

def applyAll (fs : FS) (ops : List Op) : FS := ops.foldl apply fs

/-- what clients can observe: everything outside hidden paths -/
def abs (fs : FS) : FS := fun q => if hidden q then none else fs q

end Trace
end Radicale

namespace Radicale
namespace Trace

/-! ### the durability rule (C12) as a monitor over a trace

  State: files written and not yet fsync'ed; directories with entry changes not yet fsync'ed.
  * a new entry whose own name is a temporary name is exempt;
  * removing a tree drops what was pending below it;
  * an operation that makes something visible (rename / exchange onto a non-hidden path, or removing /
    creating a non-hidden entry) is only allowed when no written file is unsynced and no directory at or
    below the moved source has unsynced entries;
  * at the end nothing may be pending. -/

structure Pending where
  writes : List FPath
  dirs : List FPath
  deriving Repr, DecidableEq

def Pending.empty : Pending := ⟨[], []⟩

def dropP (p : FPath) (l : List FPath) : List FPath := l.filter (fun q => q != p)
def dropUnder (p : FPath) (l : List FPath) : List FPath := l.filter (fun q => !isPrefix p q)

def entryDir (p : FPath) : List FPath :=
  if isTmp (p.getLast?.getD []) then [] else [p.dropLast]

def monStep (st : Pending) : Op → Option Pending
  | .write p => some { st with writes := p :: st.writes }
  | .fsync p => some ⟨dropP p st.writes, dropP p st.dirs⟩
  | .openw p => some { st with dirs := entryDir p ++ st.dirs }
  | .mkdir p =>
    if hidden p then some { st with dirs := entryDir p ++ st.dirs }
    else if st.writes = [] then some { st with dirs := p.dropLast :: st.dirs } else none
  | .unlink p | .rmdir p =>
    if hidden p then some { st with dirs := dropUnder p st.dirs, writes := dropUnder p st.writes }
    else if st.writes = [] then some { st with dirs := p.dropLast :: dropUnder p st.dirs } else none
  | .rmtree p => some ⟨dropUnder p st.writes, dropUnder p st.dirs⟩
  | .rename a b =>
    if hidden b then some { st with dirs := entryDir b ++ entryDir a ++ st.dirs }
    else if st.writes = [] ∧ (st.dirs.all (fun d => !isPrefix a d)) then
      some { st with dirs := b.dropLast :: (entryDir a ++ st.dirs) }
    else none
  | .exchange a b =>
    if st.writes = [] ∧ (st.dirs.all (fun d => !isPrefix a d)) then
      some { st with dirs := b.dropLast :: (entryDir a ++ st.dirs) }
    else none

def monRun : Pending → List Op → Option Pending
  | st, [] => some st
  | st, o :: os => match monStep st o with
    | none => none
    | some st' => monRun st' os

/-- the trace obeys the sync ordering rule and leaves nothing unsynced -/
def syncOrdered (ops : List Op) : Bool := monRun Pending.empty ops == some Pending.empty

end Trace
end Radicale
