/-
  TmpNames: several `_atomic_write`s into one directory at the same time (storage/multifilesystem/base.py: the new content goes to a
  file inside a fresh `TemporaryDirectory(prefix=".Radicale.tmp-")` next to the target, then `os.replace(tmp, target)`).
  This happens under the SHARED storage lock too: `sync()` writes token and history files, `_get` writes item-cache entries, while
  other readers do the same.  Writer `i` uses the temporary name `t i` and writes the content `c i`; all write to the target `g`.
  A file system is a partial map from names to contents; `create` and `rename` are the two system calls of one write.
-/
namespace Radicale
namespace TmpNames

inductive Ev
  | create (i : Nat)      -- open(tmp, "w") + write + fsync
  | rename (i : Nat)      -- os.replace(tmp, target)
  deriving Repr, DecidableEq

abbrev FS := Nat → Option Nat

/-- `none` = the call fails (`os.replace` of a name that is not there: FileNotFoundError, the request answers 500) -/
def step (t c : Nat → Nat) (g : Nat) (fs : FS) : Ev → Option FS
  | .create i => some (fun n => if n = t i then some (c i) else fs n)
  | .rename i =>
    match fs (t i) with
    | none => none
    | some v => some (fun n => if n = g then some v else if n = t i then none else fs n)

def run (t c : Nat → Nat) (g : Nat) : FS → List Ev → Option FS
  | fs, [] => some fs
  | fs, e :: es => match step t c g fs e with
    | none => none
    | some fs' => run t c g fs' es

/-- writer `i` is between its two calls after the events `es` (each writer: create, rename, create, rename, …) -/
def pending (i : Nat) : List Ev → Bool
  | [] => false
  | e :: es => match e with
    | .create j => if j = i then true else pending i es
    | .rename j => if j = i then false else pending i es

/-- a schedule, newest event first: a writer renames only what it created and creates only when it is not in the middle of a write -/
def WellFormed : List Ev → Prop
  | [] => True
  | .create i :: es => pending i es = false ∧ WellFormed es
  | .rename i :: es => pending i es = true ∧ WellFormed es

end TmpNames
end Radicale
