/-
  Sync: the sync-token machinery of one collection
  (radicale/storage/multifilesystem/sync.py, history.py, cache.py::_clean_cache, and the places that advance the
  history: upload.py, delete.py, move.py; create_collection.py / delete.py for the loss of the cache folder).

  hrefs are numbers, ETags are numbers (content identifiers: SHA-256 is taken as injective).
  A history tag is the hash chain of history.py, kept symbolically: `seed n` is the n-th fresh random value,
  `chain t e` = sha256(t + "/" + etag) — injective, so structural equality of tags is equality of hashes.
  A token name is the hash over all (href, history tag) pairs: the token *is* the snapshot (`Snapshot`), and the
  file stored under that name holds that same snapshot (pickle round trip).

  members : what the collection holds (href ↦ ETag)                         — the files
  hist    : .Radicale.cache/history/<href> = (etag or "" , history tag), with the file's mtime
  tokens  : .Radicale.cache/sync-token/<name>, with the file's mtime
  hrefs   : every href that ever occurred (the enumeration domain; sorted, without duplicates)
-/
namespace Radicale
namespace Sync

inductive HTag
  | seed (n : Nat)
  | chain (prev : HTag) (e : Option Nat)
  deriving DecidableEq, Repr

structure HEntry where
  etag : Option Nat          -- `none` = "" (the entry of a deleted item)
  tag : HTag
  mtime : Nat
  deriving DecidableEq, Repr

abbrev Snapshot := List (Nat × HTag)

structure Cfg where
  maxAge : Nat               -- [storage] max_sync_token_age; 0: `_clean_cache` removes every listed name
  histSub : Bool             -- use_cache_subfolder_for_history: history survives replacement of the collection
  tokSub : Bool              -- use_cache_subfolder_for_synctoken
  deriving Repr

structure State where
  members : Nat → Option Nat
  hist : Nat → Option HEntry
  tokens : Snapshot → Option Nat
  hrefs : List Nat
  nonce : Nat
  now : Nat

def State.init : State := ⟨fun _ => none, fun _ => none, fun _ => none, [], 0, 0⟩

def set {β : Type} (f : Nat → Option β) (k : Nat) (v : Option β) : Nat → Option β := fun x => if x = k then v else f x
def setTok (f : Snapshot → Option Nat) (k : Snapshot) (v : Option Nat) : Snapshot → Option Nat :=
  fun x => if x = k then v else f x

def ins (h : Nat) : List Nat → List Nat
  | [] => [h]
  | x :: xs => if h < x then h :: x :: xs else x :: ins h xs

/-- the enumeration domain stays sorted and duplicate-free -/
def insertHref (h : Nat) (l : List Nat) : List Nat := if h ∈ l then l else ins h l

/-- `_clean_cache`: a file is removed when `mtime <= time.time() - max_age`; with max_age 0 always -/
def expired (cfg : Cfg) (now mtime : Nat) : Bool := cfg.maxAge = 0 || mtime + cfg.maxAge ≤ now

/-- `_update_history_etag(href, item)`: returns the history tag; writes the entry when the etag differs from
    the remembered one; a missing entry starts from a fresh random value -/
def updHist (s : State) (h : Nat) (e : Option Nat) : State × HTag :=
  match s.hist h with
  | some en =>
    if e ≠ en.etag then
      ({ s with hist := set s.hist h (some ⟨e, .chain en.tag e, s.now⟩) }, .chain en.tag e)
    else (s, en.tag)
  | none =>
    let s' := { s with nonce := s.nonce + 1 }
    if e ≠ none then
      ({ s' with hist := set s.hist h (some ⟨e, .chain (.seed s.nonce) e, s.now⟩) }, .chain (.seed s.nonce) e)
    else (s', .seed s.nonce)

/-- `_clean_history`: expired entries of hrefs that are not present are removed -/
def cleanHist (cfg : Cfg) (s : State) : State :=
  { s with hist := fun h => match s.hist h with
      | some en => if s.members h = none && expired cfg s.now en.mtime then none else some en
      | none => none }

def cleanTokens (cfg : Cfg) (s : State) : State :=
  { s with tokens := fun t => match s.tokens t with
      | some m => if expired cfg s.now m then none else some m
      | none => none }

/-- the loop of `sync` over present items and remembered deleted ones: advances the history lazily and
    collects the state dictionary -/
def scan : List Nat → State → State × Snapshot
  | [], s => (s, [])
  | h :: rest, s =>
    if s.members h = none ∧ s.hist h = none then scan rest s
    else
      let r := updHist s h (s.members h)
      let r2 := scan rest r.1
      (r2.1, (h, r.2) :: r2.2)

def lookup (snap : Snapshot) (h : Nat) : Option HTag := (snap.find? (fun p => p.1 == h)).map (·.2)

/-- new / changed / deleted-but-remembered hrefs, then hrefs the old state knows and the new one does not -/
def changesOf (snap old : Snapshot) : List Nat :=
  (snap.filter (fun p => lookup old p.1 != some p.2)).map (·.1) ++
  (old.filter (fun p => (lookup snap p.1).isNone)).map (·.1)

inductive Arg
  | none                      -- no token (initial sync, PROPFIND)
  | malformed                 -- not http://radicale.org/ns/sync/<64 hex digits>
  | unknown                   -- well-formed, but never issued
  | tok (t : Snapshot)

inductive Out
  | refused
  | ok (token : Snapshot) (changes : List Nat)
  deriving DecidableEq, Repr

/-- the new token's file: written (then expired tokens and history entries are cleaned up) or, when it exists
    already, touched -/
def record (cfg : Cfg) (s1 : State) (snap : Snapshot) : State :=
  if (s1.tokens snap).isNone then
    cleanHist cfg (cleanTokens cfg { s1 with tokens := setTok s1.tokens snap (some s1.now) })
  else { s1 with tokens := setTok s1.tokens snap (some s1.now) }

/-- the state dictionary of `sync`: expired history entries of deleted items are removed first, then the
    history is advanced (`scan`) -/
def survey (cfg : Cfg) (s : State) : State × Snapshot := scan s.hrefs (cleanHist cfg s)

def sync (cfg : Cfg) (s : State) : Arg → State × Out
  | .malformed => (s, .refused)                       -- ValueError before anything is read
  | .unknown => ((survey cfg s).1, .refused)          -- the history has been advanced already
  | .none =>
    let r := survey cfg s
    (record cfg r.1 r.2, .ok r.2 (changesOf r.2 []))
  | .tok t =>
    let r := survey cfg s
    if t = r.2 then (r.1, .ok r.2 [])                 -- "Nothing changed": no token file is touched
    else if (r.1.tokens t).isSome then (record cfg r.1 r.2, .ok r.2 (changesOf r.2 t))
    else (r.1, .refused)

/-- a sync without token during which the write of the new token's file fails (ENOSPC, EIO …): the history has been
    advanced; `_atomic_write` leaves nothing behind, the clean-up after a successful write is not reached, the request
    ends with an error.  When the token's file exists already nothing is written and the request succeeds as usual -/
def syncFault (cfg : Cfg) (s : State) : State :=
  let r := survey cfg s
  if (r.1.tokens r.2).isNone then r.1 else (sync cfg s .none).1

inductive Op
  | put (h e : Nat)                       -- upload (also: item moved in from another collection)
  | del (h : Nat)                         -- delete (also: item moved out to another collection)
  | move (h h' : Nat)                     -- MOVE inside the collection (onto a free or an existing name, or itself)
  | replaceAll (items : List (Nat × Nat)) -- whole-collection PUT
  | recreate                              -- DELETE of the collection followed by its creation
  | wipeCache                             -- the cache folder is deleted by other means
  | tick (dt : Nat)
  | sync (a : Arg)

def ofList : List (Nat × Nat) → Nat → Option Nat
  | [], _ => none
  | (h, e) :: rest, x => if x = h then some e else ofList rest x

def wipe (cfg : Cfg) (s : State) : State :=
  { s with hist := if cfg.histSub then s.hist else fun _ => none,
           tokens := if cfg.tokSub then s.tokens else fun _ => none }

def step (cfg : Cfg) (s : State) : Op → State × Option Out
  | .put h e =>
    let s1 := { s with members := set s.members h (some e), hrefs := insertHref h s.hrefs }
    (cleanHist cfg (updHist s1 h (some e)).1, none)
  | .del h =>
    if s.members h = none then (s, none)
    else
      let s1 := { s with members := set s.members h none }
      (cleanHist cfg (updHist s1 h none).1, none)
  | .move h h' =>
    match s.members h with
    | none => (s, none)
    | some e =>
      let m := if h = h' then s.members else set (set s.members h' (some e)) h none
      let s1 := { s with members := m, hrefs := insertHref h' s.hrefs }
      let s2 := (updHist s1 h' (some e)).1
      let s3 := (updHist s2 h none).1
      (cleanHist cfg s3, none)
  | .replaceAll items =>
    let s1 := { s with members := ofList items, hrefs := items.foldl (fun acc p => insertHref p.1 acc) s.hrefs }
    (wipe cfg s1, none)
  | .recreate => (wipe cfg { s with members := fun _ => none }, none)
  | .wipeCache => ({ s with hist := fun _ => none, tokens := fun _ => none }, none)
  | .tick dt => ({ s with now := s.now + dt }, none)
  | .sync a => let r := sync cfg s a; (r.1, some r.2)

def run (cfg : Cfg) : State → List Op → State
  | s, [] => s
  | s, op :: ops => run cfg (step cfg s op).1 ops

/-- what a client holds after applying a change list to its view: reported hrefs take the server's current
    value (an ETag, or 404 = none), the others stay -/
def applyDelta (view : Nat → Option Nat) (changes : List Nat) (current : Nat → Option Nat) : Nat → Option Nat :=
  fun h => if h ∈ changes then current h else view h

end Sync
end Radicale
