import RadicaleModel.Str
/-
  AuthCache: `BaseAuth.login` of radicale/auth/__init__.py with `cache_logins = True`.

  * clock: `now` in nanoseconds, read once per call (the harness' clock shim is constant during a call);
    ages are `int((now - t) / 1000 / 1000 / 1000)`, modelled as floor division (exact for |now - t| < 2^53 ns).
  * SHA3-512 is a symbolic perfect hash *of the byte string it is fed*: a digest is that string,
    `str(salt) ":" login ":" password` (repaired code, fix F26; before the repair the three parts were
    concatenated without separators, `digestUnsep`, which is ambiguous as soon as two clock readings differ in
    their number of decimal digits).
  * the back-end `_login` is a function `Str → Str → Str` ("" = rejected) that may differ from call to call.
  * the failed-login cache is keyed by the Python string `login + ":" + str(digest)`; the model keys it by the
    pair (login, digest input) — that the string determines the pair is part of the trusted base.
  * the model follows the repaired code (fix F10/F11: the expiry sweep uses its own loop variables;
    fix F17: a cached success answers with the user name the back-end returned; fix F26: separators).
-/
namespace Radicale
namespace AuthCache

structure Cfg where
  succExp : Nat
  failExp : Nat
  failSalt : Nat := 0          -- `_cache_failed_logins_salt_ns`, the clock reading at start-up
  deriving Repr

/-- `str(n)` -/
def dec (n : Nat) : Str := Nat.toDigits 10 n

/-- what `_cache_digest` feeds to SHA3-512: salt, login and password, separated -/
def digest (salt : Nat) (l pw : Str) : Str := dec salt ++ ':' :: (l ++ ':' :: pw)

/-- the input before fix F26: plain concatenation -/
def digestUnsep (salt : Nat) (l pw : Str) : Str := dec salt ++ l ++ pw

abbrev Digest := Str

structure SuccEntry where
  digest : Digest
  time : Nat
  user : Str
  deriving DecidableEq, Repr

/-- the two caches as finite maps (Python dicts; iteration order is irrelevant in the repaired code) -/
structure State where
  succ : Str → Option SuccEntry            -- `_cache_successful`: login ↦ (digest, time_ns, user)
  failed : Str × Str → Option Nat          -- `_cache_failed`: (login, digest with the constant salt) ↦ time_ns

def State.init : State := ⟨fun _ => none, fun _ => none⟩

def age (now t : Nat) : Nat := (now - t) / 1000000000

def upd {α β} [DecidableEq α] (f : α → Option β) (k : α) (v : Option β) : α → Option β :=
  fun x => if x = k then v else f x

/-- the expiry sweep over `_cache_failed`: entries older than the limit are deleted -/
def sweep (cfg : Cfg) (now : Nat) (failed : Str × Str → Option Nat) : Str × Str → Option Nat :=
  fun k => match failed k with
    | some t => if age now t > cfg.failExp then none else some t
    | none => none

structure Result where
  user : Str                -- "" = login failed
  state : State
  consulted : Bool          -- was the back-end asked?
  cached : Bool             -- info string ends in " / cached"

/-- the part of `login` after both cache look-ups missed: ask the back-end, update the caches.
    `dg` is the value of the local variable `digest` ("" = `none`). -/
def backendPath (cfg : Cfg) (succ : Str → Option SuccEntry) (failed : Str × Str → Option Nat) (now : Nat)
    (backend : Str → Str → Str) (l pw : Str) (dg : Option Digest) : Result :=
  let r := backend l pw
  let fk := (l, digest cfg.failSalt l pw)
  if r ≠ [] then
    let d : Digest := match dg with | some d => d | none => digest now l pw
    ⟨r, ⟨upd succ l (some ⟨d, now, r⟩), upd failed fk none⟩, true, false⟩
  else
    ⟨[], ⟨succ, upd failed fk (some now)⟩, true, false⟩

/-- `BaseAuth.login` after the login-name mapping (lc/uc/strip_domain), cache enabled -/
def login (cfg : Cfg) (st : State) (now : Nat) (backend : Str → Str → Str) (l pw : Str) : Result :=
  let failed := sweep cfg now st.failed
  if (failed (l, digest cfg.failSalt l pw)).isSome then
    ⟨[], ⟨st.succ, failed⟩, false, true⟩                      -- cached failure
  else
    match st.succ l with
    | none => backendPath cfg st.succ failed now backend l pw (some (digest now l pw))
    | some e =>
      if digest e.time l pw = e.digest then
        if age now e.time > cfg.succExp then
          backendPath cfg (upd st.succ l none) failed now backend l pw none   -- expired: entry deleted, digest := ""
        else ⟨e.user, ⟨st.succ, failed⟩, false, true⟩                     -- cached success
      else backendPath cfg st.succ failed now backend l pw (some (digest e.time l pw))  -- digest keeps the *old* salt


/-- `login` when the back-end raises instead of answering (file briefly missing, server unreachable): an answer that
    the caches can give is given; otherwise the error propagates (`none`).  The caches are left as the look-ups left
    them: the sweep has run and an expired successful entry of this login has been deleted — nothing is added. -/
def loginFault (cfg : Cfg) (st : State) (now : Nat) (l pw : Str) : Option Result × State :=
  let failed := sweep cfg now st.failed
  if (failed (l, digest cfg.failSalt l pw)).isSome then
    (some ⟨[], ⟨st.succ, failed⟩, false, true⟩, ⟨st.succ, failed⟩)
  else
    match st.succ l with
    | none => (none, ⟨st.succ, failed⟩)
    | some e =>
      if digest e.time l pw = e.digest then
        if age now e.time > cfg.succExp then (none, ⟨upd st.succ l none, failed⟩)
        else (some ⟨e.user, ⟨st.succ, failed⟩, false, true⟩, ⟨st.succ, failed⟩)
      else (none, ⟨st.succ, failed⟩)

/-- login-name mapping, ASCII part (`str.lower`/`str.upper`) + `split('@')[0]` -/
def mapLogin (lc uc strip : Bool) (l : Str) : Str :=
  let l := if lc then l.map Char.toLower else l
  let l := if uc then l.map Char.toUpper else l
  if strip then l.takeWhile (· ≠ '@') else l

end AuthCache
end Radicale
