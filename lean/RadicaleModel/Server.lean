/-
  Server: the accept loop of `radicale.server.serve` (any number of listening sockets) and the Content-Length gate of
  the application.

  workers  = worker sockets the loop still holds (a connection occupies a slot from `accept` until the loop
             has noticed that its worker thread finished and closed the socket)
  running  = worker threads still processing (running ≤ workers; the others' sockets are readable)
  backlog  = connections waiting in the listen queues (total over all listening sockets: one loop iteration
             accepts at most one connection, from whichever ready listening socket `set.pop()` yields)
-/
namespace Server

inductive Phase | looping | draining | returned
  deriving DecidableEq, Repr

structure State where
  workers : Nat
  running : Nat
  backlog : Nat
  shutdown : Bool          -- the shutdown socket is readable
  phase : Phase
  accepted : Nat           -- total connections accepted so far
  deriving DecidableEq, Repr

def init : State := ⟨0, 0, 0, false, .looping, 0⟩

/-- is the listening socket in the set passed to `select`? -/
def pollsListener (max : Int) (s : State) : Bool := max ≤ 0 || (s.workers : Int) < max

/-- does `select` return (is anything in the poll set ready)? -/
def ready (max : Int) (s : State) : Bool :=
  s.running < s.workers || (pollsListener max s && s.backlog > 0) || s.shutdown

inductive Ev
  | arrive            -- a client connects
  | finish            -- one running worker finishes (closes its end of the socket pair)
  | signal            -- the shutdown socket becomes readable
  | loop              -- one iteration of the main loop / the `finally` clause
  deriving DecidableEq, Repr

/-- one event; `none` = not possible now (e.g. `select` blocks, nothing to finish) -/
def step (max : Int) (s : State) : Ev → Option State
  | .arrive => some { s with backlog := s.backlog + 1 }
  | .finish => if s.running > 0 then some { s with running := s.running - 1 } else none
  | .signal => some { s with shutdown := true }
  | .loop =>
    match s.phase with
    | .returned => none
    | .draining =>
      -- `finally`: `recv(1)` on every worker socket returns only when that worker has finished
      if s.running = 0 then some { s with workers := 0, phase := .returned } else none
    | .looping =>
      if !ready max s then none
      else if s.shutdown then some { s with phase := .draining }
      else
        -- reap every finished worker, then accept at most one connection
        let s1 := { s with workers := s.running }
        if pollsListener max s && s.backlog > 0 then
          some { s1 with workers := s1.workers + 1, running := s1.running + 1, backlog := s.backlog - 1,
                         accepted := s.accepted + 1 }
        else some s1

def run (max : Int) : State → List Ev → State
  | s, [] => s
  | s, e :: es => match step max s e with
    | some s' => run max s' es
    | none => run max s es        -- impossible events are skipped

/-- the application's gate (internal server only): refuse bodies declared larger than the limit -/
def refusesBody (internal : Bool) (maxLen : Int) (contentLength : Nat) : Bool :=
  internal && contentLength != 0 && maxLen > 0 && (contentLength : Int) > maxLen

end Server
