import RadicaleModel.Str
/-
  TextValue: the value layer of vobject below Radicale's objects — how the text of a content line's value is read
  (`vobject.icalendar.stringToTextValues`, used by the text behaviours of vCard and iCalendar, which keep element 0) and
  written (`vobject.base.backslashEscape`).  Every stored object passes through both on each PUT and GET.

  The reader is a two-state machine: a backslash makes the next character literal when it is one of `\ ; , N n "` (`n` / `N`
  give a line feed) and stays together with it otherwise; an unescaped comma ends the current element.  Quirk, modelled
  as it is: a value that *ends* in a lone backslash gets the four characters `\eof` (the iterator's end marker is treated
  as a character).
-/
namespace Radicale
namespace TextValue
open Str

def escapable (c : Char) : Bool := c == '\\' || c == ';' || c == ',' || c == 'N' || c == 'n' || c == '"'

/-- the end of the state machine: the current element is kept when it is non-empty or nothing was read yet -/
def finish (cur : Str) (acc : List Str) : List Str := if cur ≠ [] ∨ acc = [] then acc ++ [cur] else acc

/-- `stringToTextValues(s)` with the default separator and escapable characters -/
def readGo : Str → Str → List Str → List Str
  | [], cur, acc => finish cur acc
  | ['\\'], cur, acc => finish (cur ++ ['\\', 'e', 'o', 'f']) acc
  | '\\' :: c :: rest, cur, acc =>
    if escapable c then readGo rest (cur ++ [if c == 'n' || c == 'N' then '\n' else c]) acc
    else readGo rest (cur ++ ['\\', c]) acc
  | c :: rest, cur, acc =>
    if c = ',' then readGo rest [] (acc ++ [cur]) else readGo rest (cur ++ [c]) acc

def readValues (s : Str) : List Str := readGo s [] []

/-- what the text behaviours keep: element 0 -/
def readFirst (s : Str) : Str := (readValues s).headD []

/-- `backslashEscape`: `\` `;` `,` get a backslash; CRLF, LF and CR become the two characters `\n` -/
def escape : Str → Str
  | [] => []
  | '\r' :: '\n' :: rest => '\\' :: 'n' :: escape rest
  | c :: rest =>
    if c = '\\' then '\\' :: '\\' :: escape rest
    else if c = ';' then '\\' :: ';' :: escape rest
    else if c = ',' then '\\' :: ',' :: escape rest
    else if c = '\n' ∨ c = '\r' then '\\' :: 'n' :: escape rest
    else c :: escape rest

/-- what a text value looks like after one trip through the server: read, then written -/
def stored (raw : Str) : Str := escape (readFirst raw)

end TextValue
end Radicale
