import RadicaleModel.Path
/-
  BulkNames: the file names `_upload_all_nonatomic` (radicale/storage/multifilesystem/upload.py) gives to the
  objects of a whole-collection upload (`get_safe_free_hrefs` / `is_safe_free_href`).

  For every object, in the order of the upload, the candidates are
    1. the UID itself if it already ends with the suffix (compared in lower case), else UID + suffix;
    2. the hex digest of the UID + suffix;
    3. a random name + suffix (`find_available_uid`, repeated until the name is usable),
  and the first candidate that is a safe file-system component *and not yet present in the (temporary) collection
  folder* is taken.  The folder is empty when the upload starts, so "present" = given to an earlier object of the
  same upload (plus whatever the caller says is there: `taken`).

  Modelled as parameters: the digest (`hash`) and the random source (`fresh`, a function of the names present — the
  real one draws UUIDs until one is free; its contract `FreshOk` is a hypothesis of the theorems, validated by the
  correspondence check on every random name the real code hands out).
  `str.lower()` is modelled on ASCII letters only (`Char.toLower`); no other character lower-cases to a character of
  ".ics" / ".vcf", so the suffix test agrees (the correspondence check feeds non-ASCII look-alikes).
  Not modelled: names the file system refuses with EINVAL (the real loop moves on to the next candidate).
-/
namespace Radicale
namespace BulkNames
open Str Path

structure Env where
  suffix : Str
  hash : Str → Str
  fresh : List Str → Str

def lower (s : Str) : Str := s.map Char.toLower

/-- first candidate -/
def first (e : Env) (uid : Str) : Str :=
  if endsWith (lower uid) (lower e.suffix) then uid else uid ++ e.suffix

/-- second candidate -/
def second (e : Env) (uid : Str) : Str := e.hash uid ++ e.suffix

/-- `is_safe_free_href` -/
def free (taken : List Str) (h : Str) : Bool := safeFsComp h && decide (h ∉ taken)

/-- the name one object gets when the names in `taken` are present -/
def pick (e : Env) (taken : List Str) (uid : Str) : Str :=
  if free taken (first e uid) then first e uid
  else if free taken (second e uid) then second e uid
  else e.fresh taken

/-- which of the three candidates was used (for the correspondence check) -/
def pickKind (e : Env) (taken : List Str) (uid : Str) : Nat :=
  if free taken (first e uid) then 1 else if free taken (second e uid) then 2 else 3

/-- the loop over the objects: (name, UID) in upload order -/
def assign (e : Env) : List Str → List Str → List (Str × Str)
  | [], _ => []
  | uid :: rest, taken =>
    let h := pick e taken uid
    (h, uid) :: assign e rest (h :: taken)

/-- the collection folder as a dictionary name ↦ object; a later write to the same name replaces the earlier one
    (`open(path, "w")` truncates) -/
def write (dir : List (Str × Str)) (h : Str) (uid : Str) : List (Str × Str) :=
  (h, uid) :: dir.filter (fun e => e.1 ≠ h)

def writeAll (dir : List (Str × Str)) (entries : List (Str × Str)) : List (Str × Str) :=
  entries.foldl (fun d e => write d e.1 e.2) dir

def lookup (dir : List (Str × Str)) (h : Str) : Option Str := (dir.find? (fun e => e.1 == h)).map (·.2)

/-- the contract of `find_available_uid` -/
def FreshOk (e : Env) : Prop := ∀ taken, free taken (e.fresh taken) = true

/-! ### the variant without the "not yet present" test (seeded change C14f) -/

def pickNaive (e : Env) (uid : Str) : Str :=
  if safeFsComp (first e uid) then first e uid
  else if safeFsComp (second e uid) then second e uid
  else e.fresh []

def assignNaive (e : Env) (uids : List Str) : List (Str × Str) := uids.map (fun u => (pickNaive e u, u))

end BulkNames
end Radicale
