/-
  Prefilter: the structure of a calendar-query filter, `comp_match` (radicale/item/filter.py) and
  `simplify_prefilters` — what the storage layer's pre-selection is told about the filter.

  A filter element is a tree: `comp name children`, `timeRange start end`, `prop holds` (a prop-filter, abstracted to
  whether it holds for the item), `isNotDefined`, `other` (any other element).  The item is abstracted to its two
  names (level 0: "VCALENDAR", level 1: VEVENT / VTODO / VJOURNAL) and to `tr start end`, the result of
  `time_range_match` for its main component type.  The code compares component names in upper case; the model holds
  them in upper case (the harness converts).
-/
namespace Radicale
namespace Prefilter

inductive Flt
  | comp (name : String) (children : List Flt)
  | timeRange (fs fe : Int)
  | prop (holds : Bool)
  | isNotDefined
  | other
  deriving Repr, Inhabited

structure ItemView where
  name : String                 -- item.name ("VCALENDAR")
  component : String            -- item.component_name ("VEVENT", …; "" if none)
  tr : Int → Int → Bool         -- time_range_match of the item for its component type
  tr0 : Int → Int → Bool := fun _ _ => false   -- a time-range directly below the VCALENDAR comp-filter

def isComp : Flt → Bool | .comp .. => true | _ => false
def isTimeRange : Flt → Bool | .timeRange .. => true | _ => false
def isNotDef : Flt → Bool | .isNotDefined => true | _ => false

/-- the children of a comp-filter are tested one after the other; the first that fails decides, an unexpected element
    raises (`none`) when it is reached -/
def seqAnd : List (Option Bool) → Option Bool
  | [] => some true
  | none :: _ => none
  | some false :: _ => some false
  | some true :: rest => seqAnd rest

/-- a child of a level-1 comp-filter (a third level of comp-filter is "not supported": True) -/
def leaf1 (it : ItemView) : Flt → Option Bool
  | .prop holds => some holds
  | .timeRange fs fe => some (it.tr fs fe)
  | .comp _ _ => some true
  | _ => none

def headIsNotDef (children : List Flt) : Bool := children.length == 1 && (children.head?.map isNotDef).getD false

/-- `comp_match(item, filter_, level=1)` -/
def compMatch1 (it : ItemView) (name : String) (children : List Flt) : Option Bool :=
  let tag := it.component
  if tag = "" then some false
  else if children.isEmpty then some (name == tag)
  else if headIsNotDef children then some (name != tag)
  else if name != tag then some false
  else if !(name == "VTODO" || name == "VEVENT" || name == "VJOURNAL") then some true
  else seqAnd (children.map (leaf1 it))

def child0 (it : ItemView) : Flt → Option Bool
  | .prop holds => some holds
  | .timeRange fs fe => some (it.tr0 fs fe)
  | .comp n ch => compMatch1 it n ch
  | _ => none

/-- `comp_match(item, filter_, level=0)`; `none` = the ValueError for an unexpected child -/
def compMatch (it : ItemView) : Flt → Option Bool
  | .comp name children =>
    let tag := it.name
    if tag = "" then some false
    else if children.isEmpty then some (name == tag)
    else if headIsNotDef children then some (name != tag)
    else if name != tag then some false
    else if !(name == "VCALENDAR") then some true
    else seqAnd (children.map (child0 it))
  | _ => none

structure Simplified where
  tag : Option String
  fs : Int
  fe : Int
  simple : Bool
  deriving Repr, DecidableEq

/-- the inner loop over the children of one level-1 comp-filter: the first time-range decides; `simple` is cleared by
    anything that is not a time-range before it -/
def timeLoop (tag : String) (tmin tmax : Int) (simple : Bool) : List Flt → Simplified
  | [] => ⟨some tag, tmin, tmax, simple⟩
  | c :: rest =>
    if !(tag == "VTODO" || tag == "VEVENT" || tag == "VJOURNAL") then ⟨some tag, tmin, tmax, false⟩
    else match c with
      | .timeRange fs fe => ⟨some tag, fs, fe, simple⟩
      | _ => timeLoop tag tmin tmax false rest

/-- the loop over the children of one VCALENDAR comp-filter: the first child that is a comp-filter without
    `is-not-defined` returns; `none` = fell through -/
def compLoop (tmin tmax : Int) (simple : Bool) : List Flt → Option Simplified × Bool
  | [] => (none, simple)
  | c :: rest =>
    match c with
    | .comp name children =>
      if children.any isNotDef then compLoop tmin tmax false rest
      else
        let simple' := simple && decide (children.length ≤ 1)
        (some (timeLoop name tmin tmax simple' children), simple')
    | _ => compLoop tmin tmax false rest

/-- the loop over the flattened filter elements -/
def colLoop (collTag : String) (tmin tmax : Int) (simple : Bool) : List Flt → Simplified
  | [] => ⟨none, tmin, tmax, simple⟩
  | c :: rest =>
    if collTag != "VCALENDAR" then ⟨none, tmin, tmax, false⟩
    else match c with
      | .comp name children =>
        if name != "VCALENDAR" then colLoop collTag tmin tmax false rest
        else
          let simple' := simple && decide (children.length ≤ 1)
          match compLoop tmin tmax simple' children with
          | (some r, _) => r
          | (none, s) => colLoop collTag tmin tmax s rest
      | _ => colLoop collTag tmin tmax false rest

/-- `simplify_prefilters(filters, collection_tag)` on the flattened list of the filters' children -/
def simplify (collTag : String) (tmin tmax : Int) (flat : List Flt) : Simplified :=
  colLoop collTag tmin tmax (decide (flat.length ≤ 1)) flat

end Prefilter
end Radicale
