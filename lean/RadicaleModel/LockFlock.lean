import RadicaleModel.LockCV
/-
  LockFlock: `pathutils.RwLock` — `flock()` on a fresh open file description, then bookkeeping
  (`_readers`, `_writer`) under an internal mutex, body, bookkeeping again, close (which drops the flock).
  The kernel is modelled as a correct readers-writer lock on open file descriptions: LOCK_SH is granted
  while nobody holds LOCK_EX, LOCK_EX while nobody holds anything.  Mutex-protected bookkeeping sections
  are single steps (the mutex makes them atomic and they touch nothing but the two counters).

  LockDict: the keyed FIFO lock of multifilesystem_nolock.py as a queue per key (head = holder).
-/
namespace Flock
open CV (Mode)

inductive PC
  | idle
  | wantK (m : Mode)      -- file opened, flock() requested
  | gotK (m : Mode)       -- flock() returned, before the bookkeeping
  | cs (m : Mode)         -- inside the `with` body
  | closing (m : Mode)    -- bookkeeping on exit done, file not yet closed
  | failed (m : Mode)     -- "Guarantees failed" was raised (file still open)
  deriving DecidableEq, Repr

def kR : PC → Bool | .gotK .r | .cs .r | .closing .r | .failed .r => true | _ => false
def kW : PC → Bool | .gotK .w | .cs .w | .closing .w | .failed .w => true | _ => false
def inR : PC → Bool | .cs .r => true | _ => false
def inW : PC → Bool | .cs .w => true | _ => false
def isFailed : PC → Bool | .failed _ => true | _ => false

structure State where
  readers : Nat
  writer : Bool
  pcs : List PC
  deriving Repr

def init (n : Nat) : State := ⟨0, false, List.replicate n .idle⟩

/-- kernel: may the lock be granted in mode `m` now? -/
def grant (s : State) : Mode → Bool
  | .r => s.pcs.countP kW == 0
  | .w => s.pcs.countP kW == 0 && s.pcs.countP kR == 0

/-- step of thread `t` (function form; `m` is used only when `t` is idle); `none` = blocked -/
def next (s : State) (t : Nat) (m : Mode) : Option State :=
  match s.pcs[t]? with
  | none => none
  | some .idle => some { s with pcs := s.pcs.set t (.wantK m) }
  | some (.wantK m') => if grant s m' then some { s with pcs := s.pcs.set t (.gotK m') } else none
  | some (.gotK m') =>
    if s.writer || (m' == .w && s.readers != 0) then some { s with pcs := s.pcs.set t (.failed m') }
    else match m' with
      | .r => some { s with readers := s.readers + 1, pcs := s.pcs.set t (.cs .r) }
      | .w => some { s with writer := true, pcs := s.pcs.set t (.cs .w) }
  | some (.cs .r) => some { s with readers := s.readers - 1, writer := false, pcs := s.pcs.set t (.closing .r) }
  | some (.cs .w) => some { s with writer := false, pcs := s.pcs.set t (.closing .w) }
  | some (.closing _) => some { s with pcs := s.pcs.set t .idle }
  | some (.failed _) => some { s with pcs := s.pcs.set t .idle }

def lockedView (s : State) : Option Mode :=
  if s.readers > 0 then some .r else if s.writer then some .w else none

end Flock

namespace LockDict

/-- per key the queue of threads that entered `acquire(key)` and have not left: head = holder -/
abbrev State (κ : Type) := κ → List Nat

def init {κ : Type} : State κ := fun _ => []

def enter {κ : Type} [DecidableEq κ] (s : State κ) (k : κ) (t : Nat) : State κ :=
  fun k' => if k' = k then s k ++ [t] else s k'

def leave {κ : Type} [DecidableEq κ] (s : State κ) (k : κ) : State κ :=
  fun k' => if k' = k then (s k).tail else s k'

def holder {κ : Type} (s : State κ) (k : κ) : Option Nat := (s k).head?

end LockDict
