/-
  Skeleton: the lock-relevant control structure of the request handlers (radicale/app/*.py), as produced by
  the translator harness/skeleton.py from the current source (lean/Generated/Skeleton.lean).

  Events: `read` / `write` = a call into the storage API that reads / modifies collection data,
  `unlock` = REPORT's early release (`lock_stack.close()` alias `unlock_storage_fn()`), `hook` = the configured
  post-change command (emitted by the semantics of a `w` window, never by the translator).
  `lock m body` = `with self._storage.acquire_lock(m, …): body`.
-/
namespace Radicale
namespace Skeleton

inductive Mode | r | w
  deriving DecidableEq, Repr

inductive Ev | read | write | unlock | hook | xml | acquire
  deriving DecidableEq, Repr

inductive Sk
  | skip
  | ev (e : Ev)
  | ret                         -- `return`: the handler ends, enclosing windows are left normally
  | raise                       -- `raise`
  | seq (a b : Sk)
  | alt (a b : Sk)              -- if / else, match on something the skeleton does not track
  | star (a : Sk)               -- for / while
  | lock (m : Mode) (body : Sk)
  | try_ (body handler : Sk)    -- try / except (finally is translated as seq (try_ body skip) final)
  | fn (body : Sk)              -- an inlined helper: its `return` ends the helper, not the handler
  deriving Repr

abbrev Held := Option Mode

/-- may this event happen while `h` is held?  (cache writes are checked at run time, they need any lock) -/
def allowed : Ev → Held → Bool
  | .read, h => h.isSome
  | .write, h => h == some .w
  | .unlock, _ => true
  | .hook, h => h == some .w
  | .xml, _ => true              -- the request body is parsed (`_read_xml_request_body`); ordering is C19's subject
  | .acquire, _ => true          -- a window opens (recorded by the semantics, never emitted by the translator)

def noUnlock : Sk → Bool
  | .ev .unlock => false
  | .seq a b => noUnlock a && noUnlock b
  | .alt a b => noUnlock a && noUnlock b
  | .star a => noUnlock a
  | .lock _ b => noUnlock b
  | .try_ b h => noUnlock b && noUnlock h
  | .fn b => noUnlock b
  | _ => true

structure Res where
  ok : Bool
  post : List Held              -- lock states at normal completion
  rets : List Held              -- lock states at `return` points
  deriving Repr

/-- the static check: every event is allowed in the lock state it can occur in -/
def run : Sk → Held → Res
  | .skip, h => ⟨true, [h], []⟩
  | .ev .unlock, _ => ⟨true, [none], []⟩
  | .ev e, h => ⟨allowed e h, [h], []⟩
  | .ret, h => ⟨true, [], [h]⟩
  | .raise, _ => ⟨true, [], []⟩
  | .seq a b, h =>
    let ra := run a h
    let rbs := ra.post.map (run b)
    ⟨ra.ok && rbs.all (·.ok), rbs.flatMap (·.post), ra.rets ++ rbs.flatMap (·.rets)⟩
  | .alt a b, h =>
    let ra := run a h
    let rb := run b h
    ⟨ra.ok && rb.ok, ra.post ++ rb.post, ra.rets ++ rb.rets⟩
  | .star a, h =>
    let ra := run a h
    ⟨ra.ok && ra.post.all (· == h), [h], ra.rets⟩
  | .lock m body, h =>
    let rb := run body (some m)
    -- windows are not nested; a `w` window still holds `w` wherever it is left (the hook runs there)
    ⟨h.isNone && rb.ok && (m != .w || (rb.post ++ rb.rets).all (· == some .w)), [none], rb.rets.map (fun _ => none)⟩
  | .try_ body handler, h =>
    let rb := run body h
    let hs : List Held := if noUnlock body then [h] else [h, none]
    let rhs := hs.map (run handler)
    ⟨rb.ok && rhs.all (·.ok), rb.post ++ rhs.flatMap (·.post), rb.rets ++ rhs.flatMap (·.rets)⟩

  | .fn body, h =>
    let rb := run body h
    ⟨rb.ok, rb.post ++ rb.rets, []⟩

def disciplined (sk : Sk) : Bool := (run sk none).ok

/-! ### executions -/

inductive Outcome
  | done (h : Held)
  | returned (h : Held)
  | raised (h : Held)
  deriving DecidableEq, Repr

abbrev Trace := List (Ev × Held)

/-- the executions of a skeleton started with lock state `h`: the events with the lock state they happened in.
    Any storage call may raise; `return` and exceptions leave `with` blocks; the hook runs at the end of a `w`
    window that is left without an exception. -/
inductive Exec : Sk → Held → Trace → Outcome → Prop
  | skip (h) : Exec .skip h [] (.done h)
  | ev (e h) : Exec (.ev e) h [(e, h)] (.done (if e = .unlock then none else h))
  | evRaises (e h) : Exec (.ev e) h [(e, h)] (.raised h)          -- the call raises after touching storage
  | evRaises0 (e h) : Exec (.ev e) h [] (.raised h)               -- … or before
  | ret (h) : Exec .ret h [] (.returned h)
  | raise (h) : Exec .raise h [] (.raised h)
  | seq (a b h h1 ta tb o) : Exec a h ta (.done h1) → Exec b h1 tb o → Exec (.seq a b) h (ta ++ tb) o
  | seqRet (a b h h1 ta) : Exec a h ta (.returned h1) → Exec (.seq a b) h ta (.returned h1)
  | seqRaise (a b h h1 ta) : Exec a h ta (.raised h1) → Exec (.seq a b) h ta (.raised h1)
  | altL (a b h t o) : Exec a h t o → Exec (.alt a b) h t o
  | altR (a b h t o) : Exec b h t o → Exec (.alt a b) h t o
  | star0 (a h) : Exec (.star a) h [] (.done h)
  | starS (a h h1 ta tb o) : Exec a h ta (.done h1) → Exec (.star a) h1 tb o → Exec (.star a) h (ta ++ tb) o
  | starRet (a h h1 ta) : Exec a h ta (.returned h1) → Exec (.star a) h ta (.returned h1)
  | starRaise (a h h1 ta) : Exec a h ta (.raised h1) → Exec (.star a) h ta (.raised h1)
  | lockDone (m body h h1 t) : Exec body (some m) t (.done h1) →
      Exec (.lock m body) h ((.acquire, h) :: t ++ (if m = .w then [(.hook, h1)] else [])) (.done none)
  | lockRet (m body h h1 t) : Exec body (some m) t (.returned h1) →
      Exec (.lock m body) h ((.acquire, h) :: t ++ (if m = .w then [(.hook, h1)] else [])) (.returned none)
  | lockRaise (m body h h1 t) : Exec body (some m) t (.raised h1) → Exec (.lock m body) h ((.acquire, h) :: t) (.raised none)
  | tryOk (b hd h t o) : Exec b h t o → (∀ x, o ≠ .raised x) → Exec (.try_ b hd) h t o
  | tryCaught (b hd h h1 t t' o) : Exec b h t (.raised h1) → Exec hd h1 t' o → Exec (.try_ b hd) h (t ++ t') o
  | tryUncaught (b hd h h1 t) : Exec b h t (.raised h1) → Exec (.try_ b hd) h t (.raised h1)
  | fnDone (b h h1 t) : Exec b h t (.done h1) → Exec (.fn b) h t (.done h1)
  | fnRet (b h h1 t) : Exec b h t (.returned h1) → Exec (.fn b) h t (.done h1)
  | fnRaise (b h h1 t) : Exec b h t (.raised h1) → Exec (.fn b) h t (.raised h1)

/-! ### the request body is parsed before storage is touched (C19) -/

/-- events that touch the storage or its lock -/
def touch : Ev → Bool
  | .xml => false
  | _ => true

def mayTouch : Sk → Bool
  | .ev e => touch e
  | .seq a b => mayTouch a || mayTouch b
  | .alt a b => mayTouch a || mayTouch b
  | .star a => mayTouch a
  | .lock _ _ => true
  | .try_ b h => mayTouch b || mayTouch h
  | .fn b => mayTouch b
  | _ => false

def hasXml : Sk → Bool
  | .ev .xml => true
  | .seq a b => hasXml a || hasXml b
  | .alt a b => hasXml a || hasXml b
  | .star a => hasXml a
  | .lock _ b => hasXml b
  | .try_ b h => hasXml b || hasXml h
  | .fn b => hasXml b
  | _ => false

/-- static check: no parse of the request body can follow a touch of the storage or happen inside a window -/
def xmlFirst : Sk → Bool
  | .seq a b => xmlFirst a && xmlFirst b && !(mayTouch a && hasXml b)
  | .alt a b => xmlFirst a && xmlFirst b
  | .star a => xmlFirst a && !(mayTouch a && hasXml a)
  | .lock _ b => !hasXml b
  | .try_ b h => xmlFirst b && xmlFirst h && !(mayTouch b && hasXml h)
  | .fn b => xmlFirst b
  | _ => true

/-! ### window sequences (for the run-time correspondence) -/

/-- what the translator knows about one window: its mode and which classes of storage calls occur inside -/
structure Win where
  mode : Mode
  reads : Bool
  writes : Bool
  deriving DecidableEq, Repr

def hasEv (e : Ev) : Sk → Bool
  | .ev x => x == e
  | .seq a b => hasEv e a || hasEv e b
  | .alt a b => hasEv e a || hasEv e b
  | .star a => hasEv e a
  | .lock _ b => hasEv e b
  | .try_ b h => hasEv e b || hasEv e h
  | .fn b => hasEv e b
  | _ => false

/-- match a prefix of the observed windows; result: the remainders, with a flag "the handler has ended" -/
def matchW : Nat → Sk → List Win → List (List Win × Bool)
  | 0, _, _ => []
  | _ + 1, .skip, ws => [(ws, false)]
  | _ + 1, .ev _, ws => [(ws, false), (ws, true)]       -- a storage call may raise
  | _ + 1, .ret, ws => [(ws, true)]
  | _ + 1, .raise, ws => [(ws, true)]
  | n + 1, .seq a b, ws =>
    (matchW n a ws).flatMap (fun r => if r.2 then [r] else matchW n b r.1)
  | n + 1, .alt a b, ws => matchW n a ws ++ matchW n b ws
  | n + 1, .star a, ws =>
    (ws, false) :: (matchW n a ws).flatMap (fun r =>
      if r.2 then [r] else if r.1.length < ws.length then matchW n (.star a) r.1 else [])
  | n + 1, .lock m body, ws =>
    match ws with
    | [] => []
    | w :: rest =>
      -- (a storage call that writes may also read: `create_collection` looks whether the target exists)
      if w.mode = m && (!w.reads || hasEv .read body || hasEv .write body) && (!w.writes || hasEv .write body) then
        -- inside the body further windows cannot open (windows are not nested)
        [(rest, false), (rest, true)]
      else []
  | n + 1, .try_ b h, ws =>
    (matchW n b ws).flatMap (fun r => if r.2 then r :: (matchW n h r.1) else [r])
  | n + 1, .fn b, ws =>
    (matchW n b ws).flatMap (fun r => if r.2 then [r, (r.1, false)] else [r])

def size : Sk → Nat
  | .seq a b => size a + size b + 1
  | .alt a b => size a + size b + 1
  | .star a => size a + 1
  | .lock _ b => size b + 1
  | .try_ b h => size b + size h + 1
  | .fn b => size b + 1
  | _ => 1

def acceptsWins (sk : Sk) (ws : List Win) : Bool :=
  (matchW (size sk + 4 * ws.length + 8) sk ws).any (fun r => r.1.isEmpty)

end Skeleton
end Radicale
