import RadicaleModel.Str
import RadicaleModel.Path
/-
  Quote: `urllib.parse.quote(s)` (safe="/", UTF-8), `urllib.parse.unquote(s)` (UTF-8, errors="replace"),
  `xmlutils.make_href`, and the three places where Radicale decodes a client-supplied URL path.
-/
namespace Radicale
namespace Quote
open Str

/-- UTF-8 bytes of a string (core's encoder) -/
def utf8 (s : Str) : List UInt8 := s.flatMap String.utf8EncodeChar

/-- `_ALWAYS_SAFE` of urllib.parse plus "/" : bytes that `quote` leaves alone -/
def safeByte (b : UInt8) : Bool :=
  (65 ≤ b && b ≤ 90) || (97 ≤ b && b ≤ 122) || (48 ≤ b && b ≤ 57) ||
  b == 95 || b == 46 || b == 45 || b == 126 || b == 47

def hexDigit (n : UInt8) : Char :=
  if n < 10 then Char.ofNat (48 + n.toNat) else Char.ofNat (55 + n.toNat)   -- upper case, as Python

def quoteByte (b : UInt8) : Str :=
  if safeByte b then [Char.ofNat b.toNat] else ['%', hexDigit (b / 16), hexDigit (b % 16)]

/-- `urllib.parse.quote(s)` with the default `safe="/"` -/
def quote (s : Str) : Str := (utf8 s).flatMap quoteByte

def hexVal (c : Char) : Option UInt8 :=
  let n := c.toNat
  if 48 ≤ n ∧ n ≤ 57 then some (UInt8.ofNat (n - 48))
  else if 65 ≤ n ∧ n ≤ 70 then some (UInt8.ofNat (n - 55))
  else if 97 ≤ n ∧ n ≤ 102 then some (UInt8.ofNat (n - 87))
  else none

/-- a piece of a partly decoded string: a byte of an ASCII run, or a non-ASCII character passed through -/
inductive Piece
  | byte (b : UInt8)
  | chr (c : Char)
  deriving DecidableEq, Repr

/-- `unquote_to_bytes` on the ASCII runs, non-ASCII characters passed through (`_generate_unquoted_parts`) -/
def pieces : Str → List Piece
  | [] => []
  | c :: rest =>
    if c = '%' then
      match hr : rest with
      | h :: l :: rest' =>
        match hexVal h, hexVal l with
        | some a, some b => .byte (a * 16 + b) :: pieces rest'
        | _, _ => .byte 37 :: pieces rest
      | _ => .byte 37 :: pieces rest
    else if c.toNat < 128 then .byte (UInt8.ofNat c.toNat) :: pieces rest
    else .chr c :: pieces rest
termination_by s => s.length
decreasing_by
  all_goals simp_wf
  all_goals (try subst hr)
  all_goals (first | omega | (simp only [List.length_cons]; omega))

/-- one step of CPython's UTF-8 decoder with `errors="replace"`: the character produced and the number of
    bytes consumed (one U+FFFD per maximal invalid subpart) -/
def replStep (b : UInt8) (rest : List UInt8) : Char × Nat :=
  let cont (x : UInt8) (lo hi : UInt8) : Bool := lo ≤ x && x ≤ hi
  let mk (n : Nat) : Char := Char.ofNat n
  let fffd : Char := Char.ofNat 0xFFFD
  if b < 0x80 then (mk b.toNat, 1)
  else if 0xC2 ≤ b && b ≤ 0xDF then
    match rest with
    | c1 :: _ => if cont c1 0x80 0xBF then (mk ((b.toNat - 0xC0) * 64 + (c1.toNat - 0x80)), 2) else (fffd, 1)
    | [] => (fffd, 1)
  else if 0xE0 ≤ b && b ≤ 0xEF then
    let lo : UInt8 := if b == 0xE0 then 0xA0 else 0x80
    let hi : UInt8 := if b == 0xED then 0x9F else 0xBF
    match rest with
    | c1 :: r1 =>
      if cont c1 lo hi then
        match r1 with
        | c2 :: _ => if cont c2 0x80 0xBF then
                        (mk ((b.toNat - 0xE0) * 4096 + (c1.toNat - 0x80) * 64 + (c2.toNat - 0x80)), 3)
                      else (fffd, 2)
        | [] => (fffd, 2)
      else (fffd, 1)
    | [] => (fffd, 1)
  else if 0xF0 ≤ b && b ≤ 0xF4 then
    let lo : UInt8 := if b == 0xF0 then 0x90 else 0x80
    let hi : UInt8 := if b == 0xF4 then 0x8F else 0xBF
    match rest with
    | c1 :: r1 =>
      if cont c1 lo hi then
        match r1 with
        | c2 :: r2 =>
          if cont c2 0x80 0xBF then
            match r2 with
            | c3 :: _ => if cont c3 0x80 0xBF then
                            (mk ((b.toNat - 0xF0) * 262144 + (c1.toNat - 0x80) * 4096 + (c2.toNat - 0x80) * 64 + (c3.toNat - 0x80)), 4)
                          else (fffd, 3)
            | [] => (fffd, 3)
          else (fffd, 2)
        | [] => (fffd, 2)
      else (fffd, 1)
    | [] => (fffd, 1)
  else (fffd, 1)

def replDecodeFuel : Nat → List UInt8 → Str
  | 0, _ => []
  | _, [] => []
  | fuel + 1, b :: rest =>
    let (c, n) := replStep b rest
    c :: replDecodeFuel fuel (rest.drop (n - 1))

/-- UTF-8 decoding with replacement (every step consumes at least one byte, so `length` fuel suffices) -/
def replDecode (bs : List UInt8) : Str := replDecodeFuel bs.length bs

/-- decode one run of bytes: exactly (core's verified decoder) when it is valid UTF-8, with replacement otherwise -/
def decodeRun (bs : List UInt8) : Str :=
  match bs.toByteArray.utf8Decode? with
  | some a => a.toList
  | none => replDecode bs

/-- split pieces into maximal byte runs and decode each -/
def decodePieces : List Piece → List UInt8 → Str
  | [], acc => if acc = [] then [] else decodeRun acc.reverse
  | .byte b :: rest, acc => decodePieces rest (b :: acc)
  | .chr c :: rest, acc => (if acc = [] then [] else decodeRun acc.reverse) ++ c :: decodePieces rest []

/-- `urllib.parse.unquote(s)` -/
def unquote (s : Str) : Str := decodePieces (pieces s) []

/-- `xmlutils.make_href(base_prefix, href)` : `quote(base_prefix + href)` after an assertion that `href` is sanitised -/
def makeHref (basePrefix href : Str) : Str := quote (basePrefix ++ href)

/-- request line → PATH_INFO in `server.py`: `unquote(path.split("?", 1)[0])` -/
def decodeRequestLine (target : Str) : Str :=
  unquote (target.takeWhile (· ≠ '?'))

/-- what the gate does with PATH_INFO (no reverse proxy): `sanitize_path` -/
def gatePath (pathInfo : Str) : Str := Path.sanitize pathInfo

/-- hrefs of a multiget REPORT body: `sanitize_path(unquote(urlsplit(href).path))`, path part only (the split: UrlSplit.lean) -/
def decodeMultigetHref (hrefPath : Str) : Str := Path.sanitize (unquote hrefPath)

/-- MOVE Destination: `sanitize_path(unquote(urlsplit(dest).path))` — the repaired behaviour (fix F12; the split: UrlSplit.lean);
    with `decodes := false` it is the defective one (no `unquote`). -/
def decodeDestination (decodes : Bool) (destPath : Str) : Str :=
  Path.sanitize (if decodes then unquote destPath else destPath)

end Quote
end Radicale
