import RadicaleModel.BasicHeader
/-
  Charset: which charset label `httputils.decode_request` takes from the request's `Content-Type` (after fix F31):

      if content_type and "charset=" in content_type.lower():
          charsets.append(content_type.lower().split("charset=")[1].split(";")[0].strip())

  i.e. the text between the *first* occurrence of `charset=` (any letter case) and the next `;`, stripped.  `fixed =
  false` is the code before the fix: the search is made in the header as sent, so only the spelling `charset=` is found
  (and the label keeps its case).  The label is then tried as a codec name; Python's codec lookup ignores case and most
  punctuation, a name it does not know ends the request with a LookupError (status 500).
-/
namespace Radicale
namespace Charset
open Str

/-- `s` minus the prefix `p`, when it has that prefix -/
def afterPrefix : Str → Str → Option Str
  | [], s => some s
  | _ :: _, [] => none
  | p :: ps, c :: cs => if p = c then afterPrefix ps cs else none

/-- what follows the first occurrence of `p` in `s` (`s.split(p)[1]` when `p in s`) -/
def afterFirst (p : Str) : Str → Option Str
  | [] => afterPrefix p []
  | c :: cs => match afterPrefix p (c :: cs) with
    | some r => some r
    | none => afterFirst p cs

def key : Str := ['c', 'h', 'a', 'r', 's', 'e', 't', '=']

def lower (s : Str) : Str := s.map Char.toLower

/-- the label taken from the header, `none` = the header names no charset -/
def label (fixed : Bool) (contentType : Str) : Option Str :=
  let hay := if fixed then lower contentType else contentType
  (afterFirst key hay).map (fun r => BasicHeader.pyStrip (r.takeWhile (· != ';')))

end Charset
end Radicale
