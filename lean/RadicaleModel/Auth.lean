import RadicaleModel.Str
import RadicaleModel.Path
/-
  Auth: radicale/auth/htpasswd.py (file parsing, scheme dispatch incl. autodetect and its length
  fall-backs), the login-name mapping of BaseAuth.login, the credential extraction and the gate of
  app/__init__.py::_handle_request (who reaches a handler, as whom; 403 -> 401).
  The hash verifiers of passlib / bcrypt are a parameter (`Oracle`): `none` = the library raises ValueError.
-/
namespace Radicale
namespace Auth
open Str

inductive Scheme | plain | md5 | sha256 | sha512 | bcrypt | autodetect
  deriving DecidableEq, Repr

abbrev Oracle := Scheme → Str → Str → Option Bool

/-- one line of the file → (login, digest); `none` = ignored (blank, comment, no colon, empty part) -/
def parseLine (line : Str) : Option (Str × Str) :=
  let l := line.reverse.dropWhile (· == '\n') |>.reverse        -- rstrip("\n")
  let stripped := l.dropWhile Char.isWhitespace
  if stripped = [] ∨ stripped.head? = some '#' then none
  else if !l.contains ':' then none
  else
    let login := l.takeWhile (· ≠ ':')
    let digest := (l.dropWhile (· ≠ ':')).drop 1
    if login = [] ∨ digest = [] then none else some (login, digest)

/-- the dictionary built by `_read_htpasswd` (re-read mode): the first entry of a login wins -/
def parseFile : List Str → List (Str × Str)
  | [] => []
  | line :: rest =>
    let tail := parseFile rest
    match parseLine line with
    | none => tail
    | some (l, d) => (l, d) :: tail.filter (fun e => e.1 ≠ l)

def lookup (tbl : List (Str × Str)) (l : Str) : Option Str := (tbl.find? (fun e => e.1 == l)).map (·.2)

def isBcryptPrefix (h : Str) : Bool :=
  startsWith h "$2$".toList || startsWith h "$2a$".toList || startsWith h "$2b$".toList ||
  startsWith h "$2x$".toList || startsWith h "$2y$".toList

def strip (s : Str) : Str := (s.dropWhile Char.isWhitespace).reverse.dropWhile Char.isWhitespace |>.reverse

/-- `self._verify(digest, password)`; `none` = ValueError from the hash library (login fails) -/
def verify (scheme : Scheme) (oracle : Oracle) (h pw : Str) : Option Bool :=
  match scheme with
  | .plain => some (h == pw)
  | .md5 => oracle .md5 (strip h) pw
  | .sha256 => oracle .sha256 (strip h) pw
  | .sha512 => oracle .sha512 (strip h) pw
  | .bcrypt => oracle .bcrypt h pw
  | .autodetect =>
    if startsWith h "$apr1$".toList then (if h.length ≠ 37 then some (h == pw) else oracle .md5 (strip h) pw)
    else if isBcryptPrefix h then (if h.length ≠ 60 then some (h == pw) else oracle .bcrypt h pw)
    else if startsWith h "$5$".toList then (if h.length ≠ 63 then some (h == pw) else oracle .sha256 (strip h) pw)
    else if startsWith h "$6$".toList then (if h.length ≠ 106 then some (h == pw) else oracle .sha512 (strip h) pw)
    else some (h == pw)

/-- htpasswd `_login` -/
def htpasswdLogin (file : List Str) (scheme : Scheme) (oracle : Oracle) (l pw : Str) : Str :=
  match lookup (parseFile file) l with
  | none => []
  | some h => if verify scheme oracle h pw = some true then l else []

/-! ### htpasswd_cache = True: the table is kept and re-read when the file's size or mtime differs -/

structure HtCache where
  table : List (Str × Str)
  size : Nat
  mtime : Nat

def HtCache.load (file : List Str) (size mtime : Nat) : HtCache := ⟨parseFile file, size, mtime⟩

/-- the check at the start of `_login`: either number differs → re-read -/
def HtCache.refresh (c : HtCache) (file : List Str) (size mtime : Nat) : HtCache :=
  if size ≠ c.size ∨ mtime ≠ c.mtime then HtCache.load file size mtime else c

def tableLogin (tbl : List (Str × Str)) (scheme : Scheme) (oracle : Oracle) (l pw : Str) : Str :=
  match lookup tbl l with
  | none => []
  | some h => if verify scheme oracle h pw = some true then l else []

/-- one cached `_login`: `file`, `size`, `mtime` are what the file system shows at that moment -/
def cachedLogin (c : HtCache) (file : List Str) (size mtime : Nat) (scheme : Scheme) (oracle : Oracle) (l pw : Str) :
    HtCache × Str :=
  let c' := c.refresh file size mtime
  (c', tableLogin c'.table scheme oracle l pw)

/-- a history of (file as it is now, size, mtime, login, password) -/
def cachedRun (scheme : Scheme) (oracle : Oracle) : HtCache → List (List Str × Nat × Nat × Str × Str) → List Str
  | _, [] => []
  | c, (file, size, mtime, l, pw) :: rest =>
    let r := cachedLogin c file size mtime scheme oracle l pw
    r.2 :: cachedRun scheme oracle r.1 rest

/-! ### the gate -/

inductive Backend | none | denyall | htpasswd | remoteUser | httpXRemoteUser
  deriving DecidableEq, Repr

inductive AuthHeader
  | absent
  | basic (login pw : Str)        -- decodes to "login:pw"
  | malformed                     -- not base64 / not UTF-8 / no colon
  | other                         -- another scheme (Bearer …): ignored
  deriving DecidableEq, Repr

structure Env where
  header : AuthHeader
  remoteUser : Str                -- REMOTE_USER
  xRemoteUser : Str               -- HTTP_X_REMOTE_USER
  deriving DecidableEq, Repr

structure Cfg where
  backend : Backend
  lc : Bool
  uc : Bool
  stripDomain : Bool
  deriving DecidableEq, Repr

inductive Outcome
  | error500                         -- malformed Authorization header: the request just fails
  | handler (user : Str)             -- the method handler runs with this identity ("" = anonymous)
  | unauthorized                     -- 401 + WWW-Authenticate, no handler
  | refused                          -- 403 without handler (external login that does not authenticate)
  deriving DecidableEq, Repr

def mapLogin (cfg : Cfg) (l : Str) : Str :=
  let l := if cfg.lc then l.map Char.toLower else l
  let l := if cfg.uc then l.map Char.toUpper else l
  if cfg.stripDomain then l.takeWhile (· ≠ '@') else l

/-- `get_external_login`: only the two header back-ends look at identity headers -/
def externalLogin (cfg : Cfg) (env : Env) : Option Str :=
  match cfg.backend with
  | .remoteUser => some env.remoteUser
  | .httpXRemoteUser => some env.xRemoteUser
  | _ => Option.none

/-- the configured back-end's answer for (mapped login, password) -/
def backendLogin (cfg : Cfg) (htpasswd : Str → Str → Str) (l pw : Str) : Str :=
  match cfg.backend with
  | .none => l
  | .denyall => []
  | .htpasswd => htpasswd l pw
  | .remoteUser => l
  | .httpXRemoteUser => l

/-- login and password the gate works with: external login, else the Basic header; `none` = undecodable header -/
def credentials (cfg : Cfg) (env : Env) : Option (Str × Str) :=
  match externalLogin cfg env with
  | some l => some (l, [])
  | Option.none => match env.header with
    | .basic l p => some (l, p)
    | .malformed => Option.none
    | _ => some ([], [])

/-- the user the request is served as: the back-end's answer for the mapped login, dropped when it is not a
    safe path component -/
def resolveUser (cfg : Cfg) (htpasswd : Str → Str → Str) (login pw : Str) : Str :=
  let u := if login = [] then [] else backendLogin cfg htpasswd (mapLogin cfg login) pw
  if Path.safeComp u then u else []

/-- who reaches the handler, as whom -/
def gate (cfg : Cfg) (htpasswd : Str → Str → Str) (env : Env) : Outcome :=
  match credentials cfg env with
  | Option.none => .error500
  | some (login, pw) =>
    let user := resolveUser cfg htpasswd login pw
    if login = [] ∨ user ≠ [] then .handler user
    else if (externalLogin cfg env).isSome then .refused else .unauthorized

end Auth
end Radicale
