import RadicaleModel.Str
/-
  Regex: the subset of Python `re` used by rights files (rule grammar): literals, `.`, classes `[...]`
  with ranges / negation / `\d \w \s`, groups `( )` `(?: )`, alternation `|`, greedy `* + ?`, escapes `\c`.
  `re.escape`, a recursive-descent parser, and a backtracking matcher (leftmost, greedy, capture groups)
  with the search order of Python's engine.  Unsupported constructs make the parser fail (`none`); the
  harness keeps generated rules inside the grammar and reports the share it had to discard.
-/
namespace Radicale
namespace Regex

/-- `re.escape` (Python ≥ 3.7): backslash before each of ()[]{}?*+-|^$\.&~# and ASCII whitespace -/
def isSpecial (c : Char) : Bool :=
  "()[]{}?*+-|^$\\.&~# \t\n\r\x0b\x0c".toList.contains c

def escape (s : Str) : Str := s.flatMap (fun c => if isSpecial c then ['\\', c] else [c])

inductive ClassItem
  | chr (c : Char)
  | range (a b : Char)
  | digit | word | space
  deriving DecidableEq, Repr

inductive Re
  | empty
  | chr (c : Char)
  | any
  | cls (neg : Bool) (items : List ClassItem)
  | seq (a b : Re)
  | alt (a b : Re)
  | star (r : Re)
  | plus (r : Re)
  | opt (r : Re)
  | group (i : Nat) (r : Re)
  deriving DecidableEq, Repr

def isWord (c : Char) : Bool := c.isAlphanum || c == '_'      -- ASCII only; the harness keeps \\w subjects ASCII
def isSpace (c : Char) : Bool := " \t\n\r\x0b\x0c".toList.contains c

def ClassItem.has (c : Char) : ClassItem → Bool
  | .chr x => x == c
  | .range a b => a.toNat ≤ c.toNat && c.toNat ≤ b.toNat
  | .digit => c.isDigit
  | .word => isWord c
  | .space => isSpace c

/-- literal string as a regex: right-nested sequence of characters -/
def lit : Str → Re
  | [] => .empty
  | c :: cs => .seq (.chr c) (lit cs)

/-! ### parser -/

/-- characters that cannot start an atom / are operators at sequence level -/
def isMeta (c : Char) : Bool := "()[]{}?*+|^$\\.".toList.contains c

def mkSeq : List Re → Re
  | [] => .empty
  | r :: rs => .seq r (mkSeq rs)

/-- class body after `[` and optional `^`: items up to the closing `]` -/
def parseClass : Nat → Str → List ClassItem → Option (List ClassItem × Str)
  | 0, _, _ => none
  | _, [], _ => none
  | fuel + 1, c :: rest, acc =>
    if c = ']' ∧ acc ≠ [] then some (acc.reverse, rest)
    else
      -- one member (possibly escaped)
      let mem : Option (ClassItem × Str) :=
        if c = '\\' then
          match rest with
          | 'd' :: r => some (.digit, r)
          | 'w' :: r => some (.word, r)
          | 's' :: r => some (.space, r)
          | x :: r => if x.isAlphanum then none else some (.chr x, r)
          | [] => none
        else if c = '[' then none        -- nested sets / POSIX classes: unsupported
        else some (.chr c, rest)
      match mem with
      | none => none
      | some (item, r) =>
        -- range a-b ?
        match item, r with
        | .chr a, '-' :: b :: r' =>
          if b = ']' then parseClass fuel r (item :: acc)
          else if b = '\\' then
            match r' with
            | x :: r'' => if x.isAlphanum then none else
                if a.toNat ≤ x.toNat then parseClass fuel r'' (.range a x :: acc) else none
            | [] => none
          else if b = '[' then none
          else if a.toNat ≤ b.toNat then parseClass fuel r' (.range a b :: acc) else none
        | _, _ => parseClass fuel r (item :: acc)

/-- after a `{`: does a counted repetition `{m}`, `{m,}`, `{,n}`, `{m,n}` follow?  (unsupported; any other
    `{` is an ordinary character for Python's parser) -/
def looksLikeRepeat (s : Str) : Bool :=
  let d1 := s.takeWhile Char.isDigit
  let r1 := s.dropWhile Char.isDigit
  match r1 with
  | '}' :: _ => d1 ≠ []
  | ',' :: r2 =>
    let d2 := r2.takeWhile Char.isDigit
    match r2.dropWhile Char.isDigit with
    | '}' :: _ => d1 ≠ [] ∨ d2 ≠ []
    | _ => false
  | _ => false

/-- does a lazy / possessive / stacked quantifier follow?  (unsupported) -/
def quantFollows : Str → Bool
  | '?' :: _ => true
  | '+' :: _ => true
  | '*' :: _ => true
  | _ => false

/-- apply the greedy quantifier that follows an atom, if any -/
def quant (a : Re) (rest : Str) : Option (Re × Str) :=
  match rest with
  | '*' :: r => if quantFollows r then none else some (.star a, r)
  | '+' :: r => if quantFollows r then none else some (.plus a, r)
  | '?' :: r => if quantFollows r then none else some (.opt a, r)
  | '{' :: r => if looksLikeRepeat r then none else some (a, rest)   -- counted repetition: unsupported
  | _ => some (a, rest)

mutual
  /-- alternation: seq ('|' seq)* ; returns regex, rest, next group index -/
  def parseAlt : Nat → Str → Nat → Option (Re × Str × Nat)
    | 0, _, _ => none
    | fuel + 1, s, g =>
      match parseSeq fuel s g [] with
      | none => none
      | some (a, rest, g') =>
        match rest with
        | '|' :: rest' =>
          match parseAlt fuel rest' g' with
          | none => none
          | some (b, rest'', g'') => some (.alt a b, rest'', g'')
        | _ => some (a, rest, g')

  /-- sequence of quantified atoms up to `|`, `)` or the end -/
  def parseSeq : Nat → Str → Nat → List Re → Option (Re × Str × Nat)
    | 0, _, _, _ => none
    | fuel + 1, s, g, acc =>
      match s with
      | [] => some (mkSeq acc.reverse, [], g)
      | c :: rest =>
        if c = '|' ∨ c = ')' then some (mkSeq acc.reverse, s, g)
        else
          match parseAtom fuel s g with
          | none => none
          | some (a, rest', g') =>
            match quant a rest' with
            | none => none
            | some (a', r) => parseSeq fuel r g' (a' :: acc)

  def parseAtom : Nat → Str → Nat → Option (Re × Str × Nat)
    | 0, _, _ => none
    | fuel + 1, s, g =>
      match s with
      | [] => none
      | '\\' :: x :: rest =>
        if x = 'd' then some (.cls false [.digit], rest, g)
        else if x = 'w' then some (.cls false [.word], rest, g)
        else if x = 's' then some (.cls false [.space], rest, g)
        else if x.isAlphanum then none
        else some (.chr x, rest, g)
      | '\\' :: [] => none
      | '.' :: rest => some (.any, rest, g)
      | '(' :: '?' :: ':' :: rest =>
        (match parseAlt fuel rest g with
         | some (r, ')' :: rest', g') => some (r, rest', g')
         | _ => none)
      | '(' :: '?' :: _ => none
      | '(' :: rest =>
        (match parseAlt fuel rest (g + 1) with
         | some (r, ')' :: rest', g') => some (.group g r, rest', g')
         | _ => none)
      | '[' :: '^' :: rest =>
        (match parseClass (rest.length + 1) rest [] with
         | some (items, rest') => some (.cls true items, rest', g)
         | none => none)
      | '[' :: rest =>
        (match parseClass (rest.length + 1) rest [] with
         | some (items, rest') => some (.cls false items, rest', g)
         | none => none)
      | '{' :: rest => if looksLikeRepeat rest then none else some (.chr '{', rest, g)
      | '}' :: rest => some (.chr '}', rest, g)
      | c :: rest => if isMeta c then none else some (.chr c, rest, g)
end

/-- parse a whole pattern; number of capture groups returned as well -/
def parse (s : Str) : Option (Re × Nat) :=
  match parseAlt (3 * s.length + 3) s 0 with
  | some (r, [], g) => some (r, g)
  | _ => none

/-! ### backtracking matcher -/

abbrev Caps := List (Option Str)

def setCap (caps : Caps) (i : Nat) (v : Str) : Caps :=
  if i < caps.length then caps.set i (some v) else caps

/-- `mtch fuel r s caps k`: match `r` at the front of `s`, then continue with `k` on the remainder;
    first success in Python's search order wins.  `.` does not match newline (no DOTALL). -/
def mtch : Nat → Re → Str → Caps → (Str → Caps → Option Caps) → Option Caps
  | 0, _, _, _, _ => none
  | _ + 1, .empty, s, caps, k => k s caps
  | _ + 1, .chr c, s, caps, k =>
    match s with
    | x :: xs => if x = c then k xs caps else none
    | [] => none
  | _ + 1, .any, s, caps, k =>
    match s with
    | x :: xs => if x = '\n' then none else k xs caps
    | [] => none
  | _ + 1, .cls neg items, s, caps, k =>
    match s with
    | x :: xs => if (items.any (·.has x)) != neg then k xs caps else none
    | [] => none
  | f + 1, .seq a b, s, caps, k => mtch f a s caps (fun s' c' => mtch f b s' c' k)
  | f + 1, .alt a b, s, caps, k =>
    match mtch f a s caps k with
    | some r => some r
    | none => mtch f b s caps k
  | f + 1, .star r, s, caps, k =>
    match mtch f r s caps (fun s' c' => if s'.length < s.length then mtch f (.star r) s' c' k else k s' c') with
    | some res => some res
    | none => k s caps
  | f + 1, .plus r, s, caps, k => mtch f r s caps (fun s' c' => mtch f (.star r) s' c' k)
  | f + 1, .opt r, s, caps, k =>
    match mtch f r s caps k with
    | some res => some res
    | none => k s caps
  | f + 1, .group i r, s, caps, k =>
    mtch f r s caps (fun s' c' => k s' (setCap c' i (s.take (s.length - s'.length))))

def Re.size : Re → Nat
  | .seq a b => a.size + b.size + 1
  | .alt a b => a.size + b.size + 1
  | .star r => r.size + 1
  | .plus r => r.size + 2
  | .opt r => r.size + 1
  | .group _ r => r.size + 1
  | _ => 1

/-- `re.fullmatch(pattern, s)`: the capture groups on success -/
def fullmatch (r : Re) (ngroups : Nat) (s : Str) : Option Caps :=
  mtch ((r.size + 2) * (s.length + 2)) r s (List.replicate ngroups none)
    (fun rest caps => if rest = [] then some caps else none)

end Regex
end Radicale
