/-
  LockShape: the shape of a lock section written as a generator-based context manager (`@contextmanager def acquire …: … yield …`),
  as extracted from the source by harness/lockshape.py: which attributes of the lock object are written on the way to the
  `yield`, which in a `finally:` that encloses it, and which after it outside any such `finally:`.

  Semantics: the body of the `with` statement runs at the `yield`.  If it returns, the code after the `yield` runs, `finally:`
  blocks included; if it raises, only the `finally:` blocks (and the `__exit__` of enclosing `with` statements) run.
-/
namespace Radicale
namespace LockShape

structure Section where
  name : String
  setBefore : List String
  resetFinally : List String
  resetAfter : List String
  withGuards : Nat
  deriving Repr, DecidableEq

/-- how the body of the section ends -/
inductive Exit | normal | exception
  deriving Repr, DecidableEq

/-- the attributes written on the way in that are not written again on the way out -/
def leftSet (s : Section) : Exit → List String
  | .normal => s.setBefore.filter (fun a => !(s.resetFinally.contains a || s.resetAfter.contains a))
  | .exception => s.setBefore.filter (fun a => !s.resetFinally.contains a)

end LockShape
end Radicale
