import RadicaleModel.UrlSplit
/-
  Netloc: is the `Destination` of a MOVE on this server?  (`get_server_netloc` and the comparison at the head of
  `do_MOVE`, radicale/app/move.py.)  The server's own authority is taken from `X-Forwarded-Host` / `-Proto` / `-Port`
  when a reverse proxy sent the first of them, else from `Host` (or SERVER_NAME), the URL scheme and SERVER_PORT; the
  Destination's authority is `urlsplit(dest).netloc`, completed with the scheme's default port when it has none; the two
  strings must be equal, otherwise the answer is 502 (remote destination).

  `fixed = false` is the code before fix F30: `environ["HTTP_X_FORWARDED_PORT"]` — a KeyError (status 500) whenever the
  proxy sends `X-Forwarded-Host` without `X-Forwarded-Port`.
  Modelled for authorities without user-info and without IPv6 brackets; `\d` as ASCII digits; the comparison is by
  string equality as in the code (host names are not case-folded).
-/
namespace Radicale
namespace Netloc
open Str

structure Env where
  xfHost : Str            -- HTTP_X_FORWARDED_HOST ("" = absent)
  xfProto : Str           -- HTTP_X_FORWARDED_PROTO
  xfPort : Option Str     -- HTTP_X_FORWARDED_PORT (none = the header is absent)
  httpHost : Str          -- HTTP_HOST
  serverName : Str
  urlScheme : Str         -- wsgi.url_scheme
  serverPort : Str

def https : Str := ['h', 't', 't', 'p', 's']
def http : Str := ['h', 't', 't', 'p']

def defaultPort (proto : Str) : Str := if proto = https then ['4', '4', '3'] else ['8', '0']

/-- `re.search(r":\d+$", host)` -/
def hasPort (host : Str) : Bool :=
  let digits := host.reverse.takeWhile Char.isDigit
  digits != [] && (host.reverse.drop digits.length).head? == some ':'

/-- `get_server_netloc(environ, force_port)`; `none` = KeyError -/
def serverNetloc (fixed : Bool) (e : Env) (forcePort : Bool) : Option Str :=
  let src : Option (Str × Str × Str) :=
    if e.xfHost != [] then
      let proto := if e.xfProto != [] then e.xfProto else http
      match e.xfPort with
      | some p => some (e.xfHost, proto, if p != [] then p else defaultPort proto)
      | none => if fixed then some (e.xfHost, proto, defaultPort proto) else none
    else some (if e.httpHost != [] then e.httpHost else e.serverName, e.urlScheme, e.serverPort)
  src.map (fun (host, proto, port) =>
    if (!forcePort && port == defaultPort proto) || hasPort host then host else host ++ ':' :: port)

/-- `urlsplit(url).netloc` -/
def urlNetloc (url : Str) : Str :=
  match UrlSplit.dropScheme (UrlSplit.clean url) with
  | '/' :: '/' :: rest => rest.takeWhile (fun c => !UrlSplit.isDelim c)
  | _ => []

/-- `urlsplit(url).scheme` (lower-cased) -/
def urlScheme (url : Str) : Str :=
  match UrlSplit.schemeOf (UrlSplit.clean url) with
  | some s => s.map Char.toLower
  | none => []

/-- `SplitResult.port is None` for a simple authority: no ":" or nothing after the last one -/
def portMissing (netloc : Str) : Bool :=
  !netloc.contains ':' || (netloc.reverse.takeWhile (· != ':')) == []

/-- the Destination's authority with a port -/
def destNetloc (dest : Str) : Str :=
  let n := urlNetloc dest
  if portMissing n then n ++ ':' :: defaultPort (urlScheme dest) else n

inductive Verdict | local | remote | error
  deriving DecidableEq, Repr

def verdict (fixed : Bool) (e : Env) (dest : Str) : Verdict :=
  match serverNetloc fixed e true with
  | none => .error
  | some s => if destNetloc dest = s then .local else .remote

end Netloc
end Radicale
