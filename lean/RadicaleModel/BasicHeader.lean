import RadicaleModel.Quote
/-
  BasicHeader: from the raw `Authorization` header to the (login, password) pair the gate hands to the back-end
  (radicale/app/__init__.py, `_handle_request`):

      authorization.startswith("Basic")  →  authorization[len("Basic"):].strip()
      → base64.b64decode(….encode("ascii"))  →  httputils.decode_request(…)  →  .split(":", 1)

  Modelled: CPython's lenient base-64 decoder (`binascii.a2b_base64`, non-strict: characters outside the alphabet are
  skipped, a complete padding ends the input, a dangling group is an error), `str.strip()` (Unicode white space), the
  ASCII requirement of `.encode("ascii")`, the text decoding with the default options (UTF-8, then ISO-8859-1) and the
  split at the first colon.  Every failure (`UnicodeEncodeError`, `binascii.Error`, `ValueError` of the unpacking) ends
  the request with status 500 before the back-end is asked: `none`.
  Not modelled: a `charset` parameter of the request's Content-Type (it is tried first by `decode_request`).
-/
namespace Radicale
namespace BasicHeader
open Str

/-! ### base 64 -/

def alphabet : List Char :=
  "ABCDEFGHIJKLMNOPQRSTUVWXYZabcdefghijklmnopqrstuvwxyz0123456789+/".toList

def enc6 (v : Nat) : Char := alphabet.getD v 'A'

def dec6 (c : Char) : Option Nat :=
  let n := c.toNat
  if 65 ≤ n ∧ n ≤ 90 then some (n - 65)
  else if 97 ≤ n ∧ n ≤ 122 then some (n - 71)
  else if 48 ≤ n ∧ n ≤ 57 then some (n + 4)
  else if c = '+' then some 62
  else if c = '/' then some 63
  else none

/-- the bytes a (possibly partial) group of 6-bit values stands for: 2 values → 1 byte, 3 → 2, 4 → 3 -/
def groupBytes : List Nat → List UInt8
  | [a, b] => [UInt8.ofNat ((a * 4 + b / 16) % 256)]
  | [a, b, c] => [UInt8.ofNat ((a * 4 + b / 16) % 256), UInt8.ofNat (((b % 16) * 16 + c / 4) % 256)]
  | [a, b, c, d] => [UInt8.ofNat ((a * 4 + b / 16) % 256), UInt8.ofNat (((b % 16) * 16 + c / 4) % 256),
                     UInt8.ofNat (((c % 4) * 64 + d) % 256)]
  | _ => []

/-- `binascii.a2b_base64(data, strict_mode=False)`: `acc` = the values of the current group (quad_pos = its length),
    `pads` = "=" seen since the last alphabet character, `out` = bytes so far -/
def b64run : List Nat → Nat → List UInt8 → Str → Option (List UInt8)
  | acc, _, out, [] => if acc = [] then some out else none          -- a dangling group: binascii.Error
  | acc, pads, out, c :: rest =>
    if c = '=' then
      if acc.length ≥ 2 then
        if acc.length + (pads + 1) ≥ 4 then some (out ++ groupBytes acc)      -- padding complete: the rest is not looked at
        else b64run acc (pads + 1) out rest
      else b64run acc pads out rest
    else match dec6 c with
      | none => b64run acc pads out rest                                      -- not in the alphabet: skipped
      | some v =>
        if acc.length = 3 then b64run [] 0 (out ++ groupBytes (acc ++ [v])) rest
        else b64run (acc ++ [v]) 0 out rest

def b64decode (s : Str) : Option (List UInt8) := b64run [] 0 [] s

/-- `base64.b64encode` -/
def b64encode : List UInt8 → Str
  | a :: b :: c :: rest =>
    [enc6 (a.toNat / 4), enc6 ((a.toNat % 4) * 16 + b.toNat / 16), enc6 ((b.toNat % 16) * 4 + c.toNat / 64), enc6 (c.toNat % 64)]
      ++ b64encode rest
  | [a, b] => [enc6 (a.toNat / 4), enc6 ((a.toNat % 4) * 16 + b.toNat / 16), enc6 ((b.toNat % 16) * 4), '=']
  | [a] => [enc6 (a.toNat / 4), enc6 ((a.toNat % 4) * 16), '=', '=']
  | [] => []

/-! ### the header -/

/-- `str.isspace()` -/
def isSpace (c : Char) : Bool :=
  let n := c.toNat
  (9 ≤ n && n ≤ 13) || (28 ≤ n && n ≤ 32) || n = 0x85 || n = 0xA0 || n = 0x1680 || (0x2000 ≤ n && n ≤ 0x200A) ||
  n = 0x2028 || n = 0x2029 || n = 0x202F || n = 0x205F || n = 0x3000

def pyStrip (s : Str) : Str := ((s.dropWhile isSpace).reverse.dropWhile isSpace).reverse

/-- `decode_request` with the default options: UTF-8 if the bytes are valid UTF-8, ISO-8859-1 otherwise -/
def decodeText (bs : List UInt8) : Str :=
  match bs.toByteArray.utf8Decode? with
  | some a => a.toList
  | none => bs.map (fun b => Char.ofNat b.toNat)

/-- `s.split(":", 1)` unpacked into two names: fails without a colon -/
def splitColon (s : Str) : Option (Str × Str) :=
  if s.contains ':' then some (s.takeWhile (· != ':'), (s.dropWhile (· != ':')).drop 1) else none

inductive Parsed
  | absent                         -- no header, or not starting with "Basic": the back-end gets no credentials
  | creds (login pw : Str)
  | error                          -- the request ends with status 500
  deriving DecidableEq, Repr

def parse (header : Str) : Parsed :=
  if startsWith header "Basic".toList then
    let rest := pyStrip (header.drop 5)
    if rest.all (fun c => c.toNat < 128) then
      match b64decode rest with
      | none => .error
      | some bs => match splitColon (decodeText bs) with
        | none => .error
        | some (l, p) => .creds l p
    else .error
  else .absent

end BasicHeader
end Radicale
