import Driver.Util
import Driver.Quote
import Driver.Auth
import Driver.Rights
import Driver.Trace
import Driver.Lock
import Driver.Server
import Driver.Filter
import Driver.Dav
import Driver.AuthGate
import Driver.PropsReq
import Driver.Prefilter
import Driver.Sync
import Driver.Cache
import Driver.Skeleton
import Driver.Fold
import Driver.BulkNames
import Driver.CondHeaders
import Driver.CacheFolder
open Lean

def dispatch (j : Json) : Json :=
  match Driver.getS j "m" with
  | "quote" => Driver.handleQuote j
  | "authcache" => Driver.handleAuth j
  | "rights" => Driver.handleRights j
  | "trace" => Driver.handleTrace j
  | "server" => Driver.handleServer j
  | "filter" => Driver.handleFilter j
  | "authgate" => Driver.handleAuthGate j
  | "sync" => Driver.handleSync j
  | "cache" => Driver.handleCache j
  | "skeleton" => Driver.handleSkeleton j
  | "fold" => Driver.handleFold j
  | "propsreq" => Driver.handlePropsReq j
  | "prefilter" => Driver.handlePrefilter j
  | "bulknames" => Driver.handleBulkNames j
  | "condheaders" => Driver.handleCondHeaders j
  | "cachefolder" => Driver.handleCacheFolder j
  | "ping" => Driver.obj [("r", Json.str "pong")]
  | _ => Driver.obj [("error", Json.str "bad-model")]

partial def loop (hin hout : IO.FS.Stream) (tb : Driver.LockTable) (dv : Array Dav.Store := #[]) : IO Unit := do
  let line ← hin.getLine
  if line.isEmpty then return ()
  let (tb', dv', out) := match Json.parse line with
    | .ok j =>
      if Driver.getS j "m" == "lock" then
        let (t, o) := Driver.handleLock tb j; (t, dv, o)
      else if Driver.getS j "m" == "dav" then
        let (d, o) := Driver.handleDav dv j; (tb, d, o)
      else (tb, dv, dispatch j)
    | .error e => (tb, dv, Driver.obj [("error", Json.str ("parse: " ++ e))])
  hout.putStrLn out.compress
  hout.flush
  loop hin hout tb' dv'

def main : IO Unit := do
  loop (← IO.getStdin) (← IO.getStdout) {}
