import Driver.Util
import Driver.Quote
import Driver.Auth
import Driver.Rights
import Driver.Trace
import Driver.Lock
import Driver.Server
import Driver.Filter
open Lean

def dispatch (j : Json) : Json :=
  match Driver.getS j "m" with
  | "quote" => Driver.handleQuote j
  | "authcache" => Driver.handleAuth j
  | "rights" => Driver.handleRights j
  | "trace" => Driver.handleTrace j
  | "server" => Driver.handleServer j
  | "filter" => Driver.handleFilter j
  | "ping" => Driver.obj [("r", Json.str "pong")]
  | _ => Driver.obj [("error", Json.str "bad-model")]

partial def loop (hin hout : IO.FS.Stream) (tb : Driver.LockTable) : IO Unit := do
  let line ← hin.getLine
  if line.isEmpty then return ()
  let (tb', out) := match Json.parse line with
    | .ok j =>
      if Driver.getS j "m" == "lock" then Driver.handleLock tb j else (tb, dispatch j)
    | .error e => (tb, Driver.obj [("error", Json.str ("parse: " ++ e))])
  hout.putStrLn out.compress
  hout.flush
  loop hin hout tb'

def main : IO Unit := do
  loop (← IO.getStdin) (← IO.getStdout) {}
