import RadicaleModel.LockCV
namespace CV
theorem countP_map_wake_R (l : List PC) : (l.map wake).countP holdR = l.countP holdR := by
  rw [List.countP_map]; congr 1; funext p; cases p <;> simp [wake, holdR, Function.comp]
theorem countP_map_wake_W (l : List PC) : (l.map wake).countP holdW = l.countP holdW := by
  rw [List.countP_map]; congr 1; funext p; cases p <;> simp [wake, holdW, Function.comp]
theorem not_asleep_map_wake (l : List PC) (m : Mode) : PC.asleep m ∉ l.map wake := by
  intro h; rcases List.mem_map.1 h with ⟨p, _, hp⟩; cases p <;> simp [wake] at hp

theorem mem_set_cases {l : List PC} {t : Nat} {a p : PC} (h : p ∈ l.set t a) : p = a ∨ p ∈ l := by
  rcases List.mem_or_eq_of_mem_set h with h | h
  · exact Or.inr h
  · exact Or.inl h

end CV


namespace CV
open List

theorem cR_pos {l : List PC} {t : Nat} (h : t < l.length) (hp : holdR l[t] = true) : 0 < l.countP holdR :=
  List.countP_pos_iff.2 ⟨l[t], List.getElem_mem h, hp⟩
theorem cW_pos {l : List PC} {t : Nat} (h : t < l.length) (hp : holdW l[t] = true) : 0 < l.countP holdW :=
  List.countP_pos_iff.2 ⟨l[t], List.getElem_mem h, hp⟩

/-- numeric part of the invariant after changing thread `t` from pc `a` (its current pc) to `b`. -/
theorem num_set {l : List PC} {t : Nat} (h : t < l.length) (b : PC) :
    (l.set t b).countP holdR + (if holdR l[t] then 1 else 0) = l.countP holdR + (if holdR b then 1 else 0) ∧
    (l.set t b).countP holdW + (if holdW l[t] then 1 else 0) = l.countP holdW + (if holdW b then 1 else 0) := by
  have h1 := countP_set (p := holdR) (a := b) h
  have h2 := countP_set (p := holdW) (a := b) h
  have h3 : (if holdR l[t] = true then 1 else 0) ≤ l.countP holdR := by
    split
    · exact cR_pos h ‹_›
    · omega
  have h4 : (if holdW l[t] = true then 1 else 0) ≤ l.countP holdW := by
    split
    · exact cW_pos h ‹_›
    · omega
  omega

theorem sl_set {l : List PC} {t : Nat} {b : PC} {P : PC → Prop} (hb : P b) (hl : ∀ p ∈ l, P p) :
    ∀ p ∈ l.set t b, P p := by
  intro p hp
  rcases List.mem_or_eq_of_mem_set hp with h | h
  · exact hl p h
  · exact h ▸ hb

theorem inv_step {s s' : State} (hi : Inv s) (hs : Step s s') : Inv s' := by
  obtain ⟨rd, wr, w1, ex, slR, slW⟩ := hi
  cases hs with
  | request t m h hpc =>
    obtain ⟨nR, nW⟩ := num_set h (.wantA m)
    simp [hpc, holdR, holdW] at nR nW
    exact ⟨by simp [nR, rd], by simp [nW, wr], by simp [nW, w1], by simpa [nR, nW] using ex,
      sl_set (by simp) slR, sl_set (by simp) slW⟩
  | lockA t m h hpc hm =>
    obtain ⟨nR, nW⟩ := num_set h (.testA m)
    simp [hpc, holdR, holdW] at nR nW
    exact ⟨by simp [nR, rd], by simp [nW, wr], by simp [nW, w1], by simpa [nR, nW] using ex,
      sl_set (by simp) slR, sl_set (by simp) slW⟩
  | relock t m h hpc hm =>
    obtain ⟨nR, nW⟩ := num_set h (.testA m)
    simp [hpc, holdR, holdW] at nR nW
    exact ⟨by simp [nR, rd], by simp [nW, wr], by simp [nW, w1], by simpa [nR, nW] using ex,
      sl_set (by simp) slR, sl_set (by simp) slW⟩
  | okR t h hpc hp =>
    obtain ⟨nR, nW⟩ := num_set h (.exitA .r)
    simp [hpc, holdR, holdW] at nR nW
    have hw : s.writer = false := by simpa [pred] using hp
    have hW0 : s.pcs.countP holdW = 0 := by rw [hw] at wr; simpa using wr.symm
    exact ⟨by simp [nR, rd], by simp [nW, hw, hW0], by simp [nW, w1], by simp [nW, hW0],
      sl_set (by simp) (fun p hp hq => by simpa [hw] using slR p hp hq), sl_set (by simp) (fun p hp hq => Or.inr (by simp))⟩
  | okW t h hpc hp =>
    obtain ⟨nR, nW⟩ := num_set h (.exitA .w)
    simp [hpc, holdR, holdW] at nR nW
    have hw : s.writer = false ∧ s.readers = 0 := by simpa [pred] using hp
    have hW0 : s.pcs.countP holdW = 0 := by rw [hw.1] at wr; simpa using wr.symm
    have hR0 : s.pcs.countP holdR = 0 := by rw [← rd]; exact hw.2
    exact ⟨by simp [nR, hR0, hw.2], by simp [nW], by simp [nW, hW0], by simp [nR, hR0],
      fun p _ _ => rfl, fun p _ _ => Or.inl rfl⟩
  | sleep t m h hpc hp =>
    obtain ⟨nR, nW⟩ := num_set h (.asleep m)
    simp [hpc, holdR, holdW] at nR nW
    refine ⟨by simp [nR, rd], by simp [nW, wr], by simp [nW, w1], by simpa [nR, nW] using ex, ?_, ?_⟩
    · refine sl_set ?_ slR
      intro hq; cases hq; simpa [pred] using hp
    · refine sl_set ?_ slW
      intro hq; cases hq
      have : ¬ (s.writer = false ∧ s.readers = 0) := by simpa [pred] using hp
      cases hwv : s.writer with
      | true => exact Or.inl rfl
      | false =>
        right
        have h0 : s.readers ≠ 0 := by simpa [hwv] using this
        exact Nat.pos_of_ne_zero h0
  | exitA t m h hpc =>
    obtain ⟨nR, nW⟩ := num_set h (.cs m)
    cases m <;> simp [hpc, holdR, holdW] at nR nW <;>
    exact ⟨by simp [nR, rd], by simp [nW, wr], by simp [nW, w1], by simpa [nR, nW] using ex,
      sl_set (by simp) slR, sl_set (by simp) slW⟩
  | leave t m h hpc =>
    obtain ⟨nR, nW⟩ := num_set h (.wantR m)
    cases m <;> simp [hpc, holdR, holdW] at nR nW <;>
    exact ⟨by simp [nR, rd], by simp [nW, wr], by simp [nW, w1], by simpa [nR, nW] using ex,
      sl_set (by simp) slR, sl_set (by simp) slW⟩
  | lockR t m h hpc hm =>
    obtain ⟨nR, nW⟩ := num_set h (.bookR m)
    cases m <;> simp [hpc, holdR, holdW] at nR nW <;>
    exact ⟨by simp [nR, rd], by simp [nW, wr], by simp [nW, w1], by simpa [nR, nW] using ex,
      sl_set (by simp) slR, sl_set (by simp) slW⟩
  | bookRr t h hpc =>
    obtain ⟨nR, nW⟩ := num_set h .exitR
    simp [hpc, holdR, holdW] at nR nW
    have hRpos : 0 < s.pcs.countP holdR := cR_pos h (by simp [hpc, holdR])
    have hW0 : s.pcs.countP holdW = 0 := by
      rcases Nat.eq_zero_or_pos (s.pcs.countP holdW) with h0 | hp
      · exact h0
      · have := ex hp; omega
    by_cases hz : s.readers - 1 = 0
    · simp only [hz, if_true]
      refine ⟨?_, ?_, ?_, ?_, ?_, ?_⟩
      · simp only [countP_map_wake_R]; omega
      · simp only [countP_map_wake_W]; simp [nW, hW0]
      · simp only [countP_map_wake_W]; omega
      · simp only [countP_map_wake_W, countP_map_wake_R]; intro; omega
      · intro p hp hq; exact absurd (hq ▸ hp) (not_asleep_map_wake _ _)
      · intro p hp hq; exact absurd (hq ▸ hp) (not_asleep_map_wake _ _)
    · simp only [hz, if_false]
      refine ⟨by dsimp only; omega, by simp [nW, hW0], by dsimp only; omega, by dsimp only; intro; omega, ?_, ?_⟩
      · refine sl_set (by simp) ?_
        intro p hp hq
        have := slR p hp hq
        rw [wr, hW0] at this; simp at this
      · refine sl_set (by simp) ?_
        intro p hp hq; right; show 0 < s.readers - 1; omega
  | bookRw t h hpc =>
    obtain ⟨nR, nW⟩ := num_set h .exitR
    simp [hpc, holdR, holdW] at nR nW
    have hWpos : 0 < s.pcs.countP holdW := cW_pos h (by simp [hpc, holdW])
    have hR0 : s.pcs.countP holdR = 0 := ex hWpos
    have hr0 : s.readers = 0 := by rw [rd]; exact hR0
    simp only [hr0, if_true]
    refine ⟨?_, ?_, ?_, ?_, ?_, ?_⟩
    · simp only [countP_map_wake_R]; omega
    · simp only [countP_map_wake_W]; have : countP holdW (s.pcs.set t PC.exitR) = 0 := by omega
      simp [this]
    · simp only [countP_map_wake_W]; omega
    · simp only [countP_map_wake_W, countP_map_wake_R]; intro; omega
    · intro p hp hq; exact absurd (hq ▸ hp) (not_asleep_map_wake _ _)
    · intro p hp hq; exact absurd (hq ▸ hp) (not_asleep_map_wake _ _)
  | exitR t h hpc =>
    obtain ⟨nR, nW⟩ := num_set h .idle
    simp [hpc, holdR, holdW] at nR nW
    exact ⟨by simp [nR, rd], by simp [nW, wr], by simp [nW, w1], by simpa [nR, nW] using ex,
      sl_set (by simp) slR, sl_set (by simp) slW⟩

/-- mutual exclusion: a writer in its critical section excludes every other holder -/
theorem exclusion {s : State} (hi : Inv s) {t u : Nat} (ht : t < s.pcs.length) (hu : u < s.pcs.length)
    (hw : holdW s.pcs[t] = true) (hh : holdW s.pcs[u] = true ∨ holdR s.pcs[u] = true) : t = u := by
  rcases hh with hh | hh
  · -- two writers: countP holdW ≥ 2 unless same index
    by_cases hne : t = u
    · exact hne
    exfalso
    have h1 := hi.w1
    have : 2 ≤ s.pcs.countP holdW := by
      obtain ⟨_, nW⟩ := num_set ht PC.idle
      have hidle : holdW PC.idle = false := rfl
      rw [hw, hidle] at nW
      simp at nW
      have hu' : u < (s.pcs.set t .idle).length := by simpa using hu
      have hget : (s.pcs.set t .idle)[u] = s.pcs[u] := by
        rw [List.getElem_set]; simp [hne]
      have := cW_pos hu' (by rw [hget]; exact hh)
      omega
    omega
  · have := hi.ex (cW_pos ht hw)
    have := cR_pos hu hh
    omega

end CV

namespace CV

theorem next_sound {s s' : State} {t : Nat} {m : Mode} (h : next s t m = some s') : Step s s' := by
  unfold next at h
  cases hp : s.pcs[t]? with
  | none => simp [hp] at h
  | some pc =>
    obtain ⟨ht, hpc⟩ := List.getElem?_eq_some_iff.1 hp
    rw [hp] at h
    cases pc with
    | idle => simp at h; subst h; exact Step.request s t m ht hpc
    | wantA m' =>
      simp only at h
      split at h
      · simp at h; subst h; exact Step.lockA s t m' ht hpc ‹_›
      · simp at h
    | woken m' =>
      simp only at h
      split at h
      · simp at h; subst h; exact Step.relock s t m' ht hpc ‹_›
      · simp at h
    | testA m' =>
      cases m' with
      | r =>
        simp only at h
        split at h
        · simp at h; subst h; exact Step.okR s t ht hpc ‹_›
        · simp at h; subst h; exact Step.sleep s t .r ht hpc (by simpa using ‹¬ pred s .r = true›)
      | w =>
        simp only at h
        split at h
        · simp at h; subst h; exact Step.okW s t ht hpc ‹_›
        · simp at h; subst h; exact Step.sleep s t .w ht hpc (by simpa using ‹¬ pred s .w = true›)
    | exitA m' => simp at h; subst h; exact Step.exitA s t m' ht hpc
    | asleep m' => simp at h
    | cs m' => simp at h; subst h; exact Step.leave s t m' ht hpc
    | wantR m' =>
      simp only at h
      split at h
      · simp at h; subst h; exact Step.lockR s t m' ht hpc ‹_›
      · simp at h
    | bookR m' =>
      cases m' with
      | r =>
        simp only [Option.some.injEq] at h; subst h; exact Step.bookRr s t ht hpc
      | w =>
        simp only [Option.some.injEq] at h; subst h; exact Step.bookRw s t ht hpc
    | exitR => simp at h; subst h; exact Step.exitR s t ht hpc

inductive Reachable (n : Nat) : State → Prop
  | init : Reachable n (init n)
  | step {s s'} : Reachable n s → Step s s' → Reachable n s'

theorem inv_init (n : Nat) : Inv (init n) := by
  refine ⟨?_, ?_, ?_, ?_, ?_, ?_⟩ <;> simp [init, List.countP_replicate, holdR, holdW]

theorem reachable_inv {n : Nat} {s : State} (h : Reachable n s) : Inv s := by
  induction h with
  | init => exact inv_init n
  | step _ hs ih => exact inv_step ih hs

/-- mutual exclusion for every reachable state and any number of threads -/
theorem reachable_exclusion {n : Nat} {s : State} (h : Reachable n s) {t u : Nat}
    (ht : t < s.pcs.length) (hu : u < s.pcs.length)
    (hw : holdW s.pcs[t] = true) (hh : holdW s.pcs[u] = true ∨ holdR s.pcs[u] = true) : t = u :=
  exclusion (reachable_inv h) ht hu hw hh

/-- inside the critical section `locked` reports the mode actually held -/
theorem locked_view {s : State} (hi : Inv s) {t : Nat} (ht : t < s.pcs.length) {m : Mode}
    (hcs : s.pcs[t] = .cs m) : lockedView s = some m := by
  unfold lockedView
  cases m with
  | r =>
    have : 0 < s.pcs.countP holdR := cR_pos ht (by simp [hcs, holdR])
    have hr : s.readers > 0 := by rw [hi.rd]; exact this
    simp [hr]
  | w =>
    have hW : 0 < s.pcs.countP holdW := cW_pos ht (by simp [hcs, holdW])
    have hR0 := hi.ex hW
    have hr : s.readers = 0 := by rw [hi.rd]; exact hR0
    have hw : s.writer = true := by rw [hi.wr]; simpa using hW
    simp [hr, hw]

/-- the lock's own view is "free" exactly when nobody holds it -/
theorem locked_view_free {s : State} (hi : Inv s) :
    lockedView s = none ↔ (s.pcs.countP holdR = 0 ∧ s.pcs.countP holdW = 0) := by
  unfold lockedView
  rw [hi.rd, hi.wr]
  constructor
  · intro h
    by_cases hr : s.pcs.countP holdR > 0
    · simp [hr] at h
    · by_cases hw : 0 < s.pcs.countP holdW
      · simp [hr, hw] at h
      · omega
  · intro ⟨h1, h2⟩
    simp [h1, h2]

end CV

namespace CV

/-- who owns the internal mutex -/
structure MInv (s : State) : Prop where
  own : ∀ t, s.mutex = some t → ∃ h : t < s.pcs.length, holdsM s.pcs[t] = true
  uniq : ∀ t (h : t < s.pcs.length), holdsM s.pcs[t] = true → s.mutex = some t

theorem holdsM_wake (p : PC) : holdsM (wake p) = holdsM p := by cases p <;> rfl

theorem minv_init (n : Nat) : MInv (init n) := by
  constructor
  · intro t h; simp [init] at h
  · intro t h hh; simp [init, holdsM] at hh

/-- generic update lemma: thread `t` moves to `b`, the mutex becomes `mu'`, other threads' pcs change only
    through `f` which preserves `holdsM` -/
theorem minv_update {s : State} (hm : MInv s) {t : Nat} (ht : t < s.pcs.length) (b : PC) (mu' : Option Nat)
    (f : PC → PC) (hf : ∀ p, holdsM (f p) = holdsM p)
    (hcase : (holdsM s.pcs[t] = false ∧ s.mutex = none ∧ holdsM b = true ∧ mu' = some t) ∨
             (holdsM s.pcs[t] = true ∧ holdsM b = false ∧ mu' = none) ∨
             (holdsM s.pcs[t] = holdsM b ∧ mu' = s.mutex))
    (r : Nat) (w : Bool) :
    MInv ⟨r, w, mu', (s.pcs.set t b).map f⟩ := by
  have hget : ∀ u (hu : u < s.pcs.length), holdsM (((s.pcs.set t b).map f)[u]'(by simpa using hu)) =
      if u = t then holdsM b else holdsM s.pcs[u] := by
    intro u hu
    simp only [List.getElem_map, hf, List.getElem_set]
    by_cases e : t = u
    · simp [e]
    · have : ¬ u = t := fun x => e x.symm
      simp [e, this]
  constructor
  · intro u hu
    simp only at hu
    have hlen : ((s.pcs.set t b).map f).length = s.pcs.length := by simp
    rcases hcase with ⟨_, hmu, hb, rfl⟩ | ⟨hp, hb, rfl⟩ | ⟨hp, rfl⟩
    · simp only [Option.some.injEq] at hu; subst hu
      exact ⟨by simpa using ht, by rw [hget t ht]; simp [hb]⟩
    · simp at hu
    · obtain ⟨hu', hh⟩ := hm.own u hu
      refine ⟨by simpa using hu', ?_⟩
      rw [hget u hu']
      by_cases e : u = t
      · subst e; simp [← hp, hh]
      · simp [e, hh]
  · intro u hu hh
    have hu' : u < s.pcs.length := by simpa using hu
    simp only at hh ⊢
    rw [hget u hu'] at hh
    rcases hcase with ⟨hp, hmu, hb, rfl⟩ | ⟨hp, hb, rfl⟩ | ⟨hp, rfl⟩
    · by_cases e : u = t
      · subst e; rfl
      · simp only [e, if_false] at hh
        have := hm.uniq u hu' hh
        rw [hmu] at this; cases this
    · by_cases e : u = t
      · subst e; simp [hb] at hh
      · simp only [e, if_false] at hh
        have h1 := hm.uniq u hu' hh
        have h2 := hm.uniq t ht hp
        rw [h1] at h2
        simp only [Option.some.injEq] at h2
        exact absurd h2 e
    · by_cases e : u = t
      · subst e
        simp only [if_true] at hh
        exact hm.uniq u hu' (by rw [hp]; exact hh)
      · simp only [e, if_false] at hh
        exact hm.uniq u hu' hh

theorem map_id' (l : List PC) : l.map (fun p => p) = l := by simp

theorem minv_step {s s' : State} (hm : MInv s) (hs : Step s s') : MInv s' := by
  have hid : ∀ p : PC, holdsM ((fun p => p) p) = holdsM p := fun _ => rfl
  cases hs with
  | request t m h hpc =>
    have := minv_update hm h (.wantA m) s.mutex (fun p => p) hid (Or.inr (Or.inr ⟨by simp [hpc, holdsM], rfl⟩)) s.readers s.writer
    simpa using this
  | lockA t m h hpc hmu =>
    have := minv_update hm h (.testA m) (some t) (fun p => p) hid (Or.inl ⟨by simp [hpc, holdsM], hmu, rfl, rfl⟩) s.readers s.writer
    simpa using this
  | relock t m h hpc hmu =>
    have := minv_update hm h (.testA m) (some t) (fun p => p) hid (Or.inl ⟨by simp [hpc, holdsM], hmu, rfl, rfl⟩) s.readers s.writer
    simpa using this
  | okR t h hpc hp =>
    have := minv_update hm h (.exitA .r) s.mutex (fun p => p) hid (Or.inr (Or.inr ⟨by simp [hpc, holdsM], rfl⟩)) (s.readers + 1) s.writer
    simpa using this
  | okW t h hpc hp =>
    have := minv_update hm h (.exitA .w) s.mutex (fun p => p) hid (Or.inr (Or.inr ⟨by simp [hpc, holdsM], rfl⟩)) s.readers true
    simpa using this
  | sleep t m h hpc hp =>
    have := minv_update hm h (.asleep m) none (fun p => p) hid (Or.inr (Or.inl ⟨by simp [hpc, holdsM], rfl, rfl⟩)) s.readers s.writer
    simpa using this
  | exitA t m h hpc =>
    have := minv_update hm h (.cs m) none (fun p => p) hid (Or.inr (Or.inl ⟨by simp [hpc, holdsM], rfl, rfl⟩)) s.readers s.writer
    simpa using this
  | leave t m h hpc =>
    have := minv_update hm h (.wantR m) s.mutex (fun p => p) hid (Or.inr (Or.inr ⟨by simp [hpc, holdsM], rfl⟩)) s.readers s.writer
    simpa using this
  | lockR t m h hpc hmu =>
    have := minv_update hm h (.bookR m) (some t) (fun p => p) hid (Or.inl ⟨by simp [hpc, holdsM], hmu, rfl, rfl⟩) s.readers s.writer
    simpa using this
  | bookRr t h hpc =>
    by_cases hz : s.readers - 1 = 0
    · have := minv_update hm h .exitR s.mutex wake holdsM_wake (Or.inr (Or.inr ⟨by simp [hpc, holdsM], rfl⟩)) (s.readers - 1) false
      simpa [hz] using this
    · have := minv_update hm h .exitR s.mutex (fun p => p) hid (Or.inr (Or.inr ⟨by simp [hpc, holdsM], rfl⟩)) (s.readers - 1) false
      simpa [hz] using this
  | bookRw t h hpc =>
    by_cases hz : s.readers = 0
    · have := minv_update hm h .exitR s.mutex wake holdsM_wake (Or.inr (Or.inr ⟨by simp [hpc, holdsM], rfl⟩)) s.readers false
      simpa [hz] using this
    · have := minv_update hm h .exitR s.mutex (fun p => p) hid (Or.inr (Or.inr ⟨by simp [hpc, holdsM], rfl⟩)) s.readers false
      simpa [hz] using this
  | exitR t h hpc =>
    have := minv_update hm h .idle none (fun p => p) hid (Or.inr (Or.inl ⟨by simp [hpc, holdsM], rfl, rfl⟩)) s.readers s.writer
    simpa using this

theorem reachable_minv {n : Nat} {s : State} (h : Reachable n s) : MInv s := by
  induction h with
  | init => exact minv_init n
  | step _ hs ih => exact minv_step ih hs

end CV

namespace CV

/-- no lost wake-up: whenever the wait predicate of a mode holds, no thread is asleep waiting for that mode -/
theorem no_lost_wakeup {s : State} (hi : Inv s) (m : Mode) (hp : pred s m = true) : PC.asleep m ∉ s.pcs := by
  intro hmem
  cases m with
  | r =>
    have := hi.slR _ hmem rfl
    simp [pred, this] at hp
  | w =>
    have := hi.slW _ hmem rfl
    simp only [pred, Bool.and_eq_true, Bool.not_eq_eq_eq_not, Bool.not_true, beq_iff_eq] at hp
    rcases this with h | h
    · rw [hp.1] at h; cases h
    · omega

theorem exists_of_countP_pos {l : List PC} {p : PC → Bool} (h : 0 < l.countP p) :
    ∃ u, ∃ hu : u < l.length, p l[u] = true := by
  obtain ⟨x, hx, hpx⟩ := List.countP_pos_iff.1 h
  obtain ⟨u, hu, rfl⟩ := List.getElem_of_mem hx
  exact ⟨u, hu, hpx⟩

/-- a thread that holds the lock (in the sense of the bookkeeping) and not the mutex can always take a step -/
theorem holder_can_step {s : State} (hm : MInv s) (hmu : s.mutex = none) {u : Nat} (hu : u < s.pcs.length)
    (hh : holdW s.pcs[u] = true ∨ holdR s.pcs[u] = true) : ∃ s', next s u .r = some s' := by
  have hnot : holdsM s.pcs[u] = false := by
    cases h : holdsM s.pcs[u] with
    | false => rfl
    | true => have := hm.uniq u hu h; rw [hmu] at this; cases this
  unfold next
  rw [List.getElem?_eq_getElem hu]
  cases hpc : s.pcs[u] with
  | idle => exact ⟨_, rfl⟩
  | cs m' => exact ⟨_, rfl⟩
  | wantR m' => simp [hmu]
  | wantA m' => simp [hmu]
  | woken m' => simp [hmu]
  | asleep m' => rw [hpc] at hh; simp [holdW, holdR] at hh
  | testA m' => rw [hpc] at hnot; simp [holdsM] at hnot
  | exitA m' => rw [hpc] at hnot; simp [holdsM] at hnot
  | bookR m' => rw [hpc] at hnot; simp [holdsM] at hnot
  | exitR => rw [hpc] at hnot; simp [holdsM] at hnot

/-- Deadlock freedom: as long as some thread is not idle, some thread can take a step. -/
theorem deadlock_free {s : State} (hi : Inv s) (hm : MInv s)
    (hne : ∃ t, ∃ ht : t < s.pcs.length, s.pcs[t] ≠ .idle) : ∃ t m s', next s t m = some s' := by
  cases hmu : s.mutex with
  | some t =>
    obtain ⟨ht, hh⟩ := hm.own t hmu
    refine ⟨t, .r, ?_⟩
    unfold next
    rw [List.getElem?_eq_getElem ht]
    cases hpc : s.pcs[t] with
    | testA m' => cases m' <;> simp only <;> split <;> exact ⟨_, rfl⟩
    | exitA m' => exact ⟨_, rfl⟩
    | bookR m' => cases m' <;> exact ⟨_, rfl⟩
    | exitR => exact ⟨_, rfl⟩
    | idle => rw [hpc] at hh; simp [holdsM] at hh
    | wantA _ => rw [hpc] at hh; simp [holdsM] at hh
    | woken _ => rw [hpc] at hh; simp [holdsM] at hh
    | asleep _ => rw [hpc] at hh; simp [holdsM] at hh
    | cs _ => rw [hpc] at hh; simp [holdsM] at hh
    | wantR _ => rw [hpc] at hh; simp [holdsM] at hh
  | none =>
    obtain ⟨t, ht, hnidle⟩ := hne
    have hnot : holdsM s.pcs[t] = false := by
      cases h : holdsM s.pcs[t] with
      | false => rfl
      | true => have := hm.uniq t ht h; rw [hmu] at this; cases this
    cases hpc : s.pcs[t] with
    | idle => exact absurd hpc hnidle
    | wantA m' => exact ⟨t, .r, by unfold next; rw [List.getElem?_eq_getElem ht, hpc]; simp [hmu]⟩
    | woken m' => exact ⟨t, .r, by unfold next; rw [List.getElem?_eq_getElem ht, hpc]; simp [hmu]⟩
    | wantR m' => exact ⟨t, .r, by unfold next; rw [List.getElem?_eq_getElem ht, hpc]; simp [hmu]⟩
    | cs m' => exact ⟨t, .r, by unfold next; rw [List.getElem?_eq_getElem ht, hpc]; exact ⟨_, rfl⟩⟩
    | testA m' => rw [hpc] at hnot; simp [holdsM] at hnot
    | exitA m' => rw [hpc] at hnot; simp [holdsM] at hnot
    | bookR m' => rw [hpc] at hnot; simp [holdsM] at hnot
    | exitR => rw [hpc] at hnot; simp [holdsM] at hnot
    | asleep m' =>
      -- somebody holds the lock and can move on
      have hmem : PC.asleep m' ∈ s.pcs := by rw [← hpc]; exact List.getElem_mem ht
      have hholder : 0 < s.pcs.countP holdW ∨ 0 < s.pcs.countP holdR := by
        cases m' with
        | r =>
          have := hi.slR _ hmem rfl
          rw [hi.wr] at this
          exact Or.inl (by simpa using this)
        | w =>
          rcases hi.slW _ hmem rfl with h | h
          · rw [hi.wr] at h; exact Or.inl (by simpa using h)
          · rw [hi.rd] at h; exact Or.inr h
      rcases hholder with h | h
      · obtain ⟨u, hu, hpu⟩ := exists_of_countP_pos h
        obtain ⟨s', hs'⟩ := holder_can_step hm hmu hu (Or.inl hpu)
        exact ⟨u, .r, s', hs'⟩
      · obtain ⟨u, hu, hpu⟩ := exists_of_countP_pos h
        obtain ⟨s', hs'⟩ := holder_can_step hm hmu hu (Or.inr hpu)
        exact ⟨u, .r, s', hs'⟩

end CV
