import RadicaleModel.Conc
/-
  Windows under a readers-writer lock are linearizable in the order of acquisition.
-/
namespace Radicale
namespace Conc

variable {σ Obs : Type}

theorem runBody_append (a b : List (σ → σ × Obs)) (s : σ) :
    runBody (a ++ b) s = ((runBody b (runBody a s).1).1, (runBody a s).2 ++ (runBody b (runBody a s).1).2) := by
  induction a generalizing s with
  | nil => simp [runBody]
  | cons op rest ih => simp [runBody, ih]

theorem runBody_readonly (ops : List (σ → σ × Obs)) (h : ∀ op ∈ ops, ∀ s, (op s).1 = s) (s : σ) : (runBody ops s).1 = s := by
  induction ops generalizing s with
  | nil => rfl
  | cons op rest ih =>
    simp only [runBody]
    rw [h op (by simp) s]
    exact ih (fun o ho => h o (List.mem_cons_of_mem _ ho)) s

theorem take_succ_of_get {α : Type} (l : List α) (k : Nat) (x : α) (h : l[k]? = some x) : l.take (k + 1) = l.take k ++ [x] := by
  induction l generalizing k with
  | nil => simp at h
  | cons y ys ih =>
    cases k with
    | zero => simp at h; simp [h]
    | succ n => simp at h; simp [ih n h]

theorem get_lt {α : Type} (l : List α) (k : Nat) (x : α) (h : l[k]? = some x) : k < l.length := by
  by_cases c : k < l.length
  · exact c
  · simp [List.getElem?_eq_none (Nat.le_of_not_lt c)] at h

theorem serialFinal_append (ws : Nat → Window σ Obs) (l : List Nat) (i : Nat) (s : σ) :
    serialFinal ws (l ++ [i]) s = (runBody (ws i).ops (serialFinal ws l s)).1 := by
  induction l generalizing s with
  | nil => rfl
  | cons j rest ih => simp [serialFinal, ih]

theorem serialTrace_append (ws : Nat → Window σ Obs) (l : List Nat) (i : Nat) (s : σ) :
    serialTrace ws (l ++ [i]) s = serialTrace ws l s ++ [(i, serialFinal ws l s)] := by
  induction l generalizing s with
  | nil => rfl
  | cons j rest ih => simp [serialTrace, serialFinal, ih]

/-- bodies of shared windows leave the abstract store alone -/
def ReadOnly (ws : Nat → Window σ Obs) : Prop := ∀ i, (ws i).mode = .r → ∀ op ∈ (ws i).ops, ∀ s, (op s).1 = s

structure Inv (ws : Nat → Window σ Obs) (s0 : σ) (c : Config σ Obs) : Prop where
  trace : c.acq = serialTrace ws (c.acq.map (·.1)) s0
  waiting : ∀ i, c.st i = .waiting → i ∉ c.acq.map (·.1)
  acquired : ∀ i, c.st i ≠ .waiting → i ∈ c.acq.map (·.1)
  excl : ∀ i j, i ≠ j → isRunning (c.st i) = true → isRunning (c.st j) = true → (ws i).mode = .r ∧ (ws j).mode = .r
  quiet : (∀ j, isRunning (c.st j) = true → (ws j).mode = .r) → c.s = serialFinal ws (c.acq.map (·.1)) s0
  writer : ∀ i k, c.st i = .running k → (ws i).mode = .w →
      ∃ pre b, c.acq = pre ++ [(i, b)] ∧ c.s = (runBody ((ws i).ops.take k) b).1
  reader : ∀ i b k, (i, b) ∈ c.acq → c.st i = .running k → (ws i).mode = .r → c.s = b
  obsRun : ∀ i b k, (i, b) ∈ c.acq → c.st i = .running k →
      c.obs i = (runBody ((ws i).ops.take k) b).2 ∧ k ≤ (ws i).ops.length
  obsDone : ∀ i b, (i, b) ∈ c.acq → c.st i = .done → c.obs i = (runBody (ws i).ops b).2
  nodup : (c.acq.map (·.1)).Nodup
  waitingObs : ∀ i, c.st i = .waiting → c.obs i = []

theorem inv_init (ws : Nat → Window σ Obs) (s0 : σ) : Inv ws s0 ⟨s0, fun _ => .waiting, [], fun _ => []⟩ := by
  refine ⟨rfl, by simp, by simp, by simp [isRunning], by intro _; rfl, by simp, by simp, by simp, by simp, by simp, by simp⟩

theorem mode_cases (m : Mode) : m = .r ∨ m = .w := by cases m <;> simp

theorem keys_unique (l : List (Nat × σ)) (hn : (l.map (·.1)).Nodup) (i : Nat) (a b : σ) (ha : (i, a) ∈ l) (hb : (i, b) ∈ l) :
    a = b := by
  induction l with
  | nil => simp at ha
  | cons p ps ih =>
    simp only [List.map_cons, List.nodup_cons] at hn
    rcases List.mem_cons.mp ha with ha | ha <;> rcases List.mem_cons.mp hb with hb | hb
    · rw [← ha] at hb; injection hb with _ h2; exact h2.symm
    · exact absurd (List.mem_map.mpr ⟨(i, b), hb, by rw [← ha]⟩) hn.1
    · exact absurd (List.mem_map.mpr ⟨(i, a), ha, by rw [← hb]⟩) hn.1
    · exact ih hn.2 ha hb

theorem mem_keys (l : List (Nat × σ)) (i : Nat) (h : i ∈ l.map (·.1)) : ∃ b, (i, b) ∈ l := by
  obtain ⟨p, hp, he⟩ := List.mem_map.mp h
  exact ⟨p.2, by rw [← he]; exact hp⟩

theorem inv_acquire (ws : Nat → Window σ Obs) (hro : ReadOnly ws) (s0 : σ) (c : Config σ Obs) (hi : Inv ws s0 c) (i : Nat)
    (hw : c.st i = .waiting) (ha : admits ws c i) :
    Inv ws s0 { c with st := upd c.st i (.running 0), acq := c.acq ++ [(i, c.s)] } := by
  have hq : c.s = serialFinal ws (c.acq.map (·.1)) s0 := hi.quiet (fun j hj => (ha j hj).1)
  have hnot : i ∉ c.acq.map (·.1) := hi.waiting i hw
  refine ⟨?_, ?_, ?_, ?_, ?_, ?_, ?_, ?_, ?_, ?_, ?_⟩
  · simp only [List.map_append, List.map_cons, List.map_nil]
    rw [serialTrace_append, ← hq, ← hi.trace]
  · intro x hx
    simp only [upd] at hx
    split at hx
    · cases hx
    · rename_i hne
      simp only [List.map_append, List.map_cons, List.map_nil, List.mem_append, List.mem_singleton, not_or]
      exact ⟨hi.waiting x hx, hne⟩
  · intro x hx
    simp only [upd] at hx
    simp only [List.map_append, List.map_cons, List.map_nil, List.mem_append, List.mem_singleton]
    split at hx
    · rename_i he; exact Or.inr he
    · exact Or.inl (hi.acquired x hx)
  · intro x y hxy hx hy
    simp only [upd] at hx hy
    by_cases ex : x = i
    · subst ex
      have hy' : isRunning (c.st y) = true := by simpa [Ne.symm hxy] using hy
      exact ⟨(ha y hy').2, (ha y hy').1⟩
    · by_cases ey : y = i
      · subst ey
        have hx' : isRunning (c.st x) = true := by simpa [ex] using hx
        exact ⟨(ha x hx').1, (ha x hx').2⟩
      · exact hi.excl x y hxy (by simpa [ex] using hx) (by simpa [ey] using hy)
  · intro hall
    have hmi : (ws i).mode = .r := hall i (by simp [upd, isRunning])
    simp only [List.map_append, List.map_cons, List.map_nil]
    rw [serialFinal_append, ← hq]
    exact (runBody_readonly _ (hro i hmi) c.s).symm
  · intro x k hx hm
    simp only [upd] at hx
    split at hx
    · rename_i he
      subst he
      injection hx with hk
      subst hk
      exact ⟨c.acq, c.s, rfl, by simp [runBody]⟩
    · have := (ha x (by simp [hx, isRunning])).1
      rw [hm] at this; cases this
  · intro x b k hmem0 hx hm
    simp only [upd] at hx
    have hcase : (x, b) ∈ c.acq ∨ (x, b) ∈ [(i, c.s)] := List.mem_append.mp hmem0
    rcases hcase with hm1 | hm2
    · by_cases he : x = i
      · subst he
        have hin : x ∈ c.acq.map (·.1) := List.mem_map.mpr ⟨(x, b), hm1, rfl⟩
        exact absurd hin hnot
      · simp only [he, if_false] at hx
        exact hi.reader x b k hm1 hx hm
    · simp only [List.mem_singleton, Prod.mk.injEq] at hm2
      exact hm2.2.symm
  · intro x b k hmem0 hx
    simp only [upd] at hx ⊢
    have hcase : (x, b) ∈ c.acq ∨ (x, b) ∈ [(i, c.s)] := List.mem_append.mp hmem0
    rcases hcase with hm1 | hm2
    · by_cases he : x = i
      · subst he
        have hin : x ∈ c.acq.map (·.1) := List.mem_map.mpr ⟨(x, b), hm1, rfl⟩
        exact absurd hin hnot
      · simp only [he, if_false] at hx
        exact hi.obsRun x b k hm1 hx
    · simp only [List.mem_singleton, Prod.mk.injEq] at hm2
      obtain ⟨hxi, _⟩ := hm2
      subst hxi
      simp only [if_true] at hx
      injection hx with hk
      subst hk
      simp [runBody, hi.waitingObs x hw]
  · intro x b hmem hx
    simp only [upd] at hx
    split at hx
    · cases hx
    · rename_i hne
      rcases List.mem_append.mp hmem with hmem | hmem
      · exact hi.obsDone x b hmem hx
      · simp only [List.mem_singleton, Prod.mk.injEq] at hmem
        exact absurd hmem.1 hne
  · simp only [List.map_append, List.map_cons, List.map_nil]
    exact List.nodup_append.mpr ⟨hi.nodup, by simp, by
      intro a ha' b hb
      simp only [List.mem_singleton] at hb
      subst hb
      intro e; subst e; exact hnot ha'⟩
  · intro x hx
    simp only [upd] at hx
    split at hx
    · cases hx
    · exact hi.waitingObs x hx

theorem inv_micro (ws : Nat → Window σ Obs) (hro : ReadOnly ws) (s0 : σ) (c : Config σ Obs) (hi : Inv ws s0 c) (i k : Nat)
    (op : σ → σ × Obs) (hst : c.st i = .running k) (hop : (ws i).ops[k]? = some op) :
    Inv ws s0 { c with s := (op c.s).1, st := upd c.st i (.running (k + 1)), obs := upd c.obs i (c.obs i ++ [(op c.s).2]) } := by
  have hin : i ∈ c.acq.map (·.1) := hi.acquired i (by rw [hst]; simp)
  obtain ⟨b, hb⟩ := mem_keys c.acq i hin
  have hklt : k < (ws i).ops.length := get_lt _ k op hop
  have hopmem : op ∈ (ws i).ops := List.mem_of_getElem? hop
  have htake : (ws i).ops.take (k + 1) = (ws i).ops.take k ++ [op] := take_succ_of_get _ k op hop
  have hrunning : ∀ x, isRunning (upd c.st i (.running (k + 1)) x) = isRunning (c.st x) := by
    intro x; simp only [upd]; split
    · rename_i he; subst he; simp [hst, isRunning]
    · rfl
  -- the store the micro-operation sees is what the window's own prefix made of its starting store
  have hs : c.s = (runBody ((ws i).ops.take k) b).1 := by
    rcases mode_cases (ws i).mode with hm | hm
    · have := hi.reader i b k hb hst hm
      rw [runBody_readonly _ (fun o ho => hro i hm o (List.mem_of_mem_take ho)) b]
      exact this
    · obtain ⟨pre, b0, hacq, hs0⟩ := hi.writer i k hst hm
      have : b = b0 := keys_unique c.acq hi.nodup i b b0 hb (by rw [hacq]; simp)
      rw [this]; exact hs0
  rcases mode_cases (ws i).mode with hm | hm
  · -- a reader: the store does not change
    have hsame : (op c.s).1 = c.s := hro i hm op hopmem c.s
    refine ⟨hi.trace, ?_, ?_, ?_, ?_, ?_, ?_, ?_, ?_, hi.nodup, ?_⟩
    · intro x hx; simp only [upd] at hx; split at hx
      · cases hx
      · exact hi.waiting x hx
    · intro x hx; simp only [upd] at hx; split at hx
      · rename_i he; rw [he]; exact hin
      · exact hi.acquired x hx
    · intro x y hxy hx hy; rw [hrunning] at hx hy; exact hi.excl x y hxy hx hy
    · intro hall
      simp only [hsame]
      exact hi.quiet (fun j hj => hall j (by rw [hrunning]; exact hj))
    · intro x k' hx hmw
      simp only [upd] at hx
      split at hx
      · rename_i he; subst he; rw [hm] at hmw; cases hmw
      · simp only [hsame]; exact hi.writer x k' hx hmw
    · intro x b' k' hmem hx hmr
      simp only [upd] at hx
      simp only [hsame]
      split at hx
      · rename_i he; subst he; exact hi.reader x b' k hmem hst hmr
      · exact hi.reader x b' k' hmem hx hmr
    · intro x b' k' hmem hx
      simp only [upd] at hx ⊢
      by_cases he : x = i
      · subst he
        simp only [if_true] at hx ⊢
        injection hx with hk
        subst hk
        have hbb : b' = b := keys_unique c.acq hi.nodup x b' b hmem hb
        subst hbb
        refine ⟨?_, hklt⟩
        rw [htake, runBody_append, (hi.obsRun x b' k hmem hst).1, ← hs]
        simp [runBody]
      · simp only [he, if_false] at hx ⊢
        exact hi.obsRun x b' k' hmem hx
    · intro x b' hmem hx
      simp only [upd] at hx ⊢
      by_cases he : x = i
      · simp [he] at hx
      · simp only [he, if_false] at hx ⊢
        exact hi.obsDone x b' hmem hx
    · intro x hx
      simp only [upd] at hx ⊢
      by_cases he : x = i
      · simp [he] at hx
      · simp only [he, if_false] at hx ⊢
        exact hi.waitingObs x hx
  · -- the writer: nobody else is inside
    have halone : ∀ x, x ≠ i → isRunning (c.st x) = true → False := by
      intro x hne hx
      have := (hi.excl x i hne hx (by rw [hst]; rfl)).2
      rw [hm] at this; cases this
    obtain ⟨pre, b0, hacq, _⟩ := hi.writer i k hst hm
    have hbb0 : b = b0 := keys_unique c.acq hi.nodup i b b0 hb (by rw [hacq]; simp)
    refine ⟨hi.trace, ?_, ?_, ?_, ?_, ?_, ?_, ?_, ?_, hi.nodup, ?_⟩
    · intro x hx; simp only [upd] at hx; split at hx
      · cases hx
      · exact hi.waiting x hx
    · intro x hx; simp only [upd] at hx; split at hx
      · rename_i he; rw [he]; exact hin
      · exact hi.acquired x hx
    · intro x y hxy hx hy; rw [hrunning] at hx hy; exact hi.excl x y hxy hx hy
    · intro hall
      have := hall i (by rw [hrunning, hst]; rfl)
      rw [hm] at this; cases this
    · intro x k' hx hmw
      simp only [upd] at hx
      by_cases he : x = i
      · subst he
        simp only [if_true] at hx
        injection hx with hk
        subst hk
        refine ⟨pre, b0, hacq, ?_⟩
        show (op c.s).1 = _
        rw [htake, runBody_append, ← hbb0, ← hs]
        simp [runBody]
      · simp only [he, if_false] at hx
        exact absurd (by rw [hx]; rfl) (fun h => halone x he h)
    · intro x b' k' hmem hx hmr
      simp only [upd] at hx
      by_cases he : x = i
      · subst he; rw [hm] at hmr; cases hmr
      · simp only [he, if_false] at hx
        exact absurd (by rw [hx]; rfl) (fun h => halone x he h)
    · intro x b' k' hmem hx
      simp only [upd] at hx ⊢
      by_cases he : x = i
      · subst he
        simp only [if_true] at hx ⊢
        injection hx with hk
        subst hk
        have hbb : b' = b := keys_unique c.acq hi.nodup x b' b hmem hb
        subst hbb
        refine ⟨?_, hklt⟩
        rw [htake, runBody_append, (hi.obsRun x b' k hmem hst).1, ← hs]
        simp [runBody]
      · simp only [he, if_false] at hx ⊢
        exact hi.obsRun x b' k' hmem hx
    · intro x b' hmem hx
      simp only [upd] at hx ⊢
      by_cases he : x = i
      · simp [he] at hx
      · simp only [he, if_false] at hx ⊢
        exact hi.obsDone x b' hmem hx
    · intro x hx
      simp only [upd] at hx ⊢
      by_cases he : x = i
      · simp [he] at hx
      · simp only [he, if_false] at hx ⊢
        exact hi.waitingObs x hx

theorem inv_release (ws : Nat → Window σ Obs) (s0 : σ) (c : Config σ Obs) (hi : Inv ws s0 c) (i k : Nat)
    (hst : c.st i = .running k) (hk : k = (ws i).ops.length) :
    Inv ws s0 { c with st := upd c.st i .done } := by
  have hin : i ∈ c.acq.map (·.1) := hi.acquired i (by rw [hst]; simp)
  have hsub : ∀ x, isRunning (upd c.st i .done x) = true → isRunning (c.st x) = true ∧ x ≠ i := by
    intro x hx; simp only [upd] at hx
    by_cases he : x = i
    · simp [he, isRunning] at hx
    · simp only [he, if_false] at hx; exact ⟨hx, he⟩
  refine ⟨hi.trace, ?_, ?_, ?_, ?_, ?_, ?_, ?_, ?_, hi.nodup, ?_⟩
  · intro x hx; simp only [upd] at hx; split at hx
    · cases hx
    · exact hi.waiting x hx
  · intro x hx; simp only [upd] at hx; split at hx
    · rename_i he; rw [he]; exact hin
    · exact hi.acquired x hx
  · intro x y hxy hx hy; exact hi.excl x y hxy (hsub x hx).1 (hsub y hy).1
  · intro hall
    rcases mode_cases (ws i).mode with hm | hm
    · apply hi.quiet
      intro j hj
      by_cases he : j = i
      · rw [he]; exact hm
      · exact hall j (by simp only [upd, he, if_false]; exact hj)
    · obtain ⟨pre, b0, hacq, hs0⟩ := hi.writer i k hst hm
      have htr := hi.trace
      rw [hacq] at htr
      simp only [List.map_append, List.map_cons, List.map_nil] at htr
      rw [serialTrace_append] at htr
      have hlen : pre.length = (serialTrace ws (pre.map (·.1)) s0).length := by
        have := congrArg List.length htr
        simp only [List.length_append, List.length_cons, List.length_nil] at this
        omega
      have h2 := (List.append_inj htr hlen).2
      simp only [List.cons.injEq, Prod.mk.injEq, and_true, true_and] at h2
      show c.s = _
      rw [hacq]
      simp only [List.map_append, List.map_cons, List.map_nil]
      rw [serialFinal_append, ← h2, hs0, hk, List.take_length]
  · intro x k' hx hmw
    simp only [upd] at hx
    by_cases he : x = i
    · simp [he] at hx
    · simp only [he, if_false] at hx
      have := (hi.excl x i he (by rw [hx]; rfl) (by rw [hst]; rfl)).1
      rw [hmw] at this; cases this
  · intro x b' k' hmem hx hmr
    simp only [upd] at hx
    by_cases he : x = i
    · simp [he] at hx
    · simp only [he, if_false] at hx
      exact hi.reader x b' k' hmem hx hmr
  · intro x b' k' hmem hx
    simp only [upd] at hx
    by_cases he : x = i
    · simp [he] at hx
    · simp only [he, if_false] at hx
      exact hi.obsRun x b' k' hmem hx
  · intro x b' hmem hx
    simp only [upd] at hx
    by_cases he : x = i
    · subst he
      have := (hi.obsRun x b' k hmem hst).1
      rw [this, hk, List.take_length]
    · simp only [he, if_false] at hx
      exact hi.obsDone x b' hmem hx
  · intro x hx
    simp only [upd] at hx
    by_cases he : x = i
    · simp [he] at hx
    · simp only [he, if_false] at hx
      exact hi.waitingObs x hx

theorem inv_reach (ws : Nat → Window σ Obs) (hro : ReadOnly ws) (s0 : σ) (c : Config σ Obs) (hr : Reach ws s0 c) : Inv ws s0 c := by
  induction hr with
  | init => exact inv_init ws s0
  | step c c' _ hs ih =>
    cases hs with
    | acquire i hw ha => exact inv_acquire ws hro s0 c ih i hw ha
    | micro i k op hst hop => exact inv_micro ws hro s0 c ih i k op hst hop
    | release i k hst hk => exact inv_release ws s0 c ih i k hst hk

end Conc
end Radicale
