import RadicaleModel.Skeleton
/-
  Soundness of the static lock-discipline check: if `run sk h` says ok, every event of every execution of `sk`
  started in lock state `h` is allowed in the lock state it happens in.
-/
namespace Radicale
namespace Skeleton

def heldOf : Outcome → Held
  | .done h => h
  | .returned h => h
  | .raised h => h

structure Good (sk : Sk) (h : Held) (t : Trace) (o : Outcome) : Prop where
  events : ∀ p ∈ t, allowed p.1 p.2 = true
  post : ∀ h', o = .done h' → h' ∈ (run sk h).post
  rets : ∀ h', o = .returned h' → h' ∈ (run sk h).rets
  range : heldOf o = h ∨ heldOf o = none
  same : noUnlock sk = true → heldOf o = h

theorem mem_flatMap_of {α β : Type} (l : List α) (f : α → List β) (a : α) (b : β) (ha : a ∈ l) (hb : b ∈ f a) :
    b ∈ l.flatMap f := List.mem_flatMap.mpr ⟨a, ha, hb⟩

theorem run_sound (sk : Sk) (h : Held) (t : Trace) (o : Outcome) (hx : Exec sk h t o) :
    (run sk h).ok = true → Good sk h t o := by
  induction hx with
  | skip h => intro _; exact ⟨(by simp), (by intro h' e; cases e; simp [run]), (by intro h' e; cases e), Or.inl rfl, fun _ => rfl⟩
  | ev e h =>
    intro hok
    cases e with
    | unlock =>
      exact ⟨(by intro p hp; simp at hp; subst hp; rfl), (by intro h' e; simp at e; subst e; simp [run]),
             (by intro h' e; cases e), Or.inr (by simp [heldOf]), (by intro hn; simp [noUnlock] at hn)⟩
    | read =>
      simp only [run] at hok
      exact ⟨(by intro p hp; simp at hp; subst hp; exact hok), (by intro h' e; simp at e; subst e; simp [run]),
             (by intro h' e; cases e), Or.inl (by simp [heldOf]), fun _ => by simp [heldOf]⟩
    | write =>
      simp only [run] at hok
      exact ⟨(by intro p hp; simp at hp; subst hp; exact hok), (by intro h' e; simp at e; subst e; simp [run]),
             (by intro h' e; cases e), Or.inl (by simp [heldOf]), fun _ => by simp [heldOf]⟩
    | hook =>
      simp only [run] at hok
      exact ⟨(by intro p hp; simp at hp; subst hp; exact hok), (by intro h' e; simp at e; subst e; simp [run]),
             (by intro h' e; cases e), Or.inl (by simp [heldOf]), fun _ => by simp [heldOf]⟩
    | xml =>
      exact ⟨(by intro p hp; simp at hp; subst hp; rfl), (by intro h' e; simp at e; subst e; simp [run]),
             (by intro h' e; cases e), Or.inl (by simp [heldOf]), fun _ => by simp [heldOf]⟩
    | acquire =>
      exact ⟨(by intro p hp; simp at hp; subst hp; rfl), (by intro h' e; simp at e; subst e; simp [run]),
             (by intro h' e; cases e), Or.inl (by simp [heldOf]), fun _ => by simp [heldOf]⟩
  | evRaises e h =>
    intro hok
    refine ⟨?_, (by intro h' e; cases e), (by intro h' e; cases e), Or.inl rfl, fun _ => rfl⟩
    intro p hp
    simp at hp; subst hp
    cases e with
    | unlock => rfl
    | read => simpa [run] using hok
    | write => simpa [run] using hok
    | hook => simpa [run] using hok
    | xml => rfl
    | acquire => rfl
  | evRaises0 e h => intro _; exact ⟨(by simp), (by intro h' e; cases e), (by intro h' e; cases e), Or.inl rfl, fun _ => rfl⟩
  | ret h => intro _; exact ⟨(by simp), (by intro h' e; cases e), (by intro h' e; cases e; simp [run]), Or.inl rfl, fun _ => rfl⟩
  | raise h => intro _; exact ⟨(by simp), (by intro h' e; cases e), (by intro h' e; cases e), Or.inl rfl, fun _ => rfl⟩
  | seq a b h h1 ta tb o _ _ iha ihb =>
    intro hok
    simp only [run, Bool.and_eq_true, List.all_eq_true, List.mem_map, forall_exists_index, and_imp,
      forall_apply_eq_imp_iff₂] at hok
    have ga := iha hok.1
    have h1m : h1 ∈ (run a h).post := ga.post h1 rfl
    have gb := ihb (hok.2 h1 h1m)
    refine ⟨?_, ?_, ?_, ?_, ?_⟩
    · intro p hp
      rcases List.mem_append.mp hp with hp | hp
      · exact ga.events p hp
      · exact gb.events p hp
    · intro h' e
      simp only [run]
      exact mem_flatMap_of _ _ (run b h1) h' (List.mem_map.mpr ⟨h1, h1m, rfl⟩) (gb.post h' e)
    · intro h' e
      simp only [run]
      exact List.mem_append.mpr (Or.inr (mem_flatMap_of _ _ (run b h1) h' (List.mem_map.mpr ⟨h1, h1m, rfl⟩) (gb.rets h' e)))
    · have r1 : h1 = h ∨ h1 = none := ga.range
      rcases gb.range with r2 | r2
      · rcases r1 with r1 | r1
        · left; rw [r2, r1]
        · right; rw [r2, r1]
      · right; exact r2
    · intro hn
      simp only [noUnlock, Bool.and_eq_true] at hn
      have e1 : h1 = h := ga.same hn.1
      rw [gb.same hn.2, e1]
  | seqRet a b h h1 ta _ iha =>
    intro hok
    simp only [run, Bool.and_eq_true] at hok
    have ga := iha hok.1
    refine ⟨ga.events, (by intro h' e; cases e), ?_, ga.range, ?_⟩
    · intro h' e
      simp only [run]
      exact List.mem_append.mpr (Or.inl (ga.rets h' e))
    · intro hn
      simp only [noUnlock, Bool.and_eq_true] at hn
      exact ga.same hn.1
  | seqRaise a b h h1 ta _ iha =>
    intro hok
    simp only [run, Bool.and_eq_true] at hok
    have ga := iha hok.1
    refine ⟨ga.events, (by intro h' e; cases e), (by intro h' e; cases e), ga.range, ?_⟩
    intro hn
    simp only [noUnlock, Bool.and_eq_true] at hn
    exact ga.same hn.1
  | altL a b h t o _ ih =>
    intro hok
    simp only [run, Bool.and_eq_true] at hok
    have g := ih hok.1
    refine ⟨g.events, ?_, ?_, g.range, ?_⟩
    · intro h' e; simp only [run]; exact List.mem_append.mpr (Or.inl (g.post h' e))
    · intro h' e; simp only [run]; exact List.mem_append.mpr (Or.inl (g.rets h' e))
    · intro hn; simp only [noUnlock, Bool.and_eq_true] at hn; exact g.same hn.1
  | altR a b h t o _ ih =>
    intro hok
    simp only [run, Bool.and_eq_true] at hok
    have g := ih hok.2
    refine ⟨g.events, ?_, ?_, g.range, ?_⟩
    · intro h' e; simp only [run]; exact List.mem_append.mpr (Or.inr (g.post h' e))
    · intro h' e; simp only [run]; exact List.mem_append.mpr (Or.inr (g.rets h' e))
    · intro hn; simp only [noUnlock, Bool.and_eq_true] at hn; exact g.same hn.2
  | star0 a h =>
    intro _
    exact ⟨(by simp), (by intro h' e; cases e; simp [run]), (by intro h' e; cases e), Or.inl rfl, fun _ => rfl⟩
  | starS a h h1 ta tb o _ _ iha ihs =>
    intro hok
    have hok' := hok
    simp only [run, Bool.and_eq_true, List.all_eq_true, beq_iff_eq] at hok
    have ga := iha hok.1
    have e1 : h1 = h := hok.2 h1 (ga.post h1 rfl)
    subst e1
    have gs := ihs hok'
    refine ⟨?_, gs.post, ?_, gs.range, gs.same⟩
    · intro p hp
      rcases List.mem_append.mp hp with hp | hp
      · exact ga.events p hp
      · exact gs.events p hp
    · exact gs.rets
  | starRet a h h1 ta _ iha =>
    intro hok
    simp only [run, Bool.and_eq_true] at hok
    have ga := iha hok.1
    exact ⟨ga.events, (by intro h' e; cases e), (by intro h' e; simp only [run]; exact ga.rets h' e), ga.range,
           (by intro hn; simp only [noUnlock] at hn; exact ga.same hn)⟩
  | starRaise a h h1 ta _ iha =>
    intro hok
    simp only [run, Bool.and_eq_true] at hok
    have ga := iha hok.1
    exact ⟨ga.events, (by intro h' e; cases e), (by intro h' e; cases e), ga.range,
           (by intro hn; simp only [noUnlock] at hn; exact ga.same hn)⟩
  | lockDone m body h h1 t _ ih =>
    intro hok
    simp only [run, Bool.and_eq_true, Bool.or_eq_true, bne_iff_ne, ne_eq, List.all_eq_true, beq_iff_eq] at hok
    have g := ih hok.1.2
    have hnone : h = none := by
      cases h with
      | none => rfl
      | some x => simp at hok
    refine ⟨?_, (by intro h' e; cases e; simp [run]), (by intro h' e; cases e), Or.inr rfl, fun _ => by simp [heldOf, hnone]⟩
    intro p hp
    rcases List.mem_cons.mp hp with hp | hp
    · subst hp; rfl
    rcases List.mem_append.mp hp with hp | hp
    · exact g.events p hp
    · by_cases hm : m = .w
      · simp only [hm, if_true, List.mem_singleton] at hp
        subst hp
        rcases hok.2 with hne | hall
        · exact absurd hm hne
        · have := hall h1 (List.mem_append.mpr (Or.inl (g.post h1 rfl)))
          simp [allowed, this]
      · simp [hm] at hp
  | lockRet m body h h1 t _ ih =>
    intro hok
    simp only [run, Bool.and_eq_true, Bool.or_eq_true, bne_iff_ne, ne_eq, List.all_eq_true, beq_iff_eq] at hok
    have g := ih hok.1.2
    have hnone : h = none := by
      cases h with
      | none => rfl
      | some x => simp at hok
    refine ⟨?_, (by intro h' e; cases e), ?_, Or.inr rfl, fun _ => by simp [heldOf, hnone]⟩
    · intro p hp
      rcases List.mem_cons.mp hp with hp | hp
      · subst hp; rfl
      rcases List.mem_append.mp hp with hp | hp
      · exact g.events p hp
      · by_cases hm : m = .w
        · simp only [hm, if_true, List.mem_singleton] at hp
          subst hp
          rcases hok.2 with hne | hall
          · exact absurd hm hne
          · have := hall h1 (List.mem_append.mpr (Or.inr (g.rets h1 rfl)))
            simp [allowed, this]
        · simp [hm] at hp
    · intro h' e
      cases e
      simp only [run, List.mem_map]
      exact ⟨h1, g.rets h1 rfl, trivial⟩
  | lockRaise m body h h1 t _ ih =>
    intro hok
    simp only [run, Bool.and_eq_true] at hok
    have g := ih hok.1.2
    have hnone : h = none := by
      cases h with
      | none => rfl
      | some x => simp at hok
    refine ⟨?_, (by intro h' e; cases e), (by intro h' e; cases e), Or.inr rfl, fun _ => by simp [heldOf, hnone]⟩
    intro p hp
    rcases List.mem_cons.mp hp with hp | hp
    · subst hp; rfl
    · exact g.events p hp
  | tryOk b hd h t o _ hnr ih =>
    intro hok
    simp only [run, Bool.and_eq_true] at hok
    have g := ih hok.1
    refine ⟨g.events, ?_, ?_, g.range, ?_⟩
    · intro h' e; simp only [run]; exact List.mem_append.mpr (Or.inl (g.post h' e))
    · intro h' e; simp only [run]; exact List.mem_append.mpr (Or.inl (g.rets h' e))
    · intro hn; simp only [noUnlock, Bool.and_eq_true] at hn; exact g.same hn.1
  | tryCaught b hd h h1 t t' o _ _ ihb ihh =>
    intro hok
    simp only [run, Bool.and_eq_true, List.all_eq_true, List.mem_map, forall_exists_index, and_imp,
      forall_apply_eq_imp_iff₂] at hok
    have gb := ihb hok.1
    have hmem : h1 ∈ (if noUnlock b = true then [h] else [h, none]) := by
      by_cases hn : noUnlock b = true
      · simp only [hn, if_true, List.mem_singleton]; exact gb.same hn
      · have hn' : noUnlock b = false := by simpa using hn
        simp only [hn', Bool.false_eq_true, if_false, List.mem_cons, List.mem_nil_iff, or_false]
        exact gb.range
    have gh := ihh (hok.2 h1 hmem)
    refine ⟨?_, ?_, ?_, ?_, ?_⟩
    · intro p hp
      rcases List.mem_append.mp hp with hp | hp
      · exact gb.events p hp
      · exact gh.events p hp
    · intro h' e
      simp only [run]
      exact List.mem_append.mpr (Or.inr (mem_flatMap_of _ _ (run hd h1) h' (List.mem_map.mpr ⟨h1, hmem, rfl⟩) (gh.post h' e)))
    · intro h' e
      simp only [run]
      exact List.mem_append.mpr (Or.inr (mem_flatMap_of _ _ (run hd h1) h' (List.mem_map.mpr ⟨h1, hmem, rfl⟩) (gh.rets h' e)))
    · have r1 : h1 = h ∨ h1 = none := gb.range
      rcases gh.range with r2 | r2
      · rcases r1 with r1 | r1
        · left; rw [r2, r1]
        · right; rw [r2, r1]
      · right; exact r2
    · intro hn
      simp only [noUnlock, Bool.and_eq_true] at hn
      have e1 : h1 = h := gb.same hn.1
      rw [gh.same hn.2, e1]
  | tryUncaught b hd h h1 t _ ih =>
    intro hok
    simp only [run, Bool.and_eq_true] at hok
    have g := ih hok.1
    refine ⟨g.events, (by intro h' e; cases e), (by intro h' e; cases e), g.range, ?_⟩
    intro hn; simp only [noUnlock, Bool.and_eq_true] at hn; exact g.same hn.1
  | fnDone b h h1 t _ ih =>
    intro hok
    simp only [run] at hok
    have g := ih hok
    refine ⟨g.events, ?_, (by intro h' e; cases e), g.range, ?_⟩
    · intro h' e; simp only [run]; exact List.mem_append.mpr (Or.inl (g.post h' e))
    · intro hn; simp only [noUnlock] at hn; exact g.same hn
  | fnRet b h h1 t _ ih =>
    intro hok
    simp only [run] at hok
    have g := ih hok
    refine ⟨g.events, ?_, (by intro h' e; cases e), g.range, ?_⟩
    · intro h' e; cases e; simp only [run]; exact List.mem_append.mpr (Or.inr (g.rets h1 rfl))
    · intro hn; simp only [noUnlock] at hn; exact g.same hn
  | fnRaise b h h1 t _ ih =>
    intro hok
    simp only [run] at hok
    have g := ih hok
    exact ⟨g.events, (by intro h' e; cases e), (by intro h' e; cases e), g.range,
           (by intro hn; simp only [noUnlock] at hn; exact g.same hn)⟩

end Skeleton
end Radicale
