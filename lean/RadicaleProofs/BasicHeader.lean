import RadicaleModel.BasicHeader
import RadicaleProofs.Quote
/-
  Lemmas about the reading of the `Authorization` header (RadicaleModel/BasicHeader.lean).
-/
namespace Radicale
namespace BasicHeader
open Str

theorem dec6_enc6_all : ∀ v : Fin 64, dec6 (enc6 v.val) = some v.val ∧ enc6 v.val ≠ '=' ∧ isSpace (enc6 v.val) = false ∧
    (enc6 v.val).toNat < 128 := by decide +kernel

theorem dec6_enc6 (v : Nat) (h : v < 64) : dec6 (enc6 v) = some v := (dec6_enc6_all ⟨v, h⟩).1
theorem enc6_ne_pad (v : Nat) (h : v < 64) : enc6 v ≠ '=' := (dec6_enc6_all ⟨v, h⟩).2.1
theorem enc6_not_space (v : Nat) (h : v < 64) : isSpace (enc6 v) = false := (dec6_enc6_all ⟨v, h⟩).2.2.1
theorem enc6_ascii (v : Nat) (h : v < 64) : (enc6 v).toNat < 128 := (dec6_enc6_all ⟨v, h⟩).2.2.2

/-- one alphabet character moves the decoder on -/
theorem b64run_char (acc : List Nat) (pads : Nat) (out : List UInt8) (v : Nat) (hv : v < 64) (rest : Str) :
    b64run acc pads out (enc6 v :: rest) =
      if acc.length = 3 then b64run [] 0 (out ++ groupBytes (acc ++ [v])) rest else b64run (acc ++ [v]) 0 out rest := by
  rw [b64run]
  simp [enc6_ne_pad v hv, dec6_enc6 v hv]

theorem b64run_char_lt (acc : List Nat) (pads : Nat) (out : List UInt8) (v : Nat) (hv : v < 64) (rest : Str)
    (hl : acc.length ≠ 3) : b64run acc pads out (enc6 v :: rest) = b64run (acc ++ [v]) 0 out rest := by
  rw [b64run_char acc pads out v hv rest]; simp [hl]

theorem b64run_char_full (acc : List Nat) (pads : Nat) (out : List UInt8) (v : Nat) (hv : v < 64) (rest : Str)
    (hl : acc.length = 3) : b64run acc pads out (enc6 v :: rest) = b64run [] 0 (out ++ groupBytes (acc ++ [v])) rest := by
  rw [b64run_char acc pads out v hv rest]; simp [hl]

theorem b64run_quad (out : List UInt8) (v0 v1 v2 v3 : Nat) (h0 : v0 < 64) (h1 : v1 < 64) (h2 : v2 < 64) (h3 : v3 < 64)
    (rest : Str) :
    b64run [] 0 out (enc6 v0 :: enc6 v1 :: enc6 v2 :: enc6 v3 :: rest) = b64run [] 0 (out ++ groupBytes [v0, v1, v2, v3]) rest := by
  rw [b64run_char_lt [] 0 out v0 h0 _ (by simp)]
  simp only [List.nil_append]
  rw [b64run_char_lt [v0] 0 out v1 h1 _ (by simp)]
  simp only [List.cons_append, List.nil_append]
  rw [b64run_char_lt [v0, v1] 0 out v2 h2 _ (by simp)]
  simp only [List.cons_append, List.nil_append]
  rw [b64run_char_full [v0, v1, v2] 0 out v3 h3 _ (by simp)]
  rfl

theorem ofNat_toNat_eq (a : UInt8) (n : Nat) (h : n = a.toNat) : UInt8.ofNat n = a := by
  subst h; exact UInt8.ofNat_toNat

theorem groupBytes_quad (a b c : UInt8) :
    groupBytes [a.toNat / 4, (a.toNat % 4) * 16 + b.toNat / 16, (b.toNat % 16) * 4 + c.toNat / 64, c.toNat % 64] = [a, b, c] := by
  have ha := a.toNat_lt
  have hb := b.toNat_lt
  have hc := c.toNat_lt
  simp only [groupBytes, List.cons.injEq, and_true]
  refine ⟨ofNat_toNat_eq a _ (by omega), ofNat_toNat_eq b _ (by omega), ofNat_toNat_eq c _ (by omega)⟩

theorem groupBytes_pair (a b : UInt8) :
    groupBytes [a.toNat / 4, (a.toNat % 4) * 16 + b.toNat / 16, (b.toNat % 16) * 4] = [a, b] := by
  have ha := a.toNat_lt
  have hb := b.toNat_lt
  simp only [groupBytes, List.cons.injEq, and_true]
  refine ⟨ofNat_toNat_eq a _ (by omega), ofNat_toNat_eq b _ (by omega)⟩

theorem groupBytes_single (a : UInt8) : groupBytes [a.toNat / 4, (a.toNat % 4) * 16] = [a] := by
  have ha := a.toNat_lt
  simp only [groupBytes, List.cons.injEq, and_true]
  exact ofNat_toNat_eq a _ (by omega)

/-- **base-64 round trip**: the lenient decoder gives back every byte string from its canonical encoding -/
theorem b64run_encode (bs : List UInt8) (out : List UInt8) : b64run [] 0 out (b64encode bs) = some (out ++ bs) := by
  induction bs using b64encode.induct generalizing out with
  | case1 a b c rest ih =>
    have ha := a.toNat_lt
    have hb := b.toNat_lt
    have hc := c.toNat_lt
    simp only [b64encode, List.cons_append, List.nil_append]
    rw [b64run_quad out _ _ _ _ (by omega) (by omega) (by omega) (by omega), groupBytes_quad, ih]
    simp
  | case2 a b =>
    have ha := a.toNat_lt
    have hb := b.toNat_lt
    simp only [b64encode]
    rw [b64run_char_lt [] 0 out (a.toNat / 4) (by omega) _ (by simp)]
    simp only [List.nil_append]
    rw [b64run_char_lt [a.toNat / 4] 0 out (a.toNat % 4 * 16 + b.toNat / 16) (by omega) _ (by simp)]
    simp only [List.cons_append, List.nil_append]
    rw [b64run_char_lt [a.toNat / 4, a.toNat % 4 * 16 + b.toNat / 16] 0 out (b.toNat % 16 * 4) (by omega) _ (by simp)]
    simp only [List.cons_append, List.nil_append]
    rw [b64run]
    simp [groupBytes_pair]
  | case3 a =>
    have ha := a.toNat_lt
    simp only [b64encode]
    rw [b64run_char_lt [] 0 out (a.toNat / 4) (by omega) _ (by simp)]
    simp only [List.nil_append]
    rw [b64run_char_lt [a.toNat / 4] 0 out (a.toNat % 4 * 16) (by omega) _ (by simp)]
    simp only [List.cons_append, List.nil_append]
    rw [b64run]
    simp only [↓reduceIte, List.length_cons, List.length_nil]
    rw [b64run]
    simp [groupBytes_single]
  | case4 => simp [b64encode, b64run]

theorem b64decode_encode (bs : List UInt8) : b64decode (b64encode bs) = some bs := by
  simpa [b64decode] using b64run_encode bs []

/-- every character of an encoding is an alphabet character or "=": ASCII, not white space -/
theorem b64encode_chars (bs : List UInt8) : ∀ c ∈ b64encode bs, isSpace c = false ∧ c.toNat < 128 := by
  induction bs using b64encode.induct with
  | case1 a b c rest ih =>
    have ha := a.toNat_lt
    have hb := b.toNat_lt
    have hc := c.toNat_lt
    intro x hx
    simp only [b64encode, List.cons_append, List.nil_append, List.mem_cons] at hx
    rcases hx with rfl | rfl | rfl | rfl | hx
    · exact ⟨enc6_not_space _ (by omega), enc6_ascii _ (by omega)⟩
    · exact ⟨enc6_not_space _ (by omega), enc6_ascii _ (by omega)⟩
    · exact ⟨enc6_not_space _ (by omega), enc6_ascii _ (by omega)⟩
    · exact ⟨enc6_not_space _ (by omega), enc6_ascii _ (by omega)⟩
    · exact ih x hx
  | case2 a b =>
    have ha := a.toNat_lt
    have hb := b.toNat_lt
    intro x hx
    simp only [b64encode, List.mem_cons, List.not_mem_nil, or_false] at hx
    rcases hx with rfl | rfl | rfl | rfl
    · exact ⟨enc6_not_space _ (by omega), enc6_ascii _ (by omega)⟩
    · exact ⟨enc6_not_space _ (by omega), enc6_ascii _ (by omega)⟩
    · exact ⟨enc6_not_space _ (by omega), enc6_ascii _ (by omega)⟩
    · decide
  | case3 a =>
    have ha := a.toNat_lt
    intro x hx
    simp only [b64encode, List.mem_cons, List.not_mem_nil, or_false] at hx
    rcases hx with rfl | rfl | rfl | rfl
    · exact ⟨enc6_not_space _ (by omega), enc6_ascii _ (by omega)⟩
    · exact ⟨enc6_not_space _ (by omega), enc6_ascii _ (by omega)⟩
    · decide
    · decide
  | case4 => intro x hx; simp [b64encode] at hx

theorem dropWhile_none {α} (q : α → Bool) (l : List α) (h : ∀ x ∈ l, q x = false) : l.dropWhile q = l := by
  cases l with
  | nil => rfl
  | cons a t => simp [h a List.mem_cons_self]

/-- `strip()` leaves a string without white space alone -/
theorem pyStrip_none (s : Str) (h : ∀ c ∈ s, isSpace c = false) : pyStrip s = s := by
  unfold pyStrip
  rw [dropWhile_none isSpace s h, dropWhile_none isSpace s.reverse (fun c hc => h c (List.mem_reverse.1 hc))]
  simp

theorem pyStrip_lead_space (s : Str) (h : ∀ c ∈ s, isSpace c = false) : pyStrip (' ' :: s) = s := by
  have : (' ' :: s).dropWhile isSpace = s.dropWhile isSpace := by
    simp [isSpace]
  unfold pyStrip
  rw [this]
  exact pyStrip_none s h

theorem decodeText_utf8 (s : Str) : decodeText (Quote.utf8 s) = s := by
  unfold decodeText Quote.utf8
  have h : (List.flatMap String.utf8EncodeChar s).toByteArray = List.utf8Encode s := rfl
  rw [h, List.utf8Decode?_utf8Encode]

theorem takeWhile_colon (l p : Str) (hl : ':' ∉ l) : (l ++ ':' :: p).takeWhile (· != ':') = l := by
  induction l with
  | nil => simp
  | cons a t ih =>
    have ha : a ≠ ':' := fun e => hl (e ▸ List.mem_cons_self)
    have ht : ':' ∉ t := fun e => hl (List.mem_cons_of_mem _ e)
    simp [ha, ih ht]

theorem dropWhile_colon (l p : Str) (hl : ':' ∉ l) : (l ++ ':' :: p).dropWhile (· != ':') = ':' :: p := by
  induction l with
  | nil => simp
  | cons a t ih =>
    have ha : a ≠ ':' := fun e => hl (e ▸ List.mem_cons_self)
    have ht : ':' ∉ t := fun e => hl (List.mem_cons_of_mem _ e)
    simp [ha, ih ht]

theorem splitColon_join (l p : Str) (hl : ':' ∉ l) : splitColon (l ++ ':' :: p) = some (l, p) := by
  unfold splitColon
  rw [takeWhile_colon l p hl, dropWhile_colon l p hl]
  simp

end BasicHeader
end Radicale
