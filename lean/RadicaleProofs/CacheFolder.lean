import RadicaleModel.CacheFolder
namespace Radicale
namespace CacheFolder
open Str

theorem startsWith_append_self (a b : Str) : startsWith (a ++ b) a = true := by
  induction a with
  | nil => cases b <;> simp [startsWith]
  | cons c cs ih => simp [startsWith, ih]

/-- dropping the rest of a matched occurrence -/
theorem replaceGo_skip (old new : Str) (k : Nat) (s : Str) : replaceGo old new k s = replaceGo old new 0 (s.drop k) := by
  induction k generalizing s with
  | zero => simp
  | succ k ih =>
    cases s with
    | nil => simp [replaceGo]
    | cons c cs => simp [replaceGo, ih]

/-- no occurrence of `old` anywhere: nothing is replaced -/
theorem replaceGo_no_occurrence (old new : Str) (s : Str) (h : ∀ i, startsWith (s.drop i) old = false) :
    replaceGo old new 0 s = s := by
  induction s with
  | nil => simp [replaceGo]
  | cons c cs ih =>
    have h0 := h 0
    simp only [List.drop_zero] at h0
    have hcs : ∀ i, startsWith (cs.drop i) old = false := by
      intro i; simpa using h (i + 1)
    simp [replaceGo, h0, ih hcs]

/-- the occurrence at the beginning is replaced, the scan goes on behind it -/
theorem replaceAll_prefix (old new rel : Str) (hne : old ≠ []) :
    replaceAll old new (old ++ rel) = new ++ replaceAll old new rel := by
  cases old with
  | nil => exact absurd rfl hne
  | cons o os =>
    have hs : startsWith (o :: os ++ rel) (o :: os) = true := startsWith_append_self (o :: os) rel
    have hs' : startsWith (o :: (os ++ rel)) (o :: os) = true := by simpa using hs
    simp only [replaceAll, List.cons_append, replaceGo, hs', ne_eq, reduceCtorEq, not_false_eq_true, and_self, if_true]
    rw [replaceGo_skip]
    simp

end CacheFolder
end Radicale
