import RadicaleModel.TmpNames
namespace Radicale
namespace TmpNames

/-- `run` over a schedule given newest-first -/
def runRev (t c : Nat → Nat) (g : Nat) (fs : FS) (es : List Ev) : Option FS := run t c g fs es.reverse

theorem run_append (t c : Nat → Nat) (g : Nat) (fs : FS) (a b : List Ev) :
    run t c g fs (a ++ b) = (run t c g fs a).bind (fun fs' => run t c g fs' b) := by
  induction a generalizing fs with
  | nil => simp [run]
  | cons e es ih =>
    simp only [List.cons_append, run]
    cases step t c g fs e with
    | none => simp
    | some fs' => simpa using ih fs'

/-- private temporary names: every well-formed schedule runs without a failing call, and every writer in the middle of a write
    still finds its own temporary file with its own content -/
theorem private_names_never_fail (t c : Nat → Nat) (g : Nat) (ht : ∀ i j, t i = t j → i = j) (hg : ∀ i, t i ≠ g)
    (fs0 : FS) (es : List Ev) (hw : WellFormed es) :
    ∃ fs, runRev t c g fs0 es = some fs ∧ ∀ i, pending i es = true → fs (t i) = some (c i) := by
  induction es with
  | nil => exact ⟨fs0, by simp [runRev, run], by intro i h; simp [pending] at h⟩
  | cons e es ih =>
    cases e with
    | create j =>
      obtain ⟨hp, hw'⟩ := hw
      obtain ⟨fs, hr, hinv⟩ := ih hw'
      refine ⟨fun n => if n = t j then some (c j) else fs n, ?_, ?_⟩
      · simp only [runRev, List.reverse_cons, run_append]
        simp only [runRev] at hr
        simp [hr, run, step]
      · intro i hi
        by_cases hij : j = i
        · subst hij; simp
        · have hti : t i ≠ t j := fun h => hij (ht i j h).symm
          simp only [pending, hij, if_false] at hi
          simp [hti, hinv i hi]
    | rename j =>
      obtain ⟨hp, hw'⟩ := hw
      obtain ⟨fs, hr, hinv⟩ := ih hw'
      have hj := hinv j hp
      refine ⟨fun n => if n = g then some (c j) else if n = t j then none else fs n, ?_, ?_⟩
      · simp only [runRev, List.reverse_cons, run_append]
        simp only [runRev] at hr
        simp [hr, run, step, hj]
      · intro i hi
        by_cases hij : j = i
        · subst hij; simp [pending] at hi
        · have hti : t i ≠ t j := fun h => hij (ht i j h).symm
          simp only [pending, hij, if_false] at hi
          simp [hti, hg i, hinv i hi]

end TmpNames
end Radicale
