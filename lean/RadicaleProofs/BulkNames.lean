import RadicaleModel.BulkNames
/-
  Lemmas about the naming loop of whole-collection uploads (RadicaleModel/BulkNames.lean).
-/
namespace Radicale
namespace BulkNames
open Str Path

theorem free_iff (taken : List Str) (h : Str) : free taken h = true ↔ safeFsComp h = true ∧ h ∉ taken := by
  simp [free]

theorem pick_free (e : Env) (hf : FreshOk e) (taken : List Str) (uid : Str) : free taken (pick e taken uid) = true := by
  unfold pick
  split
  · assumption
  · split
    · assumption
    · exact hf taken

theorem assign_uids (e : Env) (uids : List Str) (taken : List Str) : (assign e uids taken).map (·.2) = uids := by
  induction uids generalizing taken with
  | nil => simp [assign]
  | cons u us ih => simp [assign, ih]

theorem assign_length (e : Env) (uids : List Str) (taken : List Str) : (assign e uids taken).length = uids.length := by
  have := congrArg List.length (assign_uids e uids taken)
  simpa using this

/-- every name handed out is safe and was not present; the names are pairwise different -/
theorem assign_spec (e : Env) (hf : FreshOk e) (uids : List Str) (taken : List Str) :
    (∀ p ∈ assign e uids taken, safeFsComp p.1 = true ∧ p.1 ∉ taken) ∧ ((assign e uids taken).map (·.1)).Nodup := by
  induction uids generalizing taken with
  | nil => simp [assign]
  | cons u us ih =>
    have hp := (free_iff taken (pick e taken u)).1 (pick_free e hf taken u)
    obtain ⟨ih1, ih2⟩ := ih (pick e taken u :: taken)
    constructor
    · intro p hpm
      simp only [assign, List.mem_cons] at hpm
      rcases hpm with rfl | hpm
      · exact hp
      · have := ih1 p hpm
        exact ⟨this.1, fun hmem => this.2 (List.mem_cons_of_mem _ hmem)⟩
    · simp only [assign, List.map_cons, List.nodup_cons]
      refine ⟨?_, ih2⟩
      intro hmem
      obtain ⟨p, hpm, hpe⟩ := List.mem_map.1 hmem
      have := (ih1 p hpm).2
      exact this (by rw [hpe]; exact List.mem_cons_self)

theorem lookup_write_same (d : List (Str × Str)) (h u : Str) : lookup (write d h u) h = some u := by
  simp [lookup, write]

theorem lookup_write_other (d : List (Str × Str)) (h h' u : Str) (hne : h' ≠ h) :
    lookup (write d h u) h' = lookup d h' := by
  have h1 : ((h, u).1 == h') = false := by simpa using fun heq => hne heq.symm
  simp only [lookup, write, List.find?_cons, h1, List.find?_filter]
  congr 2
  funext a
  by_cases ha : a.1 = h'
  · have : a.1 ≠ h := by rw [ha]; exact hne
    simp [ha, hne]
  · simp [ha]

theorem lookup_writeAll_other (es : List (Str × Str)) (d : List (Str × Str)) (h : Str) (hn : h ∉ es.map (·.1)) :
    lookup (writeAll d es) h = lookup d h := by
  induction es generalizing d with
  | nil => rfl
  | cons x xs ih =>
    simp only [List.map_cons, List.mem_cons, not_or] at hn
    simp only [writeAll, List.foldl_cons]
    have := ih (write d x.1 x.2) hn.2
    simp only [writeAll] at this
    rw [this, lookup_write_other d x.1 h x.2 hn.1]

/-- with pairwise different names every entry written is read back -/
theorem read_back_of_nodup (es : List (Str × Str)) (d : List (Str × Str)) (hnd : (es.map (·.1)).Nodup) :
    ∀ p ∈ es, lookup (writeAll d es) p.1 = some p.2 := by
  induction es generalizing d with
  | nil => intro p hp; cases hp
  | cons x xs ih =>
    simp only [List.map_cons, List.nodup_cons] at hnd
    intro p hp
    simp only [List.mem_cons] at hp
    simp only [writeAll, List.foldl_cons]
    rcases hp with rfl | hp
    · have := lookup_writeAll_other xs (write d p.1 p.2) p.1 hnd.1
      simp only [writeAll] at this
      rw [this, lookup_write_same]
    · have := ih (write d x.1 x.2) hnd.2 p hp
      simpa [writeAll] using this

end BulkNames
end Radicale

namespace Radicale
namespace BulkNames
open Str Path

/-- a random source that keeps its contract exists (non-vacuity of `FreshOk`): a name longer than everything present -/
def freshLong (taken : List Str) : Str := List.replicate (1 + (taken.map List.length).sum) 'r'

theorem length_le_sum (taken : List Str) (x : Str) (hx : x ∈ taken) : x.length ≤ (taken.map List.length).sum := by
  induction taken with
  | nil => cases hx
  | cons a t ih =>
    simp only [List.map_cons, List.sum_cons]
    rcases List.mem_cons.1 hx with rfl | h
    · omega
    · have := ih h; omega

theorem freshLong_not_mem (taken : List Str) : freshLong taken ∉ taken := by
  intro h
  have := length_le_sum taken _ h
  simp only [freshLong, List.length_replicate] at this
  omega

theorem freshLong_safe (taken : List Str) : safeFsComp (freshLong taken) = true := by
  have hne : freshLong taken = 'r' :: List.replicate ((taken.map List.length).sum) 'r' := by
    simp [freshLong, Nat.add_comm, List.replicate_succ]
  have hall : ∀ c ∈ freshLong taken, c = 'r' := fun c hc => (List.mem_replicate.1 hc).2
  have hlast : (freshLong taken).getLast? ≠ some '~' := by
    intro h
    have := List.mem_of_getLast? h
    have := hall _ this
    exact absurd this (by decide)
  have hcontains : (freshLong taken).contains '/' = false := by
    rw [Bool.eq_false_iff]
    intro h
    have := hall '/' (List.contains_iff_mem.1 h)
    exact absurd this (by decide)
  have h1 : freshLong taken ≠ ['.'] := by rw [hne]; intro h; injection h with h _; exact absurd h (by decide)
  have h2 : freshLong taken ≠ ['.', '.'] := by rw [hne]; intro h; injection h with h _; exact absurd h (by decide)
  have h0 : freshLong taken ≠ [] := by rw [hne]; simp
  have hhead : (freshLong taken).head? ≠ some '.' := by rw [hne]; simp
  have hnm : '/' ∉ freshLong taken := fun hm => absurd (hall '/' hm) (by decide)
  simp [safeFsComp, h0, hnm, h1, h2, hhead, hlast]

theorem freshOk_exists (suffix : Str) (hash : Str → Str) : FreshOk ⟨suffix, hash, freshLong⟩ := by
  intro taken
  exact (free_iff _ _).2 ⟨freshLong_safe taken, freshLong_not_mem taken⟩

end BulkNames
end Radicale
