import RadicaleModel.TextValue
/-
  Lemmas about vobject's text value layer (RadicaleModel/TextValue.lean).
-/
namespace Radicale
namespace TextValue
open Str

/-- line ends as the writer sees them: CRLF and CR count as LF -/
def norm : Str → Str
  | [] => []
  | '\r' :: '\n' :: rest => '\n' :: norm rest
  | c :: rest => (if c = '\r' then '\n' else c) :: norm rest

/-- what the writer emits for one character that is not the CR of a CRLF -/
def esc1 (c : Char) : Str :=
  if c = '\\' then ['\\', '\\'] else if c = ';' then ['\\', ';'] else if c = ',' then ['\\', ',']
  else if c = '\n' ∨ c = '\r' then ['\\', 'n'] else [c]

theorem escape_crlf (rest : Str) : escape ('\r' :: '\n' :: rest) = '\\' :: 'n' :: escape rest := by
  rw [escape]

theorem norm_crlf (rest : Str) : norm ('\r' :: '\n' :: rest) = '\n' :: norm rest := by
  rw [norm]

theorem escape_cons (c : Char) (rest : Str) (h : ¬(c = '\r' ∧ rest.head? = some '\n')) :
    escape (c :: rest) = esc1 c ++ escape rest := by
  rw [escape]
  · unfold esc1
    by_cases h1 : c = '\\'
    · simp [h1]
    · by_cases h2 : c = ';'
      · simp [h2]
      · by_cases h3 : c = ','
        · simp [h3]
        · by_cases h4 : c = '\n' ∨ c = '\r'
          · simp [h1, h2, h3, h4]
          · simp [h1, h2, h3, h4]
  · intro r hc hr
    exact h ⟨hc, by simp [hr]⟩

theorem norm_cons (c : Char) (rest : Str) (h : ¬(c = '\r' ∧ rest.head? = some '\n')) :
    norm (c :: rest) = (if c = '\r' then '\n' else c) :: norm rest := by
  rw [norm]
  intro r hc hr
  exact h ⟨hc, by simp [hr]⟩

theorem readGo_plain (c : Char) (rest cur : Str) (acc : List Str) (h1 : c ≠ '\\') (h2 : c ≠ ',') :
    readGo (c :: rest) cur acc = readGo rest (cur ++ [c]) acc := by
  rw [readGo]
  · simp [h2]
  · intro hc _; exact h1 hc
  · intro c' r' hc _; exact h1 hc

theorem readGo_esc (c : Char) (rest cur : Str) (acc : List Str) (he : escapable c = true) :
    readGo ('\\' :: c :: rest) cur acc = readGo rest (cur ++ [if c == 'n' || c == 'N' then '\n' else c]) acc := by
  rw [readGo]; simp [he]

/-- one written character is read back as that character (line ends as LF) -/
theorem readGo_esc1 (c : Char) (rest cur : Str) (acc : List Str) :
    readGo (esc1 c ++ rest) cur acc = readGo rest (cur ++ [if c = '\r' then '\n' else c]) acc := by
  unfold esc1
  by_cases h1 : c = '\\'
  · subst h1; simp only [if_true, List.cons_append, List.nil_append]; rw [readGo_esc '\\' _ _ _ (by decide)]; simp
  · by_cases h2 : c = ';'
    · subst h2; simp only [h1, if_false, if_true, List.cons_append, List.nil_append]; rw [readGo_esc ';' _ _ _ (by decide)]; simp
    · by_cases h3 : c = ','
      · subst h3; simp only [h1, h2, if_false, if_true, List.cons_append, List.nil_append]; rw [readGo_esc ',' _ _ _ (by decide)]; simp
      · by_cases h4 : c = '\n' ∨ c = '\r'
        · simp only [h1, h2, h3, h4, if_false, if_true, List.cons_append, List.nil_append]
          rw [readGo_esc 'n' _ _ _ (by decide)]
          rcases h4 with rfl | rfl <;> simp
        · have h5 : c ≠ '\r' := fun e => h4 (Or.inr e)
          have h6 : c ≠ '\n' := fun e => h4 (Or.inl e)
          simp only [h1, h2, h3, h5, h6, or_self, if_false, List.cons_append, List.nil_append]
          exact readGo_plain c _ _ _ h1 h3

/-- **the reader inverts the writer**: whatever is written for a value is read back as one element, that value
    (line ends normalised), also in the middle of a list being read -/
theorem readGo_escape_aux : ∀ (n : Nat) (v : Str), v.length ≤ n → ∀ (cur : Str) (acc : List Str),
    readGo (escape v) cur acc = finish (cur ++ norm v) acc := by
  intro n
  induction n with
  | zero =>
    intro v hv cur acc
    have : v = [] := List.length_eq_zero_iff.1 (Nat.le_zero.1 hv)
    subst this
    simp [escape, norm, readGo]
  | succ n ih =>
    intro v hv cur acc
    cases v with
    | nil => simp [escape, norm, readGo]
    | cons c rest =>
      by_cases hcrlf : c = '\r' ∧ rest.head? = some '\n'
      · obtain ⟨hc, hr⟩ := hcrlf
        subst hc
        cases rest with
        | nil => simp at hr
        | cons a t =>
          simp only [List.head?_cons, Option.some.injEq] at hr
          subst hr
          rw [escape_crlf, norm_crlf, readGo_esc 'n' _ _ _ (by decide)]
          rw [ih t (by simp only [List.length_cons] at hv; omega)]
          simp
      · rw [escape_cons c rest hcrlf, norm_cons c rest hcrlf, readGo_esc1]
        rw [ih rest (by simp only [List.length_cons] at hv; omega)]
        simp

theorem readGo_escape (v cur : Str) (acc : List Str) : readGo (escape v) cur acc = finish (cur ++ norm v) acc :=
  readGo_escape_aux v.length v (Nat.le_refl _) cur acc

theorem readFirst_escape (v : Str) : readFirst (escape v) = norm v := by
  simp [readFirst, readValues, readGo_escape, finish]

theorem norm_id_aux : ∀ (n : Nat) (v : Str), v.length ≤ n → '\r' ∉ v → norm v = v := by
  intro n
  induction n with
  | zero =>
    intro v hv _
    have : v = [] := List.length_eq_zero_iff.1 (Nat.le_zero.1 hv)
    subst this; rfl
  | succ n ih =>
    intro v hv h
    cases v with
    | nil => rfl
    | cons c rest =>
      have hc : c ≠ '\r' := fun e => h (e ▸ List.mem_cons_self)
      rw [norm_cons c rest (fun hh => hc hh.1)]
      rw [ih rest (by simp only [List.length_cons] at hv; omega) (fun hm => h (List.mem_cons_of_mem _ hm))]
      simp [hc]

theorem norm_id (v : Str) (h : '\r' ∉ v) : norm v = v := norm_id_aux v.length v (Nat.le_refl _) h

theorem esc1_cr : esc1 '\r' = esc1 '\n' := by decide

theorem escape_norm_aux : ∀ (n : Nat) (v : Str), v.length ≤ n → escape (norm v) = escape v := by
  intro n
  induction n with
  | zero =>
    intro v hv
    have : v = [] := List.length_eq_zero_iff.1 (Nat.le_zero.1 hv)
    subst this; rfl
  | succ n ih =>
    intro v hv
    cases v with
    | nil => rfl
    | cons c rest =>
      by_cases hcrlf : c = '\r' ∧ rest.head? = some '\n'
      · obtain ⟨hc, hr⟩ := hcrlf
        subst hc
        cases rest with
        | nil => simp at hr
        | cons a t =>
          simp only [List.head?_cons, Option.some.injEq] at hr
          subst hr
          rw [norm_crlf, escape_crlf, escape_cons '\n' _ (by simp), ih t (by simp only [List.length_cons] at hv; omega)]
          rfl
      · rw [norm_cons c rest hcrlf, escape_cons c rest hcrlf]
        have hlen : rest.length ≤ n := by simp only [List.length_cons] at hv; omega
        by_cases hc : c = '\r'
        · subst hc
          simp only [if_true]
          rw [escape_cons '\n' _ (by simp), ih rest hlen, esc1_cr]
        · simp only [hc, if_false]
          rw [escape_cons c _ (fun hh => hc hh.1), ih rest hlen]

theorem escape_norm (v : Str) : escape (norm v) = escape v := escape_norm_aux v.length v (Nat.le_refl _)

/-- one trip through the value layer is idempotent: what was read and written once is read and written to the same text -/
theorem stored_stored (raw : Str) : stored (stored raw) = stored raw := by
  unfold stored
  rw [readFirst_escape, escape_norm]

end TextValue
end Radicale
