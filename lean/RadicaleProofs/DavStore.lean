import RadicaleProofs.DavInv
/-
  Store-level consequences of a single-item write: the written name shows the new object, a deleted name is gone,
  every other resource is what it was.
-/
namespace Dav

theorem coll?_setColl_same (s : Store) (p : Path) (c : Coll) : coll? (setColl s p c) p = some c := by
  unfold setColl
  split
  · rename_i hany
    unfold coll?
    induction s with
    | nil => simp at hany
    | cons e rest ih =>
      simp only [List.map_cons]
      by_cases he : (e.1 == p) = true
      · simp [he, List.find?]
      · have he' : (e.1 == p) = false := by simpa using he
        simp only [he', Bool.false_eq_true, if_false, List.find?]
        apply ih
        simpa [he'] using hany
  · rename_i hany
    unfold coll?
    rw [List.find?_append]
    have : s.find? (fun e => e.1 == p) = none := by
      apply List.find?_eq_none.mpr
      intro e he heq
      apply hany
      exact List.any_eq_true.mpr ⟨e, he, heq⟩
    simp [this, List.find?]

theorem find_map_other (s : Store) (p q : Path) (c : Coll) (hne : q ≠ p) :
    (s.map (fun e => if e.1 == p then (p, c) else e)).find? (fun e => e.1 == q) = s.find? (fun e => e.1 == q) := by
  induction s with
  | nil => rfl
  | cons e rest ih =>
    simp only [List.map_cons]
    by_cases he : (e.1 == p) = true
    · have hep : e.1 = p := by simpa using he
      have h1 : (p == q) = false := by simpa using (Ne.symm hne)
      have h2 : (e.1 == q) = false := by rw [hep]; exact h1
      simp only [he, if_true, List.find?, h1, h2]
      exact ih
    · have he' : (e.1 == p) = false := by simpa using he
      simp only [he', Bool.false_eq_true, if_false, List.find?]
      by_cases hq : (e.1 == q) = true
      · simp [hq]
      · have hq' : (e.1 == q) = false := by simpa using hq
        simp only [hq']
        exact ih

theorem coll?_setColl_other (s : Store) (p q : Path) (c : Coll) (hne : q ≠ p) : coll? (setColl s p c) q = coll? s q := by
  unfold setColl
  split
  · unfold coll?
    rw [find_map_other s p q c hne]
  · unfold coll?
    rw [List.find?_append]
    have h1 : (p == q) = false := by simpa using (Ne.symm hne)
    cases hf : s.find? (fun e => e.1 == q) with
    | some e => simp
    | none => simp [List.find?, h1]

/-- the same resource (a collection is identified by tag and properties, an item by name and content) -/
def sameResource : Target → Target → Prop
  | .absent, .absent => True
  | .coll _ c, .coll _ d => c.tag = d.tag ∧ c.props = d.props
  | .item _ _ h it, .item _ _ h' it' => h = h' ∧ it = it'
  | _, _ => False

theorem dropLast_getLast (p : Path) (x : String) (h : p.getLast? = some x) : p = p.dropLast ++ [x] := by
  induction p with
  | nil => simp at h
  | cons a as ih =>
    cases as with
    | nil => simp at h; simp [h]
    | cons b bs =>
      have h' : (b :: bs).getLast? = some x := by simpa [List.getLast?_cons_cons] using h
      have := ih h'
      simp only [List.dropLast_cons_cons, List.cons_append]
      rw [← this]

theorem ne_dropLast_self (p : Path) (hne : p ≠ []) : p ≠ p.dropLast := fun e => dropLast_ne_self p hne e.symm

/-- replacing the members of the collection `parent` by ones that agree except under the name `x` changes no
    resource other than `parent ++ [x]` -/
theorem resolve_after_member_change (s : Store) (parent : Path) (c c' : Coll) (x : String)
    (hc : coll? s parent = some c) (ht : c'.tag = c.tag) (hp : c'.props = c.props)
    (hother : ∀ y, y ≠ x → item? c' y = item? c y) (q : Path) (hq : q ≠ parent ++ [x]) :
    sameResource (resolve (setColl s parent c') q) (resolve s q) := by
  by_cases hqp : q = parent
  · subst hqp
    unfold resolve
    rw [coll?_setColl_same, hc]
    exact ⟨ht, hp⟩
  · unfold resolve
    rw [coll?_setColl_other s parent q c' hqp]
    cases hcq : coll? s q with
    | some d => exact ⟨rfl, rfl⟩
    | none =>
      simp only
      cases hl : q.getLast? with
      | none => trivial
      | some y =>
        simp only
        by_cases hqd : q.dropLast = parent
        · rw [hqd, coll?_setColl_same, hc]
          simp only
          have hy : y ≠ x := by
            intro e
            apply hq
            rw [dropLast_getLast q y hl, hqd, e]
          rw [hother y hy]
          cases item? c y with
          | none => trivial
          | some it => exact ⟨rfl, rfl⟩
        · rw [coll?_setColl_other s parent _ c' hqd]
          cases coll? s q.dropLast with
          | none => trivial
          | some d =>
            simp only
            cases item? d y with
            | none => trivial
            | some it => exact ⟨rfl, rfl⟩

/-- after the members of `parent` changed, the name `x` resolves to what the new collection holds there -/
theorem resolve_member (s : Store) (parent : Path) (c' : Coll) (x : String) (hfree : coll? s (parent ++ [x]) = none) :
    resolve (setColl s parent c') (parent ++ [x]) =
      match item? c' x with | some it => .item parent c' x it | none => .absent := by
  have hne : parent ++ [x] ≠ parent := by
    intro e
    have := congrArg List.length e
    simp at this
  unfold resolve
  rw [coll?_setColl_other s parent _ c' hne, hfree]
  simp only [List.getLast?_append, List.getLast?_singleton, Option.some_or, List.dropLast_concat, coll?_setColl_same]
  cases item? c' x <;> rfl

end Dav
