import RadicaleModel.Path
namespace Radicale
namespace Str

theorem split_ne_nil (sep : Char) (s : Str) : split sep s ≠ [] := by
  induction s with
  | nil => simp [split]
  | cons c cs ih =>
    unfold split
    split
    · simp
    · split <;> simp

theorem split_cons_sep (sep : Char) (s : Str) : split sep (sep :: s) = [] :: split sep s := by
  simp [split]

theorem split_cons_ne (sep c : Char) (s : Str) (h : c ≠ sep) :
    split sep (c :: s) = (c :: ((split sep s).headD [])) :: (split sep s).tail := by
  have := split_ne_nil sep s
  conv => lhs; unfold split
  simp only [h, if_false]
  cases hs : split sep s with
  | nil => exact absurd hs this
  | cons a t => simp

/-- splitting a separator-free string gives the string itself -/
theorem split_free (sep : Char) (s : Str) (h : sep ∉ s) : split sep s = [s] := by
  induction s with
  | nil => simp [split]
  | cons c cs ih =>
    have hc : c ≠ sep := fun e => h (e ▸ List.mem_cons_self)
    have hcs : sep ∉ cs := fun m => h (List.mem_cons_of_mem _ m)
    rw [split_cons_ne sep c cs hc, ih hcs]
    simp

theorem split_append_sep (sep : Char) (a b : Str) (h : sep ∉ a) :
    split sep (a ++ sep :: b) = a :: split sep b := by
  induction a with
  | nil => simp [split]
  | cons c cs ih =>
    have hc : c ≠ sep := fun e => h (e ▸ List.mem_cons_self)
    have hcs : sep ∉ cs := fun m => h (List.mem_cons_of_mem _ m)
    rw [List.cons_append, split_cons_ne sep c _ hc, ih hcs]
    simp

/-- `split` inverts `join` on separator-free components -/
theorem split_join (sep : Char) (l : List Str) (hne : l ≠ []) (h : ∀ p ∈ l, sep ∉ p) :
    split sep (join sep l) = l := by
  induction l with
  | nil => exact absurd rfl hne
  | cons p rest ih =>
    cases rest with
    | nil => simp [join, split_free sep p (h p List.mem_cons_self)]
    | cons q rest' =>
      simp only [join]
      rw [split_append_sep sep p _ (h p List.mem_cons_self)]
      rw [ih (by simp) (fun x hx => h x (List.mem_cons_of_mem _ hx))]

theorem split_mem_free (sep : Char) (s : Str) : ∀ p ∈ split sep s, sep ∉ p := by
  induction s with
  | nil => simp [split]
  | cons c cs ih =>
    by_cases hc : c = sep
    · subst hc
      rw [split_cons_sep]
      intro p hp
      rcases List.mem_cons.1 hp with rfl | hp
      · simp
      · exact ih p hp
    · rw [split_cons_ne sep c cs hc]
      have hne := split_ne_nil sep cs
      intro p hp
      cases hs : split sep cs with
      | nil => exact absurd hs hne
      | cons a t =>
        rw [hs] at hp ih
        simp only [List.headD_cons, List.tail_cons, List.mem_cons] at hp
        rcases hp with rfl | hp
        · intro hm
          rcases List.mem_cons.1 hm with e | hm
          · exact hc e.symm
          · exact ih a List.mem_cons_self hm
        · exact ih p (List.mem_cons_of_mem _ hp)

theorem join_split (sep : Char) (s : Str) : join sep (split sep s) = s := by
  induction s with
  | nil => simp [split, join]
  | cons c cs ih =>
    by_cases hc : c = sep
    · subst hc
      rw [split_cons_sep]
      have hne := split_ne_nil c cs
      cases hs : split c cs with
      | nil => exact absurd hs hne
      | cons a t => rw [hs] at ih; simp [join, ih]
    · rw [split_cons_ne sep c cs hc]
      have hne := split_ne_nil sep cs
      cases hs : split sep cs with
      | nil => exact absurd hs hne
      | cons a t =>
        rw [hs] at ih
        cases t with
        | nil => simp [join] at ih ⊢; exact ih
        | cons b t' => simp [join] at ih ⊢; exact ih

end Str

namespace Path
open Str

theorem safeComp_iff (c : Str) :
    safeComp c = true ↔ c ≠ [] ∧ '/' ∉ c ∧ c ≠ ['.'] ∧ c ≠ ['.', '.'] := by
  simp [safeComp, and_assoc]

theorem safeFsComp_safe (c : Str) (h : safeFsComp c = true) : safeComp c = true := by
  simp [safeFsComp, safeComp] at *
  exact ⟨⟨⟨h.1.1.1.1.1, h.1.1.1.1.2⟩, h.1.1.1.2⟩, h.1.1.2⟩

/-- `foldl normStep` over components that are empty or safe keeps exactly the non-empty ones -/
theorem foldl_normStep_safe (b : Bool) (l acc : List Str)
    (h : ∀ c ∈ l, c = [] ∨ safeComp c = true) :
    l.foldl (normStep b) acc = (l.filter (· ≠ [])).reverse ++ acc := by
  induction l generalizing acc with
  | nil => simp
  | cons c cs ih =>
    simp only [List.foldl_cons]
    rw [ih _ (fun x hx => h x (List.mem_cons_of_mem _ hx))]
    rcases h c List.mem_cons_self with hc | hc
    · subst hc; simp [normStep]
    · rw [safeComp_iff] at hc
      obtain ⟨h1, _, h3, h4⟩ := hc
      simp [normStep, h1, h3, h4]

theorem filter_safe_self (l : List Str) (h : ∀ c ∈ l, safeComp c = true) : l.filter safeComp = l :=
  List.filter_eq_self.2 h

theorem filter_ne_nil_safe (l : List Str) (h : ∀ c ∈ l, safeComp c = true) :
    l.filter (· ≠ []) = l := by
  apply List.filter_eq_self.2
  intro c hc
  have := (safeComp_iff c).1 (h c hc)
  simp [this.1]

end Path
end Radicale

namespace Radicale
namespace Str

theorem split_append_single (sep : Char) (s : Str) : split sep (s ++ [sep]) = split sep s ++ [[]] := by
  induction s with
  | nil => simp [split]
  | cons c cs ih =>
    by_cases hc : c = sep
    · subst hc
      simp [split_cons_sep, ih]
    · rw [List.cons_append, split_cons_ne sep c _ hc, split_cons_ne sep c _ hc, ih]
      have hne := split_ne_nil sep cs
      cases hs : split sep cs with
      | nil => exact absurd hs hne
      | cons a t => simp

theorem endsWith_single (s : Str) (c : Char) : endsWith s [c] = (s.getLast? == some c) := by
  unfold endsWith
  rw [List.getLast?_eq_head?_reverse]
  cases s.reverse with
  | nil => simp [startsWith]
  | cons a t => simp [startsWith]

theorem join_ne_nil (sep : Char) (l : List Str) (hne : l ≠ []) (h : ∀ p ∈ l, p ≠ []) : join sep l ≠ [] := by
  cases l with
  | nil => exact absurd rfl hne
  | cons p rest =>
    cases rest with
    | nil => simpa [join] using h p List.mem_cons_self
    | cons q r => simp [join]

theorem getLast?_join (sep : Char) (l : List Str) (hne : l ≠ []) (h : ∀ p ∈ l, p ≠ []) :
    (join sep l).getLast? = (l.getLast hne).getLast? := by
  induction l with
  | nil => exact absurd rfl hne
  | cons p rest ih =>
    cases rest with
    | nil => simp [join]
    | cons q r =>
      have hq : (q :: r) ≠ [] := by simp
      have hj := join_ne_nil sep (q :: r) hq (fun x hx => h x (List.mem_cons_of_mem _ hx))
      simp only [join]
      rw [List.getLast?_append, List.getLast?_cons_of_ne_nil hj,
        ih hq (fun x hx => h x (List.mem_cons_of_mem _ hx))]
      have hlast : (q :: r).getLast hq ≠ [] := h _ (List.mem_cons_of_mem _ (List.getLast_mem hq))
      cases hl : ((q :: r).getLast hq).getLast? with
      | none => exact absurd (List.getLast?_eq_none_iff.1 hl) hlast
      | some x => simp [List.getLast_cons hq, hl]

theorem head?_join (sep : Char) (l : List Str) (p : Str) (rest : List Str) (hl : l = p :: rest) (hp : p ≠ []) :
    (join sep l).head? = p.head? := by
  subst hl
  cases rest with
  | nil => simp [join]
  | cons q r =>
    simp only [join]
    cases p with
    | nil => exact absurd rfl hp
    | cons a t => simp

end Str
end Radicale
