import RadicaleProofs.DavError
namespace Dav

theorem putItemU_if_match (rights : Rights) (user : String) (p : Path) (body : Body) (pc : Coll) (target : Target)
    (e : Option Nat) (nm : Bool) :
    ∀ u, (putItemU rights user p body pc target e true nm).2 = some u →
      ∃ parent c h it, target = .item parent c h it ∧ e = some it.cid := by
  intro u
  unfold putItemU
  cases target with
  | absent => simp only []; repeat' split
              all_goals simp_all
  | coll q c => simp only []; repeat' split
                all_goals simp_all
  | item parent c h it =>
    simp only []
    repeat' split
    all_goals simp_all
    all_goals (intro _; subst_vars; exact ⟨_, _, _, _, ⟨rfl, rfl, rfl, rfl⟩, rfl⟩)

theorem putItemU_if_none_match (rights : Rights) (user : String) (p : Path) (body : Body) (pc : Coll) (target : Target)
    (e : Option Nat) (raw : Bool) :
    ∀ u, (putItemU rights user p body pc target e raw true).2 = some u → ∀ parent c h it, target ≠ .item parent c h it := by
  intro u
  unfold putItemU
  cases target with
  | absent => intro _ parent c h it hh; cases hh
  | coll q c => intro _ parent c' h it hh; cases hh
  | item parent c h it =>
    simp only []
    repeat' split
    all_goals simp_all

theorem putU_eq_item (cfg : Cfg) (rights : Rights) (user : String) (s : Store) (p : Path) (body : Body) (im raw nm imc)
    (pc : Coll) (hpc : parentOk s p = some pc) (htag : pc.tag ≠ .none) (hnc : ∀ q c, resolve s p ≠ .coll q c) (u : Update)
    (h : (putU cfg rights user s p body im raw nm imc).2 = some u) :
    (putItemU rights user p body pc (resolve s p) im raw nm).2 = some u := by
  unfold putU at h
  split at h
  · simp [forbiddenNA] at h
  · split at h
    · simp at h
    · rw [hpc] at h
      simp only at h
      unfold putDispatch at h
      have hw : isWhole (resolve s p) pc = false := by
        unfold isWhole
        cases hr : resolve s p with
        | coll q c => exact absurd hr (hnc q c)
        | absent => simp [htag]
        | item a b c d => simp [htag]
      simpa [hw] using h

/-- a conditional PUT of an item that is carried out found exactly the ETag it asked for -/
theorem put_if_match (cfg : Cfg) (rights : Rights) (user : String) (s : Store) (p : Path) (body : Body) (e : Option Nat) (nm : Bool) (imc)
    (pc : Coll) (hpc : parentOk s p = some pc) (htag : pc.tag ≠ .none) (hnc : ∀ q c, resolve s p ≠ .coll q c) :
    ∀ u, (putU cfg rights user s p body e true nm imc).2 = some u →
      ∃ parent c h it, resolve s p = .item parent c h it ∧ e = some it.cid := by
  intro u hu
  exact putItemU_if_match rights user p body pc (resolve s p) e nm u
    (putU_eq_item cfg rights user s p body e true nm imc pc hpc htag hnc u hu)

/-- `If-None-Match: *` lets a PUT through only when nothing is there -/
theorem put_if_none_match (cfg : Cfg) (rights : Rights) (user : String) (s : Store) (p : Path) (body : Body) (e : Option Nat) (raw : Bool) (imc)
    (pc : Coll) (hpc : parentOk s p = some pc) (htag : pc.tag ≠ .none) (hnc : ∀ q c, resolve s p ≠ .coll q c) :
    ∀ u, (putU cfg rights user s p body e raw true imc).2 = some u → resolve s p = .absent := by
  intro u hu
  have h1 := putItemU_if_none_match rights user p body pc (resolve s p) e raw u
    (putU_eq_item cfg rights user s p body e raw true imc pc hpc htag hnc u hu)
  cases hr : resolve s p with
  | absent => rfl
  | coll q c => exact absurd hr (hnc q c)
  | item parent c h it => exact absurd hr (h1 parent c h it)

/-- a conditional DELETE of an item that is carried out found exactly the ETag it asked for -/
theorem delete_if_match (cfg : Cfg) (rights : Rights) (user : String) (s : Store) (p : Path) (e : Option Nat)
    (parent : Path) (c : Coll) (h : String) (it : Item) (hr : resolve s p = .item parent c h it) (imc) :
    ∀ u, (deleteU cfg rights user s p (some e) imc).2 = some u → e = some it.cid := by
  intro u
  unfold deleteU
  simp only [hr]
  repeat' split
  all_goals simp_all

/-- DELETE of a collection with If-Match is carried out only if the header is the collection's current ETag -/
theorem delete_coll_if_match (cfg : Cfg) (rights : Rights) (user : String) (s : Store) (p : Path) (e : Option Nat) (c : Coll)
    (hr : resolve s p = .coll p c) (imc) :
    ∀ u, (deleteU cfg rights user s p (some e) imc).2 = some u → imc = some (collEtag c) := by
  intro u
  unfold deleteU
  simp only [hr]
  repeat' split
  all_goals simp_all

/-- a conditional request with an ETag that is not the current one changes nothing (412) -/
theorem put_stale_refused (cfg : Cfg) (rights : Rights) (user : String) (s : Store) (p : Path) (body : Body) (e : Nat) (nm : Bool) (imc)
    (pc : Coll) (hpc : parentOk s p = some pc) (htag : pc.tag ≠ .none)
    (parent : Path) (c : Coll) (h : String) (it : Item) (hr : resolve s p = .item parent c h it) (hne : it.cid ≠ e) :
    (putU cfg rights user s p body (some e) true nm imc).2 = none := by
  cases hu : (putU cfg rights user s p body (some e) true nm imc).2 with
  | none => rfl
  | some u =>
    obtain ⟨_, _, _, it', hr', he⟩ := put_if_match cfg rights user s p body (some e) nm imc pc hpc htag
      (by intro q c' hq; rw [hr] at hq; cases hq) u hu
    rw [hr] at hr'
    simp only [Target.item.injEq] at hr'
    simp only [Option.some.injEq] at he
    exact absurd (by rw [hr'.2.2.2, he]) hne

end Dav
