import RadicaleProofs.DavError
namespace Dav

/-- a conditional PUT of an item that is carried out found exactly the ETag it asked for -/
theorem put_if_match (cfg : Cfg) (rights : Rights) (user : String) (s : Store) (p : Path) (body : Body) (e : Option Nat) (nm : Bool) (imc)
    (pc : Coll) (hpc : parentOk s p = some pc) (htag : pc.tag ≠ .none) (hnc : ∀ q c, resolve s p ≠ .coll q c) :
    ∀ u, (putU cfg rights user s p body e true nm imc).2 = some u →
      ∃ parent c h it, resolve s p = .item parent c h it ∧ e = some it.cid := by
  intro u
  unfold putU
  simp only [hpc]
  cases hr : resolve s p with
  | coll q c => exact absurd hr (hnc q c)
  | absent =>
    simp only [htag, decide_false, Bool.or_false, Bool.false_eq_true, if_false]
    repeat' split
    all_goals simp_all
  | item parent c h it =>
    simp only [htag, decide_false, Bool.or_false, Bool.false_eq_true, if_false]
    repeat' split
    all_goals simp_all
    all_goals (intro _; exact ⟨_, _, _, _, ⟨rfl, rfl, rfl, rfl⟩, by omega⟩)

/-- `If-None-Match: *` lets a PUT through only when nothing is there -/
theorem put_if_none_match (cfg : Cfg) (rights : Rights) (user : String) (s : Store) (p : Path) (body : Body) (e : Option Nat) (raw : Bool) (imc)
    (pc : Coll) (hpc : parentOk s p = some pc) (htag : pc.tag ≠ .none) (hnc : ∀ q c, resolve s p ≠ .coll q c) :
    ∀ u, (putU cfg rights user s p body e raw true imc).2 = some u → resolve s p = .absent := by
  intro u
  unfold putU
  simp only [hpc]
  cases hr : resolve s p with
  | coll q c => exact absurd hr (hnc q c)
  | absent => intro _; rfl
  | item parent c h it =>
    simp only [htag, decide_false, Bool.or_false, Bool.false_eq_true, if_false]
    repeat' split
    all_goals simp_all

/-- a conditional DELETE of an item that is carried out found exactly the ETag it asked for -/
theorem delete_if_match (cfg : Cfg) (rights : Rights) (user : String) (s : Store) (p : Path) (e : Option Nat)
    (parent : Path) (c : Coll) (h : String) (it : Item) (hr : resolve s p = .item parent c h it) :
    ∀ u, (deleteU cfg rights user s p (some e)).2 = some u → e = some it.cid := by
  intro u
  unfold deleteU
  simp only [hr]
  repeat' split
  all_goals simp_all

/-- a conditional request with an ETag that is not the current one changes nothing (412) -/
theorem put_stale_refused (cfg : Cfg) (rights : Rights) (user : String) (s : Store) (p : Path) (body : Body) (e : Nat) (nm : Bool) (imc)
    (pc : Coll) (hpc : parentOk s p = some pc) (htag : pc.tag ≠ .none)
    (parent : Path) (c : Coll) (h : String) (it : Item) (hr : resolve s p = .item parent c h it) (hne : it.cid ≠ e) :
    (putU cfg rights user s p body (some e) true nm imc).2 = none := by
  cases hu : (putU cfg rights user s p body (some e) true nm imc).2 with
  | none => rfl
  | some u =>
    obtain ⟨_, _, _, it', hr', he⟩ := put_if_match cfg rights user s p body (some e) nm imc pc hpc htag
      (by intro q c' hq; rw [hr] at hq; cases hq) u hu
    rw [hr] at hr'
    simp only [Target.item.injEq] at hr'
    simp only [Option.some.injEq] at he
    exact absurd (by rw [hr'.2.2.2, he]) hne

end Dav
