import RadicaleProofs.AuthCache
namespace Radicale
namespace AuthCache

/-- one event of a login history: the clock advances by `dt` ns, then (if `attempt`) `login l pw` is called
    while the back-end behaves as `backend` (credential changes = different functions in different steps) -/
structure Step where
  dt : Nat
  backend : Str → Str → Str
  l : Str
  pw : Str
  attempt : Bool

structure Outcome where
  time : Nat
  l : Str
  pw : Str
  user : Str

structure Run where
  st : State
  now : Nat
  log : List Call
  outs : List Outcome

def stepRun (cfg : Cfg) (r : Run) (s : Step) : Run :=
  let now := r.now + s.dt
  if s.attempt then
    let res := login cfg r.st now s.backend s.l s.pw
    ⟨res.state, now, logAfter res now s.backend s.l s.pw r.log, ⟨now, s.l, s.pw, res.user⟩ :: r.outs⟩
  else { r with now := now }

def run (cfg : Cfg) (t0 : Nat) (steps : List Step) : Run :=
  steps.foldl (stepRun cfg) ⟨State.init, t0, [], []⟩

def timeAfter (t0 : Nat) (steps : List Step) : Nat := t0 + (steps.map (·.dt)).sum

/-- the outcome is backed by a back-end answer for the same credentials, not in the future, recent enough -/
def Justified (cfg : Cfg) (o : Outcome) (log : List Call) : Prop :=
  (o.user ≠ [] → ∃ c ∈ log, c.login = o.l ∧ c.pw = o.pw ∧ c.result = o.user ∧ c.time ≤ o.time ∧
      age o.time c.time ≤ cfg.succExp) ∧
  (o.user = [] → ∃ c ∈ log, c.login = o.l ∧ c.pw = o.pw ∧ c.result = [] ∧ c.time ≤ o.time ∧
      age o.time c.time ≤ cfg.failExp)

/-- a log entry is what the back-end in force at that moment of the history really answered -/
def Faithful (t0 : Nat) (done : List Step) (c : Call) : Prop :=
  ∃ pre s post, done = pre ++ s :: post ∧ s.attempt = true ∧ timeAfter t0 (pre ++ [s]) = c.time ∧
    s.l = c.login ∧ s.pw = c.pw ∧ s.backend c.login c.pw = c.result

structure RunInv (cfg : Cfg) (t0 : Nat) (r : Run) (done : List Step) : Prop where
  inv : Inv cfg r.st r.log
  now : r.now = timeAfter t0 done
  log : ∀ c ∈ r.log, c.time ≤ r.now ∧ Faithful t0 done c
  outs : ∀ o ∈ r.outs, o.time ≤ r.now ∧ Justified cfg o r.log

theorem Faithful.extend {t0 : Nat} {done : List Step} {c : Call} (s : Step) (h : Faithful t0 done c) :
    Faithful t0 (done ++ [s]) c := by
  obtain ⟨pre, s', post, hd, h1, h2, h3⟩ := h
  exact ⟨pre, s', post ++ [s], by simp [hd], h1, h2, h3⟩

theorem Justified.mono {cfg : Cfg} {o : Outcome} {log log' : List Call} (hsub : ∀ c ∈ log, c ∈ log')
    (h : Justified cfg o log) : Justified cfg o log' := by
  refine ⟨fun hu => ?_, fun hu => ?_⟩
  · obtain ⟨c, hc, rest⟩ := h.1 hu; exact ⟨c, hsub c hc, rest⟩
  · obtain ⟨c, hc, rest⟩ := h.2 hu; exact ⟨c, hsub c hc, rest⟩

theorem timeAfter_snoc (t0 : Nat) (done : List Step) (s : Step) :
    timeAfter t0 (done ++ [s]) = timeAfter t0 done + s.dt := by
  simp [timeAfter, Nat.add_assoc]

theorem runInv_init (cfg : Cfg) (t0 : Nat) : RunInv cfg t0 ⟨State.init, t0, [], []⟩ [] :=
  ⟨inv_init cfg, by simp [timeAfter], by simp, by simp⟩

theorem runInv_step (cfg : Cfg) (t0 : Nat) (r : Run) (done : List Step) (s : Step)
    (h : RunInv cfg t0 r done) : RunInv cfg t0 (stepRun cfg r s) (done ++ [s]) := by
  unfold stepRun
  by_cases ha : s.attempt = true
  · simp only [ha, if_true]
    have hstep := login_step cfg r.st r.log (r.now + s.dt) s.backend s.l s.pw h.inv
    simp only at hstep
    obtain ⟨hinv, hsub, hsucc, hfail⟩ := hstep
    have hnow : r.now + s.dt = timeAfter t0 (done ++ [s]) := by rw [timeAfter_snoc, h.now]
    have hlog : ∀ c ∈ logAfter (login cfg r.st (r.now + s.dt) s.backend s.l s.pw) (r.now + s.dt) s.backend s.l s.pw r.log,
        c.time ≤ r.now + s.dt ∧ Faithful t0 (done ++ [s]) c := by
      intro c hc
      unfold logAfter at hc
      split at hc
      · rcases List.mem_cons.1 hc with rfl | hc
        · exact ⟨Nat.le_refl _, done, s, [], rfl, ha, hnow.symm, rfl, rfl, rfl⟩
        · exact ⟨Nat.le_trans (h.log c hc).1 (Nat.le_add_right _ _), (h.log c hc).2.extend s⟩
      · exact ⟨Nat.le_trans (h.log c hc).1 (Nat.le_add_right _ _), (h.log c hc).2.extend s⟩
    refine ⟨hinv, hnow, hlog, ?_⟩
    intro o ho
    rcases List.mem_cons.1 ho with rfl | ho
    · refine ⟨Nat.le_refl _, fun hu => ?_, fun hu => ?_⟩
      · obtain ⟨c, hc, h1, h2, h3, h4⟩ := hsucc hu
        exact ⟨c, hc, h1, h2, h3, (hlog c hc).1, h4⟩
      · obtain ⟨c, hc, h1, h2, h3, h4⟩ := hfail hu
        exact ⟨c, hc, h1, h2, h3, (hlog c hc).1, h4⟩
    · exact ⟨Nat.le_trans (h.outs o ho).1 (Nat.le_add_right _ _), (h.outs o ho).2.mono hsub⟩
  · simp only [ha, Bool.false_eq_true, if_false]
    refine ⟨h.inv, by rw [timeAfter_snoc, h.now], ?_, ?_⟩
    · intro c hc
      exact ⟨Nat.le_trans (h.log c hc).1 (Nat.le_add_right _ _), (h.log c hc).2.extend s⟩
    · intro o ho
      exact ⟨Nat.le_trans (h.outs o ho).1 (Nat.le_add_right _ _), (h.outs o ho).2⟩

theorem runInv_foldl (cfg : Cfg) (t0 : Nat) (rest : List Step) (r : Run) (done : List Step)
    (h : RunInv cfg t0 r done) : RunInv cfg t0 (rest.foldl (stepRun cfg) r) (done ++ rest) := by
  induction rest generalizing r done with
  | nil => simpa using h
  | cons s rest ih =>
    have := ih (stepRun cfg r s) (done ++ [s]) (runInv_step cfg t0 r done s h)
    simpa using this

theorem runInv_run (cfg : Cfg) (t0 : Nat) (steps : List Step) : RunInv cfg t0 (run cfg t0 steps) steps := by
  have := runInv_foldl cfg t0 steps _ [] (runInv_init cfg t0)
  simpa [run] using this

end AuthCache
end Radicale
