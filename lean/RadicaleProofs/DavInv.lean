import RadicaleModel.Dav
/-
  Well-formedness of the DAV store is an invariant of every request (C15).
-/
namespace Dav

/-! ### collections inside the store -/

theorem coll?_some_mem (s : Store) (p : Path) (c : Coll) (h : coll? s p = some c) : (p, c) ∈ s := by
  unfold coll? at h
  cases hf : s.find? (fun e => e.1 == p) with
  | none => simp [hf] at h
  | some e =>
    simp only [hf, Option.map_some, Option.some.injEq] at h
    have h1 := List.find?_some hf
    have h2 := List.mem_of_find?_eq_some hf
    simp only [beq_iff_eq] at h1
    obtain ⟨a, b⟩ := e
    simp only at h1 h
    subst h1; subst h
    exact h2

theorem coll?_none (s : Store) (p : Path) (h : coll? s p = none) : ∀ c, (p, c) ∉ s := by
  intro c hm
  unfold coll? at h
  simp only [Option.map_eq_none_iff, List.find?_eq_none] at h
  have := h (p, c) hm
  simp at this

theorem mem_coll? (s : Store) (hk : (s.map (·.1)).Nodup) (p : Path) (c : Coll) (hm : (p, c) ∈ s) : coll? s p = some c := by
  induction s with
  | nil => simp at hm
  | cons e rest ih =>
    simp only [List.map_cons, List.nodup_cons] at hk
    unfold coll?
    rcases List.mem_cons.mp hm with he | hr
    · subst he; simp [List.find?]
    · have hne : e.1 ≠ p := by
        intro heq
        exact hk.1 (List.mem_map.mpr ⟨(p, c), hr, heq.symm⟩)
      have : (e.1 == p) = false := by simpa using hne
      simp only [List.find?, this]
      exact ih hk.2 hr

/-! ### setColl, removeTree -/

theorem mem_setColl (s : Store) (p : Path) (c : Coll) (q : Path) (d : Coll) :
    (q, d) ∈ setColl s p c ↔ (q = p ∧ d = c) ∨ (q ≠ p ∧ (q, d) ∈ s) := by
  unfold setColl
  split
  · rename_i hany
    simp only [List.mem_map]
    constructor
    · rintro ⟨e, he, heq⟩
      by_cases hp : (e.1 == p) = true
      · simp only [hp, if_true, Prod.mk.injEq] at heq
        exact Or.inl ⟨heq.1.symm, heq.2.symm⟩
      · simp only [hp] at heq
        have hne : e.1 ≠ p := by simpa using hp
        subst heq
        exact Or.inr ⟨hne, he⟩
    · rintro (⟨rfl, rfl⟩ | ⟨hne, hm⟩)
      · simp only [List.any_eq_true] at hany
        obtain ⟨e, he, hep⟩ := hany
        exact ⟨e, he, by simp [hep]⟩
      · refine ⟨(q, d), hm, ?_⟩
        have : ((q, d).1 == p) = false := by simpa using hne
        simp [this]
  · rename_i hany
    simp only [List.mem_append, List.mem_singleton, Prod.mk.injEq]
    constructor
    · rintro (hm | ⟨rfl, rfl⟩)
      · right
        refine ⟨?_, hm⟩
        intro heq
        apply hany
        simp only [List.any_eq_true]
        exact ⟨(q, d), hm, by simp [heq]⟩
      · exact Or.inl ⟨rfl, rfl⟩
    · rintro (⟨rfl, rfl⟩ | ⟨_, hm⟩)
      · exact Or.inr ⟨rfl, rfl⟩
      · exact Or.inl hm

theorem keys_setColl (s : Store) (p : Path) (c : Coll) (hk : (s.map (·.1)).Nodup) : ((setColl s p c).map (·.1)).Nodup := by
  unfold setColl
  split
  · have : (s.map (fun e => if e.1 == p then (p, c) else e)).map (·.1) = s.map (·.1) := by
      rw [List.map_map]
      apply List.map_congr_left
      intro e _
      by_cases hp : (e.1 == p) = true
      · simp only [Function.comp, hp, if_true]; exact (by simpa using hp : e.1 = p).symm
      · simp [Function.comp, hp]
    rw [this]; exact hk
  · rename_i hany
    simp only [List.map_append, List.map_cons, List.map_nil]
    refine List.nodup_append.mpr ⟨hk, by simp, ?_⟩
    intro a ha b hb
    simp only [List.mem_singleton] at hb
    subst hb
    intro heq; subst heq
    apply hany
    obtain ⟨e, he, heq⟩ := List.mem_map.mp ha
    simp only [List.any_eq_true]
    exact ⟨e, he, by simp [heq]⟩

theorem mem_removeTree (s : Store) (p q : Path) (d : Coll) :
    (q, d) ∈ removeTree s p ↔ (q, d) ∈ s ∧ p.isPrefixOf q = false := by
  simp [removeTree, List.mem_filter]

theorem keys_removeTree (s : Store) (p : Path) (hk : (s.map (·.1)).Nodup) : ((removeTree s p).map (·.1)).Nodup :=
  List.Nodup.sublist (List.Sublist.map _ (List.filter_sublist)) hk

/-! ### prefixes -/

theorem isPrefixOf_iff (p q : Path) : p.isPrefixOf q = true ↔ p <+: q := List.isPrefixOf_iff_prefix

theorem prefix_dropLast_of_ne (p q : Path) (h : p <+: q) (hne : p ≠ q) : p <+: q.dropLast := by
  obtain ⟨t, rfl⟩ := h
  have ht : t ≠ [] := by
    intro e; subst e; simp at hne
  rw [List.dropLast_append_of_ne_nil ht]
  exact List.prefix_append _ _

theorem dropLast_prefix_self (p : Path) : p.dropLast <+: p := List.dropLast_prefix p

theorem dropLast_ne_self (p : Path) (h : p ≠ []) : p.dropLast ≠ p := by
  intro e
  have := congrArg List.length e
  simp only [List.length_dropLast] at this
  have hl : 0 < p.length := List.length_pos_iff.mpr h
  omega

/-! ### well-formedness -/

def CollOk (c : Coll) : Prop :=
  (c.items.map (fun e => e.2.uid)).Nodup ∧ (c.items.map (·.1)).Nodup ∧ (c.tag = .none → c.items = [])

structure WF (s : Store) : Prop where
  keys : (s.map (·.1)).Nodup
  colls : ∀ p c, (p, c) ∈ s → CollOk c
  nonest : ∀ p c q d, (p, c) ∈ s → (q, d) ∈ s → c.tag ≠ .none → p <+: q → p = q
  parents : ∀ p c, (p, c) ∈ s → p ≠ [] → ∃ c', (p.dropLast, c') ∈ s
  root : ∃ c, ([], c) ∈ s ∧ c.tag = .none

theorem wf_init : WF Store.init := by
  refine ⟨by simp [Store.init], ?_, ?_, ?_, ⟨⟨.none, [], []⟩, by simp [Store.init], rfl⟩⟩
  · intro p c h
    simp only [Store.init, List.mem_singleton, Prod.mk.injEq] at h
    obtain ⟨_, rfl⟩ := h
    exact ⟨by simp, by simp, fun _ => rfl⟩
  · intro p c q d h1 h2 ht
    simp only [Store.init, List.mem_singleton, Prod.mk.injEq] at h1
    obtain ⟨_, rfl⟩ := h1
    exact absurd rfl ht
  · intro p c h hne
    simp only [Store.init, List.mem_singleton, Prod.mk.injEq] at h
    exact absurd h.1 hne

/-- every ancestor of a stored collection is stored -/
theorem ancestor_exists (s : Store) (hw : WF s) (n : Nat) : ∀ (p q : Path) (d : Coll), (q, d) ∈ s → p <+: q → q.length - p.length = n →
    ∃ c, (p, c) ∈ s := by
  induction n with
  | zero =>
    intro p q d hm hp hl
    have : p = q := by
      apply List.IsPrefix.eq_of_length_le hp
      have := hp.length_le
      omega
    exact ⟨d, this ▸ hm⟩
  | succ n ih =>
    intro p q d hm hp hl
    have hne : p ≠ q := by intro e; subst e; simp at hl
    have hq : q ≠ [] := by
      intro e; subst e
      simp at hl
    obtain ⟨c', hc'⟩ := hw.parents q d hm hq
    apply ih p q.dropLast c' hc' (prefix_dropLast_of_ne p q hp hne)
    simp only [List.length_dropLast]
    have := hp.length_le
    omega

theorem ancestor_exists' (s : Store) (hw : WF s) (p q : Path) (d : Coll) (hm : (q, d) ∈ s) (hp : p <+: q) : ∃ c, (p, c) ∈ s :=
  ancestor_exists s hw _ p q d hm hp rfl

/-- creating a collection at a free name below an untagged collection -/
theorem wf_setColl_new (s : Store) (hw : WF s) (p : Path) (c pc : Coll) (hfree : coll? s p = none) (hne : p ≠ [])
    (hpar : (p.dropLast, pc) ∈ s) (hpt : pc.tag = .none) (hc : CollOk c) : WF (setColl s p c) := by
  have hnot : ∀ d, (p, d) ∉ s := coll?_none s p hfree
  refine ⟨keys_setColl s p c hw.keys, ?_, ?_, ?_, ?_⟩
  · intro q d hm
    rcases (mem_setColl s p c q d).mp hm with ⟨_, rfl⟩ | ⟨_, hm'⟩
    · exact hc
    · exact hw.colls q d hm'
  · intro q d q' d' hm hm' ht hp
    rcases (mem_setColl s p c q d).mp hm with ⟨rfl, rfl⟩ | ⟨hq, hms⟩
    · -- the new collection is an ancestor of q'
      rcases (mem_setColl s q d q' d').mp hm' with ⟨rfl, _⟩ | ⟨_, hms'⟩
      · rfl
      · obtain ⟨x, hx⟩ := ancestor_exists' s hw q q' d' hms' hp
        exact absurd hx (hnot x)
    · rcases (mem_setColl s p c q' d').mp hm' with ⟨rfl, rfl⟩ | ⟨_, hms'⟩
      · -- an existing tagged collection above the new one: it is above the (untagged) parent
        have hp' : q <+: q'.dropLast := prefix_dropLast_of_ne q q' hp hq
        have := hw.nonest q d q'.dropLast pc hms hpar ht hp'
        subst this
        have hd : d = pc := by
          have h1 := mem_coll? s hw.keys _ d hms
          have h2 := mem_coll? s hw.keys _ pc hpar
          rw [h1] at h2; injection h2
        rw [hd] at ht
        exact absurd hpt ht
      · exact hw.nonest q d q' d' hms hms' ht hp
  · intro q d hm hq
    rcases (mem_setColl s p c q d).mp hm with ⟨rfl, rfl⟩ | ⟨hqp, hms⟩
    · exact ⟨pc, (mem_setColl s q d _ pc).mpr (Or.inr ⟨dropLast_ne_self q hne, hpar⟩)⟩
    · obtain ⟨c', hc'⟩ := hw.parents q d hms hq
      by_cases e : q.dropLast = p
      · exact absurd (e ▸ hc') (hnot c')
      · exact ⟨c', (mem_setColl s p c _ c').mpr (Or.inr ⟨e, hc'⟩)⟩
  · obtain ⟨r, hr, hrt⟩ := hw.root
    exact ⟨r, (mem_setColl s p c [] r).mpr (Or.inr ⟨fun e => hne e.symm, hr⟩), hrt⟩

/-- replacing a stored collection by one with the same tag -/
theorem wf_setColl_same (s : Store) (hw : WF s) (p : Path) (c c0 : Coll) (hm0 : (p, c0) ∈ s) (ht : c.tag = c0.tag) (hc : CollOk c) :
    WF (setColl s p c) := by
  have old : ∀ q d, (q, d) ∈ setColl s p c → ∃ d0, (q, d0) ∈ s ∧ d.tag = d0.tag := by
    intro q d hm
    rcases (mem_setColl s p c q d).mp hm with ⟨rfl, rfl⟩ | ⟨_, hms⟩
    · exact ⟨c0, hm0, ht⟩
    · exact ⟨d, hms, rfl⟩
  refine ⟨keys_setColl s p c hw.keys, ?_, ?_, ?_, ?_⟩
  · intro q d hm
    rcases (mem_setColl s p c q d).mp hm with ⟨_, rfl⟩ | ⟨_, hm'⟩
    · exact hc
    · exact hw.colls q d hm'
  · intro q d q' d' hm hm' htag hp
    obtain ⟨d0, h0, t0⟩ := old q d hm
    obtain ⟨d0', h0', _⟩ := old q' d' hm'
    exact hw.nonest q d0 q' d0' h0 h0' (t0 ▸ htag) hp
  · intro q d hm hq
    obtain ⟨d0, h0, _⟩ := old q d hm
    obtain ⟨c', hc'⟩ := hw.parents q d0 h0 hq
    by_cases e : q.dropLast = p
    · exact ⟨c, (mem_setColl s p c _ c).mpr (Or.inl ⟨e, rfl⟩)⟩
    · exact ⟨c', (mem_setColl s p c _ c').mpr (Or.inr ⟨e, hc'⟩)⟩
  · obtain ⟨r, hr, hrt⟩ := hw.root
    by_cases e : p = []
    · subst e
      have : c0 = r := by
        have h1 := mem_coll? s hw.keys _ c0 hm0
        have h2 := mem_coll? s hw.keys _ r hr
        rw [h1] at h2; injection h2
      exact ⟨c, (mem_setColl s [] c [] c).mpr (Or.inl ⟨rfl, rfl⟩), by rw [ht, this]; exact hrt⟩
    · exact ⟨r, (mem_setColl s p c [] r).mpr (Or.inr ⟨fun x => e x.symm, hr⟩), hrt⟩

/-- removing a subtree (not the root) -/
theorem wf_removeTree (s : Store) (hw : WF s) (p : Path) (hne : p ≠ []) : WF (removeTree s p) := by
  refine ⟨keys_removeTree s p hw.keys, ?_, ?_, ?_, ?_⟩
  · intro q d hm; exact hw.colls q d ((mem_removeTree s p q d).mp hm).1
  · intro q d q' d' hm hm' ht hp
    exact hw.nonest q d q' d' ((mem_removeTree s p q d).mp hm).1 ((mem_removeTree s p q' d').mp hm').1 ht hp
  · intro q d hm hq
    obtain ⟨hms, hnp⟩ := (mem_removeTree s p q d).mp hm
    obtain ⟨c', hc'⟩ := hw.parents q d hms hq
    refine ⟨c', (mem_removeTree s p _ c').mpr ⟨hc', ?_⟩⟩
    cases hpre : p.isPrefixOf q.dropLast with
    | false => rfl
    | true =>
      have h1 : p <+: q.dropLast := (isPrefixOf_iff _ _).mp hpre
      have h2 : p <+: q := h1.trans (dropLast_prefix_self q)
      have := (isPrefixOf_iff p q).mpr h2
      rw [this] at hnp; cases hnp
  · obtain ⟨r, hr, hrt⟩ := hw.root
    refine ⟨r, (mem_removeTree s p [] r).mpr ⟨hr, ?_⟩, hrt⟩
    cases p with
    | nil => exact absurd rfl hne
    | cons a as => rfl

theorem coll?_removeTree_self (s : Store) (p : Path) : coll? (removeTree s p) p = none := by
  unfold coll?
  simp only [Option.map_eq_none_iff, List.find?_eq_none]
  intro e he
  have := (mem_removeTree s p e.1 e.2).mp he
  intro heq
  simp only [beq_iff_eq] at heq
  have hpre : p.isPrefixOf e.1 = true := by rw [heq]; exact (isPrefixOf_iff p p).mpr (List.prefix_refl p)
  rw [hpre] at this
  cases this.2

/-! ### members of one collection -/

theorem insertSorted_perm (h : String) (it : Item) (l : List (String × Item)) (hno : ∀ e ∈ l, e.1 ≠ h) :
    (insertSorted h it l).Perm ((h, it) :: l) := by
  induction l with
  | nil => simp [insertSorted]
  | cons e rest ih =>
    obtain ⟨k, v⟩ := e
    simp only [insertSorted]
    split
    · exact List.Perm.refl _
    · split
      · rename_i _ heq
        exact absurd heq.symm (hno (k, v) (by simp))
      · exact (List.Perm.cons _ (ih (fun x hx => hno x (List.mem_cons_of_mem _ hx)))).trans (List.Perm.swap _ _ _)

theorem putEntry_perm (h : String) (it : Item) (l : List (String × Item)) :
    (putEntry h it l).Perm ((h, it) :: l.filter (fun e => e.1 != h)) := by
  unfold putEntry
  apply insertSorted_perm
  intro e he
  simp only [List.mem_filter, bne_iff_ne, ne_eq] at he
  exact he.2

theorem mem_putEntry (h : String) (it : Item) (l : List (String × Item)) (e : String × Item) :
    e ∈ putEntry h it l ↔ e = (h, it) ∨ (e ∈ l ∧ e.1 ≠ h) := by
  rw [(putEntry_perm h it l).mem_iff]
  simp [List.mem_filter]

/-- writing `it` under `h` keeps UIDs and names unique when no *other* member has its UID -/
theorem putEntry_ok (h : String) (it : Item) (l : List (String × Item))
    (hu : (l.map (fun e => e.2.uid)).Nodup) (hh : (l.map (·.1)).Nodup)
    (hother : ∀ e ∈ l, e.1 ≠ h → e.2.uid ≠ it.uid) :
    ((putEntry h it l).map (fun e => e.2.uid)).Nodup ∧ ((putEntry h it l).map (·.1)).Nodup := by
  have hp := putEntry_perm h it l
  have hsub : (l.filter (fun e => e.1 != h)).Sublist l := List.filter_sublist
  constructor
  · rw [(hp.map _).nodup_iff]
    simp only [List.map_cons, List.nodup_cons]
    refine ⟨?_, List.Nodup.sublist (hsub.map _) hu⟩
    intro hm
    obtain ⟨e, he, heq⟩ := List.mem_map.mp hm
    simp only [List.mem_filter, bne_iff_ne, ne_eq] at he
    exact hother e he.1 he.2 heq
  · rw [(hp.map _).nodup_iff]
    simp only [List.map_cons, List.nodup_cons]
    refine ⟨?_, List.Nodup.sublist (hsub.map _) hh⟩
    intro hm
    obtain ⟨e, he, heq⟩ := List.mem_map.mp hm
    simp only [List.mem_filter, bne_iff_ne, ne_eq] at he
    exact he.2 heq

theorem collOk_put (c : Coll) (h : String) (it : Item) (hc : CollOk c) (ht : c.tag ≠ .none)
    (hother : ∀ e ∈ c.items, e.1 ≠ h → e.2.uid ≠ it.uid) : CollOk (c.put h it) := by
  obtain ⟨h1, h2⟩ := putEntry_ok h it c.items hc.1 hc.2.1 hother
  exact ⟨h1, h2, fun e => absurd e ht⟩

theorem collOk_del (c : Coll) (h : String) (hc : CollOk c) : CollOk (c.del h) := by
  have hsub : (c.items.filter (fun e => e.1 != h)).Sublist c.items := List.filter_sublist
  refine ⟨List.Nodup.sublist (hsub.map _) hc.1, List.Nodup.sublist (hsub.map _) hc.2.1, ?_⟩
  intro ht
  simp [Coll.del, hc.2.2 ht]

/-- two members with the same UID are the same member -/
theorem same_uid_same_member (l : List (String × Item)) (hu : (l.map (fun e => e.2.uid)).Nodup) (a b : String × Item)
    (ha : a ∈ l) (hb : b ∈ l) (he : a.2.uid = b.2.uid) : a = b := by
  induction l with
  | nil => simp at ha
  | cons x xs ih =>
    simp only [List.map_cons, List.nodup_cons] at hu
    rcases List.mem_cons.mp ha with ha1 | ha2 <;> rcases List.mem_cons.mp hb with hb1 | hb2
    · rw [ha1, hb1]
    · have hin : x.2.uid ∈ xs.map (fun e => e.2.uid) := List.mem_map.mpr ⟨b, hb2, by rw [← he, ha1]⟩
      exact absurd hin hu.1
    · have hin : x.2.uid ∈ xs.map (fun e => e.2.uid) := List.mem_map.mpr ⟨a, ha2, by rw [he, hb1]⟩
      exact absurd hin hu.1
    · exact ih hu.2 ha2 hb2

theorem item?_mem (c : Coll) (h : String) (it : Item) (hi : item? c h = some it) : (h, it) ∈ c.items := by
  unfold item? at hi
  cases hf : c.items.find? (fun e => e.1 == h) with
  | none => simp [hf] at hi
  | some e =>
    simp only [hf, Option.map_some, Option.some.injEq] at hi
    have h1 := List.find?_some hf
    have h2 := List.mem_of_find?_eq_some hf
    simp only [beq_iff_eq] at h1
    obtain ⟨a, b⟩ := e
    simp only at h1 hi
    subst h1; subst hi
    exact h2

theorem item?_none (c : Coll) (h : String) (hi : item? c h = none) : ∀ e ∈ c.items, e.1 ≠ h := by
  intro e he heq
  unfold item? at hi
  simp only [Option.map_eq_none_iff, List.find?_eq_none] at hi
  have := hi e he
  simp [heq] at this

/-- members of a collection built from an upload: folding `putEntry` over entries with distinct UIDs -/
theorem fold_putEntry_ok (es : List (String × Item)) (hu : (es.map (fun e => e.2.uid)).Nodup) :
    ∀ (acc : List (String × Item)), (acc.map (fun e => e.2.uid)).Nodup → (acc.map (·.1)).Nodup →
      (∀ a ∈ acc, ∀ e ∈ es, a.2.uid ≠ e.2.uid) →
      ((es.foldl (fun acc e => putEntry e.1 e.2 acc) acc).map (fun e => e.2.uid)).Nodup ∧
      ((es.foldl (fun acc e => putEntry e.1 e.2 acc) acc).map (·.1)).Nodup := by
  induction es with
  | nil => intro acc h1 h2 _; exact ⟨h1, h2⟩
  | cons e rest ih =>
    intro acc h1 h2 hdis
    simp only [List.map_cons, List.nodup_cons] at hu
    simp only [List.foldl_cons]
    obtain ⟨g1, g2⟩ := putEntry_ok e.1 e.2 acc h1 h2 (fun a ha _ => hdis a ha e (by simp))
    apply ih hu.2 _ g1 g2
    intro a ha x hx
    rcases (mem_putEntry e.1 e.2 acc a).mp ha with rfl | ⟨ha', _⟩
    · intro heq
      exact hu.1 (List.mem_map.mpr ⟨x, hx, heq.symm⟩)
    · exact hdis a ha' x (List.mem_cons_of_mem _ hx)

theorem assignHrefs_uids (suffix : String) (items : List Item) (taken : List String) :
    (assignHrefs suffix items taken).map (fun e => e.2.uid) = items.map (·.uid) := by
  induction items generalizing taken with
  | nil => rfl
  | cons it rest ih => simp [assignHrefs, ih]

/-! ### what an upload parses to -/

theorem insertGroup_keys_perm (o : Obj) (gs : List (String × List Obj)) (hfresh : o.uid ∉ gs.map (·.1)) :
    ((insertGroup o gs).map (·.1)).Perm (o.uid :: gs.map (·.1)) := by
  induction gs with
  | nil => simp [insertGroup]
  | cons g rest ih =>
    obtain ⟨u, grp⟩ := g
    simp only [insertGroup]
    split
    · exact List.Perm.refl _
    · split
      · rename_i _ heq
        exact absurd (by simp [heq]) hfresh
      · simp only [List.map_cons]
        have hf : o.uid ∉ rest.map (·.1) := fun hm => hfresh (by simp [hm])
        exact (List.Perm.cons _ (ih hf)).trans (List.Perm.swap _ _ _)

theorem groups_keys (objs : List Obj) (hu : (objs.map (·.uid)).Nodup) :
    ∀ (acc : List (String × List Obj)), (acc.map (·.1)).Nodup → (∀ k ∈ acc.map (·.1), k ∉ objs.map (·.uid)) →
      ((objs.foldl (fun acc o => insertGroup o acc) acc).map (·.1)).Nodup := by
  induction objs with
  | nil => intro acc h _; exact h
  | cons o rest ih =>
    intro acc hacc hdis
    simp only [List.map_cons, List.nodup_cons] at hu
    simp only [List.foldl_cons]
    have hfresh : o.uid ∉ acc.map (·.1) := fun hm => hdis _ hm (by simp)
    have hp := insertGroup_keys_perm o acc hfresh
    apply ih hu.2
    · rw [hp.nodup_iff]; exact List.nodup_cons.mpr ⟨hfresh, hacc⟩
    · intro k hk
      have hk' := hp.mem_iff.mp hk
      rcases List.mem_cons.mp hk' with rfl | hk''
      · exact hu.1
      · intro hm; exact hdis k hk'' (List.mem_cons_of_mem _ hm)

theorem asCollection_ok (b : Body) (t : Tag) (items : List (String × Item)) (h : asCollection b = some (t, items)) :
    CollOk ⟨t, [], items⟩ ∧ t ≠ .none := by
  unfold asCollection at h
  cases b with
  | unparsable => simp at h
  | cal objs =>
    simp only at h
    split at h
    · rename_i hcond
      simp only [Option.some.injEq, Prod.mk.injEq] at h
      obtain ⟨rfl, rfl⟩ := h
      simp only [Bool.and_eq_true, decide_eq_true_eq] at hcond
      have hk := groups_keys objs hcond.2 [] (by simp) (by simp)
      refine ⟨?_, by simp⟩
      have hu : ((assignHrefs ".ics" ((objs.foldl (fun acc o => insertGroup o acc) []).map
          (fun x => (⟨x.1, (x.2.head?.map (·.kind)).getD .event, 1000000 + groupCid x.2⟩ : Item))) []).map (fun e => e.2.uid)).Nodup := by
        rw [assignHrefs_uids, List.map_map]
        exact hk
      obtain ⟨g1, g2⟩ := fold_putEntry_ok _ hu [] (by simp) (by simp) (by simp)
      exact ⟨g1, g2, fun e => by cases e⟩
    · simp at h
  | cards objs =>
    simp only at h
    split at h
    · rename_i hcond
      simp only [Option.some.injEq, Prod.mk.injEq] at h
      obtain ⟨rfl, rfl⟩ := h
      simp only [Bool.and_eq_true, decide_eq_true_eq] at hcond
      refine ⟨?_, by simp⟩
      have hu : ((assignHrefs ".vcf" (objs.map (fun o => (⟨o.uid, .card, o.cid⟩ : Item))) []).map (fun e => e.2.uid)).Nodup := by
        rw [assignHrefs_uids, List.map_map]
        exact hcond.2
      obtain ⟨g1, g2⟩ := fold_putEntry_ok _ hu [] (by simp) (by simp) (by simp)
      exact ⟨g1, g2, fun e => by cases e⟩
    · simp at h

/-! ### updates -/

/-- side conditions under which an update keeps the store well-formed; every update a handler decides on
    satisfies them (`handleU_updOk`) -/
def UpdOk (s : Store) : Update → Prop
  | .setColl p c =>
    (coll? s p = none ∧ p ≠ [] ∧ (∃ pc, (p.dropLast, pc) ∈ s ∧ pc.tag = .none) ∧ CollOk c) ∨
    (∃ c0, (p, c0) ∈ s ∧ c.tag = c0.tag ∧ CollOk c)
  | .replaceTree p c => p ≠ [] ∧ CollOk c ∧ ((∃ c0, (p, c0) ∈ s) ∨ (∃ pc, (p.dropLast, pc) ∈ s ∧ pc.tag = .none))
  | .removeTree p => p ≠ []
  | .resetRoot => True
  | .moveItem parent h dparent dh it =>
    ∃ c dc, (parent, c) ∈ s ∧ (h, it) ∈ c.items ∧ (dparent, dc) ∈ s ∧ c.tag ≠ .none ∧ dc.tag ≠ .none ∧
      (dparent ≠ parent → ∀ e ∈ dc.items, e.1 ≠ dh → e.2.uid ≠ it.uid)

theorem not_prefix_dropLast (p : Path) (hne : p ≠ []) : p.isPrefixOf p.dropLast = false := by
  cases h : p.isPrefixOf p.dropLast with
  | false => rfl
  | true =>
    have := ((isPrefixOf_iff _ _).mp h).length_le
    simp only [List.length_dropLast] at this
    have hl : 0 < p.length := List.length_pos_iff.mpr hne
    omega

theorem wf_applyUpdate (s : Store) (hw : WF s) (u : Update) (hu : UpdOk s u) : WF (applyUpdate s u) := by
  cases u with
  | setColl p c =>
    rcases hu with ⟨hfree, hne, ⟨pc, hpc, hpt⟩, hc⟩ | ⟨c0, hm0, ht, hc⟩
    · exact wf_setColl_new s hw p c pc hfree hne hpc hpt hc
    · exact wf_setColl_same s hw p c c0 hm0 ht hc
  | replaceTree p c =>
    obtain ⟨hne, hc, hcase⟩ := hu
    have hw1 := wf_removeTree s hw p hne
    have hparent : ∃ pc, (p.dropLast, pc) ∈ s ∧ pc.tag = .none := by
      rcases hcase with ⟨c0, hm0⟩ | h
      · obtain ⟨pc, hpc⟩ := hw.parents p c0 hm0 hne
        refine ⟨pc, hpc, ?_⟩
        cases ht : pc.tag with
        | none => rfl
        | cal =>
          have := hw.nonest _ pc p c0 hpc hm0 (by rw [ht]; simp) (dropLast_prefix_self p)
          exact absurd this (dropLast_ne_self p hne)
        | book =>
          have := hw.nonest _ pc p c0 hpc hm0 (by rw [ht]; simp) (dropLast_prefix_self p)
          exact absurd this (dropLast_ne_self p hne)
      · exact h
    obtain ⟨pc, hpc, hpt⟩ := hparent
    have hpc1 : (p.dropLast, pc) ∈ removeTree s p := (mem_removeTree s p _ pc).mpr ⟨hpc, not_prefix_dropLast p hne⟩
    exact wf_setColl_new (removeTree s p) hw1 p c pc (coll?_removeTree_self s p) hne hpc1 hpt hc
  | removeTree p => exact wf_removeTree s hw p hu
  | resetRoot => exact wf_init
  | moveItem parent h dparent dh it =>
    obtain ⟨c, dc, hc, hit, hdc, hct, hdt, hother⟩ := hu
    have hcoll : coll? s parent = some c := mem_coll? s hw.keys _ c hc
    simp only [applyUpdate, hcoll]
    have hw1 : WF (setColl s parent (c.del h)) :=
      wf_setColl_same s hw parent (c.del h) c hc rfl (collOk_del c h (hw.colls _ c hc))
    by_cases hsame : dparent = parent
    · subst hsame
      have hm1 : (dparent, c.del h) ∈ setColl s dparent (c.del h) := (mem_setColl s dparent _ dparent _).mpr (Or.inl ⟨rfl, rfl⟩)
      rw [mem_coll? _ hw1.keys _ _ hm1]
      simp only []
      refine wf_setColl_same _ hw1 dparent ((c.del h).put dh it) (c.del h) hm1 (by simp [Coll.put]) ?_
      apply collOk_put _ _ _ (collOk_del c h (hw.colls _ c hc)) (by simpa [Coll.del] using hct)
      intro e he hne heq
      simp only [Coll.del, List.mem_filter, bne_iff_ne, ne_eq] at he
      have := same_uid_same_member c.items (hw.colls _ c hc).1 e (h, it) he.1 hit heq
      exact he.2 (by rw [this])
    · have hm1 : (dparent, dc) ∈ setColl s parent (c.del h) := (mem_setColl s parent _ dparent dc).mpr (Or.inr ⟨hsame, hdc⟩)
      rw [mem_coll? _ hw1.keys _ _ hm1]
      simp only []
      exact wf_setColl_same _ hw1 dparent (dc.put dh it) dc hm1 (by simp [Coll.put])
        (collOk_put _ _ _ (hw.colls _ dc hdc) hdt (hother hsame))

/-! ### what `resolve` tells -/

theorem resolve_coll (s : Store) (p q : Path) (c : Coll) (h : resolve s p = .coll q c) : q = p ∧ coll? s p = some c := by
  unfold resolve at h
  cases hc : coll? s p with
  | some c' => simp only [hc] at h; injection h with h1 h2; exact ⟨h1.symm, by rw [h2]⟩
  | none =>
    simp only [hc] at h
    cases hl : p.getLast? with
    | none => simp [hl] at h
    | some x =>
      simp only [hl] at h
      cases hp : coll? s p.dropLast with
      | none => simp [hp] at h
      | some pc =>
        simp only [hp] at h
        cases hi : item? pc x <;> simp [hi] at h

theorem resolve_item (s : Store) (p par : Path) (c : Coll) (x : String) (it : Item) (h : resolve s p = .item par c x it) :
    coll? s p = none ∧ par = p.dropLast ∧ coll? s p.dropLast = some c ∧ p.getLast? = some x ∧ item? c x = some it := by
  unfold resolve at h
  cases hc : coll? s p with
  | some c' => simp [hc] at h
  | none =>
    simp only [hc] at h
    cases hl : p.getLast? with
    | none => simp [hl] at h
    | some y =>
      simp only [hl] at h
      cases hp : coll? s p.dropLast with
      | none => simp [hp] at h
      | some pc =>
        simp only [hp] at h
        cases hi : item? pc y with
        | none => simp [hi] at h
        | some it' =>
          simp only [hi] at h
          injection h with h1 h2 h3 h4
          subst h1; subst h2; subst h3; subst h4
          exact ⟨rfl, rfl, rfl, rfl, hi⟩

theorem resolve_absent (s : Store) (p : Path) (h : resolve s p = .absent) : coll? s p = none := by
  unfold resolve at h
  cases hc : coll? s p with
  | some c' => simp [hc] at h
  | none => rfl

theorem root_present (s : Store) (hw : WF s) : ∃ c, coll? s [] = some c ∧ c.tag = .none := by
  obtain ⟨r, hr, ht⟩ := hw.root
  exact ⟨r, mem_coll? s hw.keys [] r hr, ht⟩

theorem collOk_empty (t : Tag) (props : List (String × String)) : CollOk ⟨t, props, []⟩ :=
  ⟨by simp, by simp, fun _ => rfl⟩

/-! ### every update a handler decides on is admissible -/

theorem mkcolU_updOk (cfg : Cfg) (rights : Rights) (user : String) (s : Store) (hw : WF s) (p tag props bad) (u : Update)
    (h : (mkcolU cfg rights user s p tag props bad).2 = some u) : UpdOk s u := by
  unfold mkcolU at h
  simp only [] at h
  split at h
  · simp at h
  split at h
  · simp at h
  split at h
  · simp at h
  split at h
  · simp at h
  split at h
  · rename_i hres
    split at h
    · split at h
      · simp at h
      · split at h <;> simp at h
    · rename_i pc hpar
      split at h
      · simp at h
      · rename_i hpt
        simp only [Option.some.injEq] at h
        subst h
        have hfree := resolve_absent s p hres
        have hne : p ≠ [] := by
          intro e; subst e
          obtain ⟨r, hr, _⟩ := root_present s hw
          rw [hr] at hfree; cases hfree
        left
        refine ⟨hfree, hne, ⟨pc, coll?_some_mem s _ pc hpar, by simpa using hpt⟩, collOk_empty _ _⟩
  · simp at h

theorem mkcalendarU_updOk (cfg : Cfg) (rights : Rights) (user : String) (s : Store) (hw : WF s) (p props bad) (u : Update)
    (h : (mkcalendarU cfg rights user s p props bad).2 = some u) : UpdOk s u := by
  unfold mkcalendarU at h
  simp only [] at h
  split at h
  · simp at h
  split at h
  · simp at h
  split at h
  · rename_i hres
    split at h
    · split at h
      · simp at h
      · split at h <;> simp at h
    · rename_i pc hpar
      split at h
      · simp at h
      · rename_i hpt
        simp only [Option.some.injEq] at h
        subst h
        have hfree := resolve_absent s p hres
        have hne : p ≠ [] := by
          intro e; subst e
          obtain ⟨r, hr, _⟩ := root_present s hw
          rw [hr] at hfree; cases hfree
        left
        exact ⟨hfree, hne, ⟨pc, coll?_some_mem s _ pc hpar, by simpa using hpt⟩, collOk_empty _ _⟩
  · simp at h

theorem deleteU_item_upd (cfg : Cfg) (rights : Rights) (user : String) (s : Store) (p im imc) (u : Update)
    (parent : Path) (c : Coll) (x : String) (it : Item) (hres : resolve s p = .item parent c x it)
    (h : (deleteU cfg rights user s p im imc).2 = some u) : u = .setColl parent (c.del x) := by
  unfold deleteU at h
  simp only [hres] at h
  repeat' split at h
  all_goals simp_all

theorem deleteU_coll_upd (cfg : Cfg) (rights : Rights) (user : String) (s : Store) (p im imc) (u : Update)
    (q : Path) (c : Coll) (hres : resolve s p = .coll q c)
    (h : (deleteU cfg rights user s p im imc).2 = some u) : u = .resetRoot ∨ (u = .removeTree p ∧ p ≠ []) := by
  unfold deleteU at h
  simp only [hres] at h
  repeat' split at h
  all_goals simp_all

theorem deleteU_absent_upd (cfg : Cfg) (rights : Rights) (user : String) (s : Store) (p im imc)
    (hres : resolve s p = .absent) : (deleteU cfg rights user s p im imc).2 = none := by
  unfold deleteU
  simp only [hres]
  repeat' split
  all_goals rfl

theorem deleteU_updOk (cfg : Cfg) (rights : Rights) (user : String) (s : Store) (hw : WF s) (p im imc) (u : Update)
    (h : (deleteU cfg rights user s p im imc).2 = some u) : UpdOk s u := by
  cases hres : resolve s p with
  | absent => rw [deleteU_absent_upd cfg rights user s p im imc hres] at h; cases h
  | coll q c =>
    rcases deleteU_coll_upd cfg rights user s p im imc u q c hres h with rfl | ⟨rfl, hne⟩
    · trivial
    · exact hne
  | item parent c x it =>
    have := deleteU_item_upd cfg rights user s p im imc u parent c x it hres h
    subst this
    obtain ⟨_, hpar, hc, _, _⟩ := resolve_item s p parent c x it hres
    have hm : (parent, c) ∈ s := by rw [hpar]; exact coll?_some_mem s _ c hc
    right
    exact ⟨c, hm, rfl, collOk_del c x (hw.colls _ c hm)⟩

theorem proppatchU_coll_upd (cfg : Cfg) (rights : Rights) (user : String) (s : Store) (p set rm st bad) (u : Update)
    (q : Path) (c : Coll) (hres : resolve s p = .coll q c)
    (h : (proppatchU cfg rights user s p set rm st bad).2 = some u) : ∃ props', u = .setColl p { c with props := props' } := by
  unfold proppatchU at h
  simp only [hres] at h
  repeat' split at h
  all_goals first | (simp at h; done) | (simp only [Option.some.injEq] at h; exact ⟨_, h.symm⟩)

theorem proppatchU_other_upd (cfg : Cfg) (rights : Rights) (user : String) (s : Store) (p set rm st bad)
    (hres : ∀ q c, resolve s p ≠ .coll q c) : (proppatchU cfg rights user s p set rm st bad).2 = none := by
  unfold proppatchU
  cases hr : resolve s p with
  | coll q c => exact absurd hr (hres q c)
  | absent => simp only []; repeat' split
              all_goals rfl
  | item a b c d => simp only []; repeat' split
                    all_goals rfl

theorem proppatchU_updOk (cfg : Cfg) (rights : Rights) (user : String) (s : Store) (hw : WF s) (p set rm st bad) (u : Update)
    (h : (proppatchU cfg rights user s p set rm st bad).2 = some u) : UpdOk s u := by
  cases hres : resolve s p with
  | coll q c =>
    obtain ⟨props', rfl⟩ := proppatchU_coll_upd cfg rights user s p set rm st bad u q c hres h
    obtain ⟨_, hc⟩ := resolve_coll s p q c hres
    have hm := coll?_some_mem s p c hc
    right
    exact ⟨c, hm, rfl, hw.colls p c hm⟩
  | absent =>
    rw [proppatchU_other_upd cfg rights user s p set rm st bad (by intro q c e; rw [hres] at e; cases e)] at h; cases h
  | item a b c d =>
    rw [proppatchU_other_upd cfg rights user s p set rm st bad (by intro q c e; rw [hres] at e; cases e)] at h; cases h

theorem asCollection_cal_tag (objs : List Obj) (t : Tag) (items : List (String × Item))
    (h : asCollection (.cal objs) = some (t, items)) : t = .cal := by
  unfold asCollection at h
  simp only at h
  split at h <;> simp at h
  exact h.1.symm

theorem asCollection_cards_tag (objs : List Obj) (t : Tag) (items : List (String × Item))
    (h : asCollection (.cards objs) = some (t, items)) : t = .book := by
  unfold asCollection at h
  simp only at h
  split at h <;> simp at h
  exact h.1.symm

theorem putWholeU_upd (cfg : Cfg) (rights : Rights) (user : String) (p : Path) (body : Body) (target : Target) (raw nm imc) (u : Update)
    (h : (putWholeU cfg rights user p body target raw nm imc).2 = some u) :
    ∃ t items, asCollection body = some (t, items) ∧ u = .replaceTree p ⟨t, [], items⟩ ∧ has (rights user p) "w" = true := by
  unfold putWholeU at h
  cases body with
  | unparsable =>
    simp only [asCollection] at h
    repeat' split at h
    all_goals simp at h
  | cal objs =>
    simp only [reduceCtorEq, ↓reduceIte] at h
    repeat' split at h
    all_goals first | (simp at h; done) | skip
    all_goals
      simp only [Option.some.injEq] at h
      have ht := asCollection_cal_tag objs _ _ (by assumption)
      subst ht
      refine ⟨.cal, _, by assumption, h.symm, ?_⟩
      simp_all
  | cards objs =>
    simp only [reduceCtorEq, ↓reduceIte] at h
    repeat' split at h
    all_goals first | (simp at h; done) | skip
    all_goals
      simp only [Option.some.injEq] at h
      have ht := asCollection_cards_tag objs _ _ (by assumption)
      subst ht
      refine ⟨.book, _, by assumption, h.symm, ?_⟩
      simp_all

def putCond (target : Target) (pc : Coll) (it : Item) : Prop :=
  match target with
  | .item _ _ _ old => old.uid = it.uid
  | _ => pc.hasUid it.uid = false

theorem putItemU_upd (rights : Rights) (user : String) (p : Path) (body : Body) (pc : Coll) (target : Target) (im raw nm) (u : Update)
    (h : (putItemU rights user p body pc target im raw nm).2 = some u) :
    ∃ it, asItem pc.tag body = some it ∧ u = .setColl p.dropLast (pc.put (p.getLast?.getD "") it) ∧ putCond target pc it := by
  unfold putItemU at h
  simp only [] at h
  cases target with
  | absent =>
    simp only [] at h
    repeat' split at h
    all_goals first | (simp at h; done) | skip
    all_goals
      simp only [Option.some.injEq] at h
      refine ⟨_, by assumption, h.symm, ?_⟩
      simp_all [putCond]
  | coll q c =>
    simp only [] at h
    repeat' split at h
    all_goals first | (simp at h; done) | skip
    all_goals
      simp only [Option.some.injEq] at h
      refine ⟨_, by assumption, h.symm, ?_⟩
      simp_all [putCond]
  | item a b c old =>
    simp only [] at h
    repeat' split at h
    all_goals first | (simp at h; done) | skip
    all_goals
      simp only [Option.some.injEq] at h
      refine ⟨_, by assumption, h.symm, ?_⟩
      simp_all [putCond]

theorem hasUid_false (c : Coll) (uid : String) (h : c.hasUid uid = false) : ∀ e ∈ c.items, e.2.uid ≠ uid := by
  intro e he heq
  unfold Coll.hasUid at h
  have : c.items.any (fun e => e.2.uid == uid) = true := List.any_eq_true.mpr ⟨e, he, by simp [heq]⟩
  rw [this] at h; cases h

theorem putU_updOk (cfg : Cfg) (rights : Rights) (user : String) (s : Store) (hw : WF s)
    (hroot : has (rights user []) "w" = false) (p body im raw nm imc) (u : Update)
    (h : (putU cfg rights user s p body im raw nm imc).2 = some u) : UpdOk s u := by
  unfold putU at h
  split at h
  · simp at h
  split at h
  · simp at h
  split at h
  · simp at h
  · rename_i pc hpar
    have hpm : (p.dropLast, pc) ∈ s := coll?_some_mem s _ pc hpar
    unfold putDispatch at h
    split at h
    · -- the whole collection is written
      rename_i hwhole
      obtain ⟨t, items, has_, rfl, hperm⟩ := putWholeU_upd cfg rights user p body (resolve s p) raw nm imc u h
      have hne : p ≠ [] := by
        intro e; subst e; rw [hroot] at hperm; cases hperm
      refine ⟨hne, (asCollection_ok body t items has_).1, ?_⟩
      cases hres : resolve s p with
      | coll q c => exact Or.inl ⟨c, coll?_some_mem s p c (resolve_coll s p q c hres).2⟩
      | absent =>
        right
        simp only [isWhole, hres, Bool.false_or, decide_eq_true_eq] at hwhole
        exact ⟨pc, hpm, hwhole⟩
      | item a b c d =>
        right
        simp only [isWhole, hres, Bool.false_or, decide_eq_true_eq] at hwhole
        exact ⟨pc, hpm, hwhole⟩
    · rename_i hwhole
      obtain ⟨it, _, rfl, hcond⟩ := putItemU_upd rights user p body pc (resolve s p) im raw nm u h
      have hpt : pc.tag ≠ .none := by
        intro e
        apply hwhole
        simp [isWhole, e]
      right
      refine ⟨pc, hpm, by simp [Coll.put], collOk_put pc _ it (hw.colls _ pc hpm) hpt ?_⟩
      cases hres : resolve s p with
      | absent =>
        rw [hres] at hcond
        simp only [putCond] at hcond
        intro e he _
        exact hasUid_false pc it.uid hcond e he
      | coll q c =>
        rw [hres] at hcond
        simp only [putCond] at hcond
        intro e he _
        exact hasUid_false pc it.uid hcond e he
      | item par c' x old =>
        rw [hres] at hcond
        simp only [putCond] at hcond
        obtain ⟨_, _, hc', hlast, hitem⟩ := resolve_item s p par c' x old hres
        have hcc : c' = pc := by unfold parentOk at hpar; rw [hpar] at hc'; injection hc' with e; exact e.symm
        subst hcc
        have hx : p.getLast?.getD "" = x := by rw [hlast]; rfl
        rw [hx]
        intro e he hne heq
        have := same_uid_same_member c'.items (hw.colls _ c' hpm).1 e (x, old) he (item?_mem c' x old hitem)
          (by rw [heq]; exact hcond.symm)
        exact hne (by rw [this])

def moveCond (tdst : Target) (parent dparent : Path) (dc : Coll) (it : Item) : Prop :=
  match tdst with
  | .item _ _ _ x => it.uid = x.uid
  | _ => dparent ≠ parent → dc.hasUid it.uid = false

theorem moveU_other_upd (cfg : Cfg) (rights : Rights) (user : String) (s : Store) (src dst ov)
    (hres : ∀ a b c d, resolve s src ≠ .item a b c d) : (moveU cfg rights user s src dst ov).2 = none := by
  unfold moveU
  cases hr : resolve s src with
  | item a b c d => exact absurd hr (hres a b c d)
  | absent => simp only []; repeat' split
              all_goals rfl
  | coll q c => simp only []; repeat' split
                all_goals rfl

theorem moveU_item_upd (cfg : Cfg) (rights : Rights) (user : String) (s : Store) (src dst ov) (u : Update)
    (parent : Path) (c : Coll) (h : String) (it : Item) (hres : resolve s src = .item parent c h it)
    (hu : (moveU cfg rights user s src dst ov).2 = some u) :
    ∃ dc, parentOk s dst = some dc ∧ (¬(decide (c.tag = Tag.none) || decide (c.tag ≠ dc.tag)) = true) ∧
      u = .moveItem parent h dst.dropLast (dst.getLast?.getD "") it ∧ moveCond (resolve s dst) parent dst.dropLast dc it := by
  unfold moveU at hu
  simp only [hres] at hu
  cases hd : resolve s dst with
  | coll q d =>
    simp only [hd] at hu
    repeat' split at hu
    all_goals simp at hu
  | absent =>
    simp only [hd] at hu
    repeat' split at hu
    all_goals first | (simp at hu; done) | skip
    all_goals
      simp only [Option.some.injEq] at hu
      refine ⟨_, by assumption, by assumption, hu.symm, ?_⟩
      simp_all [moveCond]
  | item a b x y =>
    simp only [hd] at hu
    repeat' split at hu
    all_goals first | (simp at hu; done) | skip
    all_goals
      simp only [Option.some.injEq] at hu
      refine ⟨_, by assumption, by assumption, hu.symm, ?_⟩
      simp_all [moveCond]

theorem moveU_updOk (cfg : Cfg) (rights : Rights) (user : String) (s : Store) (hw : WF s) (src dst ov) (u : Update)
    (hu : (moveU cfg rights user s src dst ov).2 = some u) : UpdOk s u := by
  cases hres : resolve s src with
  | absent => rw [moveU_other_upd cfg rights user s src dst ov (by intro a b c d e; rw [hres] at e; cases e)] at hu; cases hu
  | coll q c => rw [moveU_other_upd cfg rights user s src dst ov (by intro a b c d e; rw [hres] at e; cases e)] at hu; cases hu
  | item parent c h it =>
    obtain ⟨dc, hpar, htags, rfl, hcond⟩ := moveU_item_upd cfg rights user s src dst ov u parent c h it hres hu
    simp only [Bool.or_eq_true, decide_eq_true_eq, not_or, ne_eq, Decidable.not_not] at htags
    obtain ⟨_, hp, hc, _, hitem⟩ := resolve_item s src parent c h it hres
    have hcm : (parent, c) ∈ s := by rw [hp]; exact coll?_some_mem s _ c hc
    have hdm : (dst.dropLast, dc) ∈ s := coll?_some_mem s _ dc hpar
    refine ⟨c, dc, hcm, item?_mem c h it hitem, hdm, htags.1, by rw [← htags.2]; exact htags.1, ?_⟩
    intro hne
    cases hd : resolve s dst with
    | absent =>
      rw [hd] at hcond; simp only [moveCond] at hcond
      intro e he _; exact hasUid_false dc it.uid (hcond hne) e he
    | coll q d =>
      rw [hd] at hcond; simp only [moveCond] at hcond
      intro e he _; exact hasUid_false dc it.uid (hcond hne) e he
    | item a b x y =>
      rw [hd] at hcond; simp only [moveCond] at hcond
      obtain ⟨_, _, hb, hlast, hy⟩ := resolve_item s dst a b x y hd
      have hbb : b = dc := by unfold parentOk at hpar; rw [hpar] at hb; injection hb with e; exact e.symm
      subst hbb
      have hx : dst.getLast?.getD "" = x := by rw [hlast]; rfl
      rw [hx]
      intro e he hne' heq
      have := same_uid_same_member b.items (hw.colls _ b hdm).1 e (x, y) he (item?_mem b x y hy) (by rw [heq]; exact hcond)
      exact hne' (by rw [this])

/-- every update decided by a handler is admissible (the root must not be writable as a calendar: finding F15) -/
theorem handleU_updOk (cfg : Cfg) (rights : Rights) (user : String) (s : Store) (hw : WF s)
    (hroot : has (rights user []) "w" = false) (r : Req) (u : Update) (h : (handleU cfg rights user s r).2 = some u) : UpdOk s u := by
  cases r with
  | mkcol p tag props bad => exact mkcolU_updOk cfg rights user s hw p tag props bad u h
  | mkcalendar p props bad => exact mkcalendarU_updOk cfg rights user s hw p props bad u h
  | put p body im raw nm imc => exact putU_updOk cfg rights user s hw hroot p body im raw nm imc u h
  | delete p im imc => exact deleteU_updOk cfg rights user s hw p im imc u h
  | move src dst ov => exact moveU_updOk cfg rights user s hw src dst ov u h
  | proppatch p set rm st bad => exact proppatchU_updOk cfg rights user s hw p set rm st bad u h
  | get p =>
    simp only [handleU] at h
    unfold getU at h
    simp only [] at h
    repeat' split at h
    all_goals simp at h
  | propfind p d =>
    simp only [handleU] at h
    unfold propfindU at h
    simp only [] at h
    repeat' split at h
    all_goals simp at h
  | multiget p hs b =>
    simp only [handleU] at h
    unfold multigetU multigetOn at h
    simp only [] at h
    repeat' split at h
    all_goals simp at h

theorem wf_handle (cfg : Cfg) (rights : Rights) (user : String) (s : Store) (hw : WF s)
    (hroot : has (rights user []) "w" = false) (r : Req) : WF (handle cfg rights user s r).2 := by
  unfold handle
  cases hh : handleU cfg rights user s r with
  | mk resp ou =>
    cases ou with
    | none => exact hw
    | some u =>
      simp only []
      exact wf_applyUpdate s hw u (handleU_updOk cfg rights user s hw hroot r u (by rw [hh]))

theorem wf_ensureHome (rights : Rights) (user : String) (s : Store) (hw : WF s) : WF (ensureHome rights user s) := by
  unfold ensureHome
  split
  · exact hw
  · rename_i hu
    split
    · exact hw
    · rename_i hfree
      split
      · split
        · obtain ⟨r, hr, hrt⟩ := hw.root
          exact wf_setColl_new s hw [user] _ r hfree (by simp) (by simpa using hr) hrt (collOk_empty _ _)
        · exact hw
      · exact hw

theorem wf_request (cfg : Cfg) (rights : Rights) (user : String) (s : Store) (hw : WF s)
    (hroot : has (rights user []) "w" = false) (r : Req) : WF (request cfg rights user s r).2 :=
  wf_handle cfg rights user _ (wf_ensureHome rights user s hw) hroot r

end Dav
