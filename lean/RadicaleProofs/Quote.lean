import RadicaleModel.Quote
namespace Radicale
namespace Quote
open Str

/-- what `quoteByte` produces, as a decidable statement about one byte -/
def QuoteByteSpec (b : UInt8) : Prop :=
  (∃ c : Char, quoteByte b = [c] ∧ c ≠ '%' ∧ c.toNat < 128 ∧ UInt8.ofNat c.toNat = b ∧ c ≠ '?') ∨
  (∃ h l : Char, quoteByte b = ['%', h, l] ∧ hexVal h = some (b / 16) ∧ hexVal l = some (b % 16)
     ∧ (b / 16) * 16 + b % 16 = b ∧ h ≠ '?' ∧ l ≠ '?')

def quoteByteCheck (b : UInt8) : Bool :=
  match quoteByte b with
  | [c] => c != '%' && decide (c.toNat < 128) && UInt8.ofNat c.toNat == b && c != '?'
  | ['%', h, l] => hexVal h == some (b / 16) && hexVal l == some (b % 16) && (b / 16) * 16 + b % 16 == b
                    && h != '?' && l != '?'
  | _ => false

theorem quoteByteCheck_all : ∀ n : Fin 256, quoteByteCheck (UInt8.ofNat n.val) = true := by
  decide +kernel

theorem quoteByteCheck_sound (b : UInt8) (h : quoteByteCheck b = true) : QuoteByteSpec b := by
  unfold quoteByteCheck at h
  unfold QuoteByteSpec
  split at h
  · rename_i c hc
    left
    refine ⟨c, hc, ?_⟩
    simp only [Bool.and_eq_true, bne_iff_ne, ne_eq, decide_eq_true_eq, beq_iff_eq] at h
    obtain ⟨⟨⟨h1, h2⟩, h3⟩, h4⟩ := h
    exact ⟨h1, h2, h3, h4⟩
  · rename_i hh ll hc
    right
    refine ⟨hh, ll, hc, ?_⟩
    simp only [Bool.and_eq_true, bne_iff_ne, ne_eq, beq_iff_eq] at h
    obtain ⟨⟨⟨⟨h1, h2⟩, h3⟩, h4⟩, h5⟩ := h
    exact ⟨h1, h2, h3, h4, h5⟩
  · simp at h

theorem quoteByte_spec (b : UInt8) : QuoteByteSpec b := by
  apply quoteByteCheck_sound
  have := quoteByteCheck_all ⟨b.toNat, b.toNat_lt⟩
  simpa using this

theorem pieces_quoteByte (b : UInt8) (rest : Str) :
    pieces (quoteByte b ++ rest) = .byte b :: pieces rest := by
  rcases quoteByte_spec b with ⟨c, hq, hne, hlt, hb, _⟩ | ⟨h, l, hq, hh, hl, hb, _, _⟩
  · rw [hq]
    simp only [List.cons_append, List.nil_append]
    conv => lhs; unfold pieces
    simp [hne, hlt, hb]
  · rw [hq]
    simp only [List.cons_append, List.nil_append]
    conv => lhs; unfold pieces
    simp [hh, hl, hb]

theorem pieces_quoteBytes (bs : List UInt8) : pieces (bs.flatMap quoteByte) = bs.map Piece.byte := by
  induction bs with
  | nil => simp [pieces]
  | cons b bs ih => simp [List.flatMap_cons, pieces_quoteByte, ih]

theorem decodePieces_bytes (bs acc : List UInt8) :
    decodePieces (bs.map Piece.byte) acc =
      if acc.reverse ++ bs = [] then [] else decodeRun (acc.reverse ++ bs) := by
  induction bs generalizing acc with
  | nil => simp [decodePieces]
  | cons b bs ih =>
    simp only [List.map_cons, decodePieces]
    rw [ih]
    simp

theorem decodeRun_utf8 (s : Str) : decodeRun (utf8 s) = s := by
  unfold decodeRun utf8
  have h : (List.flatMap String.utf8EncodeChar s).toByteArray = List.utf8Encode s := rfl
  rw [h, List.utf8Decode?_utf8Encode]

theorem utf8_eq_nil {s : Str} (h : utf8 s = []) : s = [] := by
  cases s with
  | nil => rfl
  | cons c cs =>
    simp only [utf8, List.flatMap_cons, List.append_eq_nil_iff] at h
    exact absurd h.1 String.utf8EncodeChar_ne_nil

theorem unquote_quote (s : Str) : unquote (quote s) = s := by
  unfold unquote quote
  rw [pieces_quoteBytes, decodePieces_bytes]
  simp only [List.reverse_nil, List.nil_append]
  by_cases h : utf8 s = []
  · have hs := utf8_eq_nil h
    subst hs
    simp [utf8]
  · simp [h, decodeRun_utf8]

/-- characters that may appear in a percent-encoded URL path -/
def urlPathChar (c : Char) : Bool :=
  c.isAlphanum || c == '-' || c == '.' || c == '_' || c == '~' || c == '/' || c == '%'

theorem quoteByte_chars_all : ∀ n : Fin 256, (quoteByte (UInt8.ofNat n.val)).all (fun c => urlPathChar c && c != '?' && c != '#' && c != ';') = true := by
  decide +kernel

theorem quoteByte_chars (b : UInt8) : ∀ c ∈ quoteByte b, urlPathChar c = true ∧ c ≠ '?' ∧ c ≠ '#' ∧ c ≠ ';' := by
  have := quoteByte_chars_all ⟨b.toNat, b.toNat_lt⟩
  simp only [UInt8.ofNat_toNat, List.all_eq_true, Bool.and_eq_true, bne_iff_ne, ne_eq] at this
  intro c hc
  obtain ⟨⟨⟨h1, h2⟩, h3⟩, h4⟩ := this c hc
  exact ⟨h1, h2, h3, h4⟩

theorem quote_chars (s : Str) : ∀ c ∈ quote s, urlPathChar c = true ∧ c ≠ '?' ∧ c ≠ '#' ∧ c ≠ ';' := by
  intro c hc
  unfold quote at hc
  rw [List.mem_flatMap] at hc
  obtain ⟨b, _, hb⟩ := hc
  exact quoteByte_chars b c hb

theorem takeWhile_all {α} (p : α → Bool) (l : List α) (h : ∀ x ∈ l, p x = true) : l.takeWhile p = l := by
  induction l with
  | nil => rfl
  | cons a l ih =>
    simp only [List.takeWhile_cons, h a (List.mem_cons_self), if_true]
    rw [ih (fun x hx => h x (List.mem_cons_of_mem _ hx))]

end Quote
end Radicale
