import RadicaleModel.Skeleton
/-
  Soundness of `xmlFirst`: in every execution, everything that precedes a parse of the request body leaves the
  storage and its lock alone.
-/
namespace Radicale
namespace Skeleton

/-- events of an execution come from the skeleton: a touching event needs `mayTouch`, a parse needs `hasXml` -/
theorem exec_events (sk : Sk) (h : Held) (t : Trace) (o : Outcome) (hx : Exec sk h t o) :
    (∀ p ∈ t, touch p.1 = true → mayTouch sk = true) ∧ (∀ p ∈ t, p.1 = .xml → hasXml sk = true) := by
  induction hx with
  | skip => exact ⟨by simp, by simp⟩
  | ev e h => exact ⟨by intro p hp ht; simp at hp; subst hp; simpa [mayTouch] using ht,
                     by intro p hp hxml; simp at hp; subst hp; simp at hxml; subst hxml; rfl⟩
  | evRaises e h => exact ⟨by intro p hp ht; simp at hp; subst hp; simpa [mayTouch] using ht,
                           by intro p hp hxml; simp at hp; subst hp; simp at hxml; subst hxml; rfl⟩
  | evRaises0 => exact ⟨by simp, by simp⟩
  | ret => exact ⟨by simp, by simp⟩
  | raise => exact ⟨by simp, by simp⟩
  | seq a b h h1 ta tb o _ _ iha ihb =>
    constructor
    · intro p hp ht
      simp only [mayTouch, Bool.or_eq_true]
      rcases List.mem_append.mp hp with hp | hp
      · exact Or.inl (iha.1 p hp ht)
      · exact Or.inr (ihb.1 p hp ht)
    · intro p hp hxml
      simp only [hasXml, Bool.or_eq_true]
      rcases List.mem_append.mp hp with hp | hp
      · exact Or.inl (iha.2 p hp hxml)
      · exact Or.inr (ihb.2 p hp hxml)
  | seqRet a b h h1 ta _ iha =>
    exact ⟨fun p hp ht => by simp only [mayTouch, Bool.or_eq_true]; exact Or.inl (iha.1 p hp ht),
           fun p hp hxml => by simp only [hasXml, Bool.or_eq_true]; exact Or.inl (iha.2 p hp hxml)⟩
  | seqRaise a b h h1 ta _ iha =>
    exact ⟨fun p hp ht => by simp only [mayTouch, Bool.or_eq_true]; exact Or.inl (iha.1 p hp ht),
           fun p hp hxml => by simp only [hasXml, Bool.or_eq_true]; exact Or.inl (iha.2 p hp hxml)⟩
  | altL a b h t o _ ih =>
    exact ⟨fun p hp ht => by simp only [mayTouch, Bool.or_eq_true]; exact Or.inl (ih.1 p hp ht),
           fun p hp hxml => by simp only [hasXml, Bool.or_eq_true]; exact Or.inl (ih.2 p hp hxml)⟩
  | altR a b h t o _ ih =>
    exact ⟨fun p hp ht => by simp only [mayTouch, Bool.or_eq_true]; exact Or.inr (ih.1 p hp ht),
           fun p hp hxml => by simp only [hasXml, Bool.or_eq_true]; exact Or.inr (ih.2 p hp hxml)⟩
  | star0 => exact ⟨by simp, by simp⟩
  | starS a h h1 ta tb o _ _ iha ihs =>
    constructor
    · intro p hp ht
      rcases List.mem_append.mp hp with hp | hp
      · simp only [mayTouch]; exact iha.1 p hp ht
      · exact ihs.1 p hp ht
    · intro p hp hxml
      rcases List.mem_append.mp hp with hp | hp
      · simp only [hasXml]; exact iha.2 p hp hxml
      · exact ihs.2 p hp hxml
  | starRet a h h1 ta _ iha => exact ⟨fun p hp ht => by simp only [mayTouch]; exact iha.1 p hp ht,
                                      fun p hp hxml => by simp only [hasXml]; exact iha.2 p hp hxml⟩
  | starRaise a h h1 ta _ iha => exact ⟨fun p hp ht => by simp only [mayTouch]; exact iha.1 p hp ht,
                                        fun p hp hxml => by simp only [hasXml]; exact iha.2 p hp hxml⟩
  | lockDone m body h h1 t _ ih =>
    refine ⟨fun _ _ _ => rfl, ?_⟩
    intro p hp hxml
    simp only [hasXml]
    rcases List.mem_cons.mp hp with hp | hp
    · subst hp; cases hxml
    rcases List.mem_append.mp hp with hp | hp
    · exact ih.2 p hp hxml
    · by_cases hm : m = .w
      · simp only [hm, if_true, List.mem_singleton] at hp; subst hp; cases hxml
      · simp [hm] at hp
  | lockRet m body h h1 t _ ih =>
    refine ⟨fun _ _ _ => rfl, ?_⟩
    intro p hp hxml
    simp only [hasXml]
    rcases List.mem_cons.mp hp with hp | hp
    · subst hp; cases hxml
    rcases List.mem_append.mp hp with hp | hp
    · exact ih.2 p hp hxml
    · by_cases hm : m = .w
      · simp only [hm, if_true, List.mem_singleton] at hp; subst hp; cases hxml
      · simp [hm] at hp
  | lockRaise m body h h1 t _ ih =>
    refine ⟨fun _ _ _ => rfl, ?_⟩
    intro p hp hxml
    simp only [hasXml]
    rcases List.mem_cons.mp hp with hp | hp
    · subst hp; cases hxml
    · exact ih.2 p hp hxml
  | tryOk b hd h t o _ _ ih =>
    exact ⟨fun p hp ht => by simp only [mayTouch, Bool.or_eq_true]; exact Or.inl (ih.1 p hp ht),
           fun p hp hxml => by simp only [hasXml, Bool.or_eq_true]; exact Or.inl (ih.2 p hp hxml)⟩
  | tryCaught b hd h h1 t t' o _ _ ihb ihh =>
    constructor
    · intro p hp ht
      simp only [mayTouch, Bool.or_eq_true]
      rcases List.mem_append.mp hp with hp | hp
      · exact Or.inl (ihb.1 p hp ht)
      · exact Or.inr (ihh.1 p hp ht)
    · intro p hp hxml
      simp only [hasXml, Bool.or_eq_true]
      rcases List.mem_append.mp hp with hp | hp
      · exact Or.inl (ihb.2 p hp hxml)
      · exact Or.inr (ihh.2 p hp hxml)
  | tryUncaught b hd h h1 t _ ih =>
    exact ⟨fun p hp ht => by simp only [mayTouch, Bool.or_eq_true]; exact Or.inl (ih.1 p hp ht),
           fun p hp hxml => by simp only [hasXml, Bool.or_eq_true]; exact Or.inl (ih.2 p hp hxml)⟩
  | fnDone b h h1 t _ ih => exact ⟨fun p hp ht => by simp only [mayTouch]; exact ih.1 p hp ht,
                                   fun p hp hxml => by simp only [hasXml]; exact ih.2 p hp hxml⟩
  | fnRet b h h1 t _ ih => exact ⟨fun p hp ht => by simp only [mayTouch]; exact ih.1 p hp ht,
                                  fun p hp hxml => by simp only [hasXml]; exact ih.2 p hp hxml⟩
  | fnRaise b h h1 t _ ih => exact ⟨fun p hp ht => by simp only [mayTouch]; exact ih.1 p hp ht,
                                    fun p hp hxml => by simp only [hasXml]; exact ih.2 p hp hxml⟩

/-- "no touching event before a parse" -/
def XmlFirstTrace (t : Trace) : Prop :=
  ∀ t1 hx t2, t = t1 ++ (Ev.xml, hx) :: t2 → ∀ p ∈ t1, touch p.1 = false

theorem xmlFirstTrace_nil : XmlFirstTrace [] := by
  intro t1 hx t2 h; cases t1 <;> simp at h

theorem xmlFirstTrace_noXml (t : Trace) (h : ∀ p ∈ t, p.1 ≠ .xml) : XmlFirstTrace t := by
  intro t1 hx t2 he p _
  have : (Ev.xml, hx) ∈ t := by rw [he]; simp
  exact absurd rfl (h _ this)

/-- splitting a concatenation at a parse event -/
theorem xmlFirstTrace_append (ta tb : Trace) (ha : XmlFirstTrace ta) (hb : XmlFirstTrace tb)
    (hab : (∃ p ∈ tb, p.1 = .xml) → ∀ p ∈ ta, touch p.1 = false) : XmlFirstTrace (ta ++ tb) := by
  intro t1 hx t2 he p hp
  rcases List.append_eq_append_iff.mp he with ⟨c, hc1, hc2⟩ | ⟨c, hc1, hc2⟩
  · -- t1 = ta ++ c, tb = c ++ xml :: t2
    rw [hc1] at hp
    rcases List.mem_append.mp hp with hp | hp
    · exact hab ⟨(Ev.xml, hx), by rw [hc2]; simp, rfl⟩ p hp
    · exact hb c hx t2 hc2 p hp
  · -- ta = t1 ++ c, xml :: t2 = c ++ tb
    cases c with
    | nil =>
      simp at hc1 hc2
      rw [← hc1] at hp
      exact hab ⟨(Ev.xml, hx), by rw [← hc2]; simp, rfl⟩ p hp
    | cons x xs =>
      simp only [List.cons_append, List.cons.injEq] at hc2
      rw [← hc2.1] at hc1
      exact ha t1 hx xs hc1 p hp

theorem xmlFirst_sound (sk : Sk) (h : Held) (t : Trace) (o : Outcome) (hx : Exec sk h t o) :
    xmlFirst sk = true → XmlFirstTrace t := by
  induction hx with
  | skip => intro _; exact xmlFirstTrace_nil
  | ev e h =>
    intro _ t1 hx t2 he p hp
    cases t1 with
    | nil => simp at hp
    | cons a as => simp at he
  | evRaises e h =>
    intro _ t1 hx t2 he p hp
    cases t1 with
    | nil => simp at hp
    | cons a as => simp at he
  | evRaises0 => intro _; exact xmlFirstTrace_nil
  | ret => intro _; exact xmlFirstTrace_nil
  | raise => intro _; exact xmlFirstTrace_nil
  | seq a b h h1 ta tb o xa xb iha ihb =>
    intro hok
    simp only [xmlFirst, Bool.and_eq_true, Bool.not_eq_true', Bool.and_eq_false_iff] at hok
    apply xmlFirstTrace_append ta tb (iha hok.1.1) (ihb hok.1.2)
    rintro ⟨q, hq, hqx⟩ p hp
    have hb : hasXml b = true := (exec_events b h1 tb o xb).2 q hq hqx
    rcases hok.2 with hna | hnb
    · by_cases c : touch p.1 = true
      · have := (exec_events a h ta _ xa).1 p hp c; rw [hna] at this; cases this
      · simpa using c
    · rw [hb] at hnb; cases hnb
  | seqRet a b h h1 ta _ iha => intro hok; simp only [xmlFirst, Bool.and_eq_true] at hok; exact iha hok.1.1
  | seqRaise a b h h1 ta _ iha => intro hok; simp only [xmlFirst, Bool.and_eq_true] at hok; exact iha hok.1.1
  | altL a b h t o _ ih => intro hok; simp only [xmlFirst, Bool.and_eq_true] at hok; exact ih hok.1
  | altR a b h t o _ ih => intro hok; simp only [xmlFirst, Bool.and_eq_true] at hok; exact ih hok.2
  | star0 => intro _; exact xmlFirstTrace_nil
  | starS a h h1 ta tb o xa xs iha ihs =>
    intro hok
    have hok' := hok
    simp only [xmlFirst, Bool.and_eq_true, Bool.not_eq_true', Bool.and_eq_false_iff] at hok
    apply xmlFirstTrace_append ta tb (iha hok.1) (ihs hok')
    rintro ⟨q, hq, hqx⟩ p hp
    have hb : hasXml a = true := by
      have := (exec_events (.star a) h1 tb o xs).2 q hq hqx
      simpa [hasXml] using this
    rcases hok.2 with hna | hnb
    · by_cases c : touch p.1 = true
      · have := (exec_events a h ta _ xa).1 p hp c; rw [hna] at this; cases this
      · simpa using c
    · rw [hb] at hnb; cases hnb
  | starRet a h h1 ta _ iha => intro hok; simp only [xmlFirst, Bool.and_eq_true] at hok; exact iha hok.1
  | starRaise a h h1 ta _ iha => intro hok; simp only [xmlFirst, Bool.and_eq_true] at hok; exact iha hok.1
  | lockDone m body h h1 t xb _ =>
    intro hok
    simp only [xmlFirst, Bool.not_eq_true'] at hok
    apply xmlFirstTrace_noXml
    intro p hp hxml
    have := (exec_events (.lock m body) h _ _ (Exec.lockDone m body h h1 t xb)).2 p hp hxml
    simp only [hasXml] at this; rw [hok] at this; cases this
  | lockRet m body h h1 t xb _ =>
    intro hok
    simp only [xmlFirst, Bool.not_eq_true'] at hok
    apply xmlFirstTrace_noXml
    intro p hp hxml
    have := (exec_events (.lock m body) h _ _ (Exec.lockRet m body h h1 t xb)).2 p hp hxml
    simp only [hasXml] at this; rw [hok] at this; cases this
  | lockRaise m body h h1 t xb _ =>
    intro hok
    simp only [xmlFirst, Bool.not_eq_true'] at hok
    apply xmlFirstTrace_noXml
    intro p hp hxml
    have := (exec_events (.lock m body) h _ _ (Exec.lockRaise m body h h1 t xb)).2 p hp hxml
    simp only [hasXml] at this; rw [hok] at this; cases this
  | tryOk b hd h t o _ _ ih => intro hok; simp only [xmlFirst, Bool.and_eq_true] at hok; exact ih hok.1.1
  | tryCaught b hd h h1 t t' o xb xh ihb ihh =>
    intro hok
    simp only [xmlFirst, Bool.and_eq_true, Bool.not_eq_true', Bool.and_eq_false_iff] at hok
    apply xmlFirstTrace_append t t' (ihb hok.1.1) (ihh hok.1.2)
    rintro ⟨q, hq, hqx⟩ p hp
    have hb : hasXml hd = true := (exec_events hd h1 t' o xh).2 q hq hqx
    rcases hok.2 with hna | hnb
    · by_cases c : touch p.1 = true
      · have := (exec_events b h t _ xb).1 p hp c; rw [hna] at this; cases this
      · simpa using c
    · rw [hb] at hnb; cases hnb
  | tryUncaught b hd h h1 t _ ih => intro hok; simp only [xmlFirst, Bool.and_eq_true] at hok; exact ih hok.1.1
  | fnDone b h h1 t _ ih => intro hok; simp only [xmlFirst] at hok; exact ih hok
  | fnRet b h h1 t _ ih => intro hok; simp only [xmlFirst] at hok; exact ih hok
  | fnRaise b h h1 t _ ih => intro hok; simp only [xmlFirst] at hok; exact ih hok

end Skeleton
end Radicale
