import RadicaleProofs.Dav
namespace Dav

theorem mkcolU_error (cfg : Cfg) (rights : Rights) (user : String) (s : Store) (p tag props bad) :
    (mkcolU cfg rights user s p tag props bad).1.status ≥ 400 → (mkcolU cfg rights user s p tag props bad).2 = none := by
  unfold mkcolU; simp only []; repeat' split
  all_goals simp [forbiddenNA]

theorem mkcalendarU_error (cfg : Cfg) (rights : Rights) (user : String) (s : Store) (p props bad) :
    (mkcalendarU cfg rights user s p props bad).1.status ≥ 400 → (mkcalendarU cfg rights user s p props bad).2 = none := by
  unfold mkcalendarU; simp only []; repeat' split
  all_goals simp [forbiddenNA]

theorem putWholeU_error (cfg : Cfg) (rights : Rights) (user : String) (p body target raw nm imc) :
    (putWholeU cfg rights user p body target raw nm imc).1.status ≥ 400 → (putWholeU cfg rights user p body target raw nm imc).2 = none := by
  unfold putWholeU; simp only []; repeat' split
  all_goals simp [forbiddenNA]

theorem putItemU_error (rights : Rights) (user : String) (p body pc target im raw nm) :
    (putItemU rights user p body pc target im raw nm).1.status ≥ 400 → (putItemU rights user p body pc target im raw nm).2 = none := by
  unfold putItemU; simp only []; repeat' split
  all_goals simp [forbiddenNA]

theorem putDispatch_error (cfg : Cfg) (rights : Rights) (user : String) (p body pc target im raw nm imc) :
    (putDispatch cfg rights user p body pc target im raw nm imc).1.status ≥ 400 →
      (putDispatch cfg rights user p body pc target im raw nm imc).2 = none := by
  unfold putDispatch
  split
  · exact putWholeU_error cfg rights user p body target raw nm imc
  · exact putItemU_error rights user p body pc target im raw nm

theorem putU_error (cfg : Cfg) (rights : Rights) (user : String) (s : Store) (p body im raw nm imc) :
    (putU cfg rights user s p body im raw nm imc).1.status ≥ 400 → (putU cfg rights user s p body im raw nm imc).2 = none := by
  unfold putU
  split
  · simp [forbiddenNA]
  · split
    · simp
    · split
      · simp
      · exact putDispatch_error cfg rights user p body _ _ im raw nm imc

theorem deleteU_error (cfg : Cfg) (rights : Rights) (user : String) (s : Store) (p im imc) :
    (deleteU cfg rights user s p im imc).1.status ≥ 400 → (deleteU cfg rights user s p im imc).2 = none := by
  unfold deleteU; simp only []; repeat' split
  all_goals simp [forbiddenNA]

theorem moveU_error (cfg : Cfg) (rights : Rights) (user : String) (s : Store) (src dst ov) :
    (moveU cfg rights user s src dst ov).1.status ≥ 400 → (moveU cfg rights user s src dst ov).2 = none := by
  unfold moveU; simp only []; repeat' split
  all_goals simp [forbiddenNA]

theorem proppatchU_error (cfg : Cfg) (rights : Rights) (user : String) (s : Store) (p set rm st bad) :
    (proppatchU cfg rights user s p set rm st bad).1.status ≥ 400 → (proppatchU cfg rights user s p set rm st bad).2 = none := by
  unfold proppatchU; simp only []; repeat' split
  all_goals simp [forbiddenNA]

theorem getU_readonly (cfg : Cfg) (rights : Rights) (user : String) (s : Store) (p) :
    (getU cfg rights user s p).2 = none := by
  unfold getU; simp only []; repeat' split
  all_goals rfl

theorem propfindU_readonly (cfg : Cfg) (rights : Rights) (user : String) (s : Store) (p d) :
    (propfindU cfg rights user s p d).2 = none := by
  unfold propfindU; simp only []; repeat' split
  all_goals rfl

theorem multigetOn_readonly (rights : Rights) (user : String) (cp : Path) (c : Coll) (hs b) :
    (multigetOn rights user cp c hs b).2 = none := by
  unfold multigetOn; simp only []; split <;> rfl

theorem multigetU_readonly (cfg : Cfg) (rights : Rights) (user : String) (s : Store) (p hs b) :
    (multigetU cfg rights user s p hs b).2 = none := by
  unfold multigetU; simp only []; repeat' split
  all_goals first | rfl | exact multigetOn_readonly ..

/-- a request answered with an error status decides on no update -/
theorem handleU_error (cfg : Cfg) (rights : Rights) (user : String) (s : Store) (r : Req) :
    (handleU cfg rights user s r).1.status ≥ 400 → (handleU cfg rights user s r).2 = none := by
  cases r with
  | mkcol p tag props bad => exact mkcolU_error cfg rights user s p tag props bad
  | mkcalendar p props bad => exact mkcalendarU_error cfg rights user s p props bad
  | put p body im raw nm imc => exact putU_error cfg rights user s p body im raw nm imc
  | delete p im imc => exact deleteU_error cfg rights user s p im imc
  | move src dst ov => exact moveU_error cfg rights user s src dst ov
  | proppatch p set rm st bad => exact proppatchU_error cfg rights user s p set rm st bad
  | get p => intro _; exact getU_readonly cfg rights user s p
  | propfind p d => intro _; exact propfindU_readonly cfg rights user s p d
  | multiget p hs b => intro _; exact multigetU_readonly cfg rights user s p hs b

theorem handle_error (cfg : Cfg) (rights : Rights) (user : String) (s : Store) (r : Req)
    (h : (handle cfg rights user s r).1.status ≥ 400) : (handle cfg rights user s r).2 = s := by
  unfold handle at h ⊢
  have := handleU_error cfg rights user s r
  cases hu : handleU cfg rights user s r with
  | mk resp u =>
    rw [hu] at this h
    cases u with
    | none => rfl
    | some u =>
      simp only at h this
      have := this h
      cases this

end Dav
