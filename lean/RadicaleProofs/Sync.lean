import RadicaleModel.Sync
/-
  Lemmas for C07: the history invariant (every stored history tag ends in the remembered etag), what `scan`
  returns, and how the change list relates two snapshots.
-/
namespace Radicale
namespace Sync

/-! ### insertHref -/

theorem mem_ins (h x : Nat) (l : List Nat) : x ∈ ins h l ↔ x = h ∨ x ∈ l := by
  induction l with
  | nil => simp [ins]
  | cons y ys ih =>
    simp only [ins]
    split
    · simp
    · simp only [List.mem_cons, ih]
      constructor
      · rintro (h1 | h1 | h1)
        · exact Or.inr (Or.inl h1)
        · exact Or.inl h1
        · exact Or.inr (Or.inr h1)
      · rintro (h1 | h1 | h1)
        · exact Or.inr (Or.inl h1)
        · exact Or.inl h1
        · exact Or.inr (Or.inr h1)

theorem nodup_ins (h : Nat) (l : List Nat) (hl : l.Nodup) (hn : h ∉ l) : (ins h l).Nodup := by
  induction l with
  | nil => simp [ins]
  | cons y ys ih =>
    simp only [ins]
    have hy := List.nodup_cons.mp hl
    split
    · exact List.nodup_cons.mpr ⟨hn, hl⟩
    · have hne : h ≠ y := fun e => hn (by simp [e])
      have hn' : h ∉ ys := fun e => hn (List.mem_cons_of_mem _ e)
      refine List.nodup_cons.mpr ⟨?_, ih hy.2 hn'⟩
      rw [mem_ins]
      rintro (e | e)
      · exact hne e.symm
      · exact hy.1 e

theorem mem_insertHref (h x : Nat) (l : List Nat) : x ∈ insertHref h l ↔ x = h ∨ x ∈ l := by
  unfold insertHref
  split
  · rename_i hm
    constructor
    · exact Or.inr
    · rintro (e | e)
      · exact e ▸ hm
      · exact e
  · exact mem_ins h x l

theorem nodup_insertHref (h : Nat) (l : List Nat) (hl : l.Nodup) : (insertHref h l).Nodup := by
  unfold insertHref
  split
  · exact hl
  · rename_i hn; exact nodup_ins h l hl hn

theorem mem_foldl_insert (items : List (Nat × Nat)) (l : List Nat) (x : Nat) :
    x ∈ items.foldl (fun acc p => insertHref p.1 acc) l ↔ x ∈ items.map (·.1) ∨ x ∈ l := by
  induction items generalizing l with
  | nil => simp
  | cons p ps ih =>
    simp only [List.foldl_cons, List.map_cons, List.mem_cons, ih, mem_insertHref]
    constructor
    · rintro (h1 | h1 | h1)
      · exact Or.inl (Or.inr h1)
      · exact Or.inl (Or.inl h1)
      · exact Or.inr h1
    · rintro ((h1 | h1) | h1)
      · exact Or.inr (Or.inl h1)
      · exact Or.inl h1
      · exact Or.inr (Or.inr h1)

theorem nodup_foldl_insert (items : List (Nat × Nat)) (l : List Nat) (hl : l.Nodup) :
    (items.foldl (fun acc p => insertHref p.1 acc) l).Nodup := by
  induction items generalizing l with
  | nil => simpa
  | cons p ps ih => exact ih _ (nodup_insertHref _ _ hl)

theorem ofList_ne_none (items : List (Nat × Nat)) (x : Nat) (h : ofList items x ≠ none) : x ∈ items.map (·.1) := by
  induction items with
  | nil => simp [ofList] at h
  | cons p ps ih =>
    obtain ⟨a, b⟩ := p
    simp only [ofList] at h
    by_cases e : x = a
    · simp [e]
    · simp only [e, if_false] at h
      simp [ih h]

/-! ### the invariant -/

/-- every stored history entry's tag is the hash of (something, the remembered etag) -/
def HistOk (s : State) : Prop := ∀ h en, s.hist h = some en → ∃ p, en.tag = .chain p en.etag
/-- every present href is in the enumeration domain -/
def Covered (s : State) : Prop := ∀ h, s.members h ≠ none → h ∈ s.hrefs

structure Inv (s : State) : Prop where
  hist : HistOk s
  cov : Covered s
  nodup : s.hrefs.Nodup

theorem inv_init : Inv State.init := ⟨by intro h en he; simp [State.init] at he, by intro h hm; simp [State.init] at hm, by simp [State.init]⟩

/-! ### updHist -/

theorem updHist_frame (s : State) (h : Nat) (e : Option Nat) :
    (updHist s h e).1.members = s.members ∧ (updHist s h e).1.hrefs = s.hrefs ∧
    (updHist s h e).1.tokens = s.tokens ∧ (updHist s h e).1.now = s.now := by
  unfold updHist
  split
  · split <;> simp
  · split <;> simp

theorem updHist_histOk (s : State) (h : Nat) (e : Option Nat) (hs : HistOk s) : HistOk (updHist s h e).1 := by
  unfold updHist
  split
  · rename_i en hen
    split
    · intro x en' hx
      simp only [set] at hx
      split at hx
      · cases hx; exact ⟨_, rfl⟩
      · exact hs x en' hx
    · exact hs
  · split
    · intro x en' hx
      simp only [set] at hx
      split at hx
      · cases hx; exact ⟨_, rfl⟩
      · exact hs x en' hx
    · intro x en' hx; exact hs x en' hx

/-- the tag returned for a present item, or for a deleted one that still has an entry, ends in its etag -/
theorem updHist_tag (s : State) (h : Nat) (e : Option Nat) (hs : HistOk s) (hne : s.hist h ≠ none ∨ e ≠ none) :
    ∃ p, (updHist s h e).2 = .chain p e := by
  unfold updHist
  split
  · rename_i en hen
    split
    · exact ⟨_, rfl⟩
    · rename_i heq
      have heq' : e = en.etag := by
        by_cases c : e = en.etag
        · exact c
        · exact absurd c heq
      obtain ⟨p, hp⟩ := hs h en hen
      exact ⟨p, by simp [hp, heq']⟩
  · rename_i hn
    split
    · exact ⟨_, rfl⟩
    · rename_i he
      rcases hne with h1 | h1
      · exact absurd hn h1
      · exact absurd h1 he

/-! ### scan -/

theorem scan_frame (l : List Nat) (s : State) :
    (scan l s).1.members = s.members ∧ (scan l s).1.hrefs = s.hrefs ∧
    (scan l s).1.tokens = s.tokens ∧ (scan l s).1.now = s.now := by
  induction l generalizing s with
  | nil => simp [scan]
  | cons h rest ih =>
    simp only [scan]
    split
    · exact ih s
    · have f := updHist_frame s h (s.members h)
      have i := ih (updHist s h (s.members h)).1
      exact ⟨i.1.trans f.1, i.2.1.trans f.2.1, i.2.2.1.trans f.2.2.1, i.2.2.2.trans f.2.2.2⟩

theorem scan_histOk (l : List Nat) (s : State) (hs : HistOk s) : HistOk (scan l s).1 := by
  induction l generalizing s with
  | nil => simpa [scan]
  | cons h rest ih =>
    simp only [scan]
    split
    · exact ih s hs
    · exact ih _ (updHist_histOk s h _ hs)

/-- every pair of the state dictionary: the href was enumerated and the tag ends in the href's current etag -/
theorem scan_pairs (l : List Nat) (s : State) (hs : HistOk s) :
    ∀ h t, (h, t) ∈ (scan l s).2 → h ∈ l ∧ ∃ p, t = .chain p (s.members h) := by
  induction l generalizing s with
  | nil => intro h t hm; simp [scan] at hm
  | cons x rest ih =>
    intro h t hm
    simp only [scan] at hm
    split at hm
    · obtain ⟨h1, h2⟩ := ih s hs h t hm
      exact ⟨List.mem_cons_of_mem _ h1, h2⟩
    · rename_i hcond
      simp only [List.mem_cons, Prod.mk.injEq] at hm
      rcases hm with ⟨rfl, rfl⟩ | hm
      · refine ⟨by simp, ?_⟩
        apply updHist_tag s h (s.members h) hs
        by_cases c : s.hist h = none
        · right; intro hmn; exact hcond ⟨hmn, c⟩
        · left; exact c
      · obtain ⟨h1, p, hp⟩ := ih _ (updHist_histOk s x _ hs) h t hm
        refine ⟨List.mem_cons_of_mem _ h1, p, ?_⟩
        rw [hp, (updHist_frame s x (s.members x)).1]

/-- an enumerated href that is not a key of the dictionary is not present -/
theorem scan_missing (l : List Nat) (s : State) :
    ∀ h, h ∈ l → (∀ t, (h, t) ∉ (scan l s).2) → s.members h = none := by
  induction l generalizing s with
  | nil => intro h hm; simp at hm
  | cons x rest ih =>
    intro h hm hno
    simp only [scan] at hno
    split at hno
    · rename_i hcond
      rcases List.mem_cons.mp hm with rfl | hm'
      · exact hcond.1
      · exact ih s h hm' hno
    · rcases List.mem_cons.mp hm with rfl | hm'
      · exact absurd (List.mem_cons_self) (hno _)
      · have := ih (updHist s x (s.members x)).1 h hm' (fun t ht => hno t (List.mem_cons_of_mem _ ht))
        rwa [(updHist_frame s x (s.members x)).1] at this

/-! ### lookup and the change list -/

theorem lookup_some (snap : Snapshot) (h : Nat) (t : HTag) (hl : lookup snap h = some t) : (h, t) ∈ snap := by
  unfold lookup at hl
  cases hf : snap.find? (fun p => p.1 == h) with
  | none => simp [hf] at hl
  | some p =>
    simp only [hf, Option.map_some, Option.some.injEq] at hl
    have hp := List.find?_some hf
    have hm := List.mem_of_find?_eq_some hf
    simp only [beq_iff_eq] at hp
    obtain ⟨a, b⟩ := p
    simp only at hp hl
    subst hp; subst hl
    exact hm

theorem lookup_none (snap : Snapshot) (h : Nat) (hl : lookup snap h = none) : ∀ t, (h, t) ∉ snap := by
  unfold lookup at hl
  intro t hm
  cases hf : snap.find? (fun p => p.1 == h) with
  | none =>
    have := List.find?_eq_none.mp hf (h, t) hm
    simp at this
  | some p => simp [hf] at hl

/-- an href outside the change list has the same entry (or none) in both dictionaries -/
theorem not_changed (snap old : Snapshot) (h : Nat) (hn : h ∉ changesOf snap old) :
    (∀ t, (h, t) ∈ snap → lookup old h = some t) ∧ (lookup snap h = none → ∀ t, (h, t) ∉ old) := by
  unfold changesOf at hn
  simp only [List.mem_append, not_or, List.mem_map, List.mem_filter] at hn
  constructor
  · intro t hm
    by_cases c : lookup old h = some t
    · exact c
    · exact absurd ⟨(h, t), ⟨hm, by simpa using c⟩, rfl⟩ hn.1
  · intro hl t hm
    exact hn.2 ⟨(h, t), ⟨hm, by simp [hl]⟩, rfl⟩

end Sync
end Radicale
