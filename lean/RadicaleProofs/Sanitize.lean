import RadicaleProofs.Path
namespace Radicale
namespace Path
open Str

/-- the canonical shape of a sanitised path: "/" ++ "/".join(comps) ++ optional trailing "/" -/
def shape (comps : List Str) (t : Bool) : Str :=
  '/' :: (join '/' comps ++ (if comps ≠ [] ∧ t then ['/'] else []))

theorem sanitize_eq_shape (p : Str) : sanitize p = shape (sanitizeComps p) (endsWith p ['/']) := by
  simp [sanitize, shape]

theorem sanitizeComps_safe (p : Str) : ∀ c ∈ sanitizeComps p, safeComp c = true := by
  intro c hc
  simp only [sanitizeComps, List.mem_filter] at hc
  exact hc.2

private theorem safe_ne_nil {comps : List Str} (h : ∀ c ∈ comps, safeComp c = true) : ∀ c ∈ comps, c ≠ [] :=
  fun c hc => ((safeComp_iff c).1 (h c hc)).1
private theorem safe_free {comps : List Str} (h : ∀ c ∈ comps, safeComp c = true) : ∀ c ∈ comps, '/' ∉ c :=
  fun c hc => ((safeComp_iff c).1 (h c hc)).2.1

theorem split_shape (comps : List Str) (t : Bool) (h : ∀ c ∈ comps, safeComp c = true) :
    split '/' (shape comps t) =
      [] :: (if comps = [] then [[]] else comps ++ (if t then [[]] else [])) := by
  unfold shape
  rw [split_cons_sep]
  by_cases hc : comps = []
  · subst hc; simp [join, split]
  · simp only [hc, ne_eq, not_false_eq_true, true_and, if_false]
    cases t with
    | false => simp [split_join '/' comps hc (safe_free h)]
    | true => simp [split_append_single, split_join '/' comps hc (safe_free h)]

theorem normComps_shape (comps : List Str) (t : Bool) (h : ∀ c ∈ comps, safeComp c = true) :
    normComps (shape comps t) = comps := by
  unfold normComps
  rw [split_shape comps t h]
  have hhead : (shape comps t).head? = some '/' := by simp [shape]
  rw [foldl_normStep_safe]
  · by_cases hc : comps = []
    · subst hc; simp
    · have hf := filter_ne_nil_safe comps h
      cases t <;> simp [hc, List.filter_append] <;> exact safe_ne_nil h
  · intro c hc'
    by_cases hc : comps = []
    · subst hc; simp at hc'; exact Or.inl hc'
    · simp only [hc, if_false, List.mem_cons] at hc'
      rcases hc' with rfl | hc'
      · exact Or.inl rfl
      · cases t
        · simp at hc'; exact Or.inr (h c hc')
        · simp at hc'
          rcases hc' with hc' | rfl
          · exact Or.inr (h c hc')
          · exact Or.inl rfl

theorem shape_not_double_slash (comps : List Str) (t : Bool) (h : ∀ c ∈ comps, safeComp c = true) :
    startsWith (shape comps t) ['/', '/'] = false := by
  unfold shape
  cases comps with
  | nil => simp [join, startsWith]
  | cons p rest =>
    have hp := (safeComp_iff p).1 (h p List.mem_cons_self)
    have hh := head?_join '/' (p :: rest) p rest rfl hp.1
    cases hj : join '/' (p :: rest) with
    | nil => exact absurd hj (join_ne_nil '/' _ (by simp) (safe_ne_nil h))
    | cons a tl =>
      rw [hj] at hh
      simp only [List.head?_cons] at hh
      have ha : a ≠ '/' := by
        intro e
        subst e
        cases p with
        | nil => exact hp.1 rfl
        | cons x xs =>
          simp only [List.head?_cons, Option.some.injEq] at hh
          exact hp.2.1 (hh ▸ List.mem_cons_self)
      simp [startsWith, ha]

theorem normpath_shape (comps : List Str) (t : Bool) (h : ∀ c ∈ comps, safeComp c = true) :
    normpath (shape comps t) = '/' :: join '/' comps := by
  have hne : shape comps t ≠ [] := by simp [shape]
  have hhead : (shape comps t).head? = some '/' := by simp [shape]
  unfold normpath
  simp only [hne, if_false, hhead, if_true, shape_not_double_slash comps t h, normComps_shape comps t h]
  simp

theorem sanitizeComps_shape (comps : List Str) (t : Bool) (h : ∀ c ∈ comps, safeComp c = true) :
    sanitizeComps (shape comps t) = comps := by
  unfold sanitizeComps
  rw [normpath_shape comps t h, split_cons_sep]
  by_cases hc : comps = []
  · subst hc; simp [join, split, safeComp]
  · rw [split_join '/' comps hc (safe_free h)]
    simp [safeComp, filter_safe_self comps h]

theorem endsWith_shape (comps : List Str) (t : Bool) (hc : comps ≠ []) (h : ∀ c ∈ comps, safeComp c = true) :
    endsWith (shape comps t) ['/'] = t := by
  rw [endsWith_single]
  unfold shape
  cases t with
  | true => simp [hc, List.getLast?_cons, List.getLast?_append]
  | false =>
    simp only [hc, ne_eq, not_false_eq_true, Bool.false_eq_true, and_false, if_false, List.append_nil]
    have hj := join_ne_nil '/' comps hc (safe_ne_nil h)
    rw [List.getLast?_cons_of_ne_nil hj, getLast?_join '/' comps hc (safe_ne_nil h)]
    have hl := h _ (List.getLast_mem hc)
    have hl' := (safeComp_iff _).1 hl
    cases hx : (comps.getLast hc).getLast? with
    | none => simp
    | some x =>
      have : x ∈ comps.getLast hc := List.mem_of_getLast? hx
      have hne : x ≠ '/' := fun e => hl'.2.1 (e ▸ this)
      simp [hne]

/-- sanitising a path of canonical shape changes nothing -/
theorem sanitize_shape_fix (comps : List Str) (t : Bool) (h : ∀ c ∈ comps, safeComp c = true) :
    sanitize (shape comps t) = shape comps t := by
  rw [sanitize_eq_shape, sanitizeComps_shape comps t h]
  by_cases hc : comps = []
  · subst hc; simp [shape]
  · rw [endsWith_shape comps t hc h]

theorem sanitize_idem (p : Str) : sanitize (sanitize p) = sanitize p := by
  rw [sanitize_eq_shape p]
  exact sanitize_shape_fix _ _ (sanitizeComps_safe p)

end Path
end Radicale
