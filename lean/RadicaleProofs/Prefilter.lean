import RadicaleModel.Prefilter
namespace Radicale
namespace Prefilter

theorem timeLoop_false (tag : String) (tmin tmax : Int) (l : List Flt) : (timeLoop tag tmin tmax false l).simple = false := by
  induction l with
  | nil => rfl
  | cons c rest ih =>
    unfold timeLoop
    split
    · rfl
    · split
      · rfl
      · exact ih

theorem timeLoop_simple_false_of (tag : String) (tmin tmax : Int) (s : Bool) (l : List Flt) (hs : s = false) :
    (timeLoop tag tmin tmax s l).simple = false := by subst hs; exact timeLoop_false tag tmin tmax l

theorem compLoop_false (tmin tmax : Int) (l : List Flt) :
    (compLoop tmin tmax false l).2 = false ∧ ∀ r, (compLoop tmin tmax false l).1 = some r → r.simple = false := by
  induction l with
  | nil => exact ⟨rfl, by intro r h; cases h⟩
  | cons c rest ih =>
    unfold compLoop
    split
    · split
      · exact ih
      · simp only [Bool.false_and]
        refine ⟨trivial, ?_⟩
        intro r h
        simp only [Option.some.injEq] at h
        subst h
        exact timeLoop_false _ _ _ _
    · exact ih

theorem colLoop_false (collTag : String) (tmin tmax : Int) (l : List Flt) : (colLoop collTag tmin tmax false l).simple = false := by
  induction l with
  | nil => rfl
  | cons c rest ih =>
    unfold colLoop
    split
    · rfl
    · split
      · split
        · exact ih
        · simp only [Bool.false_and]
          have h := compLoop_false tmin tmax (by assumption)
          split
          · rename_i r _ heq
            exact h.2 r (by rw [heq])
          · rename_i s heq
            have : s = false := by
              have := h.1; rw [heq] at this; exact this
            subst this
            exact ih
      · exact ih

/-- all filter elements hold for the item (`all(comp_match(item, f) for f in filters)`); `none` if one of them raises -/
def allMatch (it : ItemView) : List Flt → Option Bool
  | [] => some true
  | f :: rest => match compMatch it f with
    | none => none
    | some false => some false
    | some true => allMatch it rest

/-- what the storage layer evaluates instead: the component type and one time range -/
def simplifiedMatch (it : ItemView) (r : Simplified) : Bool :=
  (match r.tag with | none => true | some t => t == it.component) && it.tr r.fs r.fe


theorem compLoop_simple_false (tmin tmax : Int) (s : Bool) (l : List Flt) (hs : s = false) :
    ∀ r, (compLoop tmin tmax s l).1 = some r → r.simple = false := by
  subst hs; exact (compLoop_false tmin tmax l).2

/-- **when `simplify_prefilters` says "simple", the simplified condition is the filter**: for every calendar object
    (item name VCALENDAR, some main component type) all filter elements hold exactly if the component type is the
    one returned and the item's time-range test holds for the returned range — so an item the pre-selection reports
    as "fully matched" does match, and the answer cannot depend on whether the filter was evaluated. -/
theorem simple_sound (it : ItemView) (tmin tmax : Int) (flat : List Flt)
    (hname : it.name = "VCALENDAR") (hcomp : it.component ≠ "") (hfull : it.tr tmin tmax = true)
    (hs : (simplify "VCALENDAR" tmin tmax flat).simple = true) :
    allMatch it flat = some (simplifiedMatch it (simplify "VCALENDAR" tmin tmax flat)) := by
  unfold simplify at hs ⊢
  match flat, hs with
  | [], _ =>
    simp [colLoop, allMatch, simplifiedMatch, hfull]
  | f :: g :: rest, hs =>
    have : (decide ((f :: g :: rest).length ≤ 1)) = false := by simp
    rw [this, colLoop_false] at hs; cases hs
  | [f], hs =>
    simp only [List.length_singleton, Nat.le_refl, decide_true] at hs ⊢
    cases f with
    | timeRange a b => simp [colLoop, colLoop_false] at hs
    | prop h => simp [colLoop, colLoop_false] at hs
    | isNotDefined => simp [colLoop, colLoop_false] at hs
    | other => simp [colLoop, colLoop_false] at hs
    | comp name children =>
      by_cases hn : name = "VCALENDAR"
      · subst hn
        match children, hs with
        | [], _ =>
          simp [colLoop, compLoop, allMatch, compMatch, simplifiedMatch, hname, hfull]
        | c :: d :: more, hs =>
          exfalso
          simp only [colLoop, bne_self_eq_false, Bool.false_eq_true, if_false, Bool.true_and] at hs
          have hd : decide ((c :: d :: more).length ≤ 1) = false := by simp
          rw [hd] at hs
          have h1 := compLoop_false tmin tmax (c :: d :: more)
          split at hs
          · rename_i r _ heq
            have := h1.2 r (by rw [heq])
            rw [this] at hs; cases hs
          · rename_i s2 heq
            have : s2 = false := by have := h1.1; rw [heq] at this; exact this
            subst this
            simp [colLoop] at hs
        | [c], hs =>
          cases c with
          | timeRange a b => simp [colLoop, compLoop, colLoop_false] at hs
          | prop h => simp [colLoop, compLoop, colLoop_false] at hs
          | isNotDefined => simp [colLoop, compLoop, colLoop_false] at hs
          | other => simp [colLoop, compLoop, colLoop_false] at hs
          | comp n ch =>
            by_cases hnd : ch.any isNotDef = true
            · simp [colLoop, compLoop, hnd, colLoop_false] at hs
            · have hnd' : ch.any isNotDef = false := by simpa using hnd
              match ch, hnd', hs with
              | [], _, _ =>
                simp [colLoop, compLoop, timeLoop, allMatch, compMatch, child0, compMatch1, seqAnd, headIsNotDef, isNotDef, simplifiedMatch, hname, hcomp, hfull]
                cases (n == it.component) <;> simp [seqAnd]
              | x :: y :: more, _, hs =>
                exfalso
                simp only [colLoop, compLoop, bne_self_eq_false, Bool.false_eq_true, if_false, Bool.true_and, List.length_singleton,
                  Nat.le_refl, decide_true] at hs
                rename_i hnd2
                simp only [hnd2, Bool.false_eq_true, if_false] at hs
                have hd : decide ((x :: y :: more).length ≤ 1) = false := by simp
                rw [hd] at hs
                rw [timeLoop_false] at hs; cases hs
              | [x], hnd2, hs =>
                simp only [colLoop, compLoop, bne_self_eq_false, Bool.false_eq_true, if_false, Bool.true_and, List.length_singleton,
                  Nat.le_refl, decide_true, hnd2] at hs ⊢
                by_cases hsup : (n == "VTODO" || n == "VEVENT" || n == "VJOURNAL") = true
                · cases x with
                  | timeRange a b =>
                    simp only [timeLoop, hsup, Bool.not_true, Bool.false_eq_true, if_false]
                    have hx : isNotDef (Flt.timeRange a b) = false := rfl
                    by_cases hnt : n = it.component
                    · subst hnt
                      simp [allMatch, compMatch, child0, compMatch1, leaf1, seqAnd, headIsNotDef, isNotDef, simplifiedMatch, hname, hcomp, hsup]
                      cases it.tr a b <;> simp [seqAnd]
                    · have : (n == it.component) = false := by simpa using hnt
                      have h2 : (n != it.component) = true := by simpa using hnt
                      simp [allMatch, compMatch, child0, compMatch1, leaf1, seqAnd, headIsNotDef, isNotDef, simplifiedMatch, hname, hcomp, this, h2]
                  | prop h => simp [timeLoop, hsup, timeLoop_false] at hs
                  | isNotDefined => simp [isNotDef] at hnd2
                  | other => simp [timeLoop, hsup, timeLoop_false] at hs
                  | comp a b => simp [timeLoop, hsup, timeLoop_false] at hs
                · have hsup' : (n == "VTODO" || n == "VEVENT" || n == "VJOURNAL") = false := by simpa using hsup
                  simp [timeLoop, hsup'] at hs
      · have hn' : (name != "VCALENDAR") = true := by simpa using hn
        simp [colLoop, hn', colLoop_false] at hs

end Prefilter
end Radicale
