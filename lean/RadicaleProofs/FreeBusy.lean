import RadicaleModel.Filter
/-
  `time_range_fill` collects exactly the overlapping ranges (up to the limit), provided the occurrences of the main
  component are visited in order of their start.
-/
namespace Filter

def Sorted (rs : List Range) : Prop := rs.Pairwise (fun a b => a.s ≤ b.s)

theorem no_overlap_after (fs fe : Int) (r : Range) (rs : List Range) (hr : fe < r.s) (hs : ∀ x ∈ rs, r.s ≤ x.s) :
    rs.filter (overlaps fs fe) = [] := by
  apply List.filter_eq_nil_iff.mpr
  intro x hx
  have := hs x hx
  simp only [overlaps, Bool.and_eq_true, decide_eq_true_eq, not_and, Int.not_lt]
  intro _
  omega

/-- the visit with a limit `n > 0`: the first `n` overlapping ranges -/
theorem fillRec_take (fs fe : Int) (n : Nat) (hn : 0 < n) (isRec : Bool) (rs : List Range) (hs : isRec = false → Sorted rs) :
    ∀ (acc : List Range), acc.length < n →
      (fillRec fs fe n isRec rs acc).1 = (acc ++ rs.filter (overlaps fs fe)).take n ∧
      ((fillRec fs fe n isRec rs acc).2 = false → (acc ++ rs.filter (overlaps fs fe)).length < n) ∧
      ((fillRec fs fe n isRec rs acc).2 = true → isRec = true → (fillRec fs fe n isRec rs acc).1.length = n) := by
  induction rs with
  | nil =>
    intro acc hacc
    simp only [fillRec, List.filter_nil, List.append_nil]
    exact ⟨(List.take_of_length_le (by omega)).symm, fun _ => hacc, (fun h => Bool.noConfusion h)⟩
  | cons r rest ih =>
    intro acc hacc
    have hs' : isRec = false → Sorted rest := fun e => (List.pairwise_cons.mp (hs e)).2
    simp only [fillRec]
    by_cases ho : overlaps fs fe r = true
    · simp only [ho, if_true, Bool.true_and, List.filter_cons_of_pos]
      by_cases hfull : (acc ++ [r]).length ≥ n
      · have hlen : (acc ++ [r]).length = n := by simp at hfull ⊢; omega
        have hcond : (decide (n > 0) && decide ((acc ++ [r]).length ≥ n) || decide (fe < r.s) && !isRec) = true := by
          have h1 : decide (n > 0) = true := decide_eq_true hn
          have h2 : decide ((acc ++ [r]).length ≥ n) = true := decide_eq_true hfull
          rw [h1, h2]; rfl
        simp only [hcond, if_true]
        refine ⟨?_, (fun h => Bool.noConfusion h), fun _ _ => hlen⟩
        have : acc ++ r :: rest.filter (overlaps fs fe) = (acc ++ [r]) ++ rest.filter (overlaps fs fe) := by simp
        rw [this, List.take_append_of_le_length (by omega), List.take_of_length_le (by omega)]
      · have hpast : ¬ (fe < r.s) := by
          simp only [overlaps, Bool.and_eq_true, decide_eq_true_eq] at ho
          omega
        have hcond : (decide (n > 0) && decide ((acc ++ [r]).length ≥ n) || decide (fe < r.s) && !isRec) = false := by
          have h2 : decide ((acc ++ [r]).length ≥ n) = false := decide_eq_false hfull
          have h3 : decide (fe < r.s) = false := decide_eq_false hpast
          rw [h2, h3]; simp
        simp only [hcond, Bool.false_eq_true, if_false]
        have := ih hs' (acc ++ [r]) (by omega)
        simpa using this
    · have ho' : overlaps fs fe r = false := by simpa using ho
      simp only [ho', Bool.false_eq_true, if_false, Bool.false_and, Bool.false_or, List.filter_cons_of_neg ho]
      by_cases hstop : (decide (fe < r.s) && !isRec) = true
      · simp only [hstop, if_true]
        simp only [Bool.and_eq_true, decide_eq_true_eq, Bool.not_eq_true'] at hstop
        have hsorted := List.pairwise_cons.mp (hs hstop.2)
        have hnil := no_overlap_after fs fe r rest hstop.1 hsorted.1
        rw [hnil, List.append_nil]
        exact ⟨(List.take_of_length_le (by omega)).symm, (fun h => Bool.noConfusion h), (fun _ h => by rw [hstop.2] at h; cases h)⟩
      · have : (decide (fe < r.s) && !isRec) = false := by simpa using hstop
        simp only [this, Bool.false_eq_true, if_false]
        exact ih hs' acc hacc

/-- without a limit: all overlapping ranges -/
theorem fillRec_all (fs fe : Int) (isRec : Bool) (rs : List Range) (hs : isRec = false → Sorted rs) :
    ∀ (acc : List Range), (fillRec fs fe 0 isRec rs acc).1 = acc ++ rs.filter (overlaps fs fe) ∧
      ((fillRec fs fe 0 isRec rs acc).2 = true → isRec = false) := by
  induction rs with
  | nil => intro acc; simp [fillRec]
  | cons r rest ih =>
    intro acc
    have hs' : isRec = false → Sorted rest := fun e => (List.pairwise_cons.mp (hs e)).2
    simp only [fillRec, Nat.lt_irrefl, decide_false, Bool.and_false, Bool.false_and, Bool.false_or]
    by_cases hstop : (decide (fe < r.s) && !isRec) = true
    · simp only [hstop, if_true]
      simp only [Bool.and_eq_true, decide_eq_true_eq, Bool.not_eq_true'] at hstop
      have hsorted := List.pairwise_cons.mp (hs hstop.2)
      have hnil := no_overlap_after fs fe r rest hstop.1 hsorted.1
      have hno : overlaps fs fe r = false := by
        simp only [overlaps, Bool.and_eq_false_iff, decide_eq_false_iff_not, Int.not_lt]
        right; omega
      simp [hno, hnil, hstop.2]
    · have : (decide (fe < r.s) && !isRec) = false := by simpa using hstop
      simp only [this, Bool.false_eq_true, if_false]
      by_cases ho : overlaps fs fe r = true
      · simp only [ho, if_true, List.filter_cons_of_pos]
        have := ih hs' (acc ++ [r])
        simpa using this
      · have ho' : overlaps fs fe r = false := by simpa using ho
        simp only [ho', Bool.false_eq_true, if_false, List.filter_cons_of_neg ho]
        exact ih hs' acc

theorem timeRangeFill_all (fs fe : Int) (ovr main : List Range) (hs : Sorted main) :
    timeRangeFill fs fe 0 ovr main = (ovr ++ main).filter (overlaps fs fe) := by
  unfold timeRangeFill
  have h1 := fillRec_all fs fe true ovr (fun e => by cases e) []
  have hns : (fillRec fs fe 0 true ovr []).2 = false := by
    cases hb : (fillRec fs fe 0 true ovr []).2 with
    | false => rfl
    | true => have := h1.2 hb; cases this
  simp only [hns, Bool.false_eq_true, if_false]
  rw [(fillRec_all fs fe false main (fun _ => hs) _).1, h1.1]
  simp

theorem timeRangeFill_take (fs fe : Int) (n : Nat) (hn : 0 < n) (ovr main : List Range) (hs : Sorted main) :
    timeRangeFill fs fe n ovr main = ((ovr ++ main).filter (overlaps fs fe)).take n := by
  unfold timeRangeFill
  obtain ⟨h1, h2, h3⟩ := fillRec_take fs fe n hn true ovr (fun e => by cases e) [] (by simpa using hn)
  simp only [List.nil_append] at h1 h2
  cases hb : (fillRec fs fe n true ovr []).2 with
  | true =>
    simp only [hb, if_true]
    have hlen := h3 hb rfl
    rw [h1] at hlen ⊢
    rw [List.length_take] at hlen
    have hle : min n (ovr.filter (overlaps fs fe)).length ≤ (ovr.filter (overlaps fs fe)).length := Nat.min_le_right _ _
    rw [hlen] at hle
    rw [List.filter_append, List.take_append_of_le_length hle]
  | false =>
    simp only [hb, Bool.false_eq_true, if_false]
    have hlt := h2 hb
    rw [h1, List.take_of_length_le (by omega)]
    obtain ⟨g1, _, _⟩ := fillRec_take fs fe n hn false main (fun _ => hs) (ovr.filter (overlaps fs fe)) hlt
    rw [g1, List.filter_append]

end Filter
