import RadicaleProofs.SyncInv
/-
  Token files survive as long as they are younger than the maximum age and the token folder is not lost.
-/
namespace Radicale
namespace Sync

/-- operations that do not lose the sync-token folder -/
def keepsTokens (cfg : Cfg) : Op → Bool
  | .replaceAll _ => cfg.tokSub
  | .recreate => cfg.tokSub
  | .wipeCache => false
  | _ => true

/-- the token file exists, its mtime is at least `m`, and `m` is not in the future -/
def Live (s : State) (T : Snapshot) (m : Nat) : Prop := m ≤ s.now ∧ ∃ m', s.tokens T = some m' ∧ m ≤ m'

theorem record_now (cfg : Cfg) (s : State) (snap : Snapshot) : (record cfg s snap).now = s.now := by
  unfold record; split <;> rfl

theorem record_live (cfg : Cfg) (s : State) (snap T : Snapshot) (m : Nat) (hl : Live s T m)
    (hfresh : cfg.maxAge ≠ 0 ∧ s.now < m + cfg.maxAge) : Live (record cfg s snap) T m := by
  obtain ⟨hnow, m', hm', hle⟩ := hl
  refine ⟨by rw [record_now]; exact hnow, ?_⟩
  unfold record
  split
  · rename_i hnone
    simp only [cleanHist, cleanTokens, setTok]
    by_cases c : T = snap
    · subst c
      rw [hm'] at hnone
      cases hnone
    · have : expired cfg s.now m' = false := by
        simp only [expired, Bool.or_eq_false_iff, decide_eq_false_iff_not, Nat.not_le]
        exact ⟨hfresh.1, by omega⟩
      refine ⟨m', ?_, hle⟩
      simp only [c, if_false, hm', this]
      rfl
  · simp only [setTok]
    by_cases c : T = snap
    · exact ⟨s.now, by simp [c], hnow⟩
    · exact ⟨m', by simp only [c, if_false]; exact hm', hle⟩

theorem sync_now (cfg : Cfg) (s : State) (a : Arg) : (sync cfg s a).1.now = s.now := by
  cases a with
  | none => simp only [sync, record_now]; exact (survey_frame cfg s).2.2.2
  | malformed => rfl
  | unknown => exact (survey_frame cfg s).2.2.2
  | tok t =>
    simp only [sync]
    split
    · exact (survey_frame cfg s).2.2.2
    · split
      · rw [record_now]; exact (survey_frame cfg s).2.2.2
      · exact (survey_frame cfg s).2.2.2

theorem scan_live (l : List Nat) (s : State) (T : Snapshot) (m : Nat) (hl : Live s T m) : Live (scan l s).1 T m := by
  have f := scan_frame l s
  obtain ⟨hnow, m', hm', hle⟩ := hl
  exact ⟨by rw [f.2.2.2]; exact hnow, m', by rw [f.2.2.1]; exact hm', hle⟩

theorem survey_live (cfg : Cfg) (s : State) (T : Snapshot) (m : Nat) (hl : Live s T m) : Live (survey cfg s).1 T m := by
  have f := survey_frame cfg s
  obtain ⟨hnow, m', hm', hle⟩ := hl
  exact ⟨by rw [f.2.2.2]; exact hnow, m', by rw [f.2.2.1]; exact hm', hle⟩

theorem sync_live (cfg : Cfg) (s : State) (a : Arg) (T : Snapshot) (m : Nat) (hl : Live s T m)
    (hfresh : cfg.maxAge ≠ 0 ∧ s.now < m + cfg.maxAge) : Live (sync cfg s a).1 T m := by
  have hf' : cfg.maxAge ≠ 0 ∧ (survey cfg s).1.now < m + cfg.maxAge := by rw [(survey_frame cfg s).2.2.2]; exact hfresh
  cases a with
  | none => exact record_live cfg _ _ T m (survey_live cfg s T m hl) hf'
  | malformed => exact hl
  | unknown => exact survey_live cfg s T m hl
  | tok t =>
    simp only [sync]
    split
    · exact survey_live cfg s T m hl
    · split
      · exact record_live cfg _ _ T m (survey_live cfg s T m hl) hf'
      · exact survey_live cfg s T m hl

theorem updHist_live (s : State) (h : Nat) (e : Option Nat) (T : Snapshot) (m : Nat) (hl : Live s T m) :
    Live (updHist s h e).1 T m := by
  have f := updHist_frame s h e
  obtain ⟨hnow, m', hm', hle⟩ := hl
  exact ⟨by rw [f.2.2.2]; exact hnow, m', by rw [f.2.2.1]; exact hm', hle⟩

theorem step_now_mono (cfg : Cfg) (s : State) (op : Op) : s.now ≤ (step cfg s op).1.now := by
  cases op with
  | put h e => simp only [step, cleanHist]; rw [(updHist_frame _ h _).2.2.2]; exact Nat.le_refl _
  | del h =>
    simp only [step]; split
    · exact Nat.le_refl _
    · simp only [cleanHist]; rw [(updHist_frame _ h _).2.2.2]; exact Nat.le_refl _
  | move h h' =>
    simp only [step]; split
    · exact Nat.le_refl _
    · simp only [cleanHist]; rw [(updHist_frame _ h _).2.2.2, (updHist_frame _ h' _).2.2.2]; exact Nat.le_refl _
  | replaceAll items => exact Nat.le_refl _
  | recreate => exact Nat.le_refl _
  | wipeCache => exact Nat.le_refl _
  | tick dt => simp [step]
  | sync a => simp only [step]; rw [sync_now]; exact Nat.le_refl _

theorem run_now_mono (cfg : Cfg) (s : State) (ops : List Op) : s.now ≤ (run cfg s ops).now := by
  induction ops generalizing s with
  | nil => exact Nat.le_refl _
  | cons op ops ih => exact Nat.le_trans (step_now_mono cfg s op) (ih _)

/-- one step keeps a young token alive unless the token folder is lost -/
theorem step_live (cfg : Cfg) (s : State) (op : Op) (T : Snapshot) (m : Nat) (hl : Live s T m)
    (hk : keepsTokens cfg op = true) (hfresh : cfg.maxAge ≠ 0 ∧ (step cfg s op).1.now < m + cfg.maxAge) :
    Live (step cfg s op).1 T m := by
  have hmono := step_now_mono cfg s op
  cases op with
  | put h e => exact updHist_live _ h _ T m hl
  | del h =>
    simp only [step]; split
    · exact hl
    · exact updHist_live _ h _ T m hl
  | move h h' =>
    simp only [step]; split
    · exact hl
    · exact updHist_live _ h _ T m (updHist_live _ h' _ T m hl)
  | replaceAll items =>
    simp only [keepsTokens] at hk
    obtain ⟨hnow, m', hm', hle⟩ := hl
    exact ⟨hnow, m', by simp only [step, wipe, hk, if_true]; exact hm', hle⟩
  | recreate =>
    simp only [keepsTokens] at hk
    obtain ⟨hnow, m', hm', hle⟩ := hl
    exact ⟨hnow, m', by simp only [step, wipe, hk, if_true]; exact hm', hle⟩
  | wipeCache => simp [keepsTokens] at hk
  | tick dt =>
    obtain ⟨hnow, m', hm', hle⟩ := hl
    exact ⟨Nat.le_trans hnow hmono, m', hm', hle⟩
  | sync a =>
    simp only [step] at hfresh ⊢
    rw [sync_now] at hfresh
    exact sync_live cfg s a T m hl hfresh

theorem run_live (cfg : Cfg) (s : State) (ops : List Op) (T : Snapshot) (m : Nat) (hl : Live s T m)
    (hk : ∀ op ∈ ops, keepsTokens cfg op = true) (hfresh : cfg.maxAge ≠ 0 ∧ (run cfg s ops).now < m + cfg.maxAge) :
    Live (run cfg s ops) T m := by
  induction ops generalizing s with
  | nil => exact hl
  | cons op ops ih =>
    simp only [run] at hfresh ⊢
    have hmono := run_now_mono cfg (step cfg s op).1 ops
    apply ih
    · exact step_live cfg s op T m hl (hk op (by simp)) ⟨hfresh.1, by omega⟩
    · intro o ho; exact hk o (by simp [ho])
    · exact hfresh

/-- a token handed out by a sync that did not merely confirm it has its file, stamped with the current time -/
theorem issue_records (cfg : Cfg) (s s1 : State) (a : Arg) (T : Snapshot) (ch : List Nat) (hmax : cfg.maxAge ≠ 0)
    (h : sync cfg s a = (s1, .ok T ch)) (hne : a ≠ .tok T) : Live s1 T s.now := by
  have hrec : ∀ (s0 : State) (snap : Snapshot), s0.now = s.now → Live (record cfg s0 snap) snap s.now := by
    intro s0 snap hn
    refine ⟨by rw [record_now, hn]; exact Nat.le_refl _, ?_⟩
    unfold record
    split
    · simp only [cleanHist, cleanTokens, setTok, if_true]
      have : expired cfg s0.now s0.now = false := by
        simp only [expired, Bool.or_eq_false_iff, decide_eq_false_iff_not, Nat.not_le]
        exact ⟨hmax, by omega⟩
      exact ⟨s0.now, by simp [this], by omega⟩
    · exact ⟨s0.now, by simp [setTok], by omega⟩
  cases a with
  | none =>
    simp only [sync, Prod.mk.injEq, Out.ok.injEq] at h
    rw [← h.1, ← h.2.1]
    exact hrec _ _ (survey_frame cfg s).2.2.2
  | malformed => simp [sync] at h
  | unknown => simp [sync] at h
  | tok t =>
    simp only [sync] at h
    split at h
    · rename_i ht
      simp only [Prod.mk.injEq, Out.ok.injEq] at h
      exact absurd (by rw [ht, h.2.1]) hne
    · split at h
      · simp only [Prod.mk.injEq, Out.ok.injEq] at h
        rw [← h.1, ← h.2.1]
        exact hrec _ _ (survey_frame cfg s).2.2.2
      · simp at h

end Sync
end Radicale
