import RadicaleModel.LockFlock
namespace Flock
open CV (Mode)

theorem countP_set_gen {α} (p : α → Bool) {l : List α} {t : Nat} (h : t < l.length) (b : α) :
    (l.set t b).countP p + (if p l[t] then 1 else 0) = l.countP p + (if p b then 1 else 0) := by
  have h1 := List.countP_set (p := p) (a := b) h
  have h3 : (if p l[t] = true then 1 else 0) ≤ l.countP p := by
    split
    · exact List.countP_pos_iff.2 ⟨l[t], List.getElem_mem h, ‹_›⟩
    · omega
  omega

theorem inR_kR (x : PC) (h : inR x = true) : kR x = true := by
  cases x with
  | cs m => cases m <;> simp [inR, kR] at *
  | _ => simp [inR] at h

theorem inW_kW (x : PC) (h : inW x = true) : kW x = true := by
  cases x with
  | cs m => cases m <;> simp [inW, kW] at *
  | _ => simp [inW] at h

theorem inR_le_kR (l : List PC) : l.countP inR ≤ l.countP kR :=
  List.countP_mono_left (fun x _ hx => inR_kR x hx)

theorem inW_le_kW (l : List PC) : l.countP inW ≤ l.countP kW :=
  List.countP_mono_left (fun x _ hx => inW_kW x hx)

structure Inv (s : State) : Prop where
  rd : s.readers = s.pcs.countP inR
  wr : s.writer = true ↔ 0 < s.pcs.countP inW
  w1 : s.pcs.countP kW ≤ 1
  ex : 0 < s.pcs.countP kW → s.pcs.countP kR = 0
  nofail : s.pcs.countP isFailed = 0

theorem inv_init (n : Nat) : Inv (init n) := by
  refine ⟨?_, ?_, ?_, ?_, ?_⟩ <;> simp [init, List.countP_replicate, inR, inW, kR, kW, isFailed]

theorem pos_of_getElem {l : List PC} {p : PC → Bool} {t : Nat} (h : t < l.length) (hp : p l[t] = true) :
    0 < l.countP p := List.countP_pos_iff.2 ⟨l[t], List.getElem_mem h, hp⟩

/-- the five counters after thread `t` moves from `a` (its current pc) to `b` -/
theorem counts {l : List PC} {t : Nat} (ht : t < l.length) (a b : PC) (hpc : l[t] = a) :
    (l.set t b).countP inR + (if inR a then 1 else 0) = l.countP inR + (if inR b then 1 else 0) ∧
    (l.set t b).countP inW + (if inW a then 1 else 0) = l.countP inW + (if inW b then 1 else 0) ∧
    (l.set t b).countP kR + (if kR a then 1 else 0) = l.countP kR + (if kR b then 1 else 0) ∧
    (l.set t b).countP kW + (if kW a then 1 else 0) = l.countP kW + (if kW b then 1 else 0) ∧
    (l.set t b).countP isFailed + (if isFailed a then 1 else 0) = l.countP isFailed + (if isFailed b then 1 else 0) := by
  subst hpc
  exact ⟨countP_set_gen inR ht b, countP_set_gen inW ht b, countP_set_gen kR ht b, countP_set_gen kW ht b,
    countP_set_gen isFailed ht b⟩

/-- the guard of "Guarantees failed" is false whenever a thread has just been granted the kernel lock -/
theorem guard_false {s : State} (hi : Inv s) {t : Nat} (ht : t < s.pcs.length) {m : Mode}
    (hpc : s.pcs[t] = .gotK m) : (s.writer || (m == .w && s.readers != 0)) = false := by
  obtain ⟨rd, wr, w1, ex, nofail⟩ := hi
  -- remove t: the others' counts
  obtain ⟨c1, c2, c3, c4, _⟩ := counts ht (.gotK m) .idle hpc
  have l1 := inR_le_kR (s.pcs.set t .idle)
  have l2 := inW_le_kW (s.pcs.set t .idle)
  cases m with
  | r =>
    simp [inR, inW, kR, kW] at c1 c2 c3 c4
    have hkr : 0 < s.pcs.countP kR := by omega
    have hw0 : s.pcs.countP inW = 0 := by
      rcases Nat.eq_zero_or_pos (s.pcs.countP kW) with h0 | hp
      · omega
      · have := ex hp; omega
    have : s.writer = false := by
      cases hw : s.writer with
      | false => rfl
      | true => have := wr.1 hw; omega
    simp [this]
  | w =>
    simp [inR, inW, kR, kW] at c1 c2 c3 c4
    have hkw : 0 < s.pcs.countP kW := by omega
    have hkr0 := ex hkw
    have hw0 : s.pcs.countP inW = 0 := by omega
    have hr0 : s.pcs.countP inR = 0 := by omega
    have : s.writer = false := by
      cases hw : s.writer with
      | false => rfl
      | true => have := wr.1 hw; omega
    simp [this, rd, hr0]

/-- every step keeps the invariant; in particular "Guarantees failed" is never raised -/
theorem inv_next {s s' : State} {t : Nat} {m : Mode} (hi : Inv s) (h : next s t m = some s') : Inv s' := by
  have hi' := hi
  obtain ⟨rd, wr, w1, ex, nofail⟩ := hi
  unfold next at h
  cases hp : s.pcs[t]? with
  | none => simp [hp] at h
  | some pc =>
    obtain ⟨ht, hpc⟩ := List.getElem?_eq_some_iff.1 hp
    rw [hp] at h
    cases pc with
    | idle =>
      simp only [Option.some.injEq] at h; subst h
      obtain ⟨c1, c2, c3, c4, c5⟩ := counts ht .idle (.wantK m) hpc
      simp [inR, inW, kR, kW, isFailed] at c1 c2 c3 c4 c5
      exact ⟨by simp [c1, rd], by simp only [c2]; exact wr, by simp only [c4]; exact w1,
        by simp only [c3, c4]; exact ex, by simp only [c5]; exact nofail⟩
    | wantK m' =>
      simp only at h
      split at h
      · rename_i hg
        simp only [Option.some.injEq] at h; subst h
        obtain ⟨c1, c2, c3, c4, c5⟩ := counts ht (.wantK m') (.gotK m') hpc
        cases m' with
        | r =>
          simp [inR, inW, kR, kW, isFailed] at c1 c2 c3 c4 c5
          have hg' : s.pcs.countP kW = 0 := by simpa [grant] using hg
          exact ⟨by simp [c1, rd], by simp only [c2]; exact wr, by simp only [c4]; exact w1,
            by simp only [c4, hg']; intro hx; omega, by simp only [c5]; exact nofail⟩
        | w =>
          simp [inR, inW, kR, kW, isFailed] at c1 c2 c3 c4 c5
          have hg' : s.pcs.countP kW = 0 ∧ s.pcs.countP kR = 0 := by simpa [grant] using hg
          exact ⟨by simp [c1, rd], by simp only [c2]; exact wr, by simp only [c4]; omega,
            by simp only [c3]; intro _; exact hg'.2, by simp only [c5]; exact nofail⟩
      · simp at h
    | gotK m' =>
      have hguard := guard_false hi' ht hpc
      simp only [hguard, Bool.false_eq_true, if_false] at h
      cases m' with
      | r =>
        simp only [Option.some.injEq] at h; subst h
        obtain ⟨c1, c2, c3, c4, c5⟩ := counts ht (.gotK .r) (.cs .r) hpc
        simp [inR, inW, kR, kW, isFailed] at c1 c2 c3 c4 c5
        exact ⟨by simp [c1, rd], by simp only [c2]; exact wr, by simp only [c4]; exact w1,
          by simp only [c3, c4]; exact ex, by simp only [c5]; exact nofail⟩
      | w =>
        simp only [Option.some.injEq] at h; subst h
        obtain ⟨c1, c2, c3, c4, c5⟩ := counts ht (.gotK .w) (.cs .w) hpc
        simp [inR, inW, kR, kW, isFailed] at c1 c2 c3 c4 c5
        exact ⟨by simp [c1, rd], by simp only [c2]; simp, by simp only [c4]; exact w1,
          by simp only [c3, c4]; exact ex, by simp only [c5]; exact nofail⟩
    | cs m' =>
      cases m' with
      | r =>
        simp only [Option.some.injEq] at h; subst h
        obtain ⟨c1, c2, c3, c4, c5⟩ := counts ht (.cs .r) (.closing .r) hpc
        simp [inR, inW, kR, kW, isFailed] at c1 c2 c3 c4 c5
        have hkr : 0 < s.pcs.countP kR := pos_of_getElem ht (by simp [hpc, kR])
        have hkw0 : s.pcs.countP kW = 0 := by
          rcases Nat.eq_zero_or_pos (s.pcs.countP kW) with h0 | hpos
          · exact h0
          · have := ex hpos; omega
        have hinw0 : s.pcs.countP inW = 0 := by have := inW_le_kW s.pcs; omega
        refine ⟨by simp only [rd]; omega, by simp only [c2, hinw0]; simp, by simp only [c4]; exact w1,
          by simp only [c3, c4]; exact ex, by simp only [c5]; exact nofail⟩
      | w =>
        simp only [Option.some.injEq] at h; subst h
        obtain ⟨c1, c2, c3, c4, c5⟩ := counts ht (.cs .w) (.closing .w) hpc
        simp [inR, inW, kR, kW, isFailed] at c1 c2 c3 c4 c5
        have hkw : 0 < s.pcs.countP kW := pos_of_getElem ht (by simp [hpc, kW])
        have := inW_le_kW s.pcs
        have hz : (s.pcs.set t (PC.closing Mode.w)).countP inW = 0 := by omega
        exact ⟨by simp [c1, rd], by simp only [hz]; simp, by simp only [c4]; exact w1,
          by simp only [c3, c4]; exact ex, by simp only [c5]; exact nofail⟩
    | closing m' =>
      simp only [Option.some.injEq] at h; subst h
      obtain ⟨c1, c2, c3, c4, c5⟩ := counts ht (.closing m') .idle hpc
      cases m' with
      | r =>
        simp [inR, inW, kR, kW, isFailed] at c1 c2 c3 c4 c5
        exact ⟨by simp [c1, rd], by simp only [c2]; exact wr, by simp only [c4]; exact w1,
          by simp only [c4]; intro hx; have := ex hx; omega, by simp only [c5]; exact nofail⟩
      | w =>
        simp [inR, inW, kR, kW, isFailed] at c1 c2 c3 c4 c5
        have hkw : 0 < s.pcs.countP kW := pos_of_getElem ht (by simp [hpc, kW])
        exact ⟨by simp [c1, rd], by simp only [c2]; exact wr, by show (s.pcs.set t PC.idle).countP kW ≤ 1; omega,
          by simp only [c3]; intro _; exact ex hkw, by simp only [c5]; exact nofail⟩
    | failed m' =>
      exfalso
      have := pos_of_getElem (p := isFailed) ht (by simp [hpc, isFailed])
      omega

inductive Reachable (n : Nat) : State → Prop
  | init : Reachable n (init n)
  | step {s s' t m} : Reachable n s → next s t m = some s' → Reachable n s'

theorem reachable_inv {n : Nat} {s : State} (h : Reachable n s) : Inv s := by
  induction h with
  | init => exact inv_init n
  | step _ hs ih => exact inv_next ih hs

end Flock
