import RadicaleModel.Trace
namespace Radicale
namespace Trace

theorem isDot_tmpName (k : Nat) : isDot (tmpName k) = true := by
  simp [isDot, tmpName]

theorem hiddenComp_tmpName (k : Nat) : hiddenComp (tmpName k) = true := by
  simp [hiddenComp, isDot, tmpName, propsName]

theorem isTmp_tmpName (k : Nat) : isTmp (tmpName k) = true := by
  simp [isTmp, tmpName, List.isPrefixOf]

theorem isTmp_propsName : isTmp propsName = false := by
  simp [isTmp, propsName, List.isPrefixOf]

theorem isTmp_collName : isTmp collName = false := by
  simp [isTmp, collName, List.isPrefixOf]

theorem hidden_append_tmp (d : FPath) (k : Nat) (rest : FPath) : hidden (d ++ tmpName k :: rest) = true := by
  simp [hidden, hiddenComp_tmpName]

theorem hidden_of_prefix {a q : FPath} (hp : isPrefix a q = true) (ha : hidden a = true) : hidden q = true := by
  obtain ⟨t, rfl⟩ := List.isPrefixOf_iff_prefix.1 hp
  simp only [hidden, List.any_append, Bool.or_eq_true] at *
  exact Or.inl ha

theorem abs_apply_hidden (fs : FS) (o : Op) (h : o.hiddenOnly = true) : abs (apply fs o) = abs fs := by
  funext q
  unfold abs
  by_cases hq : hidden q = true
  · simp [hq]
  · have hq' : hidden q = false := by simpa using hq
    simp only [hq', Bool.false_eq_true, if_false]
    cases o with
    | fsync p => rfl
    | mkdir p | rmdir p | unlink p | openw p | write p =>
      simp only [Op.hiddenOnly, Op.paths, List.all_cons, List.all_nil, Bool.and_true] at h
      have : q ≠ p := fun e => by rw [e, h] at hq'; cases hq'
      simp [apply, this]
    | rmtree p =>
      simp only [Op.hiddenOnly, Op.paths, List.all_cons, List.all_nil, Bool.and_true] at h
      have : isPrefix p q = false := by
        cases hpq : isPrefix p q with
        | false => rfl
        | true => rw [hidden_of_prefix hpq h] at hq'; cases hq'
      simp [apply, this]
    | rename a b | exchange a b =>
      simp only [Op.hiddenOnly, Op.paths, List.all_cons, List.all_nil, Bool.and_true, Bool.and_eq_true] at h
      have hb : isPrefix b q = false := by
        cases hpq : isPrefix b q with
        | false => rfl
        | true => rw [hidden_of_prefix hpq h.2] at hq'; cases hq'
      have ha : isPrefix a q = false := by
        cases hpq : isPrefix a q with
        | false => rfl
        | true => rw [hidden_of_prefix hpq h.1] at hq'; cases hq'
      simp [apply, ha, hb]

theorem abs_applyAll_hidden (ops : List Op) (fs : FS) (h : ∀ o ∈ ops, o.hiddenOnly = true) :
    abs (applyAll fs ops) = abs fs := by
  induction ops generalizing fs with
  | nil => rfl
  | cons o os ih =>
    simp only [applyAll, List.foldl_cons]
    have := ih (apply fs o) (fun x hx => h x (List.mem_cons_of_mem _ hx))
    simp only [applyAll] at this
    rw [this, abs_apply_hidden fs o (h o List.mem_cons_self)]

/-- at most one operation of the trace can change what clients see -/
def OneCommit (ops : List Op) : Prop :=
  ∃ pre c post, ops = pre ++ c :: post ∧ (∀ o ∈ pre, o.hiddenOnly = true) ∧ (∀ o ∈ post, o.hiddenOnly = true)

/-- Crash atomicity: whatever prefix of the operations has been carried out when the process dies, clients
    see the state before the call or the state after it. -/
theorem prefix_before_or_after {ops : List Op} (h : OneCommit ops) (fs : FS) (k : Nat) :
    abs (applyAll fs (ops.take k)) = abs fs ∨ abs (applyAll fs (ops.take k)) = abs (applyAll fs ops) := by
  obtain ⟨pre, c, post, rfl, hpre, hpost⟩ := h
  have hfinal : abs (applyAll fs (pre ++ c :: post)) = abs (apply (applyAll fs pre) c) := by
    have : applyAll fs (pre ++ c :: post) = applyAll (apply (applyAll fs pre) c) post := by
      simp [applyAll, List.foldl_append]
    rw [this, abs_applyAll_hidden post _ hpost]
  by_cases hk : k ≤ pre.length
  · left
    have : (pre ++ c :: post).take k = pre.take k := by
      rw [List.take_append_of_le_length hk]
    rw [this]
    exact abs_applyAll_hidden _ fs (fun o ho => hpre o (List.mem_of_mem_take ho))
  · right
    have hk' : pre.length < k := Nat.lt_of_not_le hk
    have : (pre ++ c :: post).take k = pre ++ c :: post.take (k - pre.length - 1) := by
      rw [List.take_append]
      have h1 : List.take k pre = pre := List.take_of_length_le (Nat.le_of_lt hk')
      rw [h1]
      congr 1
      obtain ⟨m, hm⟩ : ∃ m, k - pre.length = m + 1 := ⟨k - pre.length - 1, by omega⟩
      rw [hm, List.take_succ_cons]
      congr 2
    rw [this, hfinal]
    have : applyAll fs (pre ++ c :: post.take (k - pre.length - 1)) =
        applyAll (apply (applyAll fs pre) c) (post.take (k - pre.length - 1)) := by
      simp [applyAll, List.foldl_append]
    rw [this]
    exact abs_applyAll_hidden _ _ (fun o ho => hpost o (List.mem_of_mem_take ho))

end Trace
end Radicale

namespace Radicale
namespace Trace

attribute [simp] hidden_append_tmp

@[simp] theorem hidden_tmp1 (d : FPath) (k : Nat) : hidden (d ++ [tmpName k]) = true := hidden_append_tmp d k []

theorem atomicWrite_oneCommit (fsync : Bool) (dir : FPath) (name : Comp) (k : Nat) :
    OneCommit (atomicWrite fsync dir name k) := by
  cases fsync
  · refine ⟨[.mkdir (dir ++ [tmpName k]), .openw (dir ++ [tmpName k] ++ [name]), .write (dir ++ [tmpName k] ++ [name])],
      .rename (dir ++ [tmpName k] ++ [name]) (dir ++ [name]), [.rmtree (dir ++ [tmpName k])], ?_, ?_, ?_⟩
    · simp [atomicWrite, syncDir]
    · intro o ho; simp at ho; rcases ho with rfl | rfl | rfl <;> simp [Op.hiddenOnly, Op.paths]
    · intro o ho; simp at ho; subst ho; simp [Op.hiddenOnly, Op.paths]
  · refine ⟨[.mkdir (dir ++ [tmpName k]), .openw (dir ++ [tmpName k] ++ [name]), .write (dir ++ [tmpName k] ++ [name]),
        .fsync (dir ++ [tmpName k] ++ [name])],
      .rename (dir ++ [tmpName k] ++ [name]) (dir ++ [name]), [.rmtree (dir ++ [tmpName k]), .fsync dir], ?_, ?_, ?_⟩
    · simp [atomicWrite, syncDir]
    · intro o ho; simp at ho; rcases ho with rfl | rfl | rfl | rfl <;> simp [Op.hiddenOnly, Op.paths]
    · intro o ho; simp at ho; rcases ho with rfl | rfl <;> simp [Op.hiddenOnly, Op.paths]

theorem deleteItem_oneCommit (fsync : Bool) (coll : FPath) (href : Comp) : OneCommit (deleteItem fsync coll href) := by
  refine ⟨[], .unlink (coll ++ [href]), syncDir fsync coll, by simp [deleteItem], by simp, ?_⟩
  intro o ho; cases fsync <;> simp [syncDir] at ho; subst ho; rfl

theorem move_oneCommit (fsync : Bool) (c1 : FPath) (h1 : Comp) (c2 : FPath) (h2 : Comp) :
    OneCommit (move fsync c1 h1 c2 h2) := by
  refine ⟨[], .rename (c1 ++ [h1]) (c2 ++ [h2]), _, by simp [move]; rfl, by simp, ?_⟩
  intro o ho
  cases fsync <;> simp [syncDir] at ho
  rcases ho with rfl | ⟨_, rfl⟩ <;> rfl

theorem deleteColl_oneCommit (fsync : Bool) (coll : FPath) (empty : Bool) (k : Nat) :
    OneCommit (deleteColl fsync coll empty k) := by
  cases empty
  · refine ⟨[.mkdir (coll.dropLast ++ [tmpName k])],
      .rename coll (coll.dropLast ++ [tmpName k] ++ [coll.getLast?.getD []]),
      syncDir fsync coll.dropLast ++ [.rmtree (coll.dropLast ++ [tmpName k])], by simp [deleteColl], ?_, ?_⟩
    · intro o ho; simp at ho; subst ho; simp [Op.hiddenOnly, Op.paths]
    · intro o ho
      cases fsync <;> simp [syncDir] at ho
      · subst ho; simp [Op.hiddenOnly, Op.paths]
      · rcases ho with rfl | rfl <;> simp [Op.hiddenOnly, Op.paths]
  · refine ⟨[], .rmdir coll, syncDir fsync coll.dropLast, by simp [deleteColl], by simp, ?_⟩
    intro o ho; cases fsync <;> simp [syncDir] at ho; subst ho; rfl

theorem uploadAll_hidden (fsync : Bool) (d : FPath) (k : Nat) (c : Comp) (hs : List Comp) :
    ∀ o ∈ uploadAll fsync (d ++ [tmpName k] ++ [c]) hs, o.hiddenOnly = true := by
  induction hs with
  | nil => simp [uploadAll]
  | cons h hs ih =>
    intro o ho
    simp only [uploadAll, List.mem_append] at ho
    rcases ho with (ho | ho) | ho
    · simp at ho; rcases ho with rfl | rfl <;> simp [Op.hiddenOnly, Op.paths]
    · cases fsync <;> simp at ho; subst ho; rfl
    · exact ih o ho

/-- creating a collection with properties (MKCALENDAR, MKCOL with a body, whole-collection PUT with any
    number of items) while its parent exists: one commit point -/
theorem createCollection_oneCommit (fsync : Bool) (coll : FPath) (items : Option (List Comp))
    (missing : Nat) (hm : missing ≤ 1) (existsTarget : Bool) (k : Nat) (cic : Bool) :
    OneCommit (createCollection fsync coll true items missing existsTarget k cic) := by
  have hmk : makedirs fsync coll.dropLast (missing - 1) = [] := by
    have : missing - 1 = 0 := by omega
    simp [this, makedirs]
  obtain ⟨pre', c', post', hw, hpre', hpost'⟩ :=
    atomicWrite_oneCommit fsync (coll.dropLast ++ [tmpName k] ++ [collName]) propsName (k + 1)
  refine ⟨[.mkdir (coll.dropLast ++ [tmpName k]), .mkdir (coll.dropLast ++ [tmpName k] ++ [collName])] ++
      atomicWrite fsync (coll.dropLast ++ [tmpName k] ++ [collName]) propsName (k + 1) ++
      (match items with
       | none => []
       | some hs => (if cic then syncDir fsync (coll.dropLast ++ [tmpName k] ++ [collName]) else []) ++
          uploadAll fsync (coll.dropLast ++ [tmpName k] ++ [collName]) hs ++
          syncDir fsync (coll.dropLast ++ [tmpName k] ++ [collName])),
    (if existsTarget then .exchange (coll.dropLast ++ [tmpName k] ++ [collName]) coll
     else .rename (coll.dropLast ++ [tmpName k] ++ [collName]) coll),
    syncDir fsync coll.dropLast ++ [.rmtree (coll.dropLast ++ [tmpName k])], ?_, ?_, ?_⟩
  · cases items <;> simp [createCollection, hmk]
  · intro o ho
    simp only [List.mem_append] at ho
    rcases ho with (ho | ho) | ho
    · simp at ho; rcases ho with rfl | rfl <;> simp [Op.hiddenOnly, Op.paths]
    · -- the atomic write of the properties happens inside the temporary collection: all hidden
      unfold atomicWrite at ho
      simp only [List.mem_append] at ho
      rcases ho with ((ho | ho) | ho) | ho
      · simp at ho; rcases ho with rfl | rfl | rfl <;> simp [Op.hiddenOnly, Op.paths, hidden, hiddenComp_tmpName]
      · cases fsync <;> simp at ho; subst ho; rfl
      · simp at ho; rcases ho with rfl | rfl <;> simp [Op.hiddenOnly, Op.paths, hidden, hiddenComp_tmpName]
      · cases fsync <;> simp [syncDir] at ho; subst ho; rfl
    · cases items with
      | none => simp at ho
      | some hs =>
        simp only [List.mem_append] at ho
        rcases ho with (ho | ho) | ho
        · cases cic <;> cases fsync <;> simp [syncDir] at ho; subst ho; rfl
        · exact uploadAll_hidden fsync _ k _ hs o ho
        · cases fsync <;> simp [syncDir] at ho; subst ho; rfl
  · intro o ho
    cases fsync <;> simp [syncDir] at ho
    · subst ho; simp [Op.hiddenOnly, Op.paths]
    · rcases ho with rfl | rfl <;> simp [Op.hiddenOnly, Op.paths]

/-- plain `_makedirs_synced` creating one directory (MKCOL without body, home creation) -/
theorem makedirs_oneCommit (fsync : Bool) (p : FPath) : OneCommit (makedirs fsync p 1) := by
  refine ⟨[], .mkdir p, syncDir fsync p.dropLast, by simp [makedirs], by simp, ?_⟩
  intro o ho; cases fsync <;> simp [syncDir] at ho; subst ho; rfl

end Trace
end Radicale
