import RadicaleProofs.SyncInv
/-
  A sync leaves the history settled: computing the state dictionary again (same clock, no request in between)
  yields the same dictionary, i.e. the same token.
-/
namespace Radicale
namespace Sync

/-- the history entry of `h` is in step with the collection -/
def Settled (s : State) (h : Nat) : Prop :=
  (s.members h = none ∧ s.hist h = none) ∨ (∃ en, s.hist h = some en ∧ en.etag = s.members h)

/-- the dictionary read off the stored entries -/
def snapOf (hist : Nat → Option HEntry) (l : List Nat) : Snapshot :=
  l.filterMap (fun h => (hist h).map (fun en => (h, en.tag)))

/-- no remembered deletion is expired -/
def NoExp (cfg : Cfg) (s : State) : Prop :=
  ∀ h en, s.hist h = some en → s.members h = none → expired cfg s.now en.mtime = false

theorem scan_settled (l : List Nat) (s : State) (hset : ∀ h ∈ l, Settled s h) : scan l s = (s, snapOf s.hist l) := by
  induction l with
  | nil => rfl
  | cons x rest ih =>
    have ihr := ih (fun h hm => hset h (List.mem_cons_of_mem _ hm))
    rcases hset x (by simp) with ⟨hm, hh⟩ | ⟨en, hh, he⟩
    · simp only [scan, hm, hh, and_self, if_true, ihr, snapOf, List.filterMap_cons, Option.map_none]
    · have hc : ¬(s.members x = none ∧ s.hist x = none) := by intro c; rw [hh] at c; cases c.2
      simp only [scan, hc, if_false]
      have hu : updHist s x (s.members x) = (s, en.tag) := by
        simp only [updHist, hh, he, ne_eq, not_true_eq_false, if_false]
      rw [hu]
      simp only [ihr, snapOf, List.filterMap_cons, hh, Option.map_some]

theorem updHist_hist_other (s : State) (h h' : Nat) (e : Option Nat) (hne : h' ≠ h) :
    (updHist s h e).1.hist h' = s.hist h' := by
  unfold updHist
  split
  · split
    · simp [set, hne]
    · rfl
  · split
    · simp [set, hne]
    · rfl

theorem updHist_post (s : State) (h : Nat) (e : Option Nat) (hne : s.hist h ≠ none ∨ e ≠ none) :
    ∃ en, (updHist s h e).1.hist h = some en ∧ en.etag = e ∧ en.tag = (updHist s h e).2 := by
  unfold updHist
  split
  · rename_i en hen
    split
    · exact ⟨⟨e, .chain en.tag e, s.now⟩, by simp [set], rfl, rfl⟩
    · rename_i heq
      have heq' : e = en.etag := by
        by_cases c : e = en.etag
        · exact c
        · exact absurd c heq
      exact ⟨en, hen, heq'.symm, rfl⟩
  · rename_i hn
    split
    · exact ⟨⟨e, .chain (.seed s.nonce) e, s.now⟩, by simp [set], rfl, rfl⟩
    · rename_i he
      rcases hne with h1 | h1
      · exact absurd hn h1
      · exact absurd h1 he

theorem scan_hist_other (l : List Nat) (s : State) (h : Nat) (hn : h ∉ l) : (scan l s).1.hist h = s.hist h := by
  induction l generalizing s with
  | nil => rfl
  | cons x rest ih =>
    have hx : h ≠ x := fun e => hn (by simp [e])
    have hr : h ∉ rest := fun e => hn (List.mem_cons_of_mem _ e)
    simp only [scan]
    split
    · exact ih s hr
    · rw [ih _ hr, updHist_hist_other s x h _ hx]

/-- after the scan every enumerated href is settled and the dictionary is what the stored entries say -/
theorem scan_settles (l : List Nat) (s : State) (hl : l.Nodup) :
    (∀ h ∈ l, Settled (scan l s).1 h) ∧ (scan l s).2 = snapOf (scan l s).1.hist l := by
  induction l generalizing s with
  | nil => exact ⟨(by intro h hm; simp at hm), rfl⟩
  | cons x rest ih =>
    have hx : x ∉ rest := (List.nodup_cons.mp hl).1
    have hr : rest.Nodup := (List.nodup_cons.mp hl).2
    simp only [scan]
    split
    · rename_i hcond
      obtain ⟨i1, i2⟩ := ih s hr
      have hhx : (scan rest s).1.hist x = none := by rw [scan_hist_other rest s x hx]; exact hcond.2
      refine ⟨?_, ?_⟩
      · intro h hm
        rcases List.mem_cons.mp hm with rfl | hm'
        · left; exact ⟨by rw [(scan_frame rest s).1]; exact hcond.1, hhx⟩
        · exact i1 h hm'
      · simp only [snapOf, List.filterMap_cons, hhx, Option.map_none]; exact i2
    · rename_i hcond
      have hne : s.hist x ≠ none ∨ s.members x ≠ none := by
        by_cases c : s.hist x = none
        · right; intro hm; exact hcond ⟨hm, c⟩
        · left; exact c
      obtain ⟨en, hen, hetag, htag⟩ := updHist_post s x (s.members x) hne
      obtain ⟨i1, i2⟩ := ih (updHist s x (s.members x)).1 hr
      have hhx : (scan rest (updHist s x (s.members x)).1).1.hist x = some en := by
        rw [scan_hist_other rest _ x hx]; exact hen
      refine ⟨?_, ?_⟩
      · intro h hm
        rcases List.mem_cons.mp hm with rfl | hm'
        · right
          refine ⟨en, hhx, ?_⟩
          rw [(scan_frame rest _).1, (updHist_frame s h _).1]; exact hetag
        · exact i1 h hm'
      · simp only [snapOf, List.filterMap_cons, hhx, Option.map_some, htag]
        rw [i2]; rfl

/-! ### nothing expired is left behind -/

theorem cleanHist_noExp (cfg : Cfg) (s : State) : NoExp cfg (cleanHist cfg s) := by
  intro h en he hm
  simp only [cleanHist] at he hm ⊢
  split at he
  · rename_i en' hen
    split at he
    · cases he
    · rename_i hc
      cases he
      simp only [hm, Bool.not_eq_true] at hc
      exact hc
  · cases he

theorem updHist_noExp (cfg : Cfg) (hmax : cfg.maxAge ≠ 0) (s : State) (h : Nat) (e : Option Nat) (hs : NoExp cfg s) :
    NoExp cfg (updHist s h e).1 := by
  have f := updHist_frame s h e
  have fresh : expired cfg s.now s.now = false := by
    simp only [expired, Bool.or_eq_false_iff, decide_eq_false_iff_not, Nat.not_le]
    exact ⟨hmax, by omega⟩
  intro x en hx hm
  rw [f.1] at hm
  rw [f.2.2.2]
  unfold updHist at hx
  split at hx
  · split at hx
    · simp only [set] at hx
      split at hx
      · cases hx; exact fresh
      · exact hs x en hx hm
    · exact hs x en hx hm
  · split at hx
    · simp only [set] at hx
      split at hx
      · cases hx; exact fresh
      · exact hs x en hx hm
    · exact hs x en hx hm

theorem scan_noExp (cfg : Cfg) (hmax : cfg.maxAge ≠ 0) (l : List Nat) (s : State) (hs : NoExp cfg s) : NoExp cfg (scan l s).1 := by
  induction l generalizing s with
  | nil => exact hs
  | cons x rest ih =>
    simp only [scan]
    split
    · exact ih s hs
    · exact ih _ (updHist_noExp cfg hmax s x _ hs)

theorem cleanHist_of_noExp (cfg : Cfg) (s : State) (hs : NoExp cfg s) : (cleanHist cfg s).hist = s.hist := by
  funext h
  simp only [cleanHist]
  cases hh : s.hist h with
  | none => rfl
  | some en =>
    simp only
    by_cases hm : s.members h = none
    · simp [hm, hs h en hh hm]
    · simp [hm]

theorem record_hist (cfg : Cfg) (s : State) (snap : Snapshot) (hs : NoExp cfg s) :
    (record cfg s snap).hist = s.hist ∧ (record cfg s snap).hrefs = s.hrefs ∧ (record cfg s snap).now = s.now := by
  unfold record
  split
  · refine ⟨?_, rfl, rfl⟩
    exact cleanHist_of_noExp cfg _ (by intro h en he hm; exact hs h en he hm)
  · exact ⟨rfl, rfl, rfl⟩

/-- the state dictionary computed from a state that has the same members, history, hrefs and clock as the state a
    survey left behind is the survey's dictionary -/
theorem survey_stable (cfg : Cfg) (hmax : cfg.maxAge ≠ 0) (s s' : State) (hs : Inv s)
    (hm : s'.members = (survey cfg s).1.members) (hh : s'.hist = (survey cfg s).1.hist)
    (hr : s'.hrefs = (survey cfg s).1.hrefs) (hn : s'.now = (survey cfg s).1.now) :
    (survey cfg s').2 = (survey cfg s).2 := by
  have f := survey_frame cfg s
  have hnd : s.hrefs.Nodup := hs.nodup
  obtain ⟨hset, hsnap⟩ := scan_settles s.hrefs (cleanHist cfg s) hnd
  have hne : NoExp cfg (survey cfg s).1 := scan_noExp cfg hmax _ _ (cleanHist_noExp cfg s)
  have hne' : NoExp cfg s' := by
    intro h en he hmm
    rw [hh] at he; rw [hm] at hmm; rw [hn]
    exact hne h en he hmm
  have hc : (cleanHist cfg s').hist = (survey cfg s).1.hist := by rw [cleanHist_of_noExp cfg s' hne', hh]
  have hset' : ∀ h ∈ s'.hrefs, Settled (cleanHist cfg s') h := by
    intro h hmem
    rw [hr, f.2.1] at hmem
    have := hset h hmem
    unfold Settled at this ⊢
    have hcm : (cleanHist cfg s').members = (scan s.hrefs (cleanHist cfg s)).1.members := hm
    rw [hc, hcm]
    exact this
  unfold survey at *
  rw [scan_settled s'.hrefs (cleanHist cfg s') hset']
  simp only
  rw [hc, hr, f.2.1, hsnap]

/-- the state a successful sync leaves behind differs from the surveyed one at most in the token files -/
theorem sync_ok_state (cfg : Cfg) (hmax : cfg.maxAge ≠ 0) (s s1 : State) (a : Arg) (T : Snapshot) (ch : List Nat)
    (h : sync cfg s a = (s1, .ok T ch)) :
    s1.members = (survey cfg s).1.members ∧ s1.hist = (survey cfg s).1.hist ∧
    s1.hrefs = (survey cfg s).1.hrefs ∧ s1.now = (survey cfg s).1.now := by
  have hne : NoExp cfg (survey cfg s).1 := scan_noExp cfg hmax _ _ (cleanHist_noExp cfg s)
  have hrec : ∀ snap, (record cfg (survey cfg s).1 snap).members = (survey cfg s).1.members ∧
      (record cfg (survey cfg s).1 snap).hist = (survey cfg s).1.hist ∧
      (record cfg (survey cfg s).1 snap).hrefs = (survey cfg s).1.hrefs ∧
      (record cfg (survey cfg s).1 snap).now = (survey cfg s).1.now := by
    intro snap
    have r := record_hist cfg (survey cfg s).1 snap hne
    exact ⟨record_members cfg _ snap, r.1, r.2.1, r.2.2⟩
  cases a with
  | none =>
    simp only [sync, Prod.mk.injEq] at h
    rw [← h.1]; exact hrec _
  | malformed => simp [sync] at h
  | unknown => simp [sync] at h
  | tok t =>
    simp only [sync] at h
    split at h
    · simp only [Prod.mk.injEq] at h
      rw [← h.1]; exact ⟨rfl, rfl, rfl, rfl⟩
    · split at h
      · simp only [Prod.mk.injEq] at h
        rw [← h.1]; exact hrec _
      · simp at h

end Sync
end Radicale
