import RadicaleModel.CondHeaders
/-
  Lemmas about the conditional headers: the `Dav` model's tests on content ids are the handlers' tests on the header
  text, for every table `ETag text ↦ content id` that is faithful to an injective ETag function.
-/
namespace Radicale
namespace CondHeaders

/-- every entry of the table is the ETag text of its content id -/
def Faithful (etagOf : Nat → Str) (tbl : List (Str × Nat)) : Prop := ∀ e n, lookup tbl e = some n → etagOf n = e

/-- the table knows the content id `c` -/
def Knows (etagOf : Nat → Str) (tbl : List (Str × Nat)) (c : Nat) : Prop := lookup tbl (etagOf c) = some c

theorem lookup_eq_iff {etagOf : Nat → Str} {tbl : List (Str × Nat)} (hf : Faithful etagOf tbl) {c : Nat}
    (hk : Knows etagOf tbl c) (m : Str) : lookup tbl m = some c ↔ m = etagOf c := by
  constructor
  · intro h; exact (hf m c h).symm
  · intro h; subst h; exact hk

theorem putRefuses_digest (etagOf : Nat → Str) (tbl : List (Str × Nat)) (cur : Option Nat) (w : Wire)
    (hf : Faithful etagOf tbl) (hk : ∀ c, cur = some c → Knows etagOf tbl c) :
    putRefuses (cur.map etagOf) w = davPutRefuses cur (digestPut tbl w) := by
  cases cur with
  | none =>
    cases hm : w.ifMatch <;> simp [putRefuses, davPutRefuses, digestPut, hm]
  | some c =>
    have hkc := hk c rfl
    cases hm : w.ifMatch with
    | none => simp [putRefuses, davPutRefuses, digestPut, hm]
    | some m =>
      have hl := lookup_eq_iff hf hkc m
      by_cases hmc : m = etagOf c
      · subst hmc
        have hkc' : lookup tbl (etagOf c) = some c := hkc
        simp [putRefuses, davPutRefuses, digestPut, hm, hkc']
      · have hnl : lookup tbl m ≠ some c := fun h => hmc (hl.mp h)
        have h1 : (some (etagOf c) != some m) = true := by
          simp; exact fun h => hmc h.symm
        by_cases hme : m = []
        · simp [putRefuses, davPutRefuses, digestPut, hm, hme]
        · have h2 : (m != []) = true := by simp [hme]
          cases hlk : lookup tbl m with
          | none => simp [putRefuses, davPutRefuses, digestPut, hm, hlk, h1, h2]
          | some e =>
            have hec : (c != e) = true := by
              simp; exact fun h => hnl (by rw [hlk, h])
            simp [putRefuses, davPutRefuses, digestPut, hm, hlk, h1, h2, hec]

theorem deleteRefuses_digest (etagOf : Nat → Str) (tbl : List (Str × Nat)) (c : Nat) (w : Wire)
    (hf : Faithful etagOf tbl) (hk : Knows etagOf tbl c) :
    deleteRefuses (etagOf c) w = davDeleteRefuses c (digestDelete tbl w) := by
  cases hm : w.ifMatch with
  | none => simp [deleteRefuses, davDeleteRefuses, digestDelete, hm]
  | some m =>
    have hl := lookup_eq_iff hf hk m
    by_cases hs : m = ['*']
    · simp [deleteRefuses, davDeleteRefuses, digestDelete, hm, hs]
    · have h0 : (m == ['*']) = false := by simp [hs]
      by_cases hmc : m = etagOf c
      · have h1 : lookup tbl m = some c := hl.mpr hmc
        have h2 : (m == etagOf c) = true := by simp [hmc]
        simp [deleteRefuses, davDeleteRefuses, digestDelete, hm, h0, h1, h2]
      · have hnl : lookup tbl m ≠ some c := fun h => hmc (hl.mp h)
        have h2 : (m == etagOf c) = false := by simp [hmc]
        simp [deleteRefuses, davDeleteRefuses, digestDelete, hm, h0, h2, hnl]

end CondHeaders
end Radicale
