import RadicaleModel.Cache
/-
  The item cache is invisible: with sound entries (an entry answers correctly for every file version that has its
  key) every history of requests and cache manipulations gives the answers of the cache-free reference.
-/
namespace Radicale
namespace Cache

/-- an entry is sound when every file version of the world that carries its key parses to its content -/
def EntrySound (modes : Mode → Prop) (parse : Nat → Option Nat) (W : File → Prop) (e : Entry) : Prop :=
  ∀ m, modes m → ∀ f, W f → key m f = e.1 → parse f.content = some e.2

/-- the key identifies the bytes among the file versions that occur (hash mode: always; mtime+size mode: an
    edit changes size or mtime) -/
def KeyInj (m : Mode) (W : File → Prop) : Prop := ∀ f g, W f → W g → key m f = key m g → f.content = g.content

/-- the key identifies the bytes under every keying mode the history uses -/
def KeysInj (modes : Mode → Prop) (W : File → Prop) : Prop := ∀ m, modes m → KeyInj m W

structure Sound (modes : Mode → Prop) (parse : Nat → Option Nat) (W : File → Prop) (s : State) : Prop where
  entries : ∀ h e, s.cache h = some e → EntrySound modes parse W e
  files : ∀ h f, s.files h = some f → W f

theorem keyInj_hash (W : File → Prop) : KeyInj .hash W := by
  intro f g _ _ h
  simp only [key] at h
  injection h

theorem key_shape (m m' : Mode) (f g : File) (h : key m' g = key m f) : m' = m := by
  cases m <;> cases m' <;> simp [key] at h ⊢

theorem written_sound (modes : Mode → Prop) (m : Mode) (parse : Nat → Option Nat) (W : File → Prop) (hk : KeysInj modes W)
    (f : File) (hf : W f) (d : Nat) (hp : parse f.content = some d) : EntrySound modes parse W (key m f, d) := by
  intro m' hm' g hg hkey
  have := key_shape m m' f g hkey
  subst this
  rw [hk m' hm' g f hg hf hkey]; exact hp

def ReqOk (modes : Mode → Prop) (parse : Nat → Option Nat) (up : Nat → Nat) (W : File → Prop) : Req → Prop
  | .upload _ f => W f ∧ parse f.content = some (up f.content)
  | .moveIn _ f e => W f ∧ (∀ x, e = some x → EntrySound modes parse W x)
  | .replaceAll items _ => ∀ p ∈ items, W p.2 ∧ parse p.2.content = some (up p.2.content)
  | .edit _ f => ∀ x, f = some x → W x
  | _ => True

def OpOk (modes : Mode → Prop) (parse : Nat → Option Nat) (up : Nat → Nat) (W : File → Prop) : Op → Prop
  | .req r => ReqOk modes parse up W r
  | .adv (.plant _ e) => EntrySound modes parse W e
  | .adv _ => True
  | .mode m => modes m

theorem get_spec (modes : Mode → Prop) (m : Mode) (hm : modes m) (parse : Nat → Option Nat) (W : File → Prop) (hk : KeysInj modes W)
    (s : State) (hs : Sound modes parse W s) (h : Nat) :
    (get m parse s h).2.1 = (s.files h).bind (fun f => parse f.content) ∧ (get m parse s h).1.files = s.files ∧
    Sound modes parse W (get m parse s h).1 := by
  unfold get
  cases hf : s.files h with
  | none => exact ⟨rfl, rfl, hs⟩
  | some f =>
    have hw : W f := hs.files h f hf
    have hmiss : ∀ (x : State × Option Nat × Lookup),
        x = (match parse f.content with
          | none => (s, none, Lookup.broken)
          | some d => ({ s with cache := fun x => if x = h then some (key m f, d) else if (s.files x).isSome then s.cache x else none },
                       some d, Lookup.miss)) →
        x.2.1 = parse f.content ∧ x.1.files = s.files ∧ Sound modes parse W x.1 := by
      intro x hx
      cases hp : parse f.content with
      | none => rw [hp] at hx; subst hx; exact ⟨rfl, rfl, hs⟩
      | some d =>
        rw [hp] at hx; subst hx
        refine ⟨rfl, rfl, ?_, hs.files⟩
        intro h' e he
        simp only at he
        split at he
        · cases he; exact written_sound modes m parse W hk f hw d hp
        · split at he
          · exact hs.entries h' e he
          · cases he
    simp only [Option.bind_some]
    cases hc : s.cache h with
    | none => exact hmiss _ rfl
    | some e =>
      obtain ⟨k, d⟩ := e
      simp only
      split
      · rename_i hkey
        refine ⟨?_, rfl, hs⟩
        exact (hs.entries h (k, d) hc m hm f hw hkey.symm).symm
      · exact hmiss _ rfl

theorem ofList_some {β : Type} (items : List (Nat × β)) (h : Nat) (v : β) (hv : ofList items h = some v) : (h, v) ∈ items := by
  induction items with
  | nil => simp [ofList] at hv
  | cons p ps ih =>
    obtain ⟨a, b⟩ := p
    simp only [ofList] at hv
    split at hv
    · rename_i e; cases hv; simp [e]
    · exact List.mem_cons_of_mem _ (ih hv)

theorem stepReq_spec (modes : Mode → Prop) (m : Mode) (hm : modes m) (parse : Nat → Option Nat) (up : Nat → Nat) (W : File → Prop)
    (hk : KeysInj modes W) (s : State) (hs : Sound modes parse W s) (r : Req) (hr : ReqOk modes parse up W r) :
    (stepReq m parse up s r).2 = (refReq parse s.files r).2 ∧ (stepReq m parse up s r).1.files = (refReq parse s.files r).1 ∧
    Sound modes parse W (stepReq m parse up s r).1 := by
  cases r with
  | get h => exact get_spec modes m hm parse W hk s hs h
  | upload h f =>
    simp only [ReqOk] at hr
    have hs1 : Sound modes parse W ⟨set s.files h (some f), set s.cache h (some (key m f, up f.content))⟩ := by
      refine ⟨?_, ?_⟩
      · intro h' e he
        simp only [set] at he
        split at he
        · cases he; exact written_sound modes m parse W hk f hr.1 _ hr.2
        · exact hs.entries h' e he
      · intro h' g hg
        simp only [set] at hg
        split at hg
        · cases hg; exact hr.1
        · exact hs.files h' g hg
    have g := get_spec modes m hm parse W hk _ hs1 h
    simp only [stepReq, refReq]
    refine ⟨?_, g.2.1, g.2.2⟩
    rw [g.1]; simp [set]
  | delete h =>
    refine ⟨rfl, rfl, ?_, ?_⟩
    · intro h' e he
      simp only [stepReq, set] at he
      split at he
      · cases he
      · exact hs.entries h' e he
    · intro h' g hg
      simp only [stepReq, set] at hg
      split at hg
      · cases hg
      · exact hs.files h' g hg
  | move h h' =>
    have g := get_spec modes m hm parse W hk s hs h
    have gf : (get m parse s h).1.files = s.files := g.2.1
    simp only [stepReq, refReq]
    cases hf : s.files h with
    | none =>
      have h2 : (get m parse s h).1.files h = none := by rw [gf]; exact hf
      have h1 : (get m parse s h).2.1 = none := by rw [g.1, hf]; rfl
      simp only [h1, h2]
      exact ⟨trivial, gf, g.2.2⟩
    | some f =>
      have h2 : (get m parse s h).1.files h = some f := by rw [gf]; exact hf
      cases hp : parse f.content with
      | none =>
        have h1 : (get m parse s h).2.1 = none := by rw [g.1, hf]; exact hp
        simp only [h1, h2, hp, Option.isNone_none, if_true]
        exact ⟨trivial, gf, g.2.2⟩
      | some d =>
        have h1 : (get m parse s h).2.1 = some d := by rw [g.1, hf]; exact hp
        simp only [h1, h2, hp, Option.isNone_some, Bool.false_eq_true, if_false]
        split
        · exact ⟨rfl, gf, g.2.2⟩
        · refine ⟨rfl, by simp only [gf], ?_, ?_⟩
          · intro x e he
            simp only at he
            cases hc : (get m parse s h).1.cache h with
            | none => rw [hc] at he; exact g.2.2.entries x e he
            | some e0 =>
              rw [hc] at he
              simp only [set] at he
              split at he
              · cases he
              · split at he
                · cases he; exact g.2.2.entries h _ hc
                · exact g.2.2.entries x e he
          · intro x y hy
            simp only [set] at hy
            split at hy
            · cases hy
            · split at hy
              · cases hy; exact hs.files h f hf
              · exact g.2.2.files x y hy
  | moveOut h =>
    refine ⟨rfl, rfl, ?_, ?_⟩
    · intro h' e he
      simp only [stepReq, set] at he
      split at he
      · cases he
      · exact hs.entries h' e he
    · intro h' g hg
      simp only [stepReq, set] at hg
      split at hg
      · cases hg
      · exact hs.files h' g hg
  | moveIn h f e =>
    simp only [ReqOk] at hr
    refine ⟨rfl, rfl, ?_, ?_⟩
    · intro h' x hx
      simp only [stepReq] at hx
      cases e with
      | none => exact hs.entries h' x hx
      | some e0 =>
        simp only [set] at hx
        split at hx
        · cases hx; exact hr.2 _ rfl
        · exact hs.entries h' x hx
    · intro h' g hg
      simp only [stepReq, set] at hg
      split at hg
      · cases hg; exact hr.1
      · exact hs.files h' g hg
  | replaceAll items sub =>
    simp only [ReqOk] at hr
    refine ⟨rfl, rfl, ?_, ?_⟩
    · intro h' x hx
      simp only [stepReq] at hx
      cases sub with
      | true => exact hs.entries h' x hx
      | false =>
        simp only [Bool.false_eq_true, if_false] at hx
        have hm := ofList_some _ h' x hx
        simp only [List.mem_map] at hm
        obtain ⟨p, hp, hpe⟩ := hm
        injection hpe with _ h2
        rw [← h2]
        exact written_sound modes m parse W hk p.2 (hr p hp).1 _ (hr p hp).2
    · intro h' g hg
      simp only [stepReq] at hg
      exact (hr _ (ofList_some _ h' g hg)).1
  | edit h f =>
    simp only [ReqOk] at hr
    refine ⟨rfl, rfl, hs.entries, ?_⟩
    intro h' g hg
    simp only [stepReq, set] at hg
    split at hg
    · exact hr g hg
    · exact hs.files h' g hg

theorem stepAdv_sound (modes : Mode → Prop) (parse : Nat → Option Nat) (W : File → Prop) (s : State) (hs : Sound modes parse W s) (a : Adv)
    (hp : ∀ h e, a = .plant h e → EntrySound modes parse W e) :
    Sound modes parse W (stepAdv s a) ∧ (stepAdv s a).files = s.files := by
  cases a with
  | wipe => exact ⟨⟨(by intro h e he; simp [stepAdv] at he), hs.files⟩, rfl⟩
  | drop h =>
    refine ⟨⟨?_, hs.files⟩, rfl⟩
    intro h' e he
    simp only [stepAdv, set] at he
    split at he
    · cases he
    · exact hs.entries h' e he
  | plant h e =>
    refine ⟨⟨?_, hs.files⟩, rfl⟩
    intro h' x hx
    simp only [stepAdv, set] at hx
    split at hx
    · cases hx; exact hp h e rfl
    · exact hs.entries h' x hx

end Cache
end Radicale
