import RadicaleModel.AuthCache
namespace Radicale
namespace AuthCache

/-- one consultation of the back-end -/
structure Call where
  time : Nat
  login : Str
  pw : Str
  result : Str
  deriving DecidableEq

/-! ### the digest input determines salt and password (for one login) -/

theorem colon_not_in_dec (n : Nat) : ':' ∉ dec n := by
  intro h
  have := Nat.isDigit_of_mem_toDigits (by decide) (by decide) h
  revert this
  decide

theorem dec_inj {a b : Nat} (h : dec a = dec b) : a = b := by
  have ha := @Nat.ofDigitChars_ten_toDigits a
  have hb := @Nat.ofDigitChars_ten_toDigits b
  unfold dec at h
  rw [h] at ha
  omega

theorem split_at_colon : ∀ {a b x y : Str}, ':' ∉ a → ':' ∉ b → a ++ ':' :: x = b ++ ':' :: y → a = b ∧ x = y
  | [], [], _, _, _, _, h => by simpa using h
  | [], c :: b, _, _, _, hb, h => by
    simp only [List.nil_append, List.cons_append, List.cons.injEq] at h
    exact absurd (h.1 ▸ List.mem_cons_self) hb
  | c :: a, [], _, _, ha, _, h => by
    simp only [List.nil_append, List.cons_append, List.cons.injEq] at h
    exact absurd (h.1 ▸ List.mem_cons_self) ha
  | c :: a, d :: b, x, y, ha, hb, h => by
    simp only [List.cons_append, List.cons.injEq] at h
    have := split_at_colon (a := a) (b := b) (fun m => ha (List.mem_cons_of_mem _ m)) (fun m => hb (List.mem_cons_of_mem _ m)) h.2
    exact ⟨by rw [h.1, this.1], this.2⟩

/-- for one login, the digest input determines the salt and the password -/
theorem digest_inj {s s' : Nat} {l pw pw' : Str} (h : digest s l pw = digest s' l pw') : s = s' ∧ pw = pw' := by
  unfold digest at h
  obtain ⟨h1, h2⟩ := split_at_colon (colon_not_in_dec s) (colon_not_in_dec s') h
  refine ⟨dec_inj h1, ?_⟩
  have := List.append_cancel_left h2
  simpa using this

/-- before fix F26 it did not: two clock readings with different numbers of digits, and a password is confused
    with another one -/
theorem f26_unseparated_digest_ambiguous :
    digestUnsep 99999999999 "33".toList "3x".toList = digestUnsep 999999999993 "33".toList "x".toList := by
  decide +kernel

/-- every cache entry is backed by a recorded answer of the back-end -/
def Inv (cfg : Cfg) (st : State) (log : List Call) : Prop :=
  (∀ l e, st.succ l = some e → e.user ≠ [] ∧ ∀ pw, e.digest = digest e.time l pw → (⟨e.time, l, pw, e.user⟩ : Call) ∈ log) ∧
  (∀ l pw t, st.failed (l, digest cfg.failSalt l pw) = some t → (⟨t, l, pw, []⟩ : Call) ∈ log)

theorem inv_init (cfg : Cfg) : Inv cfg State.init [] := by
  constructor <;> intro <;> simp [State.init]

theorem age_self (now : Nat) : age now now = 0 := by simp [age]

theorem sweep_some {cfg : Cfg} {now : Nat} {failed : Str × Str → Option Nat} {k t}
    (h : sweep cfg now failed k = some t) : failed k = some t ∧ age now t ≤ cfg.failExp := by
  unfold sweep at h
  split at h
  · rename_i t' ht
    split at h
    · simp at h
    · rename_i hage
      simp only [Option.some.injEq] at h
      subst h
      exact ⟨ht, Nat.le_of_not_gt hage⟩
  · simp at h

theorem upd_some {α β} [DecidableEq α] {f : α → Option β} {k x : α} {v : Option β} {w : β}
    (h : upd f k v x = some w) : (x = k ∧ v = some w) ∨ (x ≠ k ∧ f x = some w) := by
  unfold upd at h
  split at h
  · exact Or.inl ⟨‹_›, h⟩
  · exact Or.inr ⟨‹_›, h⟩

def logAfter (r : Result) (now : Nat) (backend : Str → Str → Str) (l pw : Str) (log : List Call) : List Call :=
  if r.consulted then ⟨now, l, pw, backend l pw⟩ :: log else log

theorem backendPath_step (cfg : Cfg) (succ : Str → Option SuccEntry) (failed : Str × Str → Option Nat)
    (log : List Call) (now : Nat) (backend : Str → Str → Str) (l pw : Str) (dg : Option Digest)
    (h : Inv cfg ⟨succ, failed⟩ log) (hdg : ∀ d, dg = some d → ∃ s, d = digest s l pw) :
    let r := backendPath cfg succ failed now backend l pw dg
    let log' := logAfter r now backend l pw log
    Inv cfg r.state log' ∧ (∀ c ∈ log, c ∈ log') ∧
    (r.user ≠ [] → ∃ c ∈ log', c.login = l ∧ c.pw = pw ∧ c.result = r.user ∧ age now c.time ≤ cfg.succExp) ∧
    (r.user = [] → ∃ c ∈ log', c.login = l ∧ c.pw = pw ∧ c.result = [] ∧ age now c.time ≤ cfg.failExp) := by
  obtain ⟨hs, hf⟩ := h
  unfold backendPath
  by_cases hr : backend l pw = []
  · simp only [hr, ne_eq, not_true_eq_false, if_false, logAfter]
    refine ⟨⟨?_, ?_⟩, fun c hc => List.mem_cons_of_mem _ hc, (by intro hx; first | exact hx.elim | exact absurd rfl hx), fun _ => ?_⟩
    · intro l' e hm
      obtain ⟨h1, h2⟩ := hs l' e hm
      exact ⟨h1, fun pw' hd => List.mem_cons_of_mem _ (h2 pw' hd)⟩
    · intro l' pw' t hm
      rcases upd_some hm with ⟨heq, hv⟩ | ⟨_, hm'⟩
      · simp only [Prod.mk.injEq] at heq
        obtain ⟨rfl, hd⟩ := heq
        obtain ⟨_, rfl⟩ := digest_inj hd
        simp only [Option.some.injEq] at hv
        subst hv
        exact List.mem_cons_self
      · exact List.mem_cons_of_mem _ (hf l' pw' t hm')
    · exact ⟨⟨now, l, pw, []⟩, List.mem_cons_self, rfl, rfl, rfl, by simp [age_self]⟩
  · simp only [ne_eq, hr, not_false_eq_true, if_true, logAfter]
    refine ⟨⟨?_, ?_⟩, fun c hc => List.mem_cons_of_mem _ hc, fun _ => ?_, (by intro hx; first | exact hx.elim | exact absurd hx hr)⟩
    · intro l' e hm
      rcases upd_some hm with ⟨rfl, hv⟩ | ⟨_, hm'⟩
      · simp only [Option.some.injEq] at hv
        subst hv
        refine ⟨hr, fun pw' hd => ?_⟩
        simp only at hd
        have : pw' = pw := by
          cases dg with
          | none => simp only at hd; exact (digest_inj hd).2.symm
          | some d =>
            simp only at hd
            obtain ⟨s0, hs0⟩ := hdg d rfl
            rw [hs0] at hd
            exact (digest_inj hd).2.symm
        subst this
        exact List.mem_cons_self
      · obtain ⟨h1, h2⟩ := hs l' e hm'
        exact ⟨h1, fun pw' hd => List.mem_cons_of_mem _ (h2 pw' hd)⟩
    · intro l' pw' t hm
      rcases upd_some hm with ⟨_, hv⟩ | ⟨_, hm'⟩
      · simp at hv
      · exact List.mem_cons_of_mem _ (hf l' pw' t hm')
    · exact ⟨⟨now, l, pw, backend l pw⟩, List.mem_cons_self, rfl, rfl, rfl, by simp [age_self]⟩

/-- The step theorem: the invariant is preserved and the answer of this call is justified by a recorded
    back-end answer for the same login and password that is recent enough. -/
theorem login_step (cfg : Cfg) (st : State) (log : List Call) (now : Nat) (backend : Str → Str → Str) (l pw : Str)
    (h : Inv cfg st log) :
    let r := login cfg st now backend l pw
    let log' := logAfter r now backend l pw log
    Inv cfg r.state log' ∧ (∀ c ∈ log, c ∈ log') ∧
    (r.user ≠ [] → ∃ c ∈ log', c.login = l ∧ c.pw = pw ∧ c.result = r.user ∧ age now c.time ≤ cfg.succExp) ∧
    (r.user = [] → ∃ c ∈ log', c.login = l ∧ c.pw = pw ∧ c.result = [] ∧ age now c.time ≤ cfg.failExp) := by
  obtain ⟨hs, hf⟩ := h
  have hfail' : ∀ l pw t, sweep cfg now st.failed (l, digest cfg.failSalt l pw) = some t → (⟨t, l, pw, []⟩ : Call) ∈ log :=
    fun l pw t hm => hf l pw t (sweep_some hm).1
  have hinv' : Inv cfg ⟨st.succ, sweep cfg now st.failed⟩ log := ⟨hs, hfail'⟩
  unfold login
  simp only
  split
  · -- cached failure
    rename_i hsome
    obtain ⟨t, ht⟩ := Option.isSome_iff_exists.1 hsome
    have ha := (sweep_some ht).2
    simp only [logAfter]
    refine ⟨hinv', fun c hc => hc, (by intro hx; first | exact hx.elim | exact absurd rfl hx), fun _ => ?_⟩
    exact ⟨⟨t, l, pw, []⟩, hf l pw t (sweep_some ht).1, rfl, rfl, rfl, ha⟩
  · split
    · exact backendPath_step cfg _ _ log now backend l pw _ hinv' (by intro d hd; cases hd; exact ⟨_, rfl⟩)
    · rename_i e hsl
      obtain ⟨heu, hej⟩ := hs l e hsl
      split
      · rename_i hd
        split
        · refine backendPath_step cfg _ _ log now backend l pw _ ⟨?_, hfail'⟩ (by intro d hd; cases hd)
          intro l' e' hm
          rcases upd_some hm with ⟨_, hv⟩ | ⟨_, hm'⟩
          · simp at hv
          · exact hs l' e' hm'
        · rename_i hage
          simp only [logAfter]
          refine ⟨hinv', fun c hc => hc, fun _ => ?_, (by intro hx; first | exact hx.elim | exact absurd hx heu)⟩
          exact ⟨⟨e.time, l, pw, e.user⟩, hej pw hd.symm, rfl, rfl, rfl, Nat.le_of_not_gt hage⟩
      · exact backendPath_step cfg _ _ log now backend l pw _ hinv' (by intro d hd; cases hd; exact ⟨_, rfl⟩)

/-- a back-end error never puts anything into the caches: the invariant is kept, the log is unchanged, and an answer
    given nevertheless comes from an entry that a recorded back-end answer justifies -/
theorem loginFault_step (cfg : Cfg) (st : State) (log : List Call) (now : Nat) (l pw : Str) (h : Inv cfg st log) :
    Inv cfg (loginFault cfg st now l pw).2 log ∧
    (∀ r, (loginFault cfg st now l pw).1 = some r →
      (r.user ≠ [] → ∃ c ∈ log, c.login = l ∧ c.pw = pw ∧ c.result = r.user ∧ age now c.time ≤ cfg.succExp) ∧
      (r.user = [] → ∃ c ∈ log, c.login = l ∧ c.pw = pw ∧ c.result = [] ∧ age now c.time ≤ cfg.failExp)) := by
  obtain ⟨hs, hf⟩ := h
  have hfail' : ∀ l pw t, sweep cfg now st.failed (l, digest cfg.failSalt l pw) = some t → (⟨t, l, pw, []⟩ : Call) ∈ log :=
    fun l pw t hm => hf l pw t (sweep_some hm).1
  have hinv' : Inv cfg ⟨st.succ, sweep cfg now st.failed⟩ log := ⟨hs, hfail'⟩
  unfold loginFault
  simp only
  split
  · rename_i hsome
    obtain ⟨t, ht⟩ := Option.isSome_iff_exists.1 hsome
    refine ⟨hinv', ?_⟩
    intro r hr
    simp only [Option.some.injEq] at hr
    subst hr
    refine ⟨(by intro hx; exact absurd rfl hx), fun _ => ?_⟩
    exact ⟨⟨t, l, pw, []⟩, hf l pw t (sweep_some ht).1, rfl, rfl, rfl, (sweep_some ht).2⟩
  · split
    · exact ⟨hinv', by intro r hr; cases hr⟩
    · rename_i e hsl
      obtain ⟨heu, hej⟩ := hs l e hsl
      split
      · rename_i hd
        split
        · refine ⟨⟨?_, hfail'⟩, by intro r hr; cases hr⟩
          intro l' e' hm
          rcases upd_some hm with ⟨_, hv⟩ | ⟨_, hm'⟩
          · simp at hv
          · exact hs l' e' hm'
        · rename_i hage
          refine ⟨hinv', ?_⟩
          intro r hr
          simp only [Option.some.injEq] at hr
          subst hr
          refine ⟨fun _ => ?_, (by intro hx; exact absurd hx heu)⟩
          exact ⟨⟨e.time, l, pw, e.user⟩, hej pw hd.symm, rfl, rfl, rfl, Nat.le_of_not_gt hage⟩
      · exact ⟨hinv', by intro r hr; cases hr⟩

/-! ### independence of logins -/

/-- everything `login … l …` can see of the caches: the successful entry of `l` and the failed entries under `l` -/
def view (l : Str) (st : State) : Option SuccEntry × (Str → Option Nat) := (st.succ l, fun d => st.failed (l, d))

theorem upd_ne {α β} [DecidableEq α] (f : α → Option β) {k x : α} (v : Option β) (h : x ≠ k) : upd f k v x = f x := by
  simp [upd, h]

theorem sweep_view (cfg : Cfg) (now : Nat) (l : Str) (f g : Str × Str → Option Nat)
    (h : ∀ pw, f (l, pw) = g (l, pw)) : ∀ pw, sweep cfg now f (l, pw) = sweep cfg now g (l, pw) := by
  intro pw; simp [sweep, h pw]

/-- an attempt under another login leaves the view of `l` as it would be after the sweep alone -/
theorem other_login_view (cfg : Cfg) (st : State) (now : Nat) (backend : Str → Str → Str) (l l' pw' : Str)
    (hne : l' ≠ l) :
    view l (login cfg st now backend l' pw').state = view l ⟨st.succ, sweep cfg now st.failed⟩ := by
  have hk : ∀ pw, (l, pw) ≠ (l', digest cfg.failSalt l' pw') := fun pw h => hne (by simp only [Prod.mk.injEq] at h; exact h.1.symm)
  have hbp : ∀ succ dg, succ l = st.succ l →
      view l (backendPath cfg succ (sweep cfg now st.failed) now backend l' pw' dg).state
        = view l ⟨st.succ, sweep cfg now st.failed⟩ := by
    intro succ dg hsucc
    unfold backendPath view
    by_cases hr : backend l' pw' = []
    · simp only [hr, ne_eq, not_true_eq_false, if_false, Prod.mk.injEq]
      exact ⟨hsucc, by funext pw; exact upd_ne _ _ (hk pw)⟩
    · simp only [ne_eq, hr, not_false_eq_true, if_true, Prod.mk.injEq]
      exact ⟨by rw [upd_ne _ _ hne.symm]; exact hsucc, by funext pw; exact upd_ne _ _ (hk pw)⟩
  unfold login
  simp only
  split
  · rfl
  · split
    · exact hbp _ _ rfl
    · split
      · split
        · exact hbp _ _ (upd_ne _ _ hne.symm)
        · rfl
      · exact hbp _ _ rfl

/-- the answer for `l` and the next view of `l` depend only on the current view of `l` -/
theorem login_view_congr (cfg : Cfg) (st₁ st₂ : State) (now : Nat) (backend : Str → Str → Str) (l pw : Str)
    (h : view l st₁ = view l st₂) :
    (login cfg st₁ now backend l pw).user = (login cfg st₂ now backend l pw).user ∧
    view l (login cfg st₁ now backend l pw).state = view l (login cfg st₂ now backend l pw).state := by
  simp only [view, Prod.mk.injEq] at h
  obtain ⟨hs, hf⟩ := h
  have hf' : ∀ pw, st₁.failed (l, pw) = st₂.failed (l, pw) := fun pw => congrFun hf pw
  have hsw := sweep_view cfg now l _ _ hf'
  have hbp : ∀ (s₁ s₂ : Str → Option SuccEntry) dg, s₁ l = s₂ l →
      (backendPath cfg s₁ (sweep cfg now st₁.failed) now backend l pw dg).user =
        (backendPath cfg s₂ (sweep cfg now st₂.failed) now backend l pw dg).user ∧
      view l (backendPath cfg s₁ (sweep cfg now st₁.failed) now backend l pw dg).state =
        view l (backendPath cfg s₂ (sweep cfg now st₂.failed) now backend l pw dg).state := by
    intro s₁ s₂ dg hss
    unfold backendPath view
    by_cases hr : backend l pw = []
    · simp only [hr, ne_eq, not_true_eq_false, if_false, Prod.mk.injEq, true_and]
      refine ⟨hss, ?_⟩
      funext pw'
      by_cases hp : pw' = digest cfg.failSalt l pw
      · simp [upd, hp]
      · have : (l, pw') ≠ (l, digest cfg.failSalt l pw) := by simp [hp]
        simp [upd_ne _ _ this, hsw pw']
    · simp only [ne_eq, hr, not_false_eq_true, if_true, Prod.mk.injEq, true_and]
      refine ⟨by simp [upd], ?_⟩
      funext pw'
      by_cases hp : pw' = digest cfg.failSalt l pw
      · simp [upd, hp]
      · have : (l, pw') ≠ (l, digest cfg.failSalt l pw) := by simp [hp]
        simp [upd_ne _ _ this, hsw pw']
  unfold login
  simp only [hsw (digest cfg.failSalt l pw), hs]
  split
  · refine ⟨rfl, ?_⟩
    simp only [view, hs, Prod.mk.injEq, true_and]
    funext pw'; exact hsw pw'
  · split
    · exact hbp _ _ _ hs
    · split
      · split
        · exact hbp _ _ _ (by simp [upd])
        · refine ⟨rfl, ?_⟩
          simp only [view, hs, Prod.mk.injEq, true_and]
          funext pw'; exact hsw pw'
      · exact hbp _ _ _ hs

end AuthCache
end Radicale
