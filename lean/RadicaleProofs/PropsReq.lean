import RadicaleModel.PropsReq
namespace Radicale
namespace PropsReq

def rlookup (res : Result) (k : String) : Option (Option String) := (res.find? (fun e => e.1 == k)).map (·.2)

theorem rlookup_step (res : Result) (i : Instr) (k : String) :
    rlookup (step res i) k = if k = i.key then some (if i.isSet then some i.value else none) else rlookup res k := by
  unfold step rlookup
  by_cases hk : k = i.key
  · subst hk
    simp only [if_true]
    rw [List.find?_append]
    have : (res.filter (fun e => e.1 != i.key)).find? (fun e => e.1 == i.key) = none := by
      apply List.find?_eq_none.2
      intro x hx
      simp only [List.mem_filter, bne_iff_ne, ne_eq] at hx
      simpa using hx.2
    simp [this]
  · simp only [hk, if_false]
    rw [List.find?_append]
    have h1 : (res.filter (fun e => e.1 != i.key)).find? (fun e => e.1 == k) = res.find? (fun e => e.1 == k) := by
      induction res with
      | nil => rfl
      | cons a l ih =>
        by_cases ha : a.1 = i.key
        · have hak : (a.1 == k) = false := by
            simp only [beq_eq_false_iff_ne, ne_eq]; intro e; exact hk (by rw [← e, ha])
          have hf : (a.1 != i.key) = false := by simp [ha]
          simp only [List.filter_cons, hf, Bool.false_eq_true, if_false, List.find?_cons, hak]
          exact ih
        · have : (a.1 != i.key) = true := by simpa using ha
          simp only [List.filter_cons, this, if_true, List.find?_cons]
          split
          · rfl
          · exact ih
    have h2 : ([(i.key, if i.isSet then some i.value else none)] : Result).find? (fun e => e.1 == k) = none := by
      simp only [List.find?_cons, List.find?_nil]
      have : (i.key == k) = false := by
        simp only [beq_eq_false_iff_ne, ne_eq]; intro e; exact hk e.symm
      simp [this]
    rw [h1, h2]
    cases res.find? (fun e => e.1 == k) <;> rfl

/-- **the last instruction for a property decides**: what `props_from_request` returns for `k` is the last instruction
    of the body that names `k` (a value to set, or `none` = remove); a property the body does not name is absent -/
theorem propsFromRequest_last (is : List Instr) (k : String) :
    rlookup (propsFromRequest is) k = (lastFor is k).map (fun i => if i.isSet then some i.value else none) := by
  unfold propsFromRequest lastFor
  suffices h : ∀ (res : Result), rlookup (is.foldl step res) k =
      match is.reverse.find? (fun i => i.key == k) with
      | some i => some (if i.isSet then some i.value else none)
      | none => rlookup res k by
    have := h []
    rw [this]
    cases is.reverse.find? (fun i => i.key == k) <;> simp [rlookup]
  induction is with
  | nil => intro res; simp
  | cons a l ih =>
    intro res
    simp only [List.foldl_cons, List.reverse_cons, List.find?_append]
    rw [ih (step res a)]
    cases hl : l.reverse.find? (fun i => i.key == k) with
    | some i => simp
    | none =>
      simp only [Option.none_or, List.find?_cons, List.find?_nil]
      rw [rlookup_step]
      by_cases hk : k = a.key
      · subst hk; simp
      · have : (a.key == k) = false := by
          simp only [beq_eq_false_iff_ne, ne_eq]; intro e; exact hk e.symm
        simp [hk, this]


theorem lookup_filter_ne (ps : Props) (k k' : String) (h : k ≠ k') :
    lookup (ps.filter (fun x => x.1 != k')) k = lookup ps k := by
  unfold lookup
  congr 1
  induction ps with
  | nil => rfl
  | cons a l ih =>
    by_cases ha : a.1 = k'
    · have hf : (a.1 != k') = false := by simp [ha]
      have hak : (a.1 == k) = false := by
        simp only [beq_eq_false_iff_ne, ne_eq]; intro e; exact h (by rw [← e, ha])
      simp only [List.filter_cons, hf, Bool.false_eq_true, if_false, List.find?_cons, hak]
      exact ih
    · have hf : (a.1 != k') = true := by simpa using ha
      simp only [List.filter_cons, hf, if_true, List.find?_cons]
      split
      · rfl
      · exact ih

theorem lookup_filter_same (ps : Props) (k : String) : lookup (ps.filter (fun x => x.1 != k)) k = none := by
  unfold lookup
  have : (ps.filter (fun x => x.1 != k)).find? (fun e => e.1 == k) = none := by
    apply List.find?_eq_none.2
    intro x hx
    simp only [List.mem_filter, bne_iff_ne, ne_eq] at hx
    simpa using hx.2
  rw [this]; rfl

theorem lookup_applyOne (ps : Props) (e : String × Option String) (k : String) :
    lookup (applyOne ps e) k = if k = e.1 then e.2 else lookup ps k := by
  unfold applyOne
  by_cases hk : k = e.1
  · subst hk
    simp only [if_true]
    cases hv : e.2 with
    | none => simp only; exact lookup_filter_same ps _
    | some v =>
      simp only
      unfold lookup
      rw [List.find?_append]
      have : (ps.filter (fun x => x.1 != e.1)).find? (fun x => x.1 == e.1) = none := by
        apply List.find?_eq_none.2
        intro x hx
        simp only [List.mem_filter, bne_iff_ne, ne_eq] at hx
        simpa using hx.2
      simp [this]
  · simp only [hk, if_false]
    cases hv : e.2 with
    | none => simp only; exact lookup_filter_ne ps k e.1 hk
    | some v =>
      simp only
      have h1 := lookup_filter_ne ps k e.1 hk
      unfold lookup at h1 ⊢
      rw [List.find?_append]
      have h2 : ([(e.1, v)] : Props).find? (fun x => x.1 == k) = none := by
        have : (e.1 == k) = false := by
          simp only [beq_eq_false_iff_ne, ne_eq]; intro e'; exact hk e'.symm
        simp [this]
      rw [h2, ← h1]
      cases (ps.filter (fun x => x.1 != e.1)).find? (fun x => x.1 == k) <;> rfl

/-- applying the instructions one property at a time: the last entry for `k` in the list decides -/
theorem lookup_apply (res : Result) (ps : Props) (k : String) :
    lookup (apply ps res) k =
      match res.reverse.find? (fun e => e.1 == k) with
      | some e => e.2
      | none => lookup ps k := by
  unfold apply
  induction res generalizing ps with
  | nil => simp
  | cons a l ih =>
    simp only [List.foldl_cons, List.reverse_cons, List.find?_append]
    rw [ih (applyOne ps a)]
    cases hl : l.reverse.find? (fun e => e.1 == k) with
    | some e => simp
    | none =>
      simp only [Option.none_or, List.find?_cons, List.find?_nil]
      rw [lookup_applyOne]
      by_cases hk : k = a.1
      · subst hk; simp
      · have : (a.1 == k) = false := by
          simp only [beq_eq_false_iff_ne, ne_eq]; intro e; exact hk e.symm
        simp [hk, this]

/-- the keys of the result are pairwise different (one entry per property) -/
theorem propsFromRequest_nodup (is : List Instr) : ((propsFromRequest is).map (·.1)).Nodup := by
  unfold propsFromRequest
  suffices h : ∀ res : Result, (res.map (·.1)).Nodup → ((is.foldl step res).map (·.1)).Nodup from h [] (by simp)
  induction is with
  | nil => intro res h; exact h
  | cons a l ih =>
    intro res h
    apply ih
    unfold step
    rw [List.map_append, List.nodup_append]
    refine ⟨?_, by simp, ?_⟩
    · exact (List.Nodup.sublist ((List.filter_sublist).map _) h)
    · intro x hx y hy
      simp only [List.map_cons, List.map_nil, List.mem_singleton] at hy
      subst hy
      simp only [List.mem_map, List.mem_filter, bne_iff_ne, ne_eq] at hx
      obtain ⟨e, ⟨_, hne⟩, rfl⟩ := hx
      exact hne

/-- with one entry per key, the first and the last entry for a key are the same entry -/
theorem find_reverse_of_nodup (res : Result) (k : String) (h : (res.map (·.1)).Nodup) :
    (res.reverse.find? (fun e => e.1 == k)) = res.find? (fun e => e.1 == k) := by
  induction res with
  | nil => rfl
  | cons a l ih =>
    simp only [List.map_cons, List.nodup_cons] at h
    simp only [List.reverse_cons, List.find?_append, List.find?_cons, List.find?_nil]
    rw [ih h.2]
    by_cases ha : a.1 = k
    · have : (a.1 == k) = true := by simpa using ha
      simp only [this]
      have hn : l.find? (fun e => e.1 == k) = none := by
        apply List.find?_eq_none.2
        intro x hx
        simp only [beq_iff_eq]
        intro e
        apply h.1
        rw [ha, ← e]
        exact List.mem_map_of_mem hx
      simp [hn]
    · have : (a.1 == k) = false := by simpa using ha
      simp only [this]
      cases l.find? (fun e => e.1 == k) <;> simp

/-- **PROPPATCH as a whole**: after the request, property `k` is what the last instruction of the body for `k` says —
    set to its value, or gone — and a property the body does not name is what it was -/
theorem proppatch_last_instruction_wins (ps : Props) (is : List Instr) (k : String) :
    lookup (apply ps (propsFromRequest is)) k =
      match lastFor is k with
      | some i => if i.isSet then some i.value else none
      | none => lookup ps k := by
  rw [lookup_apply, find_reverse_of_nodup _ _ (propsFromRequest_nodup is)]
  have := propsFromRequest_last is k
  unfold rlookup at this
  cases hf : (propsFromRequest is).find? (fun e => e.1 == k) with
  | none =>
    rw [hf] at this
    cases hl : lastFor is k with
    | none => rfl
    | some i => rw [hl] at this; simp at this
  | some e =>
    rw [hf] at this
    cases hl : lastFor is k with
    | none => rw [hl] at this; simp at this
    | some i =>
      rw [hl] at this
      simp only [Option.map_some, Option.some.injEq] at this
      simp only [this]

end PropsReq
end Radicale
