import RadicaleModel.Regex
namespace Radicale
namespace Regex

/-- what a special character can be -/
theorem special_cases {c : Char} (h : isSpecial c = true) :
    c ≠ 'd' ∧ c ≠ 'w' ∧ c ≠ 's' ∧ c.isAlphanum = false := by
  simp only [isSpecial, List.contains_eq_mem, decide_eq_true_eq] at h
  have : "()[]{}?*+-|^$\\.&~# \t\n\r\x0b\x0c".toList =
      ['(', ')', '[', ']', '{', '}', '?', '*', '+', '-', '|', '^', '$', '\\', '.', '&', '~', '#', ' ', '\t', '\n', '\r', '\x0b', '\x0c'] := by
    decide
  rw [this] at h
  simp only [List.mem_cons, List.not_mem_nil, or_false] at h
  rcases h with h | h | h | h | h | h | h | h | h | h | h | h | h | h | h | h | h | h | h | h | h | h | h | h <;>
    subst h <;> decide

theorem not_special_cases {c : Char} (h : isSpecial c = false) :
    c ≠ '\\' ∧ c ≠ '.' ∧ c ≠ '(' ∧ c ≠ '[' ∧ c ≠ '|' ∧ c ≠ ')' ∧ c ≠ '*' ∧ c ≠ '+' ∧ c ≠ '?' ∧ c ≠ '{' ∧
      isMeta c = false := by
  have hm : ∀ x, x ∈ "()[]{}?*+|^$\\.".toList → x ∈ "()[]{}?*+-|^$\\.&~# \t\n\r\x0b\x0c".toList := by decide
  have hc : ¬ c ∈ "()[]{}?*+-|^$\\.&~# \t\n\r\x0b\x0c".toList := by
    simpa only [isSpecial, List.contains_eq_mem, decide_eq_false_iff_not] using h
  have hn : ∀ x, x ∈ "()[]{}?*+-|^$\\.&~# \t\n\r\x0b\x0c".toList → x ≠ c := by
    intro x hx e
    subst e
    exact hc hx
  refine ⟨?_, ?_, ?_, ?_, ?_, ?_, ?_, ?_, ?_, ?_, ?_⟩
  all_goals first
    | (intro e; exact hn _ (by decide) e.symm)
    | (simp only [isMeta, List.contains_eq_mem, decide_eq_false_iff_not]
       intro hmem
       exact hn c (hm c hmem) rfl)

def esc (c : Char) : Str := if isSpecial c then ['\\', c] else [c]

theorem escape_cons (c : Char) (s : Str) : escape (c :: s) = esc c ++ escape s := by
  simp [escape, esc]

theorem escape_nil : escape [] = [] := rfl

theorem parseAtom_esc (fuel : Nat) (c : Char) (rest : Str) (g : Nat) :
    parseAtom (fuel + 1) (esc c ++ rest) g = some (.chr c, rest, g) := by
  unfold esc
  by_cases hs : isSpecial c = true
  · obtain ⟨h1, h2, h3, h4⟩ := special_cases hs
    simp only [hs, if_true, List.cons_append, List.nil_append]
    simp [parseAtom, h1, h2, h3, h4]
  · have hs' : isSpecial c = false := by simpa using hs
    obtain ⟨h1, h2, h3, h4, _, _, _, _, _, _, hm⟩ := not_special_cases hs'
    simp only [hs', Bool.false_eq_true, if_false, List.cons_append, List.nil_append]
    unfold parseAtom
    split <;> simp_all

/-- the first character of `escape s ++ rest'`-like strings is never an operator -/
theorem esc_head (c : Char) (rest : Str) :
    ∃ x tl, esc c ++ rest = x :: tl ∧ x ≠ '|' ∧ x ≠ ')' ∧ x ≠ '*' ∧ x ≠ '+' ∧ x ≠ '?' ∧ x ≠ '{' := by
  unfold esc
  by_cases hs : isSpecial c = true
  · simp only [hs, if_true]
    exact ⟨'\\', c :: rest, rfl, by decide, by decide, by decide, by decide, by decide, by decide⟩
  · have hs' : isSpecial c = false := by simpa using hs
    obtain ⟨_, _, _, _, h5, h6, h7, h8, h9, h10, _⟩ := not_special_cases hs'
    simp only [hs', Bool.false_eq_true, if_false]
    exact ⟨c, rest, rfl, h5, h6, h7, h8, h9, h10⟩

theorem esc_length_pos (c : Char) : 1 ≤ (esc c).length := by
  unfold esc; split <;> simp

theorem parseSeq_escape (s : Str) : ∀ (fuel : Nat) (g : Nat) (acc : List Re), s.length + 1 ≤ fuel →
    parseSeq fuel (escape s) g acc = some (mkSeq (acc.reverse ++ s.map Re.chr), [], g) := by
  induction s with
  | nil =>
    intro fuel g acc hf
    obtain ⟨f, rfl⟩ : ∃ f, fuel = f + 1 := ⟨fuel - 1, by simp at hf; omega⟩
    simp [escape_nil, parseSeq]
  | cons c cs ih =>
    intro fuel g acc hf
    obtain ⟨f, rfl⟩ : ∃ f, fuel = f + 1 := ⟨fuel - 1, by simp at hf; omega⟩
    obtain ⟨f', rfl⟩ : ∃ f', f = f' + 1 := ⟨f - 1, by simp at hf; omega⟩
    rw [escape_cons]
    obtain ⟨x, tl, hx, n1, n2, _⟩ := esc_head c (escape cs)
    have hatom := parseAtom_esc f' c (escape cs) g
    have hrec := ih (f' + 1) g (Re.chr c :: acc) (by simp at hf ⊢; omega)
    have hq : ∀ (a : Re), quant a (escape cs) = some (a, escape cs) := by
      intro a
      cases cs with
      | nil => simp [escape_nil, quant]
      | cons d ds =>
        rw [escape_cons]
        obtain ⟨y, tl', hy, _, _, m3, m4, m5, m6⟩ := esc_head d (escape ds)
        rw [hy]
        unfold quant
        split <;> simp_all
    rw [hx]
    unfold parseSeq
    simp only [n1, n2, or_self, if_false]
    rw [← hx, hatom]
    simp only
    rw [hq]
    simp only
    rw [hrec]
    simp

theorem mkSeq_map_chr (s : Str) : mkSeq (s.map Re.chr) = lit s := by
  induction s with
  | nil => rfl
  | cons c cs ih => simp [mkSeq, lit, ih]

theorem escape_length (s : Str) : s.length ≤ (escape s).length := by
  induction s with
  | nil => simp [escape_nil]
  | cons c cs ih =>
    rw [escape_cons]
    have := esc_length_pos c
    simp only [List.length_append, List.length_cons]
    omega

/-- parsing an escaped string gives the literal regex, with no groups -/
theorem parse_escape (s : Str) : parse (escape s) = some (lit s, 0) := by
  unfold parse
  have hl := escape_length s
  obtain ⟨f, hf⟩ : ∃ f, 3 * (escape s).length + 3 = f + 1 := ⟨3 * (escape s).length + 2, by omega⟩
  rw [hf]
  unfold parseAlt
  rw [parseSeq_escape s f 0 [] (by omega)]
  simp [mkSeq_map_chr]

/-- the matcher on a literal: strip the prefix or fail -/
theorem mtch_lit (s : Str) : ∀ (fuel : Nat) (t : Str) (caps : Caps) (k : Str → Caps → Option Caps),
    s.length + 1 ≤ fuel →
    mtch fuel (lit s) t caps k = if s.isPrefixOf t then k (t.drop s.length) caps else none := by
  induction s with
  | nil =>
    intro fuel t caps k hf
    obtain ⟨f, rfl⟩ : ∃ f, fuel = f + 1 := ⟨fuel - 1, by simp at hf; omega⟩
    simp [lit, mtch]
  | cons c cs ih =>
    intro fuel t caps k hf
    obtain ⟨f, rfl⟩ : ∃ f, fuel = f + 1 := ⟨fuel - 1, by simp at hf; omega⟩
    obtain ⟨f', rfl⟩ : ∃ f', f = f' + 1 := ⟨f - 1, by simp at hf; omega⟩
    simp only [lit, mtch]
    cases t with
    | nil => simp
    | cons x xs =>
      by_cases hx : x = c
      · subst hx
        simp only [if_true]
        rw [ih (f' + 1) xs caps k (by simp at hf ⊢; omega)]
        simp [List.isPrefixOf]
      · have : (c == x) = false := by simp [Ne.symm hx]
        simp [hx, List.isPrefixOf, this]

theorem lit_size (s : Str) : (lit s).size = 2 * s.length + 1 := by
  induction s with
  | nil => simp [lit, Re.size]
  | cons c cs ih => simp [lit, Re.size, ih]; omega

theorem isPrefixOf_drop_nil {s t : Str} (h : s.isPrefixOf t = true) (hd : t.drop s.length = []) : t = s := by
  induction s generalizing t with
  | nil => simpa using hd
  | cons c cs ih =>
    cases t with
    | nil => simp [List.isPrefixOf] at h
    | cons x xs =>
      simp only [List.isPrefixOf, Bool.and_eq_true, beq_iff_eq] at h
      simp only [List.length_cons, List.drop_succ_cons] at hd
      rw [h.1, ih h.2 hd]

/-- `re.fullmatch(re.escape(s), t)` succeeds exactly for `t = s` (and captures nothing) -/
theorem fullmatch_lit (s t : Str) (n : Nat) : (fullmatch (lit s) n t).isSome = true ↔ t = s := by
  unfold fullmatch
  have hfuel : s.length + 1 ≤ ((lit s).size + 2) * (t.length + 2) := by
    rw [lit_size]
    calc s.length + 1 ≤ (2 * s.length + 1 + 2) * 1 := by omega
      _ ≤ (2 * s.length + 1 + 2) * (t.length + 2) := Nat.mul_le_mul_left _ (by omega)
  rw [mtch_lit s _ t _ _ hfuel]
  constructor
  · intro h
    by_cases hp : s.isPrefixOf t = true
    · simp only [hp, if_true] at h
      by_cases hd : t.drop s.length = []
      · exact isPrefixOf_drop_nil hp hd
      · simp [hd] at h
    · simp [hp] at h
  · intro h
    subst h
    have : t.isPrefixOf t = true := by
      induction t with
      | nil => rfl
      | cons a l ih => simp [List.isPrefixOf, ih]
    simp [this]

end Regex
end Radicale
