import RadicaleModel.UrlSplit
import RadicaleProofs.Quote
/-
  Lemmas about the URL splitting step (RadicaleModel/UrlSplit.lean).
-/
namespace Radicale
namespace UrlSplit
open Str

theorem filter_all {α} (q : α → Bool) (l : List α) (h : ∀ x ∈ l, q x = true) : l.filter q = l :=
  List.filter_eq_self.2 h

theorem dropWhile_append_all {α} (q : α → Bool) (l1 l2 : List α) (h : ∀ x ∈ l1, q x = true) :
    (l1 ++ l2).dropWhile q = l2.dropWhile q := by
  induction l1 with
  | nil => rfl
  | cons a t ih =>
    have ha : q a = true := h a List.mem_cons_self
    simp only [List.cons_append, List.dropWhile_cons, ha, if_true]
    exact ih (fun x hx => h x (List.mem_cons_of_mem _ hx))

/-- the scheme prefix as a literal list, so that the definitions compute on it -/
def httpPrefix : Str := ['h', 't', 't', 'p', ':', '/', '/']
def httpsPrefix : Str := ['h', 't', 't', 'p', 's', ':', '/', '/']

theorem clean_keeps (pre rest : Str) (hpre : pre.head?.map (fun c => decide (c.toNat ≤ 32)) = some false)
    (hall : ∀ c ∈ pre ++ rest, removed c = false) : clean (pre ++ rest) = pre ++ rest := by
  unfold clean
  cases pre with
  | nil => simp at hpre
  | cons a t =>
    simp only [List.head?_cons, Option.map_some, Option.some.injEq, decide_eq_false_iff_not] at hpre
    have : ((a :: t) ++ rest).dropWhile (fun c => decide (c.toNat ≤ 32)) = (a :: t) ++ rest := by
      simp [hpre]
    rw [this]
    apply filter_all
    intro c hc
    simp [hall c hc]

theorem dropScheme_http (rest : Str) : dropScheme (httpPrefix ++ rest) = '/' :: '/' :: rest := by
  simp [dropScheme, schemeOf, httpPrefix, isSchemeChar, Char.isAlphanum, Char.isAlpha, Char.isLower, Char.isUpper, Char.isDigit]

theorem dropScheme_https (rest : Str) : dropScheme (httpsPrefix ++ rest) = '/' :: '/' :: rest := by
  simp [dropScheme, schemeOf, httpsPrefix, isSchemeChar, Char.isAlphanum, Char.isAlpha, Char.isLower, Char.isUpper, Char.isDigit]

theorem dropNetloc_host (host p : Str) (hh : ∀ c ∈ host, isDelim c = false) (hp : p.head? = some '/') :
    dropNetloc ('/' :: '/' :: (host ++ p)) = p := by
  simp only [dropNetloc]
  rw [dropWhile_append_all _ host p (by intro c hc; simp [hh c hc])]
  cases p with
  | nil => simp at hp
  | cons a t =>
    simp only [List.head?_cons, Option.some.injEq] at hp
    subst hp
    simp [isDelim]

theorem pathOf_all (p : Str) (h : ∀ c ∈ p, c ≠ '?' ∧ c ≠ '#') : pathOf p = p := by
  unfold pathOf
  apply Quote.takeWhile_all
  intro c hc
  have := h c hc
  simp [this.1, this.2]

/-- `urlsplit("http://host" + p).path = p` for a path starting with "/" and free of "?", "#", tab, CR, LF -/
theorem urlsplitPath_http (host p : Str) (hh : ∀ c ∈ host, isDelim c = false ∧ removed c = false)
    (hp : p.head? = some '/') (hc : ∀ c ∈ p, c ≠ '?' ∧ c ≠ '#' ∧ removed c = false) :
    urlsplitPath (httpPrefix ++ (host ++ p)) = p := by
  unfold urlsplitPath
  rw [clean_keeps httpPrefix (host ++ p) (by decide)]
  · rw [dropScheme_http, dropNetloc_host host p (fun c h => (hh c h).1) hp]
    exact pathOf_all p (fun c h => ⟨(hc c h).1, (hc c h).2.1⟩)
  · intro c hmem
    simp only [List.mem_append] at hmem
    rcases hmem with h | h | h
    · revert c; decide
    · exact (hh c h).2
    · exact (hc c h).2.2

theorem urlsplitPath_https (host p : Str) (hh : ∀ c ∈ host, isDelim c = false ∧ removed c = false)
    (hp : p.head? = some '/') (hc : ∀ c ∈ p, c ≠ '?' ∧ c ≠ '#' ∧ removed c = false) :
    urlsplitPath (httpsPrefix ++ (host ++ p)) = p := by
  unfold urlsplitPath
  rw [clean_keeps httpsPrefix (host ++ p) (by decide)]
  · rw [dropScheme_https, dropNetloc_host host p (fun c h => (hh c h).1) hp]
    exact pathOf_all p (fun c h => ⟨(hc c h).1, (hc c h).2.1⟩)
  · intro c hmem
    simp only [List.mem_append] at hmem
    rcases hmem with h | h | h
    · revert c; decide
    · exact (hh c h).2
    · exact (hc c h).2.2

/-- characters `quote` emits are never removed by the cleaning step -/
theorem urlPathChar_not_removed (c : Char) (h : Quote.urlPathChar c = true) : removed c = false := by
  unfold removed
  by_cases h1 : c = '\t'
  · subst h1; revert h; decide
  · by_cases h2 : c = '\n'
    · subst h2; revert h; decide
    · by_cases h3 : c = '\r'
      · subst h3; revert h; decide
      · simp [h1, h2, h3]

theorem quote_head_slash (s : Str) (h : s.head? = some '/') : (Quote.quote s).head? = some '/' := by
  cases s with
  | nil => simp at h
  | cons a t =>
    simp only [List.head?_cons, Option.some.injEq] at h
    subst h
    have : Quote.quote ('/' :: t) = '/' :: Quote.quote t := by
      simp only [Quote.quote, Quote.utf8, List.flatMap_cons]
      have : String.utf8EncodeChar '/' = [47] := by decide
      rw [this]
      simp [Quote.quoteByte, Quote.safeByte]
    rw [this]; rfl

end UrlSplit
end Radicale
