import RadicaleModel.Netloc
import RadicaleProofs.UrlSplit
/-
  Lemmas about the authority comparison of MOVE (RadicaleModel/Netloc.lean).
-/
namespace Radicale
namespace Netloc
open Str UrlSplit

/-- a host name as it appears in `Host` without a port: no delimiter, no character the URL cleaning removes, no ":" -/
def PlainHost (h : Str) : Prop := h ≠ [] ∧ ∀ c ∈ h, isDelim c = false ∧ removed c = false ∧ c ≠ ':'

theorem hasPort_false (h : Str) (hc : ∀ c ∈ h, c ≠ ':') : hasPort h = false := by
  unfold hasPort
  have : ((h.reverse.drop (h.reverse.takeWhile Char.isDigit).length).head? == some ':') = false := by
    cases hd : (h.reverse.drop (h.reverse.takeWhile Char.isDigit).length).head? with
    | none => rfl
    | some c =>
      have hm : c ∈ h := by
        have := List.mem_of_mem_head? hd
        exact List.mem_reverse.1 (List.mem_of_mem_drop this)
      have := hc c hm
      simp [this]
  show (h.reverse.takeWhile Char.isDigit != [] && (h.reverse.drop (h.reverse.takeWhile Char.isDigit).length).head? == some ':') = false
  rw [this, Bool.and_false]

theorem portMissing_plain (h : Str) (hc : ∀ c ∈ h, c ≠ ':') : portMissing h = true := by
  unfold portMissing
  have : h.contains ':' = false := by
    rw [Bool.eq_false_iff]; intro hm
    exact hc ':' (List.contains_iff_mem.1 hm) rfl
  rw [this]; rfl

theorem takeWhile_append_stop {α} (q : α → Bool) (l1 l2 : List α) (h1 : ∀ x ∈ l1, q x = true) (a : α) (t : List α)
    (h2 : l2 = a :: t) (ha : q a = false) : (l1 ++ l2).takeWhile q = l1 := by
  subst h2
  induction l1 with
  | nil => simp [ha]
  | cons b bs ih =>
    have hb := h1 b List.mem_cons_self
    simp only [List.cons_append, List.takeWhile_cons, hb, if_true]
    rw [ih (fun x hx => h1 x (List.mem_cons_of_mem _ hx))]

theorem clean_http (host p : Str) (hh : ∀ c ∈ host, removed c = false) (hp : ∀ c ∈ p, removed c = false) :
    clean (httpPrefix ++ (host ++ p)) = httpPrefix ++ (host ++ p) := by
  apply clean_keeps httpPrefix (host ++ p) (by decide)
  intro c hm
  simp only [List.mem_append] at hm
  rcases hm with h | h | h
  · revert c; decide
  · exact hh c h
  · exact hp c h

theorem clean_https (host p : Str) (hh : ∀ c ∈ host, removed c = false) (hp : ∀ c ∈ p, removed c = false) :
    clean (httpsPrefix ++ (host ++ p)) = httpsPrefix ++ (host ++ p) := by
  apply clean_keeps httpsPrefix (host ++ p) (by decide)
  intro c hm
  simp only [List.mem_append] at hm
  rcases hm with h | h | h
  · revert c; decide
  · exact hh c h
  · exact hp c h

theorem schemeOf_http (rest : Str) : schemeOf (httpPrefix ++ rest) = some http := by
  simp [schemeOf, httpPrefix, http, isSchemeChar, Char.isAlphanum, Char.isAlpha, Char.isLower, Char.isUpper, Char.isDigit]

theorem schemeOf_https (rest : Str) : schemeOf (httpsPrefix ++ rest) = some https := by
  simp [schemeOf, httpsPrefix, https, isSchemeChar, Char.isAlphanum, Char.isAlpha, Char.isLower, Char.isUpper, Char.isDigit]

/-- authority and scheme of `http://host/path…` -/
theorem dest_http (host p : Str) (hh : ∀ c ∈ host, isDelim c = false ∧ removed c = false) (hp : p.head? = some '/')
    (hpr : ∀ c ∈ p, removed c = false) :
    urlNetloc (httpPrefix ++ (host ++ p)) = host ∧ urlScheme (httpPrefix ++ (host ++ p)) = http := by
  unfold urlNetloc urlScheme
  rw [clean_http host p (fun c h => (hh c h).2) hpr, dropScheme_http, schemeOf_http]
  constructor
  · cases p with
    | nil => simp at hp
    | cons a t =>
      simp only [List.head?_cons, Option.some.injEq] at hp
      subst hp
      exact takeWhile_append_stop _ host ('/' :: t) (fun x hx => by simp [(hh x hx).1]) '/' t rfl (by simp [isDelim])
  · decide

theorem dest_https (host p : Str) (hh : ∀ c ∈ host, isDelim c = false ∧ removed c = false) (hp : p.head? = some '/')
    (hpr : ∀ c ∈ p, removed c = false) :
    urlNetloc (httpsPrefix ++ (host ++ p)) = host ∧ urlScheme (httpsPrefix ++ (host ++ p)) = https := by
  unfold urlNetloc urlScheme
  rw [clean_https host p (fun c h => (hh c h).2) hpr, dropScheme_https, schemeOf_https]
  constructor
  · cases p with
    | nil => simp at hp
    | cons a t =>
      simp only [List.head?_cons, Option.some.injEq] at hp
      subst hp
      exact takeWhile_append_stop _ host ('/' :: t) (fun x hx => by simp [(hh x hx).1]) '/' t rfl (by simp [isDelim])
  · decide

end Netloc
end Radicale
