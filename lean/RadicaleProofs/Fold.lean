import RadicaleModel.Fold
/-
  vobject's unfolder inverts vobject's folder on every line that is `safe`.
-/
namespace Radicale
namespace Fold

theorem tail_append_ne {α : Type} (a b : List α) (h : a ≠ []) : (a ++ b).tail = a.tail ++ b := by
  cases a with
  | nil => exact absurd rfl h
  | cons x xs => rfl

/-- continuation part of a fold: dropping the leading characters gives back the text -/
theorem foldGo_tails (rest : List Char) (n : Nat) (cur : Line) (hc : cur ≠ []) :
    ((foldGo rest n cur).map List.tail).flatten = cur.tail ++ rest := by
  induction rest generalizing n cur with
  | nil => simp [foldGo]
  | cons c rest ih =>
    simp only [foldGo]
    split
    · simp only [List.map_cons, List.flatten_cons]
      rw [ih _ _ (by simp)]
      simp
    · rw [ih _ _ (by simp), tail_append_ne cur [c] hc]
      simp

theorem foldGo_unfold (rest : List Char) (n : Nat) (cur : Line) : unfoldPhys (foldGo rest n cur) = cur ++ rest := by
  induction rest generalizing n cur with
  | nil => simp [foldGo, unfoldPhys]
  | cons c rest ih =>
    simp only [foldGo]
    split
    · simp only [unfoldPhys]
      rw [foldGo_tails _ _ _ (by simp)]
      simp
    · rw [ih]; simp

/-- folding loses nothing -/
theorem unfold_fold (s : Line) : unfoldPhys (foldLine s) = s := by
  unfold foldLine
  split
  · simp [unfoldPhys]
  · rw [foldGo_unfold]; simp

/-- the reader on the continuation lines of a group -/
theorem read_conts (acc : Line) (conts : List Line) (out : List Line) (h : contsOk acc conts = true) :
    conts.foldl readStep ⟨acc, false, out⟩ = ⟨acc ++ (conts.map List.tail).flatten, false, out⟩ := by
  induction conts generalizing acc with
  | nil => simp
  | cons l rest ih =>
    simp only [contsOk, Bool.and_eq_true, Bool.not_eq_true'] at h
    obtain ⟨⟨⟨h1, h2⟩, h3⟩, h4⟩ := h
    simp only [List.foldl_cons, List.map_cons, List.flatten_cons]
    have hstep : readStep ⟨acc, false, out⟩ l = ⟨acc ++ l.tail, false, out⟩ := by
      simp only [readStep, h2, Bool.false_eq_true, if_false, h1, if_true, h3]
    rw [hstep, ih _ h4]
    simp

/-- the reader on a whole group, whatever logical line was open before -/
theorem read_group (g : List Line) (c0 : Line) (out : List Line) (h : groupOk g = true) :
    g.foldl readStep ⟨c0, false, out⟩ = ⟨unfoldPhys g, false, if c0.isEmpty then out else out ++ [c0]⟩ := by
  cases g with
  | nil => simp [groupOk] at h
  | cons l conts =>
    simp only [groupOk, Bool.and_eq_true, Bool.not_eq_true'] at h
    obtain ⟨⟨⟨h1, h2⟩, h3⟩, h4⟩ := h
    simp only [List.foldl_cons, unfoldPhys]
    have hstep : readStep ⟨c0, false, out⟩ l = ⟨l, false, if c0.isEmpty then out else out ++ [c0]⟩ := by
      simp only [readStep, h1, Bool.false_eq_true, if_false, h2]
      by_cases hc : c0.isEmpty = true
      · simp [hc, h3]
      · simp [hc, h3]
    rw [hstep, read_conts _ _ _ h4]

theorem groupOk_nonempty (g : List Line) (h : groupOk g = true) : unfoldPhys g ≠ [] := by
  cases g with
  | nil => simp [groupOk] at h
  | cons l conts =>
    simp only [groupOk, Bool.and_eq_true, Bool.not_eq_true'] at h
    have : l ≠ [] := by
      intro e; rw [e] at h; simp [isBlank] at h
    simp [unfoldPhys, this]

/-- a sequence of safe logical lines, folded and written one after the other, is read back exactly -/
theorem read_many (L : List Line) (hs : ∀ s ∈ L, safe s = true) (c0 : Line) (out : List Line) :
    finish ((L.flatMap foldLine).foldl readStep ⟨c0, false, out⟩) = (if c0.isEmpty then out else out ++ [c0]) ++ L := by
  induction L generalizing c0 out with
  | nil => simp [finish]
  | cons s rest ih =>
    simp only [List.flatMap_cons, List.foldl_append]
    have hsafe : groupOk (foldLine s) = true := hs s (by simp)
    rw [read_group _ c0 out hsafe, unfold_fold]
    rw [ih (fun x hx => hs x (by simp [hx]))]
    have hne : s ≠ [] := by
      have := groupOk_nonempty _ hsafe
      rwa [unfold_fold] at this
    have : s.isEmpty = false := by cases s <;> simp_all
    simp [this]

end Fold
end Radicale
