import RadicaleProofs.Sync
/-
  The invariant of the sync model is kept by every operation; what `sync` leaves untouched.
-/
namespace Radicale
namespace Sync

theorem cleanHist_inv (cfg : Cfg) (s : State) (hs : Inv s) : Inv (cleanHist cfg s) := by
  refine ⟨?_, hs.cov, hs.nodup⟩
  intro h en he
  simp only [cleanHist] at he
  split at he
  · rename_i en' hen
    split at he
    · cases he
    · cases he; exact hs.hist h _ hen
  · cases he

theorem cleanTokens_inv (cfg : Cfg) (s : State) (hs : Inv s) : Inv (cleanTokens cfg s) := ⟨hs.hist, hs.cov, hs.nodup⟩

theorem updHist_inv (s : State) (h : Nat) (e : Option Nat) (hs : Inv s) : Inv (updHist s h e).1 := by
  have f := updHist_frame s h e
  refine ⟨updHist_histOk s h e hs.hist, ?_, ?_⟩
  · intro x hx; rw [f.2.1]; rw [f.1] at hx; exact hs.cov x hx
  · rw [f.2.1]; exact hs.nodup

theorem scan_inv (l : List Nat) (s : State) (hs : Inv s) : Inv (scan l s).1 := by
  have f := scan_frame l s
  refine ⟨scan_histOk l s hs.hist, ?_, ?_⟩
  · intro x hx; rw [f.2.1]; rw [f.1] at hx; exact hs.cov x hx
  · rw [f.2.1]; exact hs.nodup

theorem record_inv (cfg : Cfg) (s : State) (snap : Snapshot) (hs : Inv s) : Inv (record cfg s snap) := by
  unfold record
  split
  · exact cleanHist_inv cfg _ (cleanTokens_inv cfg _ ⟨hs.hist, hs.cov, hs.nodup⟩)
  · exact ⟨hs.hist, hs.cov, hs.nodup⟩

theorem record_members (cfg : Cfg) (s : State) (snap : Snapshot) : (record cfg s snap).members = s.members := by
  unfold record; split <;> rfl

theorem survey_frame (cfg : Cfg) (s : State) :
    (survey cfg s).1.members = s.members ∧ (survey cfg s).1.hrefs = s.hrefs ∧
    (survey cfg s).1.tokens = s.tokens ∧ (survey cfg s).1.now = s.now :=
  scan_frame s.hrefs (cleanHist cfg s)

theorem survey_inv (cfg : Cfg) (s : State) (hs : Inv s) : Inv (survey cfg s).1 :=
  scan_inv _ _ (cleanHist_inv cfg s hs)

theorem sync_inv (cfg : Cfg) (s : State) (a : Arg) (hs : Inv s) : Inv (sync cfg s a).1 := by
  cases a with
  | none => exact record_inv cfg _ _ (survey_inv cfg s hs)
  | malformed => exact hs
  | unknown => exact survey_inv cfg s hs
  | tok t =>
    simp only [sync]
    split
    · exact survey_inv cfg s hs
    · split
      · exact record_inv cfg _ _ (survey_inv cfg s hs)
      · exact survey_inv cfg s hs

theorem sync_members (cfg : Cfg) (s : State) (a : Arg) : (sync cfg s a).1.members = s.members := by
  cases a with
  | none => simp only [sync, record_members]; exact (survey_frame cfg s).1
  | malformed => rfl
  | unknown => exact (survey_frame cfg s).1
  | tok t =>
    simp only [sync]
    split
    · exact (survey_frame cfg s).1
    · split
      · rw [record_members]; exact (survey_frame cfg s).1
      · exact (survey_frame cfg s).1

theorem wipe_inv (cfg : Cfg) (s : State) (hs : Inv s) : Inv (wipe cfg s) := by
  refine ⟨?_, hs.cov, hs.nodup⟩
  intro h en he
  simp only [wipe] at he
  split at he
  · exact hs.hist h en he
  · cases he

theorem step_inv (cfg : Cfg) (s : State) (op : Op) (hs : Inv s) : Inv (step cfg s op).1 := by
  cases op with
  | put h e =>
    simp only [step]
    apply cleanHist_inv; apply updHist_inv
    refine ⟨hs.hist, ?_, nodup_insertHref _ _ hs.nodup⟩
    intro x hx
    simp only [set] at hx
    simp only [mem_insertHref]
    by_cases c : x = h
    · exact Or.inl c
    · simp only [c, if_false] at hx; exact Or.inr (hs.cov x hx)
  | del h =>
    simp only [step]
    split
    · exact hs
    · apply cleanHist_inv; apply updHist_inv
      refine ⟨hs.hist, ?_, hs.nodup⟩
      intro x hx
      simp only [set] at hx
      by_cases c : x = h
      · simp [c] at hx
      · simp only [c, if_false] at hx; exact hs.cov x hx
  | move h h' =>
    simp only [step]
    split
    · exact hs
    · rename_i e he
      apply cleanHist_inv; apply updHist_inv; apply updHist_inv
      refine ⟨hs.hist, ?_, nodup_insertHref _ _ hs.nodup⟩
      intro x hx
      simp only [mem_insertHref]
      by_cases c : x = h'
      · exact Or.inl c
      · right
        apply hs.cov
        by_cases c2 : h = h'
        · simpa [c2] using hx
        · simp only [c2, if_false, set] at hx
          by_cases c3 : x = h
          · simp [c3] at hx
          · simpa [c3, c] using hx
  | replaceAll items =>
    simp only [step]
    apply wipe_inv
    refine ⟨hs.hist, ?_, nodup_foldl_insert _ _ hs.nodup⟩
    intro x hx
    exact (mem_foldl_insert items s.hrefs x).mpr (Or.inl (ofList_ne_none items x hx))
  | recreate =>
    simp only [step]
    apply wipe_inv
    exact ⟨hs.hist, by intro x hx; simp at hx, hs.nodup⟩
  | wipeCache =>
    simp only [step]
    exact ⟨(by intro h en he; simp at he), hs.cov, hs.nodup⟩
  | tick dt => exact ⟨hs.hist, hs.cov, hs.nodup⟩
  | sync a => exact sync_inv cfg s a hs

theorem run_inv (cfg : Cfg) (s : State) (ops : List Op) (hs : Inv s) : Inv (run cfg s ops) := by
  induction ops generalizing s with
  | nil => exact hs
  | cons op ops ih => exact ih _ (step_inv cfg s op hs)

/-- what the state dictionary of a sync says about the collection: an href outside it is not present; an href
    in it has a tag ending in the href's current etag (or in "deleted") -/
theorem survey_reflects (cfg : Cfg) (s : State) (hs : Inv s) (h : Nat) :
    (lookup (survey cfg s).2 h = none → s.members h = none) ∧
    (∀ t, (h, t) ∈ (survey cfg s).2 → ∃ p, t = .chain p (s.members h)) := by
  have hc := cleanHist_inv cfg s hs
  constructor
  · intro hl
    by_cases hm : h ∈ s.hrefs
    · exact scan_missing s.hrefs (cleanHist cfg s) h hm (lookup_none _ h hl)
    · by_cases c : s.members h = none
      · exact c
      · exact absurd (hs.cov h c) hm
  · intro t ht; exact (scan_pairs s.hrefs (cleanHist cfg s) hc.hist h t ht).2

end Sync
end Radicale
