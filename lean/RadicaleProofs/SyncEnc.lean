import RadicaleModel.Str
/-
  The strings that are hashed by the sync machinery are injective encodings of the structures the model keeps
  symbolically (so "SHA-256 is injective" is the only assumption behind treating hashes as structures):
    token name   = sha256( concat over entries of  href + "/" + history_etag )        (sync.py)
    history etag = sha256( previous_history_etag + "/" + etag )                        (history.py)
  hrefs contain no "/", history etags are 64 hex digits.
-/
namespace Radicale
namespace SyncEnc

abbrev Str := List Char

def enc : List (Str × Str) → Str
  | [] => []
  | (h, t) :: rest => h ++ '/' :: t ++ enc rest

def EntryOk (p : Str × Str) : Prop := '/' ∉ p.1 ∧ p.2.length = 64

/-- a string splits in only one way at its first "/" -/
theorem split_first_slash (a a' b b' : Str) (ha : '/' ∉ a) (ha' : '/' ∉ a') (h : a ++ '/' :: b = a' ++ '/' :: b') :
    a = a' ∧ b = b' := by
  induction a generalizing a' with
  | nil =>
    cases a' with
    | nil => simp at h; exact ⟨rfl, h⟩
    | cons x xs =>
      simp only [List.nil_append, List.cons_append, List.cons.injEq] at h
      exact absurd (by rw [← h.1]; simp) ha'
  | cons y ys ih =>
    cases a' with
    | nil =>
      simp only [List.nil_append, List.cons_append, List.cons.injEq] at h
      exact absurd (by rw [h.1]; simp) ha
    | cons x xs =>
      simp only [List.cons_append, List.cons.injEq] at h
      have hy : '/' ∉ ys := fun m => ha (List.mem_cons_of_mem _ m)
      have hx : '/' ∉ xs := fun m => ha' (List.mem_cons_of_mem _ m)
      obtain ⟨e1, e2⟩ := ih xs hy hx h.2
      exact ⟨by rw [h.1, e1], e2⟩

theorem enc_injective (l l' : List (Str × Str)) (hl : ∀ p ∈ l, EntryOk p) (hl' : ∀ p ∈ l', EntryOk p) (h : enc l = enc l') :
    l = l' := by
  induction l generalizing l' with
  | nil =>
    cases l' with
    | nil => rfl
    | cons p ps =>
      obtain ⟨a, b⟩ := p
      simp only [enc] at h
      have : (a ++ '/' :: b ++ enc ps).length = 0 := by rw [← h]; rfl
      simp at this
  | cons p ps ih =>
    obtain ⟨a, b⟩ := p
    cases l' with
    | nil =>
      simp only [enc] at h
      have : (a ++ '/' :: b ++ enc ps).length = 0 := by rw [h]; rfl
      simp at this
    | cons q qs =>
      obtain ⟨a', b'⟩ := q
      simp only [enc] at h
      have ha := (hl (a, b) (by simp)).1
      have ha' := (hl' (a', b') (by simp)).1
      have hb := (hl (a, b) (by simp)).2
      have hb' := (hl' (a', b') (by simp)).2
      have h' : a ++ '/' :: (b ++ enc ps) = a' ++ '/' :: (b' ++ enc qs) := by simpa using h
      obtain ⟨e1, e2⟩ := split_first_slash a a' _ _ ha ha' h'
      have hlen : b.length = b'.length := by simp only at hb hb'; rw [hb, hb']
      obtain ⟨e3, e4⟩ := List.append_inj e2 hlen
      have := ih qs (fun p hp => hl p (List.mem_cons_of_mem _ hp)) (fun p hp => hl' p (List.mem_cons_of_mem _ hp)) e4
      rw [e1, e3, this]

/-- the input of one step of the history chain: previous tag (hex, no "/") + "/" + etag -/
theorem chain_input_injective (t t' e e' : Str) (ht : '/' ∉ t) (ht' : '/' ∉ t') (h : t ++ '/' :: e = t' ++ '/' :: e') :
    t = t' ∧ e = e' := split_first_slash t t' e e' ht ht' h

end SyncEnc
end Radicale
