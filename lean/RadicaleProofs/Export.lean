import RadicaleModel.Export
namespace Radicale
namespace Export

/-- every emitted TZID is remembered, the emitted TZIDs are pairwise different, and every remembered TZID was emitted -/
def Inv (s : St) : Prop :=
  (s.emitted.filterMap id).Nodup ∧ (∀ t, some t ∈ s.emitted → t ∈ s.included) ∧ (∀ t ∈ s.included, some t ∈ s.emitted)

theorem inv_init : Inv {} := by
  refine ⟨by simp, by simp, by simp⟩

theorem closeTz_inv (s : St) (h : Inv s) : Inv (closeTz s) := by
  obtain ⟨h1, h2, h3⟩ := h
  unfold closeTz
  cases ht : s.tzid with
  | none =>
    simp only [if_true]
    refine ⟨?_, ?_, ?_⟩
    · simpa [List.filterMap_append] using h1
    · intro t hm
      simp only [List.mem_append, List.mem_singleton] at hm
      rcases hm with hm | hm
      · exact h2 t hm
      · cases hm
    · intro t hm
      simp only [List.mem_append]
      exact Or.inl (h3 t hm)
  | some t0 =>
    by_cases hc : s.included.contains t0 = true
    · simp only [hc, Bool.not_true, Bool.false_eq_true, if_false, if_true]
      exact ⟨h1, h2, h3⟩
    · have hc' : s.included.contains t0 = false := by simpa using hc
      have hnot : t0 ∉ s.included := by simpa using hc'
      simp only [hc', Bool.not_false, if_true, Bool.false_eq_true, if_false]
      refine ⟨?_, ?_, ?_⟩
      · rw [List.filterMap_append]
        simp only [List.filterMap_cons, List.filterMap_nil, id]
        rw [List.nodup_append]
        refine ⟨h1, by simp, ?_⟩
        intro a ha b hb
        simp only [List.mem_singleton] at hb
        subst hb
        intro e
        subst e
        have : some a ∈ s.emitted := by
          simp only [List.mem_filterMap, id] at ha
          obtain ⟨x, hx, hxe⟩ := ha
          rw [← hxe]; exact hx
        exact hnot (h2 a this)
      · intro t hm
        simp only [List.mem_append, List.mem_singleton] at hm ⊢
        rcases hm with hm | hm
        · exact Or.inl (h2 t hm)
        · simp only [Option.some.injEq] at hm
          exact Or.inr hm
      · intro t hm
        simp only [List.mem_append, List.mem_singleton] at hm ⊢
        rcases hm with hm | hm
        · exact Or.inl (h3 t hm)
        · exact Or.inr (by rw [hm])

/-- fields other than the three the invariant talks about do not matter -/
theorem inv_congr {s s' : St} (he : s'.emitted = s.emitted) (hi : s'.included = s.included) (h : Inv s) : Inv s' := by
  unfold Inv at *
  rw [he, hi]; exact h

theorem bump_inv (s : St) (line : Line) (h : Inv s) : Inv (bump s line) := by
  unfold bump; split <;> exact inv_congr rfl rfl h

theorem unbump_inv (s : St) (line : Line) (h : Inv s) : Inv (unbump s line) := by
  unfold unbump; split <;> exact inv_congr rfl rfl h

theorem tzLine_inv (s : St) (line : Line) (h : Inv s) : Inv (tzLine s line) := by
  unfold tzLine
  simp only
  split
  · exact inv_congr rfl rfl h
  · split
    · exact closeTz_inv _ (inv_congr rfl rfl h)
    · exact inv_congr rfl rfl h

theorem inCal_inv (s : St) (line : Line) (h : Inv s) : Inv (inCal s line) := by
  unfold inCal
  simp only
  have h' : Inv (if s.depth = 1 ∧ pEnd.isPrefixOf line = true then { s with inVcal := false } else s) := by
    split <;> exact inv_congr rfl rfl h
  generalize (if s.depth = 1 ∧ pEnd.isPrefixOf line = true then { s with inVcal := false } else s) = s1 at h'
  split
  · exact inv_congr rfl rfl h'
  · split
    · exact tzLine_inv _ _ h'
    · split
      · exact inv_congr rfl rfl h'
      · exact h'

theorem mid_inv (s : St) (line : Line) (h : Inv s) : Inv (mid s line) := by
  unfold mid
  split
  · exact inv_congr rfl rfl h
  · split
    · exact inCal_inv _ _ h
    · exact h

theorem stepLine_inv (s : St) (line : Line) (h : Inv s) : Inv (stepLine s line) :=
  unbump_inv _ _ (mid_inv _ _ (bump_inv _ _ h))

theorem stepItem_inv (s : St) (lines : List Line) (h : Inv s) : Inv (stepItem s lines) := by
  unfold stepItem
  have h0 : Inv { s with depth := 0 } := inv_congr rfl rfl h
  generalize ({ s with depth := 0 } : St) = s0 at h0
  induction lines generalizing s0 with
  | nil => exact h0
  | cons l ls ih => exact ih _ (stepLine_inv s0 l h0)

theorem run_inv (items : List (List Line)) : Inv (run items) := by
  unfold run
  have h0 : Inv ({} : St) := inv_init
  generalize ({} : St) = s0 at h0
  induction items generalizing s0 with
  | nil => exact h0
  | cons it rest ih => exact ih _ (stepItem_inv s0 it h0)

end Export
end Radicale
