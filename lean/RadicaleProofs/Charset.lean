import RadicaleModel.Charset
/-
  Lemmas about the charset label taken from Content-Type (RadicaleModel/Charset.lean).
-/
namespace Radicale
namespace Charset
open Str

theorem afterPrefix_append (p r : Str) : afterPrefix p (p ++ r) = some r := by
  induction p with
  | nil => cases r <;> rfl
  | cons a t ih => simp [afterPrefix, ih]

theorem afterFirst_of_prefix (p s r : Str) (h : afterPrefix p s = some r) : afterFirst p s = some r := by
  cases s with
  | nil => simpa [afterFirst] using h
  | cons c cs => simp [afterFirst, h]

/-- the search skips a stretch in which the key does not start anywhere -/
theorem afterFirst_skip (p pre s : Str) (h : ∀ k, k < pre.length → afterPrefix p ((pre ++ s).drop k) = none) :
    afterFirst p (pre ++ s) = afterFirst p s := by
  induction pre with
  | nil => rfl
  | cons a t ih =>
    have h0 := h 0 (by simp)
    simp only [List.drop_zero] at h0
    have : afterFirst p (a :: (t ++ s)) = afterFirst p (t ++ s) := by
      simp only [List.cons_append] at h0
      simp [afterFirst, h0]
    rw [List.cons_append, this]
    apply ih
    intro k hk
    have := h (k + 1) (by simp; omega)
    simpa using this

/-- **the first occurrence of the key decides**, wherever it stands -/
theorem afterFirst_first (p pre r : Str) (h : ∀ k, k < pre.length → afterPrefix p ((pre ++ (p ++ r)).drop k) = none) :
    afterFirst p (pre ++ (p ++ r)) = some r := by
  rw [afterFirst_skip p pre (p ++ r) h]
  exact afterFirst_of_prefix p (p ++ r) r (afterPrefix_append p r)

theorem lower_append (a b : Str) : lower (a ++ b) = lower a ++ lower b := by simp [lower]

end Charset
end Radicale
