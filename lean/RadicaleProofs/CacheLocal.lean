import RadicaleProofs.Cache
/-
  The item cache is invisible under *local* conditions only: no assumption that keys identify contents globally.
  Invariant: an entry stored under a name fits the file that is currently stored under that name (if its key
  matches that file's key, it holds that file's parse).  Entries travel with files on MOVE, so two different files
  with equal size and mtime are harmless.  What must be assumed is exactly what the option documents, at the
  place where it matters: a file written behind the server's back, or an entry put back from an earlier time,
  must not *match* the entry / file it meets under the same name unless it is right for it.
-/
namespace Radicale
namespace Cache

def Fits (m : Mode) (parse : Nat → Option Nat) (e : Entry) (f : File) : Prop :=
  key m f = e.1 → parse f.content = some e.2

def LInv (modes : Mode → Prop) (parse : Nat → Option Nat) (s : State) : Prop :=
  ∀ m, modes m → ∀ h e f, s.cache h = some e → s.files h = some f → Fits m parse e f

/-- an entry written for `f` from its parse fits `f` under every keying mode -/
theorem fits_written (m m' : Mode) (parse : Nat → Option Nat) (f : File) (d : Nat) (hp : parse f.content = some d) :
    Fits m' parse (key m f, d) f := fun _ => hp

theorem get_local (modes : Mode → Prop) (m : Mode) (hm : modes m) (parse : Nat → Option Nat) (s : State) (hs : LInv modes parse s)
    (h : Nat) :
    (get m parse s h).2.1 = (s.files h).bind (fun f => parse f.content) ∧ (get m parse s h).1.files = s.files ∧
    LInv modes parse (get m parse s h).1 ∧
    (∀ f d, s.files h = some f → parse f.content = some d → (get m parse s h).1.cache h = some (key m f, d)) := by
  unfold get
  cases hf : s.files h with
  | none => exact ⟨rfl, rfl, hs, by intro f d h1; cases h1⟩
  | some f =>
    simp only [Option.bind_some]
    have hmiss : ∀ (x : State × Option Nat × Lookup),
        x = (match parse f.content with
          | none => (s, none, Lookup.broken)
          | some d => ({ s with cache := fun x => if x = h then some (key m f, d) else if (s.files x).isSome then s.cache x else none },
                       some d, Lookup.miss)) →
        x.2.1 = parse f.content ∧ x.1.files = s.files ∧ LInv modes parse x.1 ∧
        (∀ f' d, some f = some f' → parse f'.content = some d → x.1.cache h = some (key m f', d)) := by
      intro x hx
      cases hp : parse f.content with
      | none =>
        rw [hp] at hx; subst hx
        exact ⟨rfl, rfl, hs, by intro f' d e h2; cases e; rw [hp] at h2; cases h2⟩
      | some d =>
        rw [hp] at hx; subst hx
        refine ⟨rfl, rfl, ?_, ?_⟩
        · intro m' hm' h' e f' he hf'
          simp only at he hf'
          split at he
          · rename_i heq
            cases he
            rw [heq, hf] at hf'
            cases hf'
            exact fits_written m m' parse f d hp
          · split at he
            · exact hs m' hm' h' e f' he hf'
            · cases he
        · intro f' d' e h2
          cases e
          rw [hp] at h2; cases h2
          simp
    cases hc : s.cache h with
    | none => exact hmiss _ rfl
    | some e =>
      obtain ⟨k, d⟩ := e
      simp only
      split
      · rename_i hkey
        have hfit : parse f.content = some d := hs m hm h (k, d) f hc hf hkey.symm
        refine ⟨hfit.symm, rfl, hs, ?_⟩
        intro f' d' e h2
        cases e
        rw [hfit] at h2; cases h2
        rw [hc, hkey]
      · exact hmiss _ rfl

/-- the side condition of one operation in the state it meets -/
def OpOkAt (modes : Mode → Prop) (parse : Nat → Option Nat) (up : Nat → Nat) (s : State) : Op → Prop
  | .req (.upload _ f) => parse f.content = some (up f.content)
  | .req (.moveIn h f e) =>
    ∀ m, modes m → match e with
      | some x => Fits m parse x f
      | none => ∀ e', s.cache h = some e' → Fits m parse e' f
  | .req (.replaceAll items sub) =>
    (∀ p ∈ items, parse p.2.content = some (up p.2.content)) ∧
    (sub = true → ∀ m, modes m → ∀ p ∈ items, ∀ e, s.cache p.1 = some e → Fits m parse e p.2)
  | .req (.edit h f) => ∀ m, modes m → ∀ x, f = some x → ∀ e, s.cache h = some e → Fits m parse e x
  | .adv (.plant h e) => ∀ m, modes m → ∀ f, s.files h = some f → Fits m parse e f
  | .mode m => modes m
  | _ => True

theorem ofList_mem {β : Type} (items : List (Nat × β)) (h : Nat) (v : β) (hv : ofList items h = some v) : (h, v) ∈ items :=
  ofList_some items h v hv

theorem ofList_map {β γ : Type} (items : List (Nat × β)) (g : β → γ) (h : Nat) :
    ofList (items.map (fun p => (p.1, g p.2))) h = (ofList items h).map g := by
  induction items with
  | nil => rfl
  | cons q qs ih =>
    obtain ⟨a, b⟩ := q
    simp only [List.map_cons, ofList]
    split
    · rfl
    · exact ih

theorem stepReq_local (modes : Mode → Prop) (m : Mode) (hm : modes m) (parse : Nat → Option Nat) (up : Nat → Nat)
    (s : State) (hs : LInv modes parse s) (r : Req) (hr : OpOkAt modes parse up s (.req r)) :
    (stepReq m parse up s r).2 = (refReq parse s.files r).2 ∧ (stepReq m parse up s r).1.files = (refReq parse s.files r).1 ∧
    LInv modes parse (stepReq m parse up s r).1 := by
  cases r with
  | get h =>
    have g := get_local modes m hm parse s hs h
    exact ⟨g.1, g.2.1, g.2.2.1⟩
  | upload h f =>
    simp only [OpOkAt] at hr
    have hs1 : LInv modes parse ⟨set s.files h (some f), set s.cache h (some (key m f, up f.content))⟩ := by
      intro m' hm' h' e f' he hf'
      simp only [set] at he hf'
      split at he
      · rename_i heq
        simp only [heq, if_true] at hf'
        cases he; cases hf'
        exact fits_written m m' parse f _ hr
      · rename_i hne
        simp only [hne, if_false] at hf'
        exact hs m' hm' h' e f' he hf'
    have g := get_local modes m hm parse _ hs1 h
    simp only [stepReq, refReq]
    refine ⟨?_, g.2.1, g.2.2.1⟩
    rw [g.1]; simp [set]
  | delete h =>
    refine ⟨rfl, rfl, ?_⟩
    intro m' hm' h' e f he hf
    simp only [stepReq, set] at he hf
    split at he
    · cases he
    · rename_i hne
      simp only [hne, if_false] at hf
      exact hs m' hm' h' e f he hf
  | move h h' =>
    have g := get_local modes m hm parse s hs h
    have gf : (get m parse s h).1.files = s.files := g.2.1
    simp only [stepReq, refReq]
    cases hf : s.files h with
    | none =>
      have h2 : (get m parse s h).1.files h = none := by rw [gf]; exact hf
      have h1 : (get m parse s h).2.1 = none := by rw [g.1, hf]; rfl
      simp only [h1, h2]
      exact ⟨trivial, gf, g.2.2.1⟩
    | some f =>
      have h2 : (get m parse s h).1.files h = some f := by rw [gf]; exact hf
      cases hp : parse f.content with
      | none =>
        have h1 : (get m parse s h).2.1 = none := by rw [g.1, hf]; exact hp
        simp only [h1, h2, hp, Option.isNone_none, if_true]
        exact ⟨trivial, gf, g.2.2.1⟩
      | some d =>
        have h1 : (get m parse s h).2.1 = some d := by rw [g.1, hf]; exact hp
        have hc : (get m parse s h).1.cache h = some (key m f, d) := g.2.2.2 f d hf hp
        simp only [h1, h2, hp, Option.isNone_some, Bool.false_eq_true, if_false, hc]
        split
        · exact ⟨rfl, gf, g.2.2.1⟩
        · rename_i hne
          refine ⟨rfl, by simp only [gf], ?_⟩
          intro m' hm' x e y he hy
          simp only [set] at he hy
          by_cases hx : x = h
          · simp [hx] at he
          · simp only [hx, if_false] at he hy
            by_cases hx' : x = h'
            · simp only [hx', if_true] at he hy
              cases he; cases hy
              exact fits_written m m' parse f d hp
            · simp only [hx', if_false] at he hy
              exact g.2.2.1 m' hm' x e y he hy
  | moveOut h =>
    refine ⟨rfl, rfl, ?_⟩
    intro m' hm' h' e f he hf
    simp only [stepReq, set] at he hf
    split at he
    · cases he
    · rename_i hne
      simp only [hne, if_false] at hf
      exact hs m' hm' h' e f he hf
  | moveIn h f e =>
    simp only [OpOkAt] at hr
    refine ⟨rfl, rfl, ?_⟩
    intro m' hm' h' x y hx hy
    simp only [stepReq, set] at hx hy
    by_cases hh : h' = h
    · subst hh
      simp only [if_true] at hy
      cases hy
      cases e with
      | none => exact hr m' hm' x hx
      | some e0 =>
        simp only [set, if_true] at hx
        cases hx
        exact hr m' hm'
    · simp only [hh, if_false] at hy
      cases e with
      | none => exact hs m' hm' h' x y hx hy
      | some e0 =>
        simp only [set, hh, if_false] at hx
        exact hs m' hm' h' x y hx hy
  | replaceAll items sub =>
    simp only [OpOkAt] at hr
    refine ⟨rfl, rfl, ?_⟩
    intro m' hm' h' x y hx hy
    simp only [stepReq] at hx hy
    have hmem := ofList_mem items h' y hy
    cases sub with
    | true =>
      simp only [if_true] at hx
      exact hr.2 rfl m' hm' (h', y) hmem x hx
    | false =>
      simp only [Bool.false_eq_true, if_false] at hx
      rw [ofList_map items (fun f => (key m f, up f.content)) h', hy] at hx
      simp only [Option.map_some, Option.some.injEq] at hx
      rw [← hx]
      exact fits_written m m' parse y _ (hr.1 (h', y) hmem)
  | edit h f =>
    simp only [OpOkAt] at hr
    refine ⟨rfl, rfl, ?_⟩
    intro m' hm' h' x y hx hy
    simp only [stepReq, set] at hx hy
    by_cases hh : h' = h
    · subst hh
      simp only [if_true] at hy
      exact hr m' hm' y hy x hx
    · simp only [hh, if_false] at hy
      exact hs m' hm' h' x y hx hy

theorem stepAdv_local (modes : Mode → Prop) (parse : Nat → Option Nat) (up : Nat → Nat) (s : State) (hs : LInv modes parse s)
    (a : Adv) (ha : OpOkAt modes parse up s (.adv a)) : LInv modes parse (stepAdv s a) ∧ (stepAdv s a).files = s.files := by
  cases a with
  | wipe => exact ⟨by intro m hm h e f he; simp [stepAdv] at he, rfl⟩
  | drop h =>
    refine ⟨?_, rfl⟩
    intro m hm h' e f he hf
    simp only [stepAdv, set] at he hf
    split at he
    · cases he
    · exact hs m hm h' e f he hf
  | plant h e =>
    simp only [OpOkAt] at ha
    refine ⟨?_, rfl⟩
    intro m hm h' x f hx hf
    simp only [stepAdv, set] at hx hf
    split at hx
    · rename_i heq
      cases hx
      rw [heq] at hf
      exact ha m hm f hf
    · exact hs m hm h' x f hx hf

/-- every operation of the history satisfies its side condition in the state it meets -/
def OkRun (modes : Mode → Prop) (parse : Nat → Option Nat) (up : Nat → Nat) : Mode → State → List Op → Prop
  | _, _, [] => True
  | m, s, op :: ops => OpOkAt modes parse up s op ∧ OkRun modes parse up (step m parse up s op).1 (step m parse up s op).2.1 ops

theorem run_local (modes : Mode → Prop) (parse : Nat → Option Nat) (up : Nat → Nat) (ops : List Op) :
    ∀ (m : Mode) (s : State), modes m → LInv modes parse s → OkRun modes parse up m s ops →
      run parse up m s ops = refRun parse s.files ops := by
  induction ops with
  | nil => intro m s _ _ _; rfl
  | cons op ops ih =>
    intro m s hm hs hok
    obtain ⟨hop, hrest⟩ := hok
    cases op with
    | req r =>
      obtain ⟨h1, h2, h3⟩ := stepReq_local modes m hm parse up s hs r hop
      simp only [run, step, refRun, List.singleton_append]
      simp only [step] at hrest
      rw [h1, ih m _ hm h3 hrest, h2]
    | adv a =>
      obtain ⟨h1, h2⟩ := stepAdv_local modes parse up s hs a hop
      simp only [run, step, refRun, List.nil_append]
      simp only [step] at hrest
      rw [ih m _ hm h1 hrest, h2]
    | mode m' =>
      simp only [run, step, refRun, List.nil_append]
      simp only [step] at hrest
      exact ih m' s hop hs hrest

end Cache
end Radicale
