import RadicaleProofs.AuthHistory
namespace Radicale
namespace AuthCache

def sw (cfg : Cfg) (now : Nat) (st : State) : State := ⟨st.succ, sweep cfg now st.failed⟩

theorem age_mono {now now' t : Nat} (h : now ≤ now') : age now t ≤ age now' t := by
  unfold age
  exact Nat.div_le_div_right (Nat.sub_le_sub_right h t)

theorem sweep_sweep (cfg : Cfg) {now now' : Nat} (h : now ≤ now') (f : Str × Str → Option Nat) :
    sweep cfg now' (sweep cfg now f) = sweep cfg now' f := by
  funext k
  unfold sweep
  cases hf : f k with
  | none => simp
  | some t =>
    simp only
    by_cases h1 : age now t > cfg.failExp
    · have h2 : age now' t > cfg.failExp := Nat.lt_of_lt_of_le h1 (age_mono h)
      simp [h1, h2]
    · simp [h1]

theorem login_sw (cfg : Cfg) (st : State) (now : Nat) (backend : Str → Str → Str) (l pw : Str) :
    login cfg (sw cfg now st) now backend l pw = login cfg st now backend l pw := by
  unfold login sw
  simp only [sweep_sweep cfg (Nat.le_refl now)]

theorem view_sw (cfg : Cfg) (now : Nat) (l : Str) {st₁ st₂ : State} (h : view l st₁ = view l st₂) :
    view l (sw cfg now st₁) = view l (sw cfg now st₂) := by
  simp only [view, Prod.mk.injEq] at h
  simp only [view, sw, Prod.mk.injEq]
  exact ⟨h.1, by funext pw; exact sweep_view cfg now l _ _ (fun pw => congrFun h.2 pw) pw⟩

/-- the two runs agree on everything login `l` can ever see from now on -/
def Rel (cfg : Cfg) (l : Str) (st₁ st₂ : State) (now : Nat) : Prop :=
  ∀ now', now ≤ now' → view l (sw cfg now' st₁) = view l (sw cfg now' st₂)

/-- replace every attempt under another login by a pure advance of the clock -/
def forget (l : Str) (s : Step) : Step := if s.l = l then s else { s with attempt := false }

def outsOf (l : Str) (r : Run) : List (Nat × Str × Str) :=
  (r.outs.filter (fun o => o.l = l)).map (fun o => (o.time, o.pw, o.user))

theorem indep_step (cfg : Cfg) (l : Str) (r₁ r₂ : Run) (s : Step)
    (hnow : r₁.now = r₂.now) (hrel : Rel cfg l r₁.st r₂.st r₁.now) (houts : outsOf l r₁ = outsOf l r₂) :
    let r₁' := stepRun cfg r₁ s
    let r₂' := stepRun cfg r₂ (forget l s)
    r₁'.now = r₂'.now ∧ Rel cfg l r₁'.st r₂'.st r₁'.now ∧ outsOf l r₁' = outsOf l r₂' := by
  have hrel' : Rel cfg l r₁.st r₂.st (r₁.now + s.dt) :=
    fun now' h => hrel now' (Nat.le_trans (Nat.le_add_right _ _) h)
  by_cases ha : s.attempt = true
  · by_cases hl : s.l = l
    · -- the same attempt in both runs
      subst hl
      have hv := hrel (r₁.now + s.dt) (Nat.le_add_right _ _)
      have hc := login_view_congr cfg (sw cfg (r₁.now + s.dt) r₁.st) (sw cfg (r₁.now + s.dt) r₂.st)
        (r₁.now + s.dt) s.backend s.l s.pw hv
      rw [login_sw, login_sw] at hc
      simp only [stepRun, forget, ha, if_true, ← hnow]
      refine ⟨trivial, fun now' _ => view_sw cfg now' s.l hc.2, ?_⟩
      simp only [outsOf, List.filter_cons, decide_true, if_true, List.map_cons, hc.1] at houts ⊢
      rw [houts]
    · -- an attempt under another login: run 2 only advances the clock
      have hne : s.l ≠ l := hl
      have hv := other_login_view cfg r₁.st (r₁.now + s.dt) s.backend l s.l s.pw hne
      simp only [stepRun, forget, ha, hl, if_true, if_false, Bool.false_eq_true, ← hnow]
      refine ⟨trivial, ?_, ?_⟩
      · intro now' hle
        have h1 := view_sw cfg now' l hv
        have h2 : sw cfg now' (sw cfg (r₁.now + s.dt) r₁.st) = sw cfg now' r₁.st := by
          simp only [sw, sweep_sweep cfg hle]
        have h3 : (⟨r₁.st.succ, sweep cfg (r₁.now + s.dt) r₁.st.failed⟩ : State) = sw cfg (r₁.now + s.dt) r₁.st := rfl
        rw [h3, h2] at h1
        exact h1.trans (hrel' now' hle)
      · simp only [outsOf, List.filter_cons, hl, decide_false, Bool.false_eq_true, if_false] at houts ⊢
        exact houts
  · have hf : (forget l s).attempt = false := by
      unfold forget; split <;> simp [ha]
    have hdt : (forget l s).dt = s.dt := by unfold forget; split <;> rfl
    simp only [stepRun, ha, hf, Bool.false_eq_true, if_false, hdt, ← hnow]
    exact ⟨trivial, hrel', houts⟩

theorem indep_foldl (cfg : Cfg) (l : Str) (steps : List Step) (r₁ r₂ : Run)
    (hnow : r₁.now = r₂.now) (hrel : Rel cfg l r₁.st r₂.st r₁.now) (houts : outsOf l r₁ = outsOf l r₂) :
    outsOf l (steps.foldl (stepRun cfg) r₁) = outsOf l ((steps.map (forget l)).foldl (stepRun cfg) r₂) := by
  induction steps generalizing r₁ r₂ with
  | nil => simpa using houts
  | cons s rest ih =>
    obtain ⟨h1, h2, h3⟩ := indep_step cfg l r₁ r₂ s hnow hrel houts
    simpa using ih _ _ h1 h2 h3

end AuthCache
end Radicale
