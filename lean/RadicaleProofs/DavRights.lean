import RadicaleProofs.DavError
namespace Dav

theorem putItemU_needs_w (rights : Rights) (user : String) (p body pc target im raw nm) (q : Path) (c : Coll) :
    (putItemU rights user p body pc target im raw nm).2 = some (.setColl q c) →
      q = p.dropLast ∧ has (rights user p.dropLast) "w" = true := by
  unfold putItemU; simp only []; repeat' split
  all_goals simp_all
  all_goals (intro hq _; subst hq; assumption)

theorem putItemU_only_setColl (rights : Rights) (user : String) (p body pc target im raw nm) (u : Update) :
    (putItemU rights user p body pc target im raw nm).2 = some u → ∃ q c, u = .setColl q c := by
  unfold putItemU; simp only []; repeat' split
  all_goals simp_all
  all_goals (intro hu; exact ⟨_, _, hu.symm⟩)

theorem putWholeU_needs_w (cfg : Cfg) (rights : Rights) (user : String) (p body target raw nm imc) (q : Path) (c : Coll) :
    (putWholeU cfg rights user p body target raw nm imc).2 = some (.replaceTree q c) →
      q = p ∧ has (rights user p) (if c.tag = .none then "W" else "w") = true ∧
      ((cfg.permitOverwrite = true ∧ has (rights user p) "o" = false) ∨ (cfg.permitOverwrite = false ∧ has (rights user p) "O" = true)) := by
  unfold putWholeU; simp only []; repeat' split
  all_goals simp_all
  all_goals (intro hq hc; subst hq; subst hc; cases hpo : cfg.permitOverwrite <;> simp_all [has])

theorem putWholeU_only_replace (cfg : Cfg) (rights : Rights) (user : String) (p body target raw nm imc) (u : Update) :
    (putWholeU cfg rights user p body target raw nm imc).2 = some u → ∃ q c, u = .replaceTree q c := by
  unfold putWholeU; simp only []; repeat' split
  all_goals simp_all
  all_goals (intro hu; exact ⟨_, _, hu.symm⟩)

theorem putU_cases (cfg : Cfg) (rights : Rights) (user : String) (s : Store) (p body im raw nm imc) (u : Update)
    (h : (putU cfg rights user s p body im raw nm imc).2 = some u) :
    (∃ pc, (putItemU rights user p body pc (resolve s p) im raw nm).2 = some u) ∨
    (putWholeU cfg rights user p body (resolve s p) raw nm imc).2 = some u := by
  unfold putU at h
  split at h
  · simp [forbiddenNA] at h
  · split at h
    · simp at h
    · split at h
      · simp at h
      · rename_i pc _
        unfold putDispatch at h
        split at h
        · exact Or.inr h
        · exact Or.inl ⟨pc, h⟩

/-- an item PUT that is carried out had `w` on the parent collection -/
theorem put_item_needs_w (cfg : Cfg) (rights : Rights) (user : String) (s : Store) (p body im raw nm imc) (q : Path) (c : Coll) :
    (putU cfg rights user s p body im raw nm imc).2 = some (.setColl q c) →
      q = p.dropLast ∧ has (rights user p.dropLast) "w" = true := by
  intro h
  rcases putU_cases cfg rights user s p body im raw nm imc _ h with ⟨pc, h1⟩ | h2
  · exact putItemU_needs_w rights user p body pc (resolve s p) im raw nm q c h1
  · obtain ⟨_, _, he⟩ := putWholeU_only_replace cfg rights user p body (resolve s p) raw nm imc _ h2
    cases he

/-- a whole-collection PUT that is carried out had a write letter on the collection itself and passed the
    overwrite gate -/
theorem put_whole_needs_w (cfg : Cfg) (rights : Rights) (user : String) (s : Store) (p body im raw nm imc) (q : Path) (c : Coll) :
    (putU cfg rights user s p body im raw nm imc).2 = some (.replaceTree q c) →
      q = p ∧ has (rights user p) (if c.tag = .none then "W" else "w") = true ∧
      ((cfg.permitOverwrite = true ∧ has (rights user p) "o" = false) ∨ (cfg.permitOverwrite = false ∧ has (rights user p) "O" = true)) := by
  intro h
  rcases putU_cases cfg rights user s p body im raw nm imc _ h with ⟨pc, h1⟩ | h2
  · obtain ⟨_, _, he⟩ := putItemU_only_setColl rights user p body pc (resolve s p) im raw nm _ h1
    cases he
  · exact putWholeU_needs_w cfg rights user p body (resolve s p) raw nm imc q c h2

/-- MKCOL / MKCALENDAR that create something had the matching write letter on the new path -/
theorem mkcol_needs_w (cfg : Cfg) (rights : Rights) (user : String) (s : Store) (p tag props bad) (u : Update) :
    (mkcolU cfg rights user s p tag props bad).2 = some u →
      (if tag = .none then has (rights user p) "W" else has (rights user p) "w") = true := by
  unfold mkcolU; simp only []; repeat' split
  all_goals simp_all

theorem mkcalendar_needs_w (cfg : Cfg) (rights : Rights) (user : String) (s : Store) (p props bad) (u : Update) :
    (mkcalendarU cfg rights user s p props bad).2 = some u → has (rights user p) "w" = true := by
  unfold mkcalendarU; simp only []; repeat' split
  all_goals simp_all

/-- DELETE that removes something passed `Access.check("w", target)` -/
theorem delete_needs_w (cfg : Cfg) (rights : Rights) (user : String) (s : Store) (p im imc) (u : Update) :
    (deleteU cfg rights user s p im imc).2 = some u →
      check rights user p 'w' (subjectOf (resolve s p)) = true := by
  unfold deleteU; simp only []; repeat' split
  all_goals simp_all [subjectOf]

/-- PROPPATCH that writes passed `Access.check("w", collection)` -/
theorem proppatch_needs_w (cfg : Cfg) (rights : Rights) (user : String) (s : Store) (p set rm st bad) (u : Update) :
    (proppatchU cfg rights user s p set rm st bad).2 = some u →
      check rights user p 'w' (subjectOf (resolve s p)) = true := by
  unfold proppatchU; simp only []; repeat' split
  all_goals simp_all [subjectOf]

/-- MOVE that moves something passed the write check on source and destination -/
theorem move_needs_w (cfg : Cfg) (rights : Rights) (user : String) (s : Store) (src dst ov) (u : Update) :
    (moveU cfg rights user s src dst ov).2 = some u →
      check rights user src 'w' .anItem = true ∧ check rights user dst 'w' .anItem = true := by
  unfold moveU; simp only []; repeat' split
  all_goals simp_all

/-- a denied request (403 "not allowed" from the rights check) is the identity -/
theorem denied_is_identity (cfg : Cfg) (rights : Rights) (user : String) (s : Store) (r : Req)
    (h : (handle cfg rights user s r).1.status = 403) : (handle cfg rights user s r).2 = s :=
  handle_error cfg rights user s r (by omega)

end Dav

namespace Dav

theorem resolve_coll {s : Store} {p q : Path} {c : Coll} (h : resolve s p = .coll q c) : q = p ∧ coll? s p = some c := by
  unfold resolve at h
  cases hc : coll? s p with
  | some c' => rw [hc] at h; simp at h; exact ⟨h.1.symm, by rw [h.2]⟩
  | none =>
    rw [hc] at h
    simp only at h
    repeat' split at h
    all_goals simp at h

theorem resolve_item {s : Store} {p parent : Path} {c : Coll} {h : String} {it : Item}
    (hr : resolve s p = .item parent c h it) : parent = p.dropLast ∧ p.getLast? = some h := by
  unfold resolve at hr
  cases hc : coll? s p with
  | some c' => rw [hc] at hr; simp at hr
  | none =>
    rw [hc] at hr
    simp only at hr
    repeat' split at hr
    all_goals simp at hr
    all_goals simp_all

/-- GET shows content only with `r` on the matching level, or `i` for a direct GET of a whole collection -/
theorem get_needs_r (cfg : Cfg) (rights : Rights) (user : String) (s : Store) (p : Path) :
    (getU cfg rights user s p).1.status = 200 →
      check rights user p 'r' (subjectOf (resolve s p)) = true ∨
      (has (rights user p) "i" = true ∧ ∃ q c, resolve s p = .coll q c) := by
  unfold getU; simp only []
  split
  · simp [forbiddenNA]
  · cases hr : resolve s p with
    | absent => simp
    | item parent c h it =>
      simp only [subjectOf]
      split <;> simp_all [forbiddenNA]
    | coll q c =>
      simp only [subjectOf]
      by_cases ht : c.tag = .none
      · simp only [ht, if_true]
        repeat' split
        all_goals simp_all [forbiddenNA]
      · simp only [ht, if_false]
        repeat' split
        all_goals simp_all [forbiddenNA]
        all_goals (cases hc : check rights user p 'r' Subject.collTagged <;> simp_all)

/-- PROPFIND shows an entry only for collections on which the user has r/w (R/W for plain ones) and for items
    of collections on which the user has r/w -/
theorem propfind_entries_allowed (cfg : Cfg) (rights : Rights) (user : String) (s : Store) (p : Path) (d : Bool) :
    ∀ e ∈ (propfindU cfg rights user s p d).1.entries,
      match e with
      | .coll q tag _ _ => ∃ c, mayShowColl rights user q c = true ∧ c.tag = tag
      | .item q _ => mayShowItem rights user q.dropLast = true
      | .missing _ => False := by
  unfold propfindU; simp only []
  split
  · simp [forbiddenNA]
  · cases hr : resolve s p with
    | absent => simp
    | item parent c h it =>
      obtain ⟨hpar, _⟩ := resolve_item hr
      simp only
      split
      · simp [forbiddenNA]
      · intro e he
        simp only at he
        split at he
        · simp only [List.mem_singleton] at he
          subst he
          simp only
          rw [← hpar]; assumption
        · simp at he
    | coll q c =>
      simp only
      intro e he
      by_cases hck : (!check rights user p 'r' (if c.tag = Tag.none then Subject.collPlain else Subject.collTagged)) = true
      · simp [hck, forbiddenNA] at he
      · simp only [hck, Bool.false_eq_true, if_false, List.mem_append] at he
        rcases he with he | he
        · by_cases hm : mayShowColl rights user p c = true
          · simp only [hm, if_true, List.mem_singleton] at he
            subst he
            exact ⟨c, hm, rfl⟩
          · simp [hm] at he
        · by_cases hd : d = true
          · simp only [hd, if_true, List.mem_append, List.mem_map, List.mem_filter] at he
            rcases he with he | he
            · by_cases hi : mayShowItem rights user p = true
              · simp only [hi, if_true, List.mem_map] at he
                obtain ⟨x, _, rfl⟩ := he
                simp only [List.dropLast_concat]
                exact hi
              · simp [hi] at he
            · obtain ⟨x, ⟨_, hx⟩, rfl⟩ := he
              exact ⟨x.2, hx, rfl⟩
          · simp [hd] at he

end Dav
