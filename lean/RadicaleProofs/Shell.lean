import RadicaleModel.Shell
namespace Radicale
namespace Shell

theorem safeChar_plain {c : Char} (h : safeChar c = true) :
    c ≠ ' ' ∧ c ≠ '\t' ∧ c ≠ '\n' ∧ c ≠ '\'' ∧ c ≠ '"' := by
  refine ⟨?_, ?_, ?_, ?_, ?_⟩ <;> (intro e; subst e; simp [safeChar] at h)

/-- a run of safe characters is read as part of the current word -/
theorem wordsAux_safe (s : Str) (hs : s.all safeChar = true) (w : Str) (acc : List Str) (rest : Str) :
    wordsAux .bare (some w) acc (s ++ rest) = wordsAux .bare (some (s.reverse ++ w)) acc rest := by
  induction s generalizing w with
  | nil => simp
  | cons c cs ih =>
    simp only [List.all_cons, Bool.and_eq_true] at hs
    obtain ⟨h1, h2, h3, h4, h5⟩ := safeChar_plain hs.1
    simp only [List.cons_append, wordsAux, h1, h2, h3, h4, h5, or_self, if_false, hs.1, if_true, Option.getD_some]
    rw [ih hs.2]
    simp

/-- inside single quotes: the escaped text is read back literally -/
theorem wordsAux_sq (s : Str) (w : Str) (acc : List Str) (rest : Str) :
    wordsAux .sq (some w) acc (escapeQuotes s ++ rest) = wordsAux .sq (some (s.reverse ++ w)) acc rest := by
  induction s generalizing w with
  | nil => simp [escapeQuotes]
  | cons c cs ih =>
    by_cases hc : c = '\''
    · subst hc
      simp only [escapeQuotes, if_true, List.cons_append]
      -- ' closes, " opens, ' literal, " closes, ' opens
      simp only [wordsAux, if_true, Option.getD_some]
      have h1 : ('"' = ' ' ∨ '"' = '\t' ∨ '"' = '\n') = False := by simp
      have h2 : ('"' : Char) ≠ '\'' := by decide
      have h3 : ('\'' : Char) ≠ '"' := by decide
      have h4 : ¬ (('\'' : Char) = '$' ∨ ('\'' : Char) = '`' ∨ ('\'' : Char) = '\\') := by decide
      have h5 : ¬ (('\'' : Char) = ' ' ∨ ('\'' : Char) = '\t' ∨ ('\'' : Char) = '\n') := by decide
      have h6 : ¬ (('"' : Char) = ' ' ∨ ('"' : Char) = '\t' ∨ ('"' : Char) = '\n') := by decide
      simp only [h2, h3, h4, h5, h6, if_false, if_true]
      rw [ih]
      simp
    · simp only [escapeQuotes, hc, if_false, List.cons_append, wordsAux, Option.getD_some]
      rw [ih]
      simp

/-- The shell reads `shlex.quote(s)` as exactly one word, `s` — no splitting, no expansion. -/
theorem words_quote (s : Str) : words (quote s) = some [s] := by
  unfold quote words
  by_cases h0 : s = []
  · subst h0; simp [wordsAux]
  · by_cases hsafe : s.all safeChar = true
    · simp only [h0, if_false, hsafe, if_true]
      cases s with
      | nil => exact absurd rfl h0
      | cons c cs =>
        simp only [List.all_cons, Bool.and_eq_true] at hsafe
        obtain ⟨h1, h2, h3, h4, h5⟩ := safeChar_plain hsafe.1
        simp only [wordsAux, h1, h2, h3, h4, h5, or_self, if_false, hsafe.1, if_true, Option.getD_none]
        have := wordsAux_safe cs hsafe.2 [c] [] []
        simp only [List.append_nil] at this
        rw [this]
        simp [wordsAux]
    · simp only [h0, if_false, hsafe]
      have h5 : ¬ (('\'' : Char) = ' ' ∨ ('\'' : Char) = '\t' ∨ ('\'' : Char) = '\n') := by decide
      simp only [wordsAux, h5, if_false, if_true, Option.getD_none, Bool.false_eq_true]
      rw [wordsAux_sq s [] [] ['\'']]
      simp [wordsAux]

end Shell
end Radicale
