import RadicaleModel.Shell
namespace Radicale
namespace Shell

theorem safeChar_plain {c : Char} (h : safeChar c = true) :
    c ≠ ' ' ∧ c ≠ '\t' ∧ c ≠ '\n' ∧ c ≠ '\'' ∧ c ≠ '"' := by
  refine ⟨?_, ?_, ?_, ?_, ?_⟩ <;> (intro e; subst e; simp [safeChar] at h)

/-- a run of safe characters is read as part of the current word -/
theorem wordsAux_safe (s : Str) (hs : s.all safeChar = true) (w : Str) (acc : List Str) (rest : Str) :
    wordsAux .bare (some w) acc (s ++ rest) = wordsAux .bare (some (s.reverse ++ w)) acc rest := by
  induction s generalizing w with
  | nil => simp
  | cons c cs ih =>
    simp only [List.all_cons, Bool.and_eq_true] at hs
    obtain ⟨h1, h2, h3, h4, h5⟩ := safeChar_plain hs.1
    simp only [List.cons_append, wordsAux, h1, h2, h3, h4, h5, or_self, if_false, hs.1, if_true, Option.getD_some]
    rw [ih hs.2]
    simp

/-- inside single quotes: the escaped text is read back literally -/
theorem wordsAux_sq (s : Str) (w : Str) (acc : List Str) (rest : Str) :
    wordsAux .sq (some w) acc (escapeQuotes s ++ rest) = wordsAux .sq (some (s.reverse ++ w)) acc rest := by
  induction s generalizing w with
  | nil => simp [escapeQuotes]
  | cons c cs ih =>
    by_cases hc : c = '\''
    · subst hc
      simp only [escapeQuotes, if_true, List.cons_append]
      -- ' closes, " opens, ' literal, " closes, ' opens
      simp only [wordsAux, if_true, Option.getD_some]
      have h1 : ('"' = ' ' ∨ '"' = '\t' ∨ '"' = '\n') = False := by simp
      have h2 : ('"' : Char) ≠ '\'' := by decide
      have h3 : ('\'' : Char) ≠ '"' := by decide
      have h4 : ¬ (('\'' : Char) = '$' ∨ ('\'' : Char) = '`' ∨ ('\'' : Char) = '\\') := by decide
      have h5 : ¬ (('\'' : Char) = ' ' ∨ ('\'' : Char) = '\t' ∨ ('\'' : Char) = '\n') := by decide
      have h6 : ¬ (('"' : Char) = ' ' ∨ ('"' : Char) = '\t' ∨ ('"' : Char) = '\n') := by decide
      simp only [h2, h3, h4, h5, h6, if_false, if_true]
      rw [ih]
      simp
    · simp only [escapeQuotes, hc, if_false, List.cons_append, wordsAux, Option.getD_some]
      rw [ih]
      simp

/-- The shell reads `shlex.quote(s)` as exactly one word, `s` — no splitting, no expansion. -/
theorem words_quote (s : Str) : words (quote s) = some [s] := by
  unfold quote words
  by_cases h0 : s = []
  · subst h0; simp [wordsAux]
  · by_cases hsafe : s.all safeChar = true
    · simp only [h0, if_false, hsafe, if_true]
      cases s with
      | nil => exact absurd rfl h0
      | cons c cs =>
        simp only [List.all_cons, Bool.and_eq_true] at hsafe
        obtain ⟨h1, h2, h3, h4, h5⟩ := safeChar_plain hsafe.1
        simp only [wordsAux, h1, h2, h3, h4, h5, or_self, if_false, hsafe.1, if_true, Option.getD_none]
        have := wordsAux_safe cs hsafe.2 [c] [] []
        simp only [List.append_nil] at this
        rw [this]
        simp [wordsAux]
    · simp only [h0, if_false, hsafe]
      have h5 : ¬ (('\'' : Char) = ' ' ∨ ('\'' : Char) = '\t' ∨ ('\'' : Char) = '\n') := by decide
      simp only [wordsAux, h5, if_false, if_true, Option.getD_none, Bool.false_eq_true]
      rw [wordsAux_sq s [] [] ['\'']]
      simp [wordsAux]

/-- `txt` is read by the shell as the single word `v`, whatever was read before and whatever follows a blank -/
def ReadsAs (txt v : Str) : Prop :=
  (∀ acc rest, wordsAux .bare none acc (txt ++ ' ' :: rest) = wordsAux .bare none (v :: acc) rest) ∧
  (∀ acc, wordsAux .bare none acc txt = some ((v :: acc).reverse))

theorem wordsAux_end_blank (w : Str) (acc : List Str) (rest : Str) :
    wordsAux .bare (some w) acc (' ' :: rest) = wordsAux .bare none (w.reverse :: acc) rest := by
  simp [wordsAux]

theorem wordsAux_end (w : Str) (acc : List Str) :
    wordsAux .bare (some w) acc [] = some ((w.reverse :: acc).reverse) := by
  simp [wordsAux]

theorem safe_readsAs (w : Str) (h0 : w ≠ []) (hs : w.all safeChar = true) : ReadsAs w w := by
  cases w with
  | nil => exact absurd rfl h0
  | cons c cs =>
    simp only [List.all_cons, Bool.and_eq_true] at hs
    obtain ⟨h1, h2, h3, h4, h5⟩ := safeChar_plain hs.1
    constructor
    · intro acc rest
      simp only [List.cons_append, wordsAux, h1, h2, h3, h4, h5, or_self, if_false, hs.1, if_true, Option.getD_none]
      rw [wordsAux_safe cs hs.2 [c] acc (' ' :: rest), wordsAux_end_blank]
      simp
    · intro acc
      simp only [wordsAux, h1, h2, h3, h4, h5, or_self, if_false, hs.1, if_true, Option.getD_none]
      have := wordsAux_safe cs hs.2 [c] acc []
      simp only [List.append_nil] at this
      rw [this, wordsAux_end]
      simp

theorem quote_readsAs (s : Str) : ReadsAs (quote s) s := by
  unfold quote
  by_cases h0 : s = []
  · subst h0
    constructor
    · intro acc rest; simp [wordsAux]
    · intro acc; simp [wordsAux]
  · by_cases hsafe : s.all safeChar = true
    · simp only [h0, if_false, hsafe, if_true]
      exact safe_readsAs s h0 hsafe
    · simp only [h0, if_false, hsafe]
      have h5 : ¬ (('\'' : Char) = ' ' ∨ ('\'' : Char) = '\t' ∨ ('\'' : Char) = '\n') := by decide
      constructor
      · intro acc rest
        simp only [List.cons_append, List.append_assoc, wordsAux, h5, if_false, if_true, Option.getD_none, Bool.false_eq_true]
        rw [wordsAux_sq s [] acc]
        simp [wordsAux]
      · intro acc
        simp only [wordsAux, h5, if_false, if_true, Option.getD_none, Bool.false_eq_true]
        rw [wordsAux_sq s [] acc ['\'']]
        simp [wordsAux]

/-- a literal word of the template: non-empty and made of characters the shell takes as they are -/
def HookTok.plain : HookTok → Prop
  | .lit w => w ≠ [] ∧ w.all safeChar = true
  | _ => True

theorem render_readsAs (e : HookEnv) (t : HookTok) (h : t.plain) : ReadsAs (t.render e) (t.value e) := by
  cases t with
  | lit w => exact safe_readsAs w h.1 h.2
  | user => exact quote_readsAs _
  | path => exact quote_readsAs _
  | cwd => exact quote_readsAs _

theorem wordsAux_join (e : HookEnv) (ts : List HookTok) (h : ∀ t ∈ ts, t.plain) (acc : List Str) :
    wordsAux .bare none acc (joinBlank (ts.map (HookTok.render e))) = some (acc.reverse ++ ts.map (HookTok.value e)) := by
  induction ts generalizing acc with
  | nil => simp [joinBlank, wordsAux]
  | cons t rest ih =>
    have ht := render_readsAs e t (h t List.mem_cons_self)
    cases rest with
    | nil =>
      simp only [List.map_cons, List.map_nil, joinBlank]
      rw [ht.2 acc]
      simp
    | cons t2 rest2 =>
      simp only [List.map_cons, joinBlank]
      rw [ht.1 acc]
      have := ih (fun x hx => h x (List.mem_cons_of_mem _ hx)) (t.value e :: acc)
      simp only [List.map_cons] at this
      rw [this]
      simp

/-- The shell that runs the hook reads the command as exactly the template's words with each placeholder
    replaced by its value: nothing a client put in the login or the path is split, expanded or run. -/
theorem words_hookCommand (e : HookEnv) (ts : List HookTok) (h : ∀ t ∈ ts, t.plain) :
    words (hookCommand ts e) = some (ts.map (HookTok.value e)) := by
  unfold words hookCommand
  rw [wordsAux_join e ts h []]
  simp

end Shell
end Radicale
