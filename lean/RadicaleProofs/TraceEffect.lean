import RadicaleProofs.Trace
/-
  What each storage call does to the tree clients can see (the functional half of the refinement
  file system ⊑ ideal store; `RadicaleProofs/Trace.lean` has the crash half): after `upload` exactly the
  item's name holds the written file, after `delete` exactly that name is gone, `move` takes the file from
  one name to the other — and every other visible path is what it was.
-/
namespace Radicale
namespace Trace

/-- nothing exists at or below `t` (a fresh `TemporaryDirectory`) -/
def Fresh (fs : FS) (t : FPath) : Prop := ∀ q, isPrefix t q = true → fs q = none

theorem applyAll_append (fs : FS) (a b : List Op) : applyAll fs (a ++ b) = applyAll (applyAll fs a) b := by
  simp [applyAll, List.foldl_append]

theorem isPrefix_iff {a q : FPath} : isPrefix a q = true ↔ ∃ r, q = a ++ r := by
  simp only [isPrefix, List.isPrefixOf_iff_prefix]
  constructor
  · rintro ⟨r, rfl⟩; exact ⟨r, rfl⟩
  · rintro ⟨r, rfl⟩; exact ⟨r, rfl⟩

theorem not_under_tmp {q : FPath} (hq : hidden q = false) (d : FPath) (k : Nat) (rest : FPath) :
    isPrefix (d ++ tmpName k :: rest) q = false := by
  cases h : isPrefix (d ++ tmpName k :: rest) q with
  | false => rfl
  | true =>
    have := hidden_of_prefix h (hidden_append_tmp d k rest)
    rw [this] at hq; cases hq

theorem ne_tmp {q : FPath} (hq : hidden q = false) (d : FPath) (k : Nat) (rest : FPath) : q ≠ d ++ tmpName k :: rest := by
  intro e
  rw [e, hidden_append_tmp] at hq; cases hq

theorem isPrefix_of_longer {a q : FPath} (ext : FPath) (h : isPrefix (a ++ ext) q = true) : isPrefix a q = true := by
  obtain ⟨r, rfl⟩ := isPrefix_iff.1 h
  exact isPrefix_iff.2 ⟨ext ++ r, by simp⟩

/-- the file system after `_atomic_write(dir/name)`, at every path outside the temporary directory -/
theorem atomicWrite_effect' (fsync : Bool) (dir : FPath) (name : Comp) (k : Nat) (fs : FS)
    (hfresh : Fresh fs (dir ++ [tmpName k])) (q : FPath) (h1 : isPrefix (dir ++ [tmpName k]) q = false) :
    applyAll fs (atomicWrite fsync dir name k) q =
      if q = dir ++ [name] then some (.file true)
      else if isPrefix (dir ++ [name]) q then none
      else fs q := by
  have h2 : isPrefix (dir ++ [tmpName k, name]) q = false := by
    cases h : isPrefix (dir ++ [tmpName k, name]) q with
    | false => rfl
    | true =>
      have : isPrefix (dir ++ [tmpName k] ++ [name]) q = true := by simpa using h
      rw [isPrefix_of_longer [name] this] at h1; cases h1
  have h3 : q ≠ dir ++ [tmpName k] := by
    intro e; rw [e] at h1
    rw [isPrefix_iff.2 ⟨[], by simp⟩] at h1; cases h1
  have h4 : q ≠ dir ++ [tmpName k, name] := by
    intro e; rw [e] at h2
    rw [isPrefix_iff.2 ⟨[], by simp⟩] at h2; cases h2
  have key : ∀ f : FS, (∀ x, f x = (if x = dir ++ [tmpName k, name] then some (.file true)
        else if x = dir ++ [tmpName k] then some .dir else fs x)) →
      apply (apply f (.rename (dir ++ [tmpName k, name]) (dir ++ [name]))) (.rmtree (dir ++ [tmpName k])) q =
        if q = dir ++ [name] then some (.file true) else if isPrefix (dir ++ [name]) q then none else fs q := by
    intro f hf
    simp only [apply, h1, h2, Bool.false_eq_true, if_false]
    by_cases hp : isPrefix (dir ++ [name]) q = true
    · obtain ⟨r, rfl⟩ := isPrefix_iff.1 hp
      simp only [hp, if_true, List.drop_left']
      rw [hf]
      cases r with
      | nil => simp
      | cons c rs =>
        have hne1 : dir ++ [tmpName k, name] ++ c :: rs ≠ dir ++ [tmpName k, name] := by
          intro e
          have := congrArg List.length e
          simp at this
        have hne2 : dir ++ [tmpName k, name] ++ c :: rs ≠ dir ++ [tmpName k] := by
          intro e
          have := congrArg List.length e
          simp at this
        have hne3 : dir ++ [name] ++ c :: rs ≠ dir ++ [name] := by
          intro e
          have := congrArg List.length e
          simp at this
        simp only [hne1, hne2, hne3, if_false]
        apply hfresh
        apply isPrefix_iff.2
        exact ⟨name :: c :: rs, by simp⟩
    · have hp' : isPrefix (dir ++ [name]) q = false := by simpa using hp
      have hne : q ≠ dir ++ [name] := by
        intro e; rw [e] at hp
        exact hp (isPrefix_iff.2 ⟨[], by simp⟩)
      simp only [hp', Bool.false_eq_true, if_false, hne]
      rw [hf]
      simp only [h3, h4, if_false]
  have hpre : ∀ x, apply (apply (apply fs (.mkdir (dir ++ [tmpName k]))) (.openw (dir ++ [tmpName k, name])))
        (.write (dir ++ [tmpName k, name])) x =
      (if x = dir ++ [tmpName k, name] then some (.file true) else if x = dir ++ [tmpName k] then some .dir else fs x) := by
    intro x
    simp only [apply]
    by_cases hx : x = dir ++ [tmpName k, name]
    · simp only [hx, if_true]
    · simp only [hx, if_false]
  cases fsync
  · simp only [atomicWrite, syncDir, Bool.false_eq_true, if_false, List.append_nil, List.cons_append, List.nil_append,
      List.append_assoc, applyAll, List.foldl_cons, List.foldl_nil]
    exact key _ hpre
  · simp only [atomicWrite, syncDir, if_true, List.cons_append, List.nil_append, List.append_assoc,
      applyAll, List.foldl_cons, List.foldl_nil]
    show apply (apply (apply (apply _ (.fsync _)) (.rename _ _)) (.rmtree _)) (.fsync dir) q = _
    simp only [apply]
    exact key _ hpre

/-- the same at every path clients can see -/
theorem atomicWrite_effect (fsync : Bool) (dir : FPath) (name : Comp) (k : Nat) (fs : FS)
    (hfresh : Fresh fs (dir ++ [tmpName k])) (q : FPath) (hq : hidden q = false) :
    applyAll fs (atomicWrite fsync dir name k) q =
      if q = dir ++ [name] then some (.file true)
      else if isPrefix (dir ++ [name]) q then none
      else fs q :=
  atomicWrite_effect' fsync dir name k fs hfresh q (not_under_tmp hq dir k [])

/-- `collection.upload(href, item)`: exactly the item's name now holds the written file -/
theorem upload_effect (fsync : Bool) (coll : FPath) (href : Comp) (k : Nat) (fs : FS)
    (hfresh : Fresh fs (coll ++ [tmpName k])) (q : FPath) (hq : hidden q = false) :
    applyAll fs (upload fsync coll href k) q =
      if q = coll ++ [href] then some (.file true) else if isPrefix (coll ++ [href]) q then none else fs q :=
  atomicWrite_effect fsync coll href k fs hfresh q hq

/-- `collection.set_meta(props)`: exactly the properties file is (re)written -/
theorem setMeta_effect (fsync : Bool) (coll : FPath) (k : Nat) (fs : FS)
    (hfresh : Fresh fs (coll ++ [tmpName k])) (q : FPath) (hq : hidden q = false) :
    applyAll fs (setMeta fsync coll k) q =
      if q = coll ++ [propsName] then some (.file true) else if isPrefix (coll ++ [propsName]) q then none else fs q :=
  atomicWrite_effect fsync coll propsName k fs hfresh q hq

/-- `collection.delete(href)`: exactly that name is gone -/
theorem deleteItem_effect (fsync : Bool) (coll : FPath) (href : Comp) (fs : FS) (q : FPath) :
    applyAll fs (deleteItem fsync coll href) q = if q = coll ++ [href] then none else fs q := by
  cases fsync <;> simp [deleteItem, syncDir, applyAll, apply]

/-- `storage.move(item, to_collection, to_href)`: the file is under the new name, the old name is gone, every other
    path is what it was (the source is a file: nothing exists below it) -/
theorem move_effect (fsync : Bool) (c1 : FPath) (h1 : Comp) (c2 : FPath) (h2 : Comp) (fs : FS)
    (hfile : ∀ c rs, fs (c1 ++ [h1] ++ c :: rs) = none) (q : FPath) :
    applyAll fs (move fsync c1 h1 c2 h2) q =
      if q = c2 ++ [h2] then fs (c1 ++ [h1])
      else if isPrefix (c2 ++ [h2]) q then none
      else if isPrefix (c1 ++ [h1]) q then none
      else fs q := by
  have hren : apply fs (.rename (c1 ++ [h1]) (c2 ++ [h2])) q =
      if q = c2 ++ [h2] then fs (c1 ++ [h1]) else if isPrefix (c2 ++ [h2]) q then none
      else if isPrefix (c1 ++ [h1]) q then none else fs q := by
    simp only [apply]
    by_cases hp : isPrefix (c2 ++ [h2]) q = true
    · obtain ⟨r, rfl⟩ := isPrefix_iff.1 hp
      simp only [hp, if_true, List.drop_left']
      cases r with
      | nil => simp
      | cons c rs =>
        have hne : c2 ++ [h2] ++ c :: rs ≠ c2 ++ [h2] := by
          intro e; have := congrArg List.length e; simp at this
        simp only [hne, if_false]
        exact hfile c rs
    · have hp' : isPrefix (c2 ++ [h2]) q = false := by simpa using hp
      have hne : q ≠ c2 ++ [h2] := by
        intro e; rw [e] at hp; exact hp (isPrefix_iff.2 ⟨[], by simp⟩)
      simp only [hp', Bool.false_eq_true, if_false, hne]
  by_cases hc : c1 = c2 <;> cases fsync <;>
    simp only [move, syncDir, hc, ne_eq, not_true_eq_false, not_false_eq_true, if_true, if_false, Bool.false_eq_true,
      List.append_nil, List.cons_append, List.nil_append, List.singleton_append, applyAll, List.foldl_cons, List.foldl_nil] <;>
    (try simp only [apply]) <;> (first | exact hren | (rw [← hc] at hren ⊢; exact hren) | skip)

/-- `collection.delete()`: the collection and everything below it is gone -/
theorem deleteColl_effect (fsync : Bool) (coll : FPath) (empty : Bool) (k : Nat) (fs : FS)
    (hempty : empty = true → ∀ c rs, fs (coll ++ c :: rs) = none) (q : FPath) (hq : hidden q = false) :
    applyAll fs (deleteColl fsync coll empty k) q = if isPrefix coll q then none else fs q := by
  cases empty
  · -- renamed into a temporary directory which is then removed
    have h1 : isPrefix (coll.dropLast ++ [tmpName k]) q = false := not_under_tmp hq coll.dropLast k []
    have h2 : isPrefix (coll.dropLast ++ [tmpName k, coll.getLast?.getD []]) q = false :=
      not_under_tmp hq coll.dropLast k [coll.getLast?.getD []]
    have h3 : q ≠ coll.dropLast ++ [tmpName k] := ne_tmp hq coll.dropLast k []
    cases fsync <;>
      simp only [deleteColl, syncDir, Bool.false_eq_true, if_false, if_true, List.append_nil, List.cons_append,
        List.nil_append, List.append_assoc, applyAll, List.foldl_cons, List.foldl_nil, apply, h1, h2, h3] <;>
      (by_cases hp : isPrefix coll q = true
       · simp only [hp, if_true]
       · have hp' : isPrefix coll q = false := by simpa using hp
         simp only [hp', Bool.false_eq_true, if_false])
  · have he := hempty rfl
    have : applyAll fs (deleteColl fsync coll true k) q = if q = coll then none else fs q := by
      cases fsync <;> simp [deleteColl, syncDir, applyAll, apply]
    rw [this]
    by_cases hp : isPrefix coll q = true
    · obtain ⟨r, rfl⟩ := isPrefix_iff.1 hp
      simp only [hp, if_true]
      cases r with
      | nil => simp
      | cons c rs =>
        have hne : coll ++ c :: rs ≠ coll := by
          intro e; have := congrArg List.length e; simp at this
        simp only [hne, if_false]
        exact he c rs
    · have hp' : isPrefix coll q = false := by simpa using hp
      have hne : q ≠ coll := by
        intro e; rw [e] at hp; exact hp (isPrefix_iff.2 ⟨[], by simp⟩)
      simp only [hp', Bool.false_eq_true, if_false, hne]

/-! ### creating or replacing a whole collection -/

theorem applyAll_syncDir (f : FS) (b : Bool) (d : FPath) : applyAll f (syncDir b d) = f := by
  cases b <;> simp [syncDir, applyAll, apply]

/-- the item files written into the temporary collection -/
theorem uploadAll_effect (fsync : Bool) (tc : FPath) (hs : List Comp) (f : FS) (x : FPath) :
    applyAll f (uploadAll fsync tc hs) x = if hs.any (fun h => x == tc ++ [h]) then some (.file true) else f x := by
  induction hs generalizing f with
  | nil => simp [uploadAll, applyAll]
  | cons h rest ih =>
    have hstep : applyAll f (uploadAll fsync tc (h :: rest)) =
        applyAll (apply (apply f (.openw (tc ++ [h]))) (.write (tc ++ [h]))) (uploadAll fsync tc rest) := by
      cases fsync <;> simp [uploadAll, applyAll, apply]
    rw [hstep, ih]
    simp only [List.any_cons, apply]
    by_cases hx : x = tc ++ [h]
    · subst hx; simp
    · have : (x == tc ++ [h]) = false := by simpa using hx
      simp only [this, Bool.false_or, hx, if_false]

/-- the part of `create_collection` that writes the items into the temporary collection -/
def itemOps (fsync cacheInColl : Bool) (tc : FPath) : Option (List Comp) → List Op
  | none => []
  | some hs => (if cacheInColl then syncDir fsync tc else []) ++ uploadAll fsync tc hs ++ syncDir fsync tc

theorem createCollection_eq (fsync : Bool) (coll : FPath) (items : Option (List Comp)) (missing : Nat)
    (existsTarget : Bool) (k : Nat) (cacheInColl : Bool) :
    createCollection fsync coll true items missing existsTarget k cacheInColl =
      makedirs fsync coll.dropLast (missing - 1) ++
      ([.mkdir (coll.dropLast ++ [tmpName k]), .mkdir (coll.dropLast ++ [tmpName k, collName])] ++
       (atomicWrite fsync (coll.dropLast ++ [tmpName k, collName]) propsName (k + 1) ++
        (itemOps fsync cacheInColl (coll.dropLast ++ [tmpName k, collName]) items ++
         ([if existsTarget then .exchange (coll.dropLast ++ [tmpName k, collName]) coll
           else .rename (coll.dropLast ++ [tmpName k, collName]) coll] ++
          (syncDir fsync coll.dropLast ++ [.rmtree (coll.dropLast ++ [tmpName k])]))))) := by
  cases items <;> simp [createCollection, itemOps, List.append_assoc]

theorem itemOps_effect (fsync cacheInColl : Bool) (tc : FPath) (items : Option (List Comp)) (f : FS) (x : FPath) :
    applyAll f (itemOps fsync cacheInColl tc items) x =
      if (items.getD []).any (fun h => x == tc ++ [h]) then some (.file true) else f x := by
  cases items with
  | none => simp [itemOps, applyAll]
  | some hs =>
    simp only [itemOps, Option.getD_some]
    rw [applyAll_append, applyAll_append, applyAll_syncDir, uploadAll_effect]
    cases cacheInColl
    · simp [applyAll]
    · simp only [if_true, applyAll_syncDir]

/-- what a visible path below the collection holds after the collection was created or replaced -/
def newCollNode (items : Option (List Comp)) (r : FPath) : Option Node :=
  if r = [] then some .dir
  else if r = [propsName] then some (.file true)
  else if (items.getD []).any (fun h => r == [h]) then some (.file true)
  else none

theorem append_ne_self_cons (a : FPath) (c : Comp) (rs : FPath) : a ++ c :: rs ≠ a := by
  intro e; have := congrArg List.length e; simp at this

/-- the temporary collection just before the commit, at a visible relative path `r` -/
theorem tmpColl_state (fsync cacheInColl : Bool) (parent : FPath) (items : Option (List Comp)) (k : Nat) (fs : FS)
    (hfresh : Fresh fs (parent ++ [tmpName k])) (r : FPath) (hr : hidden r = false) :
    applyAll fs ([.mkdir (parent ++ [tmpName k]), .mkdir (parent ++ [tmpName k, collName])] ++
      (atomicWrite fsync (parent ++ [tmpName k, collName]) propsName (k + 1) ++
       itemOps fsync cacheInColl (parent ++ [tmpName k, collName]) items)) (parent ++ [tmpName k, collName] ++ r) =
    newCollNode items r := by
  rw [applyAll_append, applyAll_append, itemOps_effect]
  -- the two directories
  have hf0 : ∀ x, applyAll fs [.mkdir (parent ++ [tmpName k]), .mkdir (parent ++ [tmpName k, collName])] x =
      if x = parent ++ [tmpName k, collName] then some .dir else if x = parent ++ [tmpName k] then some .dir else fs x := by
    intro x; simp only [applyAll, List.foldl_cons, List.foldl_nil, apply]
  have hfresh0 : Fresh (applyAll fs [.mkdir (parent ++ [tmpName k]), .mkdir (parent ++ [tmpName k, collName])])
      (parent ++ [tmpName k, collName] ++ [tmpName (k + 1)]) := by
    intro x hx
    obtain ⟨r2, rfl⟩ := isPrefix_iff.1 hx
    rw [hf0]
    have n1 : parent ++ [tmpName k, collName] ++ [tmpName (k + 1)] ++ r2 ≠ parent ++ [tmpName k, collName] := by
      intro e; have := congrArg List.length e; (simp at this) <;> omega
    have n2 : parent ++ [tmpName k, collName] ++ [tmpName (k + 1)] ++ r2 ≠ parent ++ [tmpName k] := by
      intro e; have := congrArg List.length e; (simp at this) <;> omega
    simp only [n1, n2, if_false]
    apply hfresh
    exact isPrefix_iff.2 ⟨collName :: tmpName (k + 1) :: r2, by simp⟩
  have hcancel : ∀ h, ((parent ++ [tmpName k, collName] ++ r == parent ++ [tmpName k, collName] ++ [h]) = (r == [h])) := by
    intro h
    by_cases e : r = [h]
    · simp [e]
    · have hne : parent ++ [tmpName k, collName] ++ r ≠ parent ++ [tmpName k, collName] ++ [h] := by
        intro e2; exact e (List.append_cancel_left e2)
      rw [beq_eq_false_iff_ne.2 hne, beq_eq_false_iff_ne.2 e]
  simp only [hcancel]
  unfold newCollNode
  by_cases hany : (items.getD []).any (fun h => r == [h]) = true
  · simp only [hany, if_true]
    by_cases hr0 : r = []
    · subst hr0; simp at hany
    · simp only [hr0, if_false]
      by_cases hrp : r = [propsName] <;> simp [hrp]
  · have hany' : (items.getD []).any (fun h => r == [h]) = false := by simpa using hany
    simp only [hany', Bool.false_eq_true, if_false]
    have hnt : isPrefix (parent ++ [tmpName k, collName] ++ [tmpName (k + 1)]) (parent ++ [tmpName k, collName] ++ r) = false := by
      cases hh : isPrefix (parent ++ [tmpName k, collName] ++ [tmpName (k + 1)]) (parent ++ [tmpName k, collName] ++ r) with
      | false => rfl
      | true =>
        obtain ⟨r2, hr2⟩ := isPrefix_iff.1 hh
        have : r = tmpName (k + 1) :: r2 := by
          apply List.append_cancel_left (as := parent ++ [tmpName k, collName])
          rw [hr2]; simp
        rw [this] at hr
        have := hidden_append_tmp [] (k + 1) r2
        simp only [List.nil_append] at this
        rw [this] at hr; cases hr
    rw [atomicWrite_effect' fsync _ propsName (k + 1) _ hfresh0 _ hnt]
    cases r with
    | nil =>
      have n1 : parent ++ [tmpName k, collName] ++ [] ≠ parent ++ [tmpName k, collName] ++ [propsName] := by
        intro e; have := congrArg List.length e; simp at this
      have n2 : isPrefix (parent ++ [tmpName k, collName] ++ [propsName]) (parent ++ [tmpName k, collName] ++ []) = false := by
        cases hh : isPrefix (parent ++ [tmpName k, collName] ++ [propsName]) (parent ++ [tmpName k, collName] ++ []) with
        | false => rfl
        | true =>
          obtain ⟨r2, hr2⟩ := isPrefix_iff.1 hh
          have := congrArg List.length hr2; simp at this
      simp only [n1, n2, if_false, Bool.false_eq_true, if_true]
      rw [hf0]; simp
    | cons c rs =>
      have hr0 : c :: rs ≠ [] := by simp
      simp only [hr0, if_false]
      by_cases hrp : c :: rs = [propsName]
      · rw [hrp]; simp
      · have n1 : parent ++ [tmpName k, collName] ++ c :: rs ≠ parent ++ [tmpName k, collName] ++ [propsName] := by
          intro e; exact hrp (List.append_cancel_left e)
        simp only [n1, hrp, if_false]
        by_cases hunder : isPrefix (parent ++ [tmpName k, collName] ++ [propsName]) (parent ++ [tmpName k, collName] ++ c :: rs) = true
        · simp only [hunder, if_true]
        · have hu : isPrefix (parent ++ [tmpName k, collName] ++ [propsName]) (parent ++ [tmpName k, collName] ++ c :: rs) = false := by
            simpa using hunder
          simp only [hu, Bool.false_eq_true, if_false]
          rw [hf0]
          have n3 : parent ++ [tmpName k, collName] ++ c :: rs ≠ parent ++ [tmpName k, collName] := append_ne_self_cons _ c rs
          have n4 : parent ++ [tmpName k, collName] ++ c :: rs ≠ parent ++ [tmpName k] := by
            intro e; have := congrArg List.length e; (simp at this) <;> omega
          simp only [n3, n4, if_false]
          apply hfresh
          exact isPrefix_iff.2 ⟨collName :: c :: rs, by simp⟩

/-- `storage.create_collection(href, items, props)` with properties (MKCALENDAR, MKCOL with a body, whole-collection
    PUT): at and below the collection there is afterwards exactly the new directory, its properties file and one file
    per uploaded item — nothing of what was there before — and every other visible path is what it was. -/
theorem createCollection_effect (fsync : Bool) (coll : FPath) (items : Option (List Comp)) (missing : Nat)
    (hm : missing ≤ 1) (existsTarget : Bool) (k : Nat) (cacheInColl : Bool) (fs : FS)
    (hfresh : Fresh fs (coll.dropLast ++ [tmpName k])) (q : FPath) (hq : hidden q = false) :
    applyAll fs (createCollection fsync coll true items missing existsTarget k cacheInColl) q =
      if isPrefix coll q then newCollNode items (q.drop coll.length) else fs q := by
  have ht : isPrefix (coll.dropLast ++ [tmpName k]) q = false := not_under_tmp hq coll.dropLast k []
  have htc : isPrefix (coll.dropLast ++ [tmpName k, collName]) q = false := not_under_tmp hq coll.dropLast k [collName]
  have hm0 : missing - 1 = 0 := by omega
  rw [createCollection_eq, hm0]
  simp only [makedirs, List.nil_append]
  -- split off the commit and what follows
  rw [← List.append_assoc, ← List.append_assoc, applyAll_append]
  rw [List.append_assoc]
  generalize hpre : applyAll fs ([Op.mkdir (coll.dropLast ++ [tmpName k]), Op.mkdir (coll.dropLast ++ [tmpName k, collName])] ++
      (atomicWrite fsync (coll.dropLast ++ [tmpName k, collName]) propsName (k + 1) ++
        itemOps fsync cacheInColl (coll.dropLast ++ [tmpName k, collName]) items)) = fpre
  have hstate : ∀ r, hidden r = false → fpre (coll.dropLast ++ [tmpName k, collName] ++ r) = newCollNode items r := by
    intro r hr; rw [← hpre]; exact tmpColl_state fsync cacheInColl coll.dropLast items k fs hfresh r hr
  -- outside the temporary directory the pre-commit state is the old one
  have hout : ∀ x, isPrefix (coll.dropLast ++ [tmpName k]) x = false → fpre x = fs x := by
    intro x hx
    rw [← hpre, applyAll_append, applyAll_append, itemOps_effect]
    have hnoitem : (items.getD []).any (fun h => x == coll.dropLast ++ [tmpName k, collName] ++ [h]) = false := by
      apply List.any_eq_false.2
      intro h _
      simp only [beq_iff_eq]
      intro e
      rw [e, isPrefix_iff.2 ⟨[collName, h], by simp⟩] at hx; cases hx
    simp only [hnoitem, Bool.false_eq_true, if_false]
    have hfresh0 : Fresh (applyAll fs [.mkdir (coll.dropLast ++ [tmpName k]), .mkdir (coll.dropLast ++ [tmpName k, collName])])
        (coll.dropLast ++ [tmpName k, collName] ++ [tmpName (k + 1)]) := by
      intro y hy
      obtain ⟨r2, rfl⟩ := isPrefix_iff.1 hy
      simp only [applyAll, List.foldl_cons, List.foldl_nil, apply]
      have n1 : coll.dropLast ++ [tmpName k, collName] ++ [tmpName (k + 1)] ++ r2 ≠ coll.dropLast ++ [tmpName k, collName] := by
        intro e; have := congrArg List.length e; (simp at this) <;> omega
      have n2 : coll.dropLast ++ [tmpName k, collName] ++ [tmpName (k + 1)] ++ r2 ≠ coll.dropLast ++ [tmpName k] := by
        intro e; have := congrArg List.length e; (simp at this) <;> omega
      simp only [n1, n2, if_false]
      apply hfresh
      exact isPrefix_iff.2 ⟨collName :: tmpName (k + 1) :: r2, by simp⟩
    have hnt : isPrefix (coll.dropLast ++ [tmpName k, collName] ++ [tmpName (k + 1)]) x = false := by
      cases hh : isPrefix (coll.dropLast ++ [tmpName k, collName] ++ [tmpName (k + 1)]) x with
      | false => rfl
      | true =>
        have : isPrefix (coll.dropLast ++ [tmpName k] ++ [collName, tmpName (k + 1)]) x = true := by simpa using hh
        rw [isPrefix_of_longer _ this] at hx; cases hx
    rw [atomicWrite_effect' fsync _ propsName (k + 1) _ hfresh0 _ hnt]
    have n1 : x ≠ coll.dropLast ++ [tmpName k, collName] ++ [propsName] := by
      intro e; rw [e, isPrefix_iff.2 ⟨[collName, propsName], by simp⟩] at hx; cases hx
    have n2 : isPrefix (coll.dropLast ++ [tmpName k, collName] ++ [propsName]) x = false := by
      cases hh : isPrefix (coll.dropLast ++ [tmpName k, collName] ++ [propsName]) x with
      | false => rfl
      | true =>
        have : isPrefix (coll.dropLast ++ [tmpName k] ++ [collName, propsName]) x = true := by simpa using hh
        rw [isPrefix_of_longer _ this] at hx; cases hx
    simp only [n1, n2, if_false, Bool.false_eq_true]
    simp only [applyAll, List.foldl_cons, List.foldl_nil, apply]
    have n3 : x ≠ coll.dropLast ++ [tmpName k, collName] := by
      intro e; rw [e, isPrefix_iff.2 ⟨[collName], by simp⟩] at hx; cases hx
    have n4 : x ≠ coll.dropLast ++ [tmpName k] := by
      intro e; rw [e, isPrefix_iff.2 ⟨[], by simp⟩] at hx; cases hx
    simp only [n3, n4, if_false]
  -- the commit, the syncs and the removal of the temporary directory
  have hr_vis : ∀ r, q = coll ++ r → hidden r = false := by
    intro r e
    cases hh : hidden r with
    | false => rfl
    | true =>
      rw [e] at hq
      simp only [hidden, List.any_append, Bool.or_eq_false_iff] at hq
      simp only [hidden] at hh
      rw [hh] at hq; cases hq.2
  have hfin : ∀ g : FS, applyAll g (syncDir fsync coll.dropLast ++ [Op.rmtree (coll.dropLast ++ [tmpName k])]) q = g q := by
    intro g
    rw [applyAll_append, applyAll_syncDir]
    simp only [applyAll, List.foldl_cons, List.foldl_nil, apply, ht, Bool.false_eq_true, if_false]
  simp only [List.cons_append, List.nil_append] at hfin ⊢
  rw [show ∀ (c : Op) (rest : List Op), applyAll fpre (c :: rest) = applyAll (apply fpre c) rest from fun _ _ => rfl, hfin]
  by_cases hp : isPrefix coll q = true
  · obtain ⟨r, hqr⟩ := isPrefix_iff.1 hp
    have hr := hr_vis r hqr
    subst hqr
    simp only [hp, if_true, List.drop_left']
    cases existsTarget <;> simp only [Bool.false_eq_true, if_false, if_true, apply, hp, List.drop_left'] <;> exact hstate r hr
  · have hp' : isPrefix coll q = false := by simpa using hp
    simp only [hp', Bool.false_eq_true, if_false]
    cases existsTarget <;> simp only [Bool.false_eq_true, if_false, if_true, apply, hp', htc] <;> exact hout q ht

end Trace
end Radicale
