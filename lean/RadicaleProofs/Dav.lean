import RadicaleModel.Dav
namespace Dav

theorem find_insertSorted_same (h : String) (it : Item) (l : List (String × Item)) :
    (insertSorted h it l).find? (fun e => e.1 == h) = some (h, it) := by
  induction l with
  | nil => simp [insertSorted]
  | cons e rest ih =>
    obtain ⟨k, v⟩ := e
    simp only [insertSorted]
    split
    · simp
    · split
      · simp
      · rename_i h1 h2
        have : (k == h) = false := by
          simp only [beq_eq_false_iff_ne, ne_eq]
          exact fun e => h2 e.symm
        simp [List.find?, this, ih]

theorem find_insertSorted_other (h h' : String) (it : Item) (l : List (String × Item)) (hne : h' ≠ h) :
    (insertSorted h it l).find? (fun e => e.1 == h') = l.find? (fun e => e.1 == h') := by
  induction l with
  | nil =>
    have : (h == h') = false := by simp [Ne.symm hne]
    simp [insertSorted, List.find?, this]
  | cons e rest ih =>
    obtain ⟨k, v⟩ := e
    have hh : (h == h') = false := by simp [Ne.symm hne]
    simp only [insertSorted]
    split
    · simp [List.find?, hh]
    · split
      · rename_i h1 h2
        subst h2
        simp [List.find?, hh]
      · by_cases hk : (k == h') = true
        · simp [List.find?, hk]
        · have : (k == h') = false := by simpa using hk
          simp [List.find?, this, ih]

theorem find_filter_other (h h' : String) (l : List (String × Item)) (hne : h' ≠ h) :
    (l.filter (fun e => e.1 != h)).find? (fun e => e.1 == h') = l.find? (fun e => e.1 == h') := by
  induction l with
  | nil => rfl
  | cons e rest ih =>
    by_cases hk : e.1 = h
    · have h1 : (e.1 != h) = false := by simp [hk]
      have h2 : (e.1 == h') = false := by simp [hk, Ne.symm hne]
      simp [List.filter, h1, List.find?, h2, ih]
    · have h1 : (e.1 != h) = true := by simp [hk]
      by_cases hk' : (e.1 == h') = true
      · simp [List.filter, h1, List.find?, hk']
      · have : (e.1 == h') = false := by simpa using hk'
        simp [List.filter, h1, List.find?, this, ih]

/-- the last successful write to a name wins -/
theorem item_put_same (c : Coll) (h : String) (it : Item) : item? (c.put h it) h = some it := by
  simp [item?, Coll.put, putEntry, find_insertSorted_same]

/-- … and other names are untouched -/
theorem item_put_other (c : Coll) (h h' : String) (it : Item) (hne : h' ≠ h) : item? (c.put h it) h' = item? c h' := by
  simp only [item?, Coll.put, putEntry]
  rw [find_insertSorted_other h h' it _ hne, find_filter_other h h' c.items hne]

/-- a deleted name is gone -/
theorem item_del_same (c : Coll) (h : String) : item? (c.del h) h = none := by
  simp only [item?, Coll.del, Option.map_eq_none_iff, List.find?_eq_none]
  intro x hx
  simp only [List.mem_filter, bne_iff_ne, ne_eq] at hx
  simpa using hx.2

theorem item_del_other (c : Coll) (h h' : String) (hne : h' ≠ h) : item? (c.del h) h' = item? c h' := by
  simp only [item?, Coll.del]
  congr 1
  induction c.items with
  | nil => rfl
  | cons e rest ih =>
    by_cases hk : (e.1 != h) = true
    · simp only [List.filter_cons, hk, if_true, List.find?]
      cases hm : (e.1 == h') <;> simp [ih]
    · have : e.1 = h := by simpa using hk
      have hm : (e.1 == h') = false := by simp [this, Ne.symm hne]
      simp [List.filter_cons, hk, List.find?, hm, ih]

end Dav
