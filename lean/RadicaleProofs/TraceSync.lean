import RadicaleProofs.Trace
namespace Radicale
namespace Trace

@[simp] theorem isPrefix_refl (l : FPath) : isPrefix l l = true := by
  simp [isPrefix]

@[simp] theorem isPrefix_append (l r : FPath) : isPrefix l (l ++ r) = true := by
  simp [isPrefix]

@[simp] theorem isPrefix_append_cons_self (l : FPath) (x : Comp) (r : FPath) : isPrefix (l ++ x :: r) l = false := by
  cases h : isPrefix (l ++ x :: r) l with
  | false => rfl
  | true =>
    have := List.IsPrefix.length_le (List.isPrefixOf_iff_prefix.1 h)
    simp at this
    omega

@[simp] theorem append_cons_bne_self (l : FPath) (x : Comp) (r : FPath) : ((l ++ x :: r) != l) = true := by
  simp only [bne_iff_ne, ne_eq]
  intro h
  have := congrArg List.length h
  simp at this

@[simp] theorem self_bne_append_cons (l : FPath) (x : Comp) (r : FPath) : (l != (l ++ x :: r)) = true := by
  simp only [bne_iff_ne, ne_eq]
  intro h
  have := congrArg List.length h
  simp at this

theorem isPrefix_longer {a b : FPath} (h : b.length < a.length) : isPrefix a b = false := by
  cases hp : isPrefix a b with
  | false => rfl
  | true =>
    have := List.IsPrefix.length_le (List.isPrefixOf_iff_prefix.1 hp)
    omega

@[simp] theorem isPrefix_two_one (l : FPath) (x y : Comp) : isPrefix (l ++ [x, y]) (l ++ [x]) = false :=
  isPrefix_longer (by simp)

@[simp] theorem isPrefix_three_two (l : FPath) (x y z : Comp) : isPrefix (l ++ [x, y, z]) (l ++ [x, y]) = false :=
  isPrefix_longer (by simp)

@[simp] theorem isPrefix_many_one (l : FPath) (x y : Comp) (r : FPath) : isPrefix (l ++ x :: y :: r) (l ++ [x]) = false :=
  isPrefix_longer (by simp)

@[simp] theorem hidden_append_single (d : FPath) (x : Comp) : hidden (d ++ [x]) = (hidden d || hiddenComp x) := by
  simp [hidden]

@[simp] theorem getLast_tmp (d : FPath) (k : Nat) : (d ++ [tmpName k]).getLast?.getD [] = tmpName k := by simp

theorem atomicWrite_syncOrdered (dir : FPath) (name : Comp) (k : Nat) :
    syncOrdered (atomicWrite true dir name k) = true := by
  by_cases hn : hiddenComp name = true <;> by_cases ht : isTmp name = true <;> by_cases hd : hidden dir = true <;>
    simp [syncOrdered, atomicWrite, syncDir, monRun, monStep, entryDir, dropP, dropUnder, isTmp_tmpName, hiddenComp_tmpName,
      Pending.empty, hn, hd, ht]

end Trace
end Radicale

namespace Radicale
namespace Trace

theorem deleteItem_syncOrdered (coll : FPath) (href : Comp) : syncOrdered (deleteItem true coll href) = true := by
  by_cases hn : hiddenComp href = true <;> by_cases hd : hidden coll = true <;>
    simp [syncOrdered, deleteItem, syncDir, monRun, monStep, dropP, dropUnder, Pending.empty, hn, hd]

theorem makedirs_syncOrdered (p : FPath) : syncOrdered (makedirs true p 1) = true := by
  by_cases hd : hidden p = true <;>
    simp [syncOrdered, makedirs, syncDir, monRun, monStep, dropP, dropUnder, entryDir, Pending.empty, hd]
  all_goals (split <;> simp [dropP])

theorem move_syncOrdered (c1 : FPath) (h1 : Comp) (c2 : FPath) (h2 : Comp)
    (hv : hidden (c2 ++ [h2]) = false) (h1v : isTmp h1 = false) :
    syncOrdered (move true c1 h1 c2 h2) = true := by
  by_cases hc : c1 = c2
  · subst hc
    simp [syncOrdered, move, syncDir, monRun, monStep, dropP, dropUnder, entryDir, Pending.empty, hv, h1v]
  · have hc' : (c1 != c2) = true := by simpa using hc
    have hc'' : (c2 != c1) = true := by simpa using (Ne.symm hc)
    simp [syncOrdered, move, syncDir, monRun, monStep, dropP, dropUnder, entryDir, Pending.empty, hv, h1v, hc]

end Trace
end Radicale

namespace Radicale
namespace Trace

theorem monRun_append (st : Pending) (a b : List Op) :
    monRun st (a ++ b) = (monRun st a).bind (fun st' => monRun st' b) := by
  induction a generalizing st with
  | nil => simp [monRun]
  | cons o os ih =>
    simp only [List.cons_append, monRun]
    cases monStep st o with
    | none => simp
    | some st' => simp [ih]

theorem deleteColl_syncOrdered (parent : FPath) (name : Comp) (empty : Bool) (k : Nat)
    (hv : hidden (parent ++ [name]) = false) :
    syncOrdered (deleteColl true (parent ++ [name]) empty k) = true := by
  have hv' := hv
  simp at hv'
  cases empty <;> by_cases ht : isTmp name = true <;>
    simp [syncOrdered, deleteColl, syncDir, monRun, monStep, dropP, dropUnder, entryDir, Pending.empty, hv,
      isTmp_tmpName, hiddenComp_tmpName, hv'.1, hv'.2, ht]

/-- the uploads into the temporary collection keep the monitor's state: every file is synced, the
    collection directory gets pending entries -/
theorem monRun_uploadAll (tc : FPath) (hs : List Comp) (hnd : ∀ h ∈ hs, isTmp h = false) (D : List FPath)
    (hD : ∀ d ∈ D, d.length ≤ tc.length) :
    ∃ D', monRun ⟨[], D⟩ (uploadAll true tc hs) = some ⟨[], D'⟩ ∧ (∀ d ∈ D', d.length ≤ tc.length) ∧
      (∀ d ∈ D', d = tc ∨ d ∈ D) ∧ (∀ d ∈ D, d ∈ D') := by
  induction hs generalizing D with
  | nil => exact ⟨D, by simp [uploadAll, monRun], hD, fun d hd => Or.inr hd, fun d hd => hd⟩
  | cons h hs ih =>
    have hh : isTmp h = false := hnd h List.mem_cons_self
    have hfilter : dropP (tc ++ [h]) (tc :: D) = tc :: D := by
      simp only [dropP]
      apply List.filter_eq_self.2
      intro d hd
      simp only [bne_iff_ne, ne_eq]
      intro e
      have hl : d.length ≤ tc.length := by
        rcases List.mem_cons.1 hd with rfl | hd'
        · exact Nat.le_refl _
        · exact hD d hd'
      rw [e] at hl
      simp at hl
      omega
    obtain ⟨D', h1, h2, h3, h4⟩ := ih (fun x hx => hnd x (List.mem_cons_of_mem _ hx)) (tc :: D)
      (by intro d hd; rcases List.mem_cons.1 hd with rfl | hd'; exact Nat.le_refl _; exact hD d hd')
    refine ⟨D', ?_, h2, ?_, fun d hd => h4 d (List.mem_cons_of_mem _ hd)⟩
    · simp only [uploadAll, if_true, List.append_assoc, List.cons_append, List.nil_append, monRun, monStep, entryDir]
      simp only [List.getLast?_append, List.getLast?_singleton, Option.some_or, Option.getD_some, hh,
        Bool.false_eq_true, if_false, List.dropLast_concat, List.cons_append, List.nil_append]
      simp only [dropP, bne_self_eq_false, List.filter_cons_of_neg, Bool.false_eq_true, not_false_eq_true,
        List.filter_nil]
      have := hfilter
      simp only [dropP] at this
      rw [this]
      exact h1
    · intro d hd
      rcases h3 d hd with rfl | hd'
      · exact Or.inl rfl
      · rcases List.mem_cons.1 hd' with rfl | hd''
        · exact Or.inl rfl
        · exact Or.inr hd''

end Trace
end Radicale

namespace Radicale
namespace Trace

theorem hiddenComp_propsName : hiddenComp propsName = false := by
  simp [hiddenComp]

/-- the monitor across the preparation of a temporary collection: `mkdir t; mkdir t/collection;
    atomic write of the properties inside it` ends with only the temporary directory pending -/
theorem monRun_prepare (parent : FPath) (k : Nat) :
    monRun Pending.empty
      ([.mkdir (parent ++ [tmpName k]), .mkdir (parent ++ [tmpName k] ++ [collName])] ++
        atomicWrite true (parent ++ [tmpName k] ++ [collName]) propsName (k + 1)) =
      some ⟨[], [parent ++ [tmpName k]]⟩ := by
  simp [atomicWrite, syncDir, monRun, monStep, entryDir, dropP, dropUnder, isTmp_tmpName, hiddenComp_tmpName,
    Pending.empty, isTmp_propsName, isTmp_collName, hidden, hiddenComp_propsName]

theorem createCollection_syncOrdered (parent : FPath) (name : Comp) (items : Option (List Comp))
    (hitems : ∀ hs, items = some hs → ∀ h ∈ hs, isTmp h = false)
    (missing : Nat) (hm : missing ≤ 1) (existsTarget : Bool) (k : Nat) (cic : Bool)
    (hv : hidden (parent ++ [name]) = false) (hnt : isTmp name = false) :
    syncOrdered (createCollection true (parent ++ [name]) true items missing existsTarget k cic) = true := by
  have hmk : makedirs true parent (missing - 1) = [] := by
    have : missing - 1 = 0 := by omega
    simp [this, makedirs]
  have hv' := hv
  simp at hv'
  have hlist : createCollection true (parent ++ [name]) true items missing existsTarget k cic =
      ([.mkdir (parent ++ [tmpName k]), .mkdir (parent ++ [tmpName k] ++ [collName])] ++
        atomicWrite true (parent ++ [tmpName k] ++ [collName]) propsName (k + 1)) ++
      ((match items with
        | none => []
        | some hs => (if cic then syncDir true (parent ++ [tmpName k] ++ [collName]) else []) ++
            (uploadAll true (parent ++ [tmpName k] ++ [collName]) hs ++
            syncDir true (parent ++ [tmpName k] ++ [collName]))) ++
       ([if existsTarget then Op.exchange (parent ++ [tmpName k] ++ [collName]) (parent ++ [name])
         else Op.rename (parent ++ [tmpName k] ++ [collName]) (parent ++ [name])] ++
        syncDir true parent ++ [.rmtree (parent ++ [tmpName k])])) := by
    cases items <;> simp [createCollection, hmk]
  unfold syncOrdered
  rw [hlist, monRun_append, monRun_prepare]
  simp only [Option.bind_some]
  cases items with
  | none =>
    cases existsTarget <;>
      simp [syncDir, monRun, monStep, dropP, dropUnder, entryDir, hv, hv'.1, hv'.2, hnt, isTmp_collName,
        Pending.empty, hiddenComp_tmpName]
  | some hs =>
    obtain ⟨D', h1, h2, h3, h4⟩ := monRun_uploadAll (parent ++ [tmpName k] ++ [collName]) hs (hitems hs rfl)
      [parent ++ [tmpName k]] (by intro d hd; simp at hd; subst hd; simp)
    have hpre : monRun ⟨[], [parent ++ [tmpName k]]⟩
        (if cic then syncDir true (parent ++ [tmpName k] ++ [collName]) else []) = some ⟨[], [parent ++ [tmpName k]]⟩ := by
      cases cic <;> simp [syncDir, monRun, monStep, dropP]
    rw [monRun_append, monRun_append, hpre]
    simp only [Option.bind_some]
    rw [monRun_append, h1]
    simp only [Option.bind_some, syncDir, if_true, monRun, monStep, dropP, List.filter_nil]
    -- after `fsync tc` nothing at or below the temporary collection is pending
    have hD : dropP (parent ++ [tmpName k] ++ [collName]) D' = D'.filter (fun d => d != parent ++ [tmpName k] ++ [collName]) := rfl
    have hall : ∀ d ∈ dropP (parent ++ [tmpName k] ++ [collName]) D', d = parent ++ [tmpName k] := by
      intro d hd
      simp only [dropP, List.mem_filter, bne_iff_ne, ne_eq] at hd
      rcases h3 d hd.1 with e | e
      · exact absurd e hd.2
      · simpa using e
    have hmem : parent ++ [tmpName k] ∈ dropP (parent ++ [tmpName k] ++ [collName]) D' := by
      simp only [dropP, List.mem_filter, bne_iff_ne, ne_eq]
      refine ⟨h4 _ (by simp), ?_⟩
      intro e
      have := congrArg List.length e
      simp at this
    generalize hE : dropP (parent ++ [tmpName k] ++ [collName]) D' = E at hall hmem
    have hnp : ∀ d ∈ E, isPrefix (parent ++ [tmpName k] ++ [collName]) d = false := by
      intro d hd; rw [hall d hd]; exact isPrefix_longer (by simp)
    have hdropParent : ∀ d ∈ E, (d != parent) = true := by
      intro d hd; rw [hall d hd]; simp
    have hunder : ∀ d ∈ E, isPrefix (parent ++ [tmpName k]) d = true := by
      intro d hd; rw [hall d hd]; simp
    cases existsTarget <;>
      simp only [List.cons_append, List.nil_append, monRun, monStep, dropP, List.filter_nil, hE, Bool.false_eq_true,
        if_false, if_true, hv, List.all_eq_true, Bool.not_eq_eq_eq_not, Bool.not_true, true_and]
    all_goals
      have hcond : ∀ x ∈ E, isPrefix (parent ++ [tmpName k] ++ [collName]) x = false := hnp
      simp only [hcond, implies_true, if_true, List.dropLast_concat, entryDir, List.getLast?_append,
        List.getLast?_singleton, Option.some_or, Option.getD_some, isTmp_collName, Bool.false_eq_true, if_false,
        List.cons_append, List.nil_append, List.filter_cons, bne_self_eq_false, dropUnder, isPrefix_refl,
        isPrefix_append, Bool.not_true]
      simp only [Pending.empty, beq_iff_eq, Option.some.injEq, Pending.mk.injEq, true_and]
      simp [List.filter_eq_nil_iff]
      have hc : ∀ x ∈ D', ¬ x = parent ++ [tmpName k, collName] →
          isPrefix (parent ++ [tmpName k, collName]) x = false := by
        intro x hx hne
        rcases h3 x hx with e | e
        · exact absurd (by simpa using e) hne
        · simp at e; subst e; exact isPrefix_longer (by simp)
      rw [if_pos hc]
      simp only [List.filter_nil, Option.some.injEq, Pending.mk.injEq, true_and]
      rw [List.filter_eq_nil_iff]
      intro a ha
      rcases List.mem_cons.1 ha with rfl | ha
      · simp
      · rcases List.mem_cons.1 ha with rfl | ha
        · simp
        · have hf := List.mem_filter.1 ha
          rcases h3 a hf.1 with e | e
          · have h2' := hf.2
            simp [e] at h2'
          · simp at e; subst e; simp

end Trace
end Radicale
