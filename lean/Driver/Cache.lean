import Driver.Util
import RadicaleModel.Cache
open Lean Radicale
namespace Driver

def cFile (j : Json) : Cache.File := ⟨getNat j "c", getNat j "size", getNat j "mtime"⟩
def cKey (j : Json) : Cache.Key := if getS j "kind" == "h" then .h (getNat j "c") else .s (getNat j "size") (getNat j "mtime")
def tableOf (l : List Json) : Nat → Option Nat := fun c =>
  (l.find? (fun p => match p with | Json.arr a => (a.getD 0 Json.null).getNat?.toOption == some c | _ => false)).bind
    (fun p => match p with | Json.arr a => (a.getD 1 Json.null).getNat?.toOption | _ => none)
def lookupName : Cache.Lookup → String
  | .hit => "hit" | .miss => "miss" | .absent => "absent" | .broken => "broken"

/-- {"mode":"hash"|"stat","parse":[[c,d],…],"up":[[c,d],…],"ops":[…]} on two collections ("coll": 0|1).
    ops: get/upload/delete/move/xmove/replace/edit/wipe/drop/plant/mode.
    Answer per get / upload: {"d": derived|null, "lookup": …}. -/
def handleCache (j : Json) : Json :=
  let parse := tableOf (getArr j "parse")
  let upT := tableOf (getArr j "up")
  let up : Nat → Nat := fun c => (upT c).getD 0
  let m0 : Cache.Mode := if getS j "mode" == "stat" then .stat else .hash
  let empty : Cache.State := ⟨fun _ => none, fun _ => none⟩
  let go := fun (acc : Cache.Mode × Cache.State × Cache.State × List Json) (o : Json) =>
    let (m, s0, s1, outs) := acc
    let ci := getNat o "coll"
    let s := if ci == 0 then s0 else s1
    let put := fun (s' : Cache.State) (out : Option Json) =>
      let outs' := match out with | some x => x :: outs | none => outs
      if ci == 0 then (m, s', s1, outs') else (m, s0, s', outs')
    let ans := fun (d : Option Nat) (l : String) => obj [("d", match d with | some x => jNat x | none => Json.null), ("lookup", l)]
    match getS o "op" with
    | "get" =>
      let r := Cache.get m parse s (getNat o "h")
      put r.1 (some (ans r.2.1 (lookupName r.2.2)))
    | "upload" =>
      let f := cFile (getObj o "f")
      let h := getNat o "h"
      let s1' : Cache.State := ⟨Cache.set s.files h (some f), Cache.set s.cache h (some (Cache.key m f, up f.content))⟩
      let r := Cache.get m parse s1' h
      put r.1 (some (ans r.2.1 (lookupName r.2.2)))
    | "delete" => put (Cache.stepReq m parse up s (.delete (getNat o "h"))).1 none
    | "move" => put (Cache.stepReq m parse up s (.move (getNat o "h") (getNat o "to"))).1 none
    | "xmove" =>
      let h := getNat o "h"
      let other := if ci == 0 then s1 else s0
      match s.files h with
      | none => acc
      | some f =>
        let src := (Cache.stepReq m parse up s (.moveOut h)).1
        let dst := (Cache.stepReq m parse up other (.moveIn (getNat o "to") f (s.cache h))).1
        if ci == 0 then (m, src, dst, outs) else (m, dst, src, outs)
    | "replace" =>
      let items := (getArr o "items").map (fun p => (getNat p "h", cFile (getObj p "f")))
      put (Cache.stepReq m parse up s (.replaceAll items (getBool o "sub"))).1 none
    | "edit" =>
      let f := match o.getObjVal? "f" with | .ok Json.null => none | .ok x => some (cFile x) | _ => none
      put (Cache.stepReq m parse up s (.edit (getNat o "h") f)).1 none
    | "wipe" => put (Cache.stepAdv s .wipe) none
    | "drop" => put (Cache.stepAdv s (.drop (getNat o "h"))) none
    | "plant" => put (Cache.stepAdv s (.plant (getNat o "h") (cKey (getObj o "key"), getNat o "d"))) none
    | "mode" => ((if getS o "mode" == "stat" then .stat else .hash), s0, s1, outs)
    | _ => acc
  let (_, _, _, outs) := (getArr j "ops").foldl go (m0, empty, empty, [])
  obj [("r", Json.arr outs.reverse.toArray)]

end Driver
