import Driver.Util
import Generated.Skeleton
open Lean Radicale
namespace Driver

/-- {"method":"PUT","wins":[{"mode":"w","reads":true,"writes":true},…]} → does the generated skeleton of that
    method allow this sequence of lock windows (with these classes of storage calls inside)? -/
def handleSkeleton (j : Json) : Json :=
  match Generated.handlers.find? (fun p => p.1 == getS j "method") with
  | none => obj [("error", "unknown-method")]
  | some (_, sk) =>
    let ws : List Skeleton.Win := (getArr j "wins").map (fun w =>
      ⟨if getS w "mode" == "w" then .w else .r, getBool w "reads", getBool w "writes"⟩)
    obj [("accepts", Json.bool (Skeleton.acceptsWins sk ws)), ("disciplined", Json.bool (Skeleton.disciplined sk))]

end Driver
