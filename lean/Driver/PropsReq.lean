import Driver.Util
import RadicaleModel.PropsReq
open Lean Radicale
namespace Driver

/-- {"instrs":[{"set":b,"key":s,"value":s},…],"props":[[k,v],…]} → what `props_from_request` returns (in its order,
    null = remove) and the properties after applying it -/
def handlePropsReq (j : Json) : Json :=
  let is : List PropsReq.Instr := (getArr j "instrs").map (fun i => ⟨getBool i "set", getS i "key", getS i "value"⟩)
  let ps : PropsReq.Props := (getArr j "props").filterMap (fun e => match e with
    | Json.arr a => some ((a.getD 0 Json.null).getStr?.toOption.getD "", (a.getD 1 Json.null).getStr?.toOption.getD "")
    | _ => none)
  let res := PropsReq.propsFromRequest is
  let out := PropsReq.apply ps res
  obj [("result", Json.arr (res.map (fun e => Json.arr #[Json.str e.1, match e.2 with | some v => Json.str v | none => Json.null])).toArray),
       ("props", Json.arr (out.map (fun e => Json.arr #[Json.str e.1, Json.str e.2])).toArray)]

end Driver
