import Driver.Util
import RadicaleModel.Trace
open Lean Radicale Radicale.Trace
namespace Driver

def jPath (p : FPath) : Json := Json.arr (p.map jStr).toArray
def asPath (j : Json) : FPath := match j with | Json.arr a => a.toList.map asStr | _ => []
def getPath (j : Json) (k : String) : FPath := asPath (getObj j k)

def jOp : Op → Json
  | .mkdir p => obj [("op", "mkdir"), ("p", jPath p)]
  | .rmdir p => obj [("op", "rmdir"), ("p", jPath p)]
  | .openw p => obj [("op", "openw"), ("p", jPath p)]
  | .write p => obj [("op", "write"), ("p", jPath p)]
  | .fsync p => obj [("op", "fsync"), ("p", jPath p)]
  | .unlink p => obj [("op", "unlink"), ("p", jPath p)]
  | .rmtree p => obj [("op", "rmtree"), ("p", jPath p)]
  | .rename a b => obj [("op", "rename"), ("p", jPath a), ("q", jPath b)]
  | .exchange a b => obj [("op", "exchange"), ("p", jPath a), ("q", jPath b)]

def asOp (j : Json) : Option Op :=
  let p := getPath j "p"; let q := getPath j "q"
  match getS j "op" with
  | "mkdir" => some (.mkdir p) | "rmdir" => some (.rmdir p) | "openw" => some (.openw p)
  | "write" => some (.write p) | "fsync" => some (.fsync p) | "unlink" => some (.unlink p)
  | "rmtree" => some (.rmtree p) | "rename" => some (.rename p q) | "exchange" => some (.exchange p q)
  | _ => none

def traceOf (j : Json) : List Op :=
  let fsync := getBool j "fsync"; let k := getNat j "k"
  match getS j "call" with
  | "upload" => upload fsync (getPath j "coll") (getStr j "href") k
  | "set_meta" => setMeta fsync (getPath j "coll") k
  | "delete_item" => deleteItem fsync (getPath j "coll") (getStr j "href")
  | "delete_coll" => deleteColl fsync (getPath j "coll") (getBool j "empty") k
  | "move" => move fsync (getPath j "coll") (getStr j "href") (getPath j "coll2") (getStr j "href2")
  | "makedirs" => makedirs fsync (getPath j "coll") (getNat j "missing")
  | "create" =>
    let items := match j.getObjVal? "items" with
      | .ok (Json.arr a) => some (a.toList.map asStr)
      | _ => none
    createCollection fsync (getPath j "coll") (getBool j "props") items (getNat j "missing") (getBool j "exists") k (getBool j "cache_in_coll")
  | _ => []

def handleTrace (j : Json) : Json :=
  match getS j "op" with
  | "trace" =>
    let ops := traceOf j
    let commits := ops.zipIdx.filter (fun (o, _) => !o.hiddenOnly) |>.map (fun (_, i) => jNat i)
    obj [("ops", Json.arr (ops.map jOp).toArray), ("commits", Json.arr commits.toArray),
         ("sync_ordered", Json.bool (syncOrdered ops))]
  | "monitor" =>
    let ops := (getArr j "ops").filterMap asOp
    obj [("sync_ordered", Json.bool (syncOrdered ops)), ("n", jNat ops.length),
         ("visible", Json.arr ((ops.zipIdx.filter (fun (o, _) => !o.hiddenOnly)).map (fun (_, i) => jNat i)).toArray)]
  | "apply" =>
    -- {"fs":[[path,"dir"|"file"],…],"ops":[…],"queries":[path,…]} → the node at each queried path after the operations
    let entries : List (FPath × Node) := (getArr j "fs").filterMap (fun e => match e with
      | Json.arr a => some (asPath (a.getD 0 Json.null), if (a.getD 1 Json.null) == Json.str "dir" then Node.dir else Node.file true)
      | _ => none)
    let fs0 : FS := fun q => (entries.find? (fun e => e.1 == q)).map (·.2)
    let ops := (getArr j "ops").filterMap asOp
    let fs1 := applyAll fs0 ops
    let node (q : FPath) : Json := match fs1 q with
      | none => Json.null
      | some .dir => Json.str "dir"
      | some (.file _) => Json.str "file"
    obj [("nodes", Json.arr ((getArr j "queries").map (fun q => node (asPath q))).toArray),
         ("hidden", Json.arr ((getArr j "queries").map (fun q => Json.bool (hidden (asPath q)))).toArray)]
  | _ => obj [("error", Json.str "bad-op")]

end Driver
