import Driver.Util
import RadicaleModel.Sync
open Lean Radicale
namespace Driver

/-- A whole history in one request:
    {"max_age":n,"hist_sub":b,"tok_sub":b,"ops":[{"op":"put","h":1,"e":10},{"op":"del","h":1},{"op":"move","h":1,"to":2},
      {"op":"replace","items":[[h,e],…]},{"op":"recreate"},{"op":"wipe"},{"op":"tick","dt":n},
      {"op":"sync","arg":"none"|"malformed"|"unknown"|"from","k":i}]}
    "from" k = the token the k-th sync of this history returned.
    Answer: one entry per sync: {"refused":b,"tid":n,"changes":[…]}; tokens are numbered by first appearance. -/
def handleSync (j : Json) : Json :=
  let cfg : Sync.Cfg := ⟨getNat j "max_age", getBool j "hist_sub", getBool j "tok_sub"⟩
  let go := fun (acc : Sync.State × List (Option Sync.Snapshot) × List Sync.Snapshot × List Json) (o : Json) =>
    let (s, issued, distinct, outs) := acc
    match getS o "op" with
    | "put" => ((Sync.step cfg s (.put (getNat o "h") (getNat o "e"))).1, issued, distinct, outs)
    | "del" => ((Sync.step cfg s (.del (getNat o "h"))).1, issued, distinct, outs)
    | "move" => ((Sync.step cfg s (.move (getNat o "h") (getNat o "to"))).1, issued, distinct, outs)
    | "replace" =>
      let items := (getArr o "items").map (fun p => match p with
        | Json.arr a => ((a.getD 0 Json.null).getNat?.toOption.getD 0, (a.getD 1 Json.null).getNat?.toOption.getD 0)
        | _ => (0, 0))
      ((Sync.step cfg s (.replaceAll items)).1, issued, distinct, outs)
    | "recreate" => ((Sync.step cfg s .recreate).1, issued, distinct, outs)
    | "wipe" => ((Sync.step cfg s .wipeCache).1, issued, distinct, outs)
    | "tick" => ((Sync.step cfg s (.tick (getNat o "dt"))).1, issued, distinct, outs)
    | "sync" =>
      let arg : Sync.Arg := match getS o "arg" with
        | "none" => .none
        | "malformed" => .malformed
        | "from" => match issued.reverse.getD (getNat o "k") none with
          | some t => .tok t
          | none => .unknown
        | _ => .unknown
      let r := Sync.sync cfg s arg
      match r.2 with
      | .refused => (r.1, none :: issued, distinct, obj [("refused", Json.bool true)] :: outs)
      | .ok t ch =>
        let (distinct, tid) := match distinct.findIdx? (· == t) with
          | some i => (distinct, i)
          | none => (distinct ++ [t], distinct.length)
        (r.1, some t :: issued, distinct,
          obj [("refused", Json.bool false), ("tid", jNat tid), ("changes", Json.arr (ch.map jNat).toArray),
               ("size", jNat t.length)] :: outs)
    | _ => acc
  let (_, _, _, outs) := (getArr j "ops").foldl go (Sync.State.init, [], [], [])
  obj [("r", Json.arr outs.reverse.toArray)]

end Driver
