import Lean.Data.Json
import RadicaleModel.Str
/- JSON helpers of the model driver. Strings travel as arrays of code points. -/
open Lean
namespace Driver

def jStr (s : Radicale.Str) : Json := Json.arr (s.map (fun c => Json.num (JsonNumber.fromNat c.toNat))).toArray

def getNat (j : Json) (k : String) : Nat :=
  match j.getObjVal? k with
  | .ok v => match v.getNat? with | .ok n => n | _ => 0
  | _ => 0

def getInt (j : Json) (k : String) : Int :=
  match j.getObjVal? k with
  | .ok v => match v.getInt? with | .ok n => n | _ => 0
  | _ => 0

def getBool (j : Json) (k : String) : Bool :=
  match j.getObjVal? k with
  | .ok (Json.bool b) => b
  | _ => false

def getS (j : Json) (k : String) : String :=
  match j.getObjVal? k with
  | .ok (Json.str s) => s
  | _ => ""

def asStr (v : Json) : Radicale.Str :=
  match v with
  | Json.arr a => a.toList.map (fun x => match x.getNat? with | .ok n => Char.ofNat n | _ => Char.ofNat 0)
  | Json.str s => s.toList
  | _ => []

def getStr (j : Json) (k : String) : Radicale.Str :=
  match j.getObjVal? k with
  | .ok v => asStr v
  | _ => []

def getArr (j : Json) (k : String) : List Json :=
  match j.getObjVal? k with
  | .ok (Json.arr a) => a.toList
  | _ => []

def getObj (j : Json) (k : String) : Json :=
  match j.getObjVal? k with
  | .ok v => v
  | _ => Json.null

def obj (kvs : List (String × Json)) : Json := Json.mkObj kvs

def jNat (n : Nat) : Json := Json.num (JsonNumber.fromNat n)
def jInt (n : Int) : Json := Json.num (JsonNumber.fromInt n)

end Driver
