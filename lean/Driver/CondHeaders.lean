import Driver.Util
import RadicaleModel.CondHeaders
open Lean Radicale
namespace Driver

private def optStr (j : Json) (k : String) : Option Str :=
  match j.getObjVal? k with
  | .ok Json.null => none
  | .ok v => some (asStr v)
  | _ => none

/-- {"cur": text|null, "if_match": text|null, "if_none_match": …, "depth": …, "overwrite": …, "table": [[text, cid], …]} →
    what PUT / DELETE / MOVE / PROPFIND make of the header texts, and the digest handed to the `Dav` request model -/
def handleCondHeaders (j : Json) : Json :=
  let w : CondHeaders.Wire := { ifMatch := optStr j "if_match", ifNoneMatch := optStr j "if_none_match",
                                depth := optStr j "depth", overwrite := optStr j "overwrite" }
  let cur := optStr j "cur"
  let tbl : List (Str × Nat) := (getArr j "table").filterMap (fun e => match e with
    | Json.arr a => some (asStr (a.getD 0 Json.null), match (a.getD 1 Json.null).getNat? with | .ok n => n | _ => 0)
    | _ => none)
  let dp := CondHeaders.digestPut tbl w
  let dd := CondHeaders.digestDelete tbl w
  let jo : Option Nat → Json := fun o => match o with | some n => jNat n | none => Json.null
  obj [("put_refuses", Json.bool (CondHeaders.putRefuses cur w)),
       ("delete_refuses", match cur with | some c => Json.bool (CondHeaders.deleteRefuses c w) | none => Json.null),
       ("overwrites", Json.bool (CondHeaders.overwrites w)),
       ("lists_children", Json.bool (CondHeaders.listsChildren w)),
       ("put_digest", obj [("raw", Json.bool dp.raw), ("if_match", jo dp.ifMatch), ("star", Json.bool dp.star)]),
       ("delete_digest", match dd with
          | none => obj [("present", Json.bool false), ("if_match", Json.null)]
          | some e => obj [("present", Json.bool true), ("if_match", jo e)])]

end Driver
