import Driver.Util
import RadicaleModel.Filter
open Lean Filter
namespace Driver

def getInts (j : Json) (k : String) : List Int :=
  (getArr j k).map (fun x => match x.getInt? with | .ok n => n | _ => 0)

def optInt (j : Json) (k : String) : Option Int :=
  match j.getObjVal? k with
  | .ok Json.null => none
  | .ok v => (match v.getInt? with | .ok n => some n | _ => none)
  | _ => none

/-- {"m":"filter","kind":"VEVENT"|"VTODO"|"VJOURNAL","fs":..,"fe":..,"occ":[…],"overrides":[[s,e],…],
     "datetime":b,"end":"dtend"|"duration"|"none","dur":n, todo fields…,"simple":b} -/
def handleFilter (j : Json) : Json :=
  let fs := getInt j "fs"; let fe := getInt j "fe"
  let occ := getInts j "occ"
  let dt := getBool j "datetime"
  let ovr : List Range := (getArr j "overrides").map (fun p => match p with
    | Json.arr a => ⟨(a.getD 0 Json.null).getInt?.toOption.getD 0, (a.getD 1 Json.null).getInt?.toOption.getD 0⟩
    | _ => ⟨0, 0⟩)
  let kind := getS j "kind"
  let todo : Todo := ⟨getBool j "has_start", optInt j "duration", optInt j "due_delta", getBool j "has_due",
                      getBool j "has_completed", getBool j "has_created", getInt j "compl_delta"⟩
  let mainRanges : List Range :=
    if kind == "VEVENT" then
      let en : EvEnd := match getS j "end" with
        | "dtend" => .dtend (getInt j "dur") | "duration" => .duration (getInt j "dur") | _ => .none
      occ.map (eventRange dt en)
    else if kind == "VJOURNAL" then occ.map (journalRange dt)
    else occ.flatMap (todoRanges todo)
  let openTodo : Option Bool :=
    if kind == "VTODO" then
      match occ with
      | r :: _ => todoOpen todo r fe
      | [] => todoOpen todo 0 fe
    else none
  if getS j "op" == "freebusy" then
    -- one event of a free-busy report: {"opaque":b,"max":n,…} → the periods it contributes, or null = refused
    match fbEvent (getBool j "opaque") (getNat j "max") fs fe ovr mainRanges with
    | some rs => obj [("fb", Json.arr (rs.map (fun r => Json.arr #[jInt r.s, jInt r.e])).toArray)]
    | none => obj [("fb", Json.null)]
  else
  match openTodo with
  | some b =>
    -- lines 7 / 8 of the VTODO table: unbounded range, hull is open-ended
    obj [("match", Json.bool (b && (if todo.hasCreated then true else true))), ("open", Json.bool true)]
  | none =>
    let all := ovr ++ mainRanges
    -- a series without end: the storage layer keeps [date of the first occurrence, largest time stamp]
    let unb := getBool j "unbounded" && ovr.isEmpty
    let tmax := getInt j "tmax"
    let tmin := getInt j "tmin"
    let occ0 := occ.headD 0
    let m := timeRangeMatch fs fe ovr mainRanges
    let h := hull all
    obj [("match", Json.bool m),
         ("any", Json.bool (all.any (overlaps fs fe))),
         ("hull", match h with | some r => Json.arr #[jInt r.s, jInt r.e] | none => Json.null),
         ("shortcut_simple", Json.bool (if unb then reportUnbounded true tmax fs fe occ0 all tmin else reportWithShortcut true fs fe all tmin tmax)),
         ("shortcut_nonsimple", Json.bool (if unb then reportUnbounded false tmax fs fe occ0 all tmin else reportWithShortcut false fs fe all tmin tmax)),
         ("ranges", Json.arr (all.map (fun r => Json.arr #[jInt r.s, jInt r.e])).toArray)]

end Driver
