import Driver.Util
import RadicaleModel.Server
import RadicaleModel.ContentLength
open Lean
namespace Driver

def srvJson (max : Int) (s : Server.State) : Json :=
  obj [("workers", jNat s.workers), ("running", jNat s.running), ("backlog", jNat s.backlog),
       ("shutdown", Json.bool s.shutdown),
       ("phase", Json.str (match s.phase with | .looping => "looping" | .draining => "draining" | .returned => "returned")),
       ("accepted", jNat s.accepted), ("polls_listener", Json.bool (Server.pollsListener max s)),
       ("ready", Json.bool (Server.ready max s))]

/-- {"m":"server","max":k,"events":["arrive","loop",…]} → the state after every event (null = impossible) -/
def handleServer (j : Json) : Json :=
  match getS j "op" with
  | "gate" => obj [("r", Json.bool (Server.refusesBody (getBool j "internal") (getInt j "max_len") (getNat j "len")))]
  | "cl" =>
    -- {"fixed","internal","max_len","raw":chars,"avail"} → what the raw Content-Length header leads to
    let r := Radicale.ContentLength.handle (getBool j "fixed") (getBool j "internal") (getInt j "max_len") (getStr j "raw") (getNat j "avail")
    obj [("outcome", Json.str (match r.1 with | .tooLarge => "413" | .error500 => "500" | .badRequest => "400" | .proceeds => "proceeds")),
         ("taken", jNat r.2),
         ("int", match Radicale.ContentLength.pyInt (getStr j "raw") with | some v => jInt v | none => Json.null)]
  | _ =>
    let max := getInt j "max"
    let evs := (getArr j "events").map (fun e => match e with
      | Json.str "arrive" => Server.Ev.arrive | Json.str "finish" => .finish | Json.str "signal" => .signal | _ => .loop)
    let (_, outs) := evs.foldl (fun (acc : Server.State × List Json) e =>
      match Server.step max acc.1 e with
      | some s' => (s', srvJson max s' :: acc.2)
      | none => (acc.1, Json.null :: acc.2)) (Server.init, [])
    obj [("states", Json.arr outs.reverse.toArray)]

end Driver
