import Driver.Util
import RadicaleModel.BulkNames
open Lean Radicale
namespace Driver

/-- {"suffix":chars,"uids":[chars,…],"taken":[chars,…],"hash":[[uid chars, digest chars],…],"fresh":[chars,…]} →
    for every object the name and which candidate it was (1 plain, 2 digest, 3 random).  The digest is the table
    `hash`; the random source hands out the names of `fresh` in order (the k-th random draw of the run is the k-th
    entry: the harness passes the random names the real code drew, the model decides *when* one is needed) -/
def handleBulkNames (j : Json) : Json :=
  let table : List (Str × Str) := (getArr j "hash").filterMap (fun e => match e with
    | Json.arr a => some (asStr (a.getD 0 Json.null), asStr (a.getD 1 Json.null))
    | _ => none)
  let suffix := getStr j "suffix"
  let fresh : List Str := (getArr j "fresh").map asStr
  let uids : List Str := (getArr j "uids").map asStr
  let taken : List Str := (getArr j "taken").map asStr
  -- the draws made so far are recognised by their presence in `taken`: the next unused entry of `fresh`
  let e : BulkNames.Env := {
    suffix := suffix,
    hash := fun u => ((table.find? (fun p => p.1 == u)).map (·.2)).getD ("?".toList),
    fresh := fun t => ((fresh.find? (fun f => !t.contains f)).getD ("?none".toList)) }
  let rec go (us : List Str) (t : List Str) (acc : List Json) : List Json :=
    match us with
    | [] => acc.reverse
    | u :: rest =>
      let h := BulkNames.pick e t u
      go rest (h :: t) (obj [("href", jStr h), ("kind", jNat (BulkNames.pickKind e t u))] :: acc)
  let viaAssign := (BulkNames.assign e uids taken).map (fun p => jStr p.1)
  obj [("r", Json.arr (go uids taken []).toArray), ("assign", Json.arr viaAssign.toArray),
       ("naive", Json.arr ((BulkNames.assignNaive e uids).map (fun p => jStr p.1)).toArray)]

end Driver
