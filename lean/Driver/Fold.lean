import Driver.Util
import RadicaleModel.Fold
open Lean Radicale
namespace Driver

/-- {"s":[code points]} → physical lines, what the reader yields for them, `safe`, `isBlank` of the input;
    {"lines":[[…],…]} → what the reader yields for these physical lines -/
def handleFold (j : Json) : Json :=
  match j.getObjVal? "lines" with
  | .ok (Json.arr a) =>
    obj [("read", Json.arr ((Fold.readLines (a.toList.map asStr)).map jStr).toArray)]
  | _ =>
    let s := getStr j "s"
    let ls := Fold.foldLine s
    obj [("lines", Json.arr (ls.map jStr).toArray), ("read", Json.arr ((Fold.readLines ls).map jStr).toArray),
         ("safe", Json.bool (Fold.safe s)), ("blank", Json.bool (Fold.isBlank s))]

end Driver
