import Driver.Util
import RadicaleModel.Fold
import RadicaleModel.Export
import RadicaleModel.TextValue
import RadicaleModel.Charset
open Lean Radicale
namespace Driver

/-- {"s":[code points]} → physical lines, what the reader yields for them, `safe`, `isBlank` of the input;
    {"lines":[[…],…]} → what the reader yields for these physical lines -/
def handleFold (j : Json) : Json :=
  if getS j "op" == "charset" then
    -- {"op":"charset","s":chars,"fixed":bool} → the label taken from a Content-Type header
    match Charset.label (getBool j "fixed") (getStr j "s") with
    | some l => obj [("label", jStr l)]
    | none => obj [("label", Json.null)]
  else if getS j "op" == "textvalue" then
    -- {"op":"textvalue","s":chars} → the elements the value reader yields, and the escaped form of `s`
    let s := getStr j "s"
    obj [("values", Json.arr ((TextValue.readValues s).map jStr).toArray), ("escaped", jStr (TextValue.escape s)),
         ("stored", jStr (TextValue.stored s))]
  else
  match j.getObjVal? "items" with
  | .ok (Json.arr its) =>
    -- {"items":[[line,…],…]} → what the whole-calendar export inserts before END:VCALENDAR, and the TZIDs it kept
    let items : List (List Export.Line) := its.toList.map (fun it => match it with
      | Json.arr ls => ls.toList.map asStr
      | _ => [])
    obj [("body", Json.arr ((Export.body items).map jStr).toArray),
         ("tzids", Json.arr ((Export.emittedTzids items).map jStr).toArray)]
  | _ =>
  match j.getObjVal? "lines" with
  | .ok (Json.arr a) =>
    obj [("read", Json.arr ((Fold.readLines (a.toList.map asStr)).map jStr).toArray)]
  | _ =>
    let s := getStr j "s"
    let ls := Fold.foldLine s
    obj [("lines", Json.arr (ls.map jStr).toArray), ("read", Json.arr ((Fold.readLines ls).map jStr).toArray),
         ("safe", Json.bool (Fold.safe s)), ("blank", Json.bool (Fold.isBlank s))]

end Driver
