import Driver.Util
import RadicaleModel.Rights
open Lean Radicale
namespace Driver

def jCaps (caps : Regex.Caps) : Json :=
  Json.arr (caps.map (fun c => match c with | some s => jStr s | none => Json.null)).toArray

def handleRights (j : Json) : Json :=
  match getS j "op" with
  | "builtin" =>
    let v := getBool j "verify"; let u := getStr j "user"; let p := getStr j "path"
    let r := match getS j "backend" with
      | "authenticated" => Rights.authenticated v u p
      | "owner_only" => Rights.ownerOnly v u p
      | "owner_write" => Rights.ownerWrite v u p
      | _ => "?".toList
    obj [("r", jStr r)]
  | "from_file" =>
    let rules := (getArr j "rules").map (fun r => (⟨getStr r "user", getStr r "coll", getStr r "perms"⟩ : Rights.Rule))
    match Rights.fromFile rules (getStr j "user") (getStr j "path") with
    | .perms p => obj [("r", jStr p)]
    | .error => obj [("error", Json.bool true)]
    | .unsupported => obj [("unsupported", Json.bool true)]
  | "re" =>
    match Regex.parse (getStr j "pat") with
    | none => obj [("parse", Json.bool false)]
    | some (r, n) =>
      match Regex.fullmatch r n (getStr j "s") with
      | none => obj [("parse", Json.bool true), ("match", Json.bool false)]
      | some caps => obj [("parse", Json.bool true), ("match", Json.bool true), ("groups", jCaps caps)]
  | "escape" => obj [("r", jStr (Regex.escape (getStr j "s")))]
  | "format" =>
    let args := (getArr j "args").map asStr
    let user := match j.getObjVal? "user" with | .ok Json.null => none | .ok v => some (asStr v) | _ => none
    match Rights.pyFormat (getStr j "tpl") args user with
    | .ok s => obj [("r", jStr s)]
    | .error e => obj [("error", Json.str (match e with | .value => "value" | .index => "index" | .key => "key" | .unsupported => "unsupported"))]
  | "intersect" => obj [("r", jStr (Rights.intersect (getStr j "a") (getStr j "b")))]
  | _ => obj [("error", Json.str "bad-op")]

end Driver
