import Driver.Util
import RadicaleModel.AuthCache
open Lean Radicale
namespace Driver

/-- A whole history in one request: {"succ":n,"fail":n,"lc":b,"uc":b,"strip":b,"t0":n,
     "steps":[{"dt":n,"l":[..],"pw":[..],"creds":[[l,pw,user],…]}]}  → list of users.
    `creds` is the back-end's table in force at that step (first match wins; no match = rejected). -/
def handleAuth (j : Json) : Json :=
  let cfg : AuthCache.Cfg := ⟨getNat j "succ", getNat j "fail", getNat j "fail_salt"⟩
  let lc := getBool j "lc"; let uc := getBool j "uc"; let strip := getBool j "strip"
  let steps := getArr j "steps"
  let go := fun (acc : AuthCache.State × Nat × List Json) (s : Json) =>
    let (st, now, outs) := acc
    let now := now + getNat s "dt"
    let creds := (getArr s "creds").map (fun c => match c with
      | Json.arr a => (asStr (a.getD 0 Json.null), asStr (a.getD 1 Json.null), asStr (a.getD 2 Json.null))
      | _ => ([], [], []))
    let backend : Str → Str → Str := fun l p =>
      match creds.find? (fun c => c.1 == l && c.2.1 == p) with
      | some c => c.2.2
      | none => []
    let l := AuthCache.mapLogin lc uc strip (getStr s "l")
    if getBool s "fault" then
      -- the back-end raises at this attempt
      match AuthCache.loginFault cfg st now l (getStr s "pw") with
      | (some r, st') => (st', now, obj [("user", jStr r.user), ("cached", Json.bool r.cached), ("consulted", Json.bool r.consulted)] :: outs)
      | (none, st') => (st', now, obj [("fault", Json.bool true)] :: outs)
    else
    let r := AuthCache.login cfg st now backend l (getStr s "pw")
    (r.state, now, obj [("user", jStr r.user), ("cached", Json.bool r.cached), ("consulted", Json.bool r.consulted)] :: outs)
  let (_, _, outs) := steps.foldl go (AuthCache.State.init, getNat j "t0", [])
  obj [("r", Json.arr outs.reverse.toArray)]

end Driver
