import Driver.Util
import RadicaleModel.Auth
import RadicaleModel.BasicHeader
open Lean Radicale Radicale.Auth
namespace Driver

def schemeOf (s : String) : Scheme :=
  match s with
  | "md5" => .md5 | "sha256" => .sha256 | "sha512" => .sha512 | "bcrypt" => .bcrypt | "autodetect" => .autodetect | _ => .plain
def schemeName : Scheme → String
  | .plain => "plain" | .md5 => "md5" | .sha256 => "sha256" | .sha512 => "sha512" | .bcrypt => "bcrypt" | .autodetect => "autodetect"
def backendOf (s : String) : Backend :=
  match s with
  | "denyall" => .denyall | "htpasswd" => .htpasswd | "remote_user" => .remoteUser | "http_x_remote_user" => .httpXRemoteUser | _ => .none

/-- the hash library as a table: [{"scheme","hash","pw","ok": true|false|null}] ; missing = rejects -/
def asOracle (j : Json) : Oracle :=
  let tbl := (getArr j "oracle").map (fun e =>
    (getS e "scheme", getStr e "hash", getStr e "pw",
     match e.getObjVal? "ok" with | .ok (Json.bool b) => some b | _ => none))
  fun sc h pw => match tbl.find? (fun e => e.1 == schemeName sc && e.2.1 == h && e.2.2.1 == pw) with
    | some e => e.2.2.2
    | none => some false

def handleAuthGate (j : Json) : Json :=
  match getS j "op" with
  | "htpasswd" =>
    let file := (getArr j "lines").map asStr
    obj [("r", jStr (htpasswdLogin file (schemeOf (getS j "scheme")) (asOracle j) (getStr j "login") (getStr j "pw")))]
  | "htpasswd_hist" =>
    -- {"init":{"lines","size","mtime"}, "steps":[{"lines","size","mtime","login","pw"}]} → results
    let i := j.getObjValD "init"
    let c0 := HtCache.load ((getArr i "lines").map asStr) (getNat i "size") (getNat i "mtime")
    let steps := (getArr j "steps").map (fun s => ((getArr s "lines").map asStr, getNat s "size", getNat s "mtime", getStr s "login", getStr s "pw"))
    obj [("r", Json.arr ((cachedRun (schemeOf (getS j "scheme")) (asOracle j) c0 steps).map jStr).toArray)]
  | "basicheader" =>
    -- {"header": chars} → how the gate reads the Authorization header
    (match BasicHeader.parse (getStr j "header") with
     | .absent => obj [("kind", Json.str "absent")]
     | .error => obj [("kind", Json.str "error")]
     | .creds l p => obj [("kind", Json.str "creds"), ("login", jStr l), ("pw", jStr p)])
  | "b64" =>
    (match BasicHeader.b64decode (getStr j "s") with
     | none => obj [("r", Json.null)]
     | some bs => obj [("r", Json.arr (bs.map (fun b => jNat b.toNat)).toArray)])
  | "gate" =>
    let cfg : Cfg := ⟨backendOf (getS j "backend"), getBool j "lc", getBool j "uc", getBool j "strip"⟩
    let header : AuthHeader := match getS j "header" with
      | "basic" => .basic (getStr j "login") (getStr j "pw") | "malformed" => .malformed | "other" => .other | _ => .absent
    let env : Env := ⟨header, getStr j "remote_user", getStr j "x_remote_user"⟩
    let file := (getArr j "lines").map asStr
    let ht := fun l p => htpasswdLogin file (schemeOf (getS j "scheme")) (asOracle j) l p
    match gate cfg ht env with
    | .error500 => obj [("outcome", "error500")]
    | .handler u => obj [("outcome", "handler"), ("user", jStr u)]
    | .unauthorized => obj [("outcome", "unauthorized")]
    | .refused => obj [("outcome", "refused")]
  | _ => obj [("error", "bad-op")]

end Driver
