import Driver.Util
import RadicaleModel.Prefilter
import RadicaleProofs.Prefilter
open Lean Radicale
namespace Driver

partial def asFlt (j : Json) : Prefilter.Flt :=
  match getS j "k" with
  | "comp" => .comp (getS j "name") ((getArr j "ch").map asFlt)
  | "tr" => .timeRange (getInt j "fs") (getInt j "fe")
  | "prop" => .prop (getBool j "holds")
  | "ind" => .isNotDefined
  | _ => .other

def jOptBool : Option Bool → Json
  | none => Json.str "raises"
  | some b => Json.bool b

/-- {"flat":[filter trees],"coll_tag":s,"tmin":n,"tmax":n,"item":{"name":s,"component":s,"tr":[[fs,fe,b],…]}} →
    what `simplify_prefilters` returns and what `comp_match` says for each top-level element -/
def handlePrefilter (j : Json) : Json :=
  let flat := (getArr j "flat").map asFlt
  let r := Prefilter.simplify (getS j "coll_tag") (getInt j "tmin") (getInt j "tmax") flat
  let it := getObj j "item"
  let table : List (Int × Int × Bool) := (getArr it "tr").filterMap (fun e => match e with
    | Json.arr a => some ((a.getD 0 Json.null).getInt?.toOption.getD 0, (a.getD 1 Json.null).getInt?.toOption.getD 0,
                          (a.getD 2 Json.null).getBool?.toOption.getD false)
    | _ => none)
  let trf : Int → Int → Bool := fun fs fe => ((table.find? (fun e => e.1 == fs && e.2.1 == fe)).map (fun e => e.2.2)).getD false
  let view : Prefilter.ItemView := { name := getS it "name", component := getS it "component", tr := trf }
  obj [("tag", match r.tag with | some t => Json.str t | none => Json.null), ("fs", jInt r.fs), ("fe", jInt r.fe),
       ("simple", Json.bool r.simple),
       ("matches", Json.arr (flat.map (fun f => jOptBool (Prefilter.compMatch view f))).toArray),
       ("all", jOptBool (Prefilter.allMatch view flat)),
       ("simplified", Json.bool (Prefilter.simplifiedMatch view r))]

end Driver
