import Driver.Util
import RadicaleModel.UrlSplit
import RadicaleModel.Netloc
import RadicaleModel.Quote
import RadicaleModel.Shell
open Lean Radicale
namespace Driver

def hookTok (v : Json) : Shell.HookTok :=
  match v with
  | Json.str "user" => .user
  | Json.str "path" => .path
  | Json.str "cwd" => .cwd
  | v => .lit (asStr v)

def handleQuote (j : Json) : Json :=
  let s := getStr j "s"
  match getS j "op" with
  | "quote" => obj [("r", jStr (Quote.quote s))]
  | "unquote" => obj [("r", jStr (Quote.unquote s))]
  | "sanitize" => obj [("r", jStr (Path.sanitize s))]
  | "normpath" => obj [("r", jStr (Path.normpath s))]
  | "href" => obj [("r", jStr (Quote.makeHref (getStr j "prefix") s))]
  | "reqline" => obj [("r", jStr (Quote.gatePath (Quote.decodeRequestLine s)))]
  | "multiget" => obj [("r", jStr (Quote.decodeMultigetHref s))]
  | "dest" => obj [("r", jStr (Quote.decodeDestination (getBool j "decodes") s))]
  | "urlpath" => obj [("split", jStr (UrlSplit.urlsplitPath s)), ("parse", jStr (UrlSplit.urlparsePath s))]
  | "desturl" => obj [("r", jStr (UrlSplit.decodeDestinationUrl s))]
  | "moveauth" =>
    let port : Option Str := match j.getObjVal? "xf_port" with | .ok Json.null => none | .ok v => some (asStr v) | _ => none
    let e : Netloc.Env := ⟨getStr j "xf_host", getStr j "xf_proto", port, getStr j "host", getStr j "server_name", getStr j "scheme", getStr j "port"⟩
    obj [("r", Json.str (match Netloc.verdict (getBool j "fixed") e (getStr j "dest") with | .local => "local" | .remote => "remote" | .error => "error")),
         ("netloc", jStr (Netloc.urlNetloc (getStr j "dest"))), ("dest", jStr (Netloc.destNetloc (getStr j "dest")))]
  | "multigeturl" => obj [("r", jStr (UrlSplit.decodeMultigetUrl s))]
  | "safe" => obj [("comp", Json.bool (Path.safeComp s)), ("fs", Json.bool (Path.safeFsComp s))]
  | "tofs" => match Path.toFilesystem s with
      | .ok parts => obj [("ok", Json.arr (parts.map jStr).toArray)]
      | .error bad => obj [("unsafe", jStr bad)]
  | "shquote" => obj [("r", jStr (Shell.quote s))]
  | "shwords" => match Shell.words s with
      | some ws => obj [("r", Json.arr (ws.map jStr).toArray)]
      | none => obj [("r", Json.null)]
  | "hookcmd" =>
      let ts := (getArr j "tmpl").map hookTok
      let e : Shell.HookEnv := { user := getStr j "user", path := getStr j "path", folder := getStr j "folder", root := getStr j "root" }
      let cmd := Shell.hookCommand ts e
      obj [("cmd", jStr cmd), ("values", Json.arr (ts.map (fun t => jStr (t.value e))).toArray),
           ("words", match Shell.words cmd with
              | some ws => Json.arr (ws.map jStr).toArray
              | none => Json.null)]
  | "token" => obj [("r", Json.bool (Path.checkTokenName s))]
  | _ => obj [("error", Json.str "bad-op")]

end Driver
