import Driver.Util
import RadicaleModel.Quote
import RadicaleModel.Shell
open Lean Radicale
namespace Driver

def handleQuote (j : Json) : Json :=
  let s := getStr j "s"
  match getS j "op" with
  | "quote" => obj [("r", jStr (Quote.quote s))]
  | "unquote" => obj [("r", jStr (Quote.unquote s))]
  | "sanitize" => obj [("r", jStr (Path.sanitize s))]
  | "normpath" => obj [("r", jStr (Path.normpath s))]
  | "href" => obj [("r", jStr (Quote.makeHref (getStr j "prefix") s))]
  | "reqline" => obj [("r", jStr (Quote.gatePath (Quote.decodeRequestLine s)))]
  | "multiget" => obj [("r", jStr (Quote.decodeMultigetHref s))]
  | "dest" => obj [("r", jStr (Quote.decodeDestination (getBool j "decodes") s))]
  | "safe" => obj [("comp", Json.bool (Path.safeComp s)), ("fs", Json.bool (Path.safeFsComp s))]
  | "tofs" => match Path.toFilesystem s with
      | .ok parts => obj [("ok", Json.arr (parts.map jStr).toArray)]
      | .error bad => obj [("unsafe", jStr bad)]
  | "shquote" => obj [("r", jStr (Shell.quote s))]
  | "shwords" => match Shell.words s with
      | some ws => obj [("r", Json.arr (ws.map jStr).toArray)]
      | none => obj [("r", Json.null)]
  | "token" => obj [("r", Json.bool (Path.checkTokenName s))]
  | _ => obj [("error", Json.str "bad-op")]

end Driver
