import Driver.Util
import RadicaleModel.LockFlock
open Lean
namespace Driver

structure LockTable where
  cv : Array CV.State := #[]
  fl : Array Flock.State := #[]
  ld : Array (List (String × List Nat)) := #[]

def modeOf (s : String) : CV.Mode := if s == "w" then .w else .r
def modeStr : CV.Mode → String | .r => "r" | .w => "w"

def cvPc : CV.PC → String
  | .idle => "idle" | .wantA m => "wantA:" ++ modeStr m | .testA m => "testA:" ++ modeStr m
  | .exitA m => "exitA:" ++ modeStr m | .asleep m => "asleep:" ++ modeStr m | .woken m => "woken:" ++ modeStr m
  | .cs m => "cs:" ++ modeStr m | .wantR m => "wantR:" ++ modeStr m | .bookR m => "bookR:" ++ modeStr m
  | .exitR => "exitR"

def flPc : Flock.PC → String
  | .idle => "idle" | .wantK m => "wantK:" ++ modeStr m | .gotK m => "gotK:" ++ modeStr m
  | .cs m => "cs:" ++ modeStr m | .closing m => "closing:" ++ modeStr m | .failed m => "failed:" ++ modeStr m

def cvJson (s : CV.State) : Json :=
  obj [("readers", jNat s.readers), ("writer", Json.bool s.writer),
       ("mutex", match s.mutex with | some t => jNat t | none => Json.null),
       ("pcs", Json.arr (s.pcs.map (fun p => Json.str (cvPc p))).toArray),
       ("enabled", Json.arr ((List.range s.pcs.length).map (fun t => Json.bool (CV.next s t .r).isSome)).toArray),
       ("locked", match CV.lockedView s with | some m => Json.str (modeStr m) | none => Json.str "")]

def flJson (s : Flock.State) : Json :=
  obj [("readers", jNat s.readers), ("writer", Json.bool s.writer),
       ("pcs", Json.arr (s.pcs.map (fun p => Json.str (flPc p))).toArray),
       ("enabled", Json.arr ((List.range s.pcs.length).map (fun t => Json.bool (Flock.next s t .r).isSome)).toArray),
       ("locked", match Flock.lockedView s with | some m => Json.str (modeStr m) | none => Json.str "")]

def ldGet (s : List (String × List Nat)) (k : String) : List Nat :=
  match s.find? (fun e => e.1 == k) with | some e => e.2 | none => []
def ldFun (s : List (String × List Nat)) : LockDict.State String := fun k => ldGet s k
def ldSet (s : List (String × List Nat)) (k : String) (v : List Nat) : List (String × List Nat) :=
  (k, v) :: s.filter (fun e => e.1 != k)

def handleLock (tb : LockTable) (j : Json) : LockTable × Json :=
  let sid := getNat j "sid"
  match getS j "kind", getS j "op" with
  | "cv", "new" => ({ tb with cv := tb.cv.push (CV.init (getNat j "n")) }, obj [("sid", jNat tb.cv.size)])
  | "cv", "step" =>
    match tb.cv[sid]? with
    | none => (tb, obj [("error", "bad-sid")])
    | some s => match CV.next s (getNat j "t") (modeOf (getS j "mode")) with
      | none => (tb, obj [("blocked", Json.bool true), ("state", cvJson s)])
      | some s' => ({ tb with cv := tb.cv.set! sid s' }, obj [("state", cvJson s')])
  | "cv", "get" => (tb, match tb.cv[sid]? with | some s => obj [("state", cvJson s)] | none => obj [("error", "bad-sid")])
  | "flock", "new" => ({ tb with fl := tb.fl.push (Flock.init (getNat j "n")) }, obj [("sid", jNat tb.fl.size)])
  | "flock", "step" =>
    match tb.fl[sid]? with
    | none => (tb, obj [("error", "bad-sid")])
    | some s => match Flock.next s (getNat j "t") (modeOf (getS j "mode")) with
      | none => (tb, obj [("blocked", Json.bool true), ("state", flJson s)])
      | some s' => ({ tb with fl := tb.fl.set! sid s' }, obj [("state", flJson s')])
  | "flock", "get" => (tb, match tb.fl[sid]? with | some s => obj [("state", flJson s)] | none => obj [("error", "bad-sid")])
  | "dict", "new" => ({ tb with ld := tb.ld.push [] }, obj [("sid", jNat tb.ld.size)])
  | "dict", "enter" =>
    let s := tb.ld.getD sid []
    let k := getS j "key"
    let q := (LockDict.enter (ldFun s) k (getNat j "t")) k
    ({ tb with ld := tb.ld.set! sid (ldSet s k q) },
     obj [("queue", Json.arr (q.map jNat).toArray), ("holder", match q.head? with | some h => jNat h | none => Json.null)])
  | "dict", "leave" =>
    let s := tb.ld.getD sid []
    let k := getS j "key"
    let q := (LockDict.leave (ldFun s) k) k
    ({ tb with ld := tb.ld.set! sid (ldSet s k q) },
     obj [("queue", Json.arr (q.map jNat).toArray), ("holder", match q.head? with | some h => jNat h | none => Json.null)])
  | _, _ => (tb, obj [("error", "bad-op")])

end Driver
