import Driver.Util
import RadicaleModel.CacheFolder
open Lean Radicale
namespace Driver

/-- {"relocated":b,"root":s,"cache":s,"path":s,"folder":s,"sub":s} → the folder `_get_collection_cache_subfolder` answers -/
def handleCacheFolder (j : Json) : Json :=
  obj [("r", jStr (CacheFolder.cacheSubfolder (getBool j "relocated") (getStr j "root") (getStr j "cache") (getStr j "path")
                     (getStr j "folder") (getStr j "sub")))]

end Driver
