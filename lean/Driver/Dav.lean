import Driver.Util
import RadicaleModel.Dav
open Lean Dav
namespace Driver

def jsPath (p : Dav.Path) : Json := Json.arr (p.map Json.str).toArray
def asSPath (j : Json) : Dav.Path := match j with | Json.arr a => a.toList.map (fun x => x.getStr?.toOption.getD "") | _ => []
def getSPath (j : Json) (k : String) : Dav.Path := asSPath (getObj j k)

def tagStr : Tag → String | .none => "" | .cal => "VCALENDAR" | .book => "VADDRESSBOOK"
def tagOf (s : String) : Tag := if s == "VCALENDAR" then .cal else if s == "VADDRESSBOOK" then .book else .none
def kindStr : Kind → String | .event => "VEVENT" | .todo => "VTODO" | .journal => "VJOURNAL" | .card => "VCARD"
def kindOf (s : String) : Kind := if s == "VTODO" then .todo else if s == "VJOURNAL" then .journal else if s == "VCARD" then .card else .event

def getPairs (j : Json) (k : String) : List (String × String) :=
  (getArr j k).map (fun e => match e with
    | Json.arr a => ((a.getD 0 Json.null).getStr?.toOption.getD "", (a.getD 1 Json.null).getStr?.toOption.getD "")
    | _ => ("", ""))

def jsPairs (l : List (String × String)) : Json := Json.arr (l.map (fun e => Json.arr #[Json.str e.1, Json.str e.2])).toArray

def asObjs (j : Json) (k : String) : List Obj :=
  (getArr j k).map (fun o => ⟨getS o "uid", kindOf (getS o "kind"), getNat o "cid"⟩)

def jsEtag (e : List (String × Nat) × List (String × String)) : Json :=
  obj [("items", Json.arr (e.1.map (fun x => Json.arr #[Json.str x.1, jNat x.2])).toArray), ("props", jsPairs e.2)]

def jsEntry : Entry → Json
  | .coll p tag dn e => obj [("type", "coll"), ("path", jsPath p), ("tag", Json.str (tagStr tag)),
                             ("displayname", match dn with | some d => Json.str d | none => Json.null), ("etag", jsEtag e)]
  | .item p e => obj [("type", "item"), ("path", jsPath p), ("etag", jNat e)]
  | .missing p => obj [("type", "missing"), ("path", jsPath p)]

def jsStore (s : Store) : Json :=
  Json.arr (s.map (fun (p, c) => obj [("path", jsPath p), ("tag", Json.str (tagStr c.tag)), ("props", jsPairs c.props),
    ("items", Json.arr (c.items.map (fun (h, it) => obj [("href", Json.str h), ("uid", Json.str it.uid),
        ("kind", Json.str (kindStr it.kind)), ("cid", jNat it.cid)])).toArray)])).toArray

def asRights (j : Json) : Rights :=
  let table := (getArr j "rights").map (fun e => (getS e "user", getSPath e "path", getS e "perms"))
  let dflt := getS j "rights_default"
  fun u p => match table.find? (fun e => e.1 == u && e.2.1 == p) with
    | some e => e.2.2
    | none => dflt

def asReq (j : Json) : Option Req :=
  let p := getSPath j "path"
  match getS j "method" with
  | "MKCOL" => some (.mkcol p (tagOf (getS j "tag")) (getPairs j "props") (getBool j "bad_body"))
  | "MKCALENDAR" => some (.mkcalendar p (getPairs j "props") (getBool j "bad_body"))
  | "PUT" =>
    let body : Body := match getS j "body" with
      | "cal" => .cal (asObjs j "objs") | "cards" => .cards (asObjs j "objs") | _ => .unparsable
    let im : Option Nat := match j.getObjVal? "if_match" with
      | .ok v => (match v.getNat? with | .ok n => some n | _ => none) | _ => none
    let imc : Option (List (String × Nat) × List (String × String)) := match j.getObjVal? "if_match" with
      | .ok v => (match v.getObjVal? "items" with
          | .ok _ => some ((getArr v "items").map (fun x => match x with
                | Json.arr a => ((a.getD 0 Json.null).getStr?.toOption.getD "", (a.getD 1 Json.null).getNat?.toOption.getD 0)
                | _ => ("", 0)), getPairs v "props")
          | _ => none)
      | _ => none
    some (.put p body im (getBool j "if_match_present") (getBool j "if_none_match_star") imc)
  | "DELETE" =>
    let im : Option (Option Nat) := if getBool j "if_match_present" then
        some (match j.getObjVal? "if_match" with | .ok v => (match v.getNat? with | .ok n => some n | _ => none) | _ => none)
      else none
    let imc : Option (List (String × Nat) × List (String × String)) := match j.getObjVal? "if_match" with
      | .ok v => (match v.getObjVal? "items" with
          | .ok _ => some ((getArr v "items").map (fun x => match x with
                | Json.arr a => ((a.getD 0 Json.null).getStr?.toOption.getD "", (a.getD 1 Json.null).getNat?.toOption.getD 0)
                | _ => ("", 0)), getPairs v "props")
          | _ => none)
      | _ => none
    some (.delete p im imc)
  | "MOVE" => some (.move p (getSPath j "dest") (getBool j "overwrite"))
  | "PROPPATCH" => some (.proppatch p (getPairs j "set") ((getArr j "remove").map (fun x => x.getStr?.toOption.getD ""))
                          (getBool j "sets_type") (getBool j "bad_body"))
  | "GET" => some (.get p)
  | "PROPFIND" => some (.propfind p (getBool j "depth1"))
  | "MULTIGET" => some (.multiget p ((getArr j "hrefs").map asSPath) (getBool j "book"))
  | _ => none

def handleDav (tb : Array Store) (j : Json) : Array Store × Json :=
  match getS j "op" with
  | "new" => (tb.push Store.init, obj [("sid", jNat tb.size)])
  | "fork" => (tb.push (tb.getD (getNat j "sid") Store.init), obj [("sid", jNat tb.size)])
  | "dump" => (tb, obj [("store", jsStore (tb.getD (getNat j "sid") Store.init))])
  | "request" =>
    let sid := getNat j "sid"
    let s := tb.getD sid Store.init
    match asReq j with
    | none => (tb, obj [("error", "bad-request")])
    | some r =>
      let cfg : Cfg := { permitDelete := getBool j "permit_delete", permitOverwrite := getBool j "permit_overwrite" }
      let (resp, s') := Dav.request cfg (asRights j) (getS j "user") s r
      (tb.set! sid s',
       obj [("status", jNat resp.status),
            ("etag", match resp.etag with | some e => jNat e | none => Json.null),
            ("cetag", match resp.cetag with | some e => jsEtag e | none => Json.null),
            ("entries", Json.arr (resp.entries.map jsEntry).toArray),
            ("store", jsStore s')])
  | _ => (tb, obj [("error", "bad-op")])

end Driver
