import RadicaleProofs.DavError
/-
  C15 — the store stays well-formed and failed requests leave it untouched.
  This file: every request answered with an error status leaves all collections, items and properties
  exactly as they were, apart from the automatic creation of the authenticated user's home collection.
  (the well-formedness invariant is in Props/C15Inv.lean)
-/
namespace C15
open Dav

theorem error_decides_no_update (cfg : Cfg) (rights : Rights) (user : String) (s : Store) (r : Req) :
    (handleU cfg rights user s r).1.status ≥ 400 → (handleU cfg rights user s r).2 = none :=
  handleU_error cfg rights user s r

theorem error_is_identity (cfg : Cfg) (rights : Rights) (user : String) (s : Store) (r : Req)
    (h : (handle cfg rights user s r).1.status ≥ 400) : (handle cfg rights user s r).2 = s :=
  handle_error cfg rights user s r h

/-- whole request (gate included): an error leaves the store as it was after the home-collection step -/
theorem error_is_identity_request (cfg : Cfg) (rights : Rights) (user : String) (s : Store) (r : Req)
    (h : (request cfg rights user s r).1.status ≥ 400) : (request cfg rights user s r).2 = ensureHome rights user s :=
  handle_error cfg rights user (ensureHome rights user s) r h

/-- read-only methods never change anything -/
theorem reads_change_nothing (cfg : Cfg) (rights : Rights) (user : String) (s : Store) (p : Path) (d : Bool) (hs : List Path) (b : Bool) :
    (handle cfg rights user s (.get p)).2 = s ∧ (handle cfg rights user s (.propfind p d)).2 = s ∧
    (handle cfg rights user s (.multiget p hs b)).2 = s := by
  refine ⟨?_, ?_, ?_⟩
  · unfold handle; have := getU_readonly cfg rights user s p
    cases hu : handleU cfg rights user s (.get p) with
    | mk r u => simp only [handleU] at hu; rw [hu] at this; simp only at this; subst this; rfl
  · unfold handle; have := propfindU_readonly cfg rights user s p d
    cases hu : handleU cfg rights user s (.propfind p d) with
    | mk r u => simp only [handleU] at hu; rw [hu] at this; simp only at this; subst this; rfl
  · unfold handle; have := multigetU_readonly cfg rights user s p hs b
    cases hu : handleU cfg rights user s (.multiget p hs b) with
    | mk r u => simp only [handleU] at hu; rw [hu] at this; simp only at this; subst this; rfl

end C15
