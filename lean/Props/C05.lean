import RadicaleModel.Auth
import RadicaleProofs.BasicHeader
/-
  C05 — only credentials the auth back-end accepts authenticate, as exactly that user.
  `oracle` stands for passlib / bcrypt (assumed correct); `htpasswd` in the gate theorems is any back-end
  function.
-/
namespace C05
open Radicale Radicale.Auth

/-- htpasswd: a login succeeds exactly when the file has an entry for the login whose hash verifies the
    password under the configured / detected scheme — and then as exactly that login -/
theorem htpasswd_login_iff (file : List Str) (scheme : Scheme) (oracle : Oracle) (l pw l' : Str) (hl' : l' ≠ []) :
    htpasswdLogin file scheme oracle l pw = l' ↔
      l' = l ∧ ∃ h, lookup (parseFile file) l = some h ∧ verify scheme oracle h pw = some true := by
  unfold htpasswdLogin
  cases hlk : lookup (parseFile file) l with
  | none => simp [Ne.symm hl']
  | some h =>
    by_cases hv : verify scheme oracle h pw = some true
    · simp only [hv, if_true, Option.some.injEq, exists_eq_left', and_true]
      exact ⟨fun e => e.symm, fun e => e.symm⟩
    · simp only [hv, if_false, Option.some.injEq, exists_eq_left', and_false, iff_false]
      exact Ne.symm hl'

/-- no entry, or a hash that does not verify (or makes the library raise): nobody is logged in -/
theorem htpasswd_rejects (file : List Str) (scheme : Scheme) (oracle : Oracle) (l pw : Str)
    (h : ∀ hh, lookup (parseFile file) l = some hh → verify scheme oracle hh pw ≠ some true) :
    htpasswdLogin file scheme oracle l pw = [] := by
  unfold htpasswdLogin
  cases hlk : lookup (parseFile file) l with
  | none => rfl
  | some hh => simp [h hh hlk]

/-- plain scheme: the stored text must equal the password exactly (colons, blanks, non-ASCII included) -/
theorem plain_is_equality (oracle : Oracle) (h pw : Str) : verify .plain oracle h pw = some true ↔ h = pw := by
  simp [verify]

theorem resolveUser_spec (cfg : Cfg) (htpasswd : Str → Str → Str) (login pw u : Str) (hu : u ≠ [])
    (h : resolveUser cfg htpasswd login pw = u) :
    Path.safeComp u = true ∧ login ≠ [] ∧ u = backendLogin cfg htpasswd (mapLogin cfg login) pw := by
  unfold resolveUser at h
  by_cases hl : login = []
  · simp [hl, Path.safeComp] at h; exact absurd (by first | exact h | exact h.symm) hu
  · simp only [hl, if_false] at h
    split at h
    · rename_i hs; subst h; exact ⟨hs, hl, rfl⟩
    · exact absurd (by first | exact h | exact h.symm) hu

/-- the identity a handler runs under is the back-end's answer for the mapped login — never a name with a
    slash, ".", ".." — or anonymous when no login was presented -/
theorem identity_is_backends (cfg : Cfg) (htpasswd : Str → Str → Str) (env : Env) (u : Str) (hu : u ≠ [])
    (h : gate cfg htpasswd env = .handler u) :
    Path.safeComp u = true ∧
    ∃ login pw, credentials cfg env = some (login, pw) ∧ login ≠ [] ∧
      u = backendLogin cfg htpasswd (mapLogin cfg login) pw := by
  unfold gate at h
  cases hc : credentials cfg env with
  | none => simp [hc] at h
  | some lp =>
    obtain ⟨login, pw⟩ := lp
    simp only [hc] at h
    split at h
    · simp only [Outcome.handler.injEq] at h
      obtain ⟨h1, h2, h3⟩ := resolveUser_spec cfg htpasswd login pw u hu h
      exact ⟨h1, login, pw, rfl, h2, h3⟩
    · split at h <;> cases h

/-- the credentials are the external login for the two header back-ends and the Basic header otherwise -/
theorem credentials_source (cfg : Cfg) (env : Env) (login pw : Str) (h : credentials cfg env = some (login, pw)) (hl : login ≠ []) :
    (externalLogin cfg env = some login ∧ pw = []) ∨ (externalLogin cfg env = none ∧ env.header = .basic login pw) := by
  unfold credentials at h
  cases hext : externalLogin cfg env with
  | some l => simp [hext] at h; exact Or.inl ⟨by rw [h.1], h.2⟩
  | none =>
    simp only [hext] at h
    cases hh : env.header with
    | basic l p => simp [hh] at h; exact Or.inr ⟨rfl, by rw [h.1, h.2]⟩
    | malformed => simp [hh] at h
    | absent => simp [hh] at h; exact absurd (by first | exact h.1 | exact h.1.symm) hl
    | other => simp [hh] at h; exact absurd (by first | exact h.1 | exact h.1.symm) hl

/-- credentials the back-end rejects (or that map to an unsafe name) never reach a handler: the answer is 401
    whatever the method and path -/
theorem rejected_never_reaches_handler (cfg : Cfg) (htpasswd : Str → Str → Str) (env : Env) (l p : Str)
    (hext : externalLogin cfg env = none) (hh : env.header = .basic l p) (hl : l ≠ [])
    (hrej : backendLogin cfg htpasswd (mapLogin cfg l) p = [] ∨ Path.safeComp (backendLogin cfg htpasswd (mapLogin cfg l) p) = false) :
    gate cfg htpasswd env = .unauthorized := by
  have hu : resolveUser cfg htpasswd l p = [] := by
    unfold resolveUser
    simp only [hl, if_false]
    rcases hrej with hr | hr
    · simp [hr]
    · simp [hr]
  unfold gate credentials
  simp [hext, hh, hl, hu]

/-- a malformed Authorization header only makes the request fail -/
theorem malformed_authorization_fails_closed (cfg : Cfg) (htpasswd : Str → Str → Str) (env : Env)
    (hext : externalLogin cfg env = none) (hh : env.header = .malformed) : gate cfg htpasswd env = .error500 := by
  unfold gate credentials; simp [hext, hh]

/-- identity headers are ignored unless that very back-end is configured -/
theorem identity_headers_ignored (cfg : Cfg) (htpasswd : Str → Str → Str) (env : Env) (ru xru : Str)
    (hb : cfg.backend ≠ .remoteUser ∧ cfg.backend ≠ .httpXRemoteUser) :
    gate cfg htpasswd { env with remoteUser := ru, xRemoteUser := xru } = gate cfg htpasswd env := by
  unfold gate credentials externalLogin
  cases hbk : cfg.backend <;> simp_all

/-! ### from the raw `Authorization` header to the credentials (model RadicaleModel/BasicHeader.lean): the step before
    `credentials` above, which the gate model takes as already decoded -/

section BasicHeader
open Radicale.BasicHeader

/-- how the gate model's header kinds arise from the raw header text -/
def headerOf (raw : Str) : AuthHeader :=
  match parse raw with
  | .absent => if raw = [] then .absent else .other
  | .creds l p => .basic l p
  | .error => .malformed

def basicPrefix : Str := ['B', 'a', 's', 'i', 'c', ' ']

/-- **what the client sent is what the back-end is asked**: for every login without ":" and every password — colons,
    blanks, non-ASCII, empty — the header `Basic base64(utf-8(login ":" password))` is read as exactly that pair -/
theorem basic_header_read_back (l p : Str) (hl : ':' ∉ l) :
    parse (basicPrefix ++ b64encode (Quote.utf8 (l ++ ':' :: p))) = .creds l p := by
  have hch := b64encode_chars (Quote.utf8 (l ++ ':' :: p))
  have hstart : Str.startsWith (basicPrefix ++ b64encode (Quote.utf8 (l ++ ':' :: p))) "Basic".toList = true := by
    simp [basicPrefix, Str.startsWith]
  have hdrop : (basicPrefix ++ b64encode (Quote.utf8 (l ++ ':' :: p))).drop 5 = ' ' :: b64encode (Quote.utf8 (l ++ ':' :: p)) := by
    simp [basicPrefix]
  unfold parse
  rw [hstart, hdrop, pyStrip_lead_space _ (fun c hc => (hch c hc).1)]
  have hall : (b64encode (Quote.utf8 (l ++ ':' :: p))).all (fun c => decide (c.toNat < 128)) = true := by
    rw [List.all_eq_true]
    intro c hc
    simpa using (hch c hc).2
  simp only [if_true, hall, b64decode_encode, decodeText_utf8, splitColon_join l p hl]

/-- … and then the gate decides on that pair (composition with the gate model) -/
theorem basic_header_reaches_gate (l p : Str) (hl : ':' ∉ l) :
    headerOf (basicPrefix ++ b64encode (Quote.utf8 (l ++ ':' :: p))) = .basic l p := by
  simp [headerOf, basic_header_read_back l p hl]

/-- **fail closed**: a header that starts with "Basic" and cannot be read (not ASCII, a dangling base-64 group, no colon
    after decoding) ends the request with status 500 for every back-end that takes its credentials from the header —
    no handler runs, nothing is treated as anonymous -/
theorem unreadable_header_fails_closed (cfg : Cfg) (htpasswd : Str → Str → Str) (raw ru xru : Str)
    (hext : externalLogin cfg ⟨headerOf raw, ru, xru⟩ = none) (hp : parse raw = .error) :
    gate cfg htpasswd ⟨headerOf raw, ru, xru⟩ = .error500 :=
  malformed_authorization_fails_closed cfg htpasswd _ hext (by simp [headerOf, hp])

-- non-vacuity / examples: a password with colons and non-ASCII text; junk inside the base-64 text is skipped as CPython does;
-- no colon, a dangling group and non-ASCII text are errors; another scheme is not an error
example : parse "Basic Ym9iOnA6dzrDqQ==".toList = .creds "bob".toList "p:w:é".toList := by decide +kernel
example : parse "Basic  Ym9i-Onc=  ".toList = .creds "bob".toList "w".toList := by decide +kernel
example : parse "Basic bm9jb2xvbg==".toList = .error ∧ parse "Basic Ym9iOnc".toList = .error ∧ parse "Basic é".toList = .error := by
  decide +kernel
example : parse "Bearer abc".toList = .absent ∧ parse [] = .absent := by decide +kernel

end BasicHeader

/-! htpasswd_cache: `content` maps what `stat` shows (size, mtime) to the file's lines — the assumption that an
    edit always changes size or mtime (documented for the option).  Invariant: the cached table is the parse of
    the content that belongs to the remembered (size, mtime). -/
def CacheInv (content : Nat × Nat → List Str) (c : HtCache) : Prop := c.table = parseFile (content (c.size, c.mtime))

/-- one cached login answers exactly like reading the file now, and keeps the invariant -/
theorem cached_login_is_uncached (content : Nat × Nat → List Str) (c : HtCache) (hc : CacheInv content c)
    (size mtime : Nat) (scheme : Scheme) (oracle : Oracle) (l pw : Str) :
    (cachedLogin c (content (size, mtime)) size mtime scheme oracle l pw).2
        = htpasswdLogin (content (size, mtime)) scheme oracle l pw ∧
    CacheInv content (cachedLogin c (content (size, mtime)) size mtime scheme oracle l pw).1 := by
  unfold cachedLogin HtCache.refresh CacheInv at *
  by_cases h : size ≠ c.size ∨ mtime ≠ c.mtime
  · simp only [h, if_true, HtCache.load]
    exact ⟨rfl, trivial⟩
  · simp only [h, if_false]
    have hs : size = c.size := by
      by_cases e : size = c.size
      · exact e
      · exact absurd (Or.inl e) h
    have hm : mtime = c.mtime := by
      by_cases e : mtime = c.mtime
      · exact e
      · exact absurd (Or.inr e) h
    subst hs; subst hm
    refine ⟨?_, hc⟩
    unfold tableLogin htpasswdLogin
    rw [hc]

/-- every login of a history of file edits and logins answers like the uncached back-end on the file as it is at
    that moment: a removed or changed entry stops authenticating with the next request -/
theorem cached_history_is_uncached (content : Nat × Nat → List Str) (scheme : Scheme) (oracle : Oracle)
    (steps : List (Nat × Nat × Str × Str)) (c : HtCache) (hc : CacheInv content c) :
    cachedRun scheme oracle c (steps.map (fun s => (content (s.1, s.2.1), s.1, s.2.1, s.2.2.1, s.2.2.2)))
      = steps.map (fun s => htpasswdLogin (content (s.1, s.2.1)) scheme oracle s.2.2.1 s.2.2.2) := by
  induction steps generalizing c with
  | nil => rfl
  | cons s rest ih =>
    obtain ⟨size, mtime, l, pw⟩ := s
    have h := cached_login_is_uncached content c hc size mtime scheme oracle l pw
    simp only [List.map_cons, cachedRun]
    rw [h.1, ih _ h.2]

theorem cache_load_inv (content : Nat × Nat → List Str) (size mtime : Nat) :
    CacheInv content (HtCache.load (content (size, mtime)) size mtime) := rfl

-- non-vacuity
example : (cachedRun .plain (fun _ _ _ => none) (HtCache.load ["a:old".toList] 6 1)
    [(["a:new".toList], 6, 2, "a".toList, "old".toList), (["a:new".toList], 6, 2, "a".toList, "new".toList)])
    = [[], "a".toList] := by decide +kernel
example : htpasswdLogin ["# users".toList, "alice:s3:cret".toList, "alice:other".toList] .plain (fun _ _ _ => none)
    "alice".toList "s3:cret".toList = "alice".toList := by decide +kernel
example : gate ⟨.none, false, false, false⟩ (fun _ _ => []) ⟨.basic "u/../x".toList "p".toList, [], []⟩ = .unauthorized := by
  decide +kernel

end C05
