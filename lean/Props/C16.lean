import RadicaleModel.Filter
import RadicaleProofs.Prefilter
import RadicaleProofs.FreeBusy
/-
  C16 — calendar queries return exactly the matching objects.
  `Filter.Rfc` is RFC 4791 §9.9 written as predicates; the other definitions follow radicale/item/filter.py.
-/
namespace C16
open Filter

/-- VEVENT: the range emitted for an occurrence overlaps the filter iff the RFC's condition holds
    (all five lines of the table; durations are not negative) -/
theorem vevent_iff_rfc (isDatetime : Bool) (en : EvEnd) (s fs fe : Int) :
    overlaps fs fe (eventRange isDatetime en s) = true ↔ Rfc.vevent isDatetime en s fs fe := by
  cases en with
  | dtend od =>
    unfold overlaps eventRange Rfc.vevent
    simp only [Bool.and_eq_true, decide_eq_true_iff]
  | duration d =>
    by_cases hd : d > 0
    · simp [overlaps, eventRange, Rfc.vevent, hd]
    · simp [overlaps, eventRange, Rfc.vevent, hd]; omega
  | none =>
    cases isDatetime
    · simp [overlaps, eventRange, Rfc.vevent]
    · simp [overlaps, eventRange, Rfc.vevent]; omega

/-- Finding F1 as a theorem: with the original test on the seconds *field*, an event lasting exactly one day
    is missed by a range in its middle although the RFC's condition holds -/
theorem f1_whole_day_duration_missed :
    overlaps 43200 46800 (eventRangeF1 true (.duration 86400) 0) = false ∧ Rfc.vevent true (.duration 86400) 0 43200 46800 := by
  constructor
  · decide
  · simp [Rfc.vevent]

/-- VTODO, lines 1–6 of the table: some emitted range overlaps iff the RFC's condition holds -/
theorem vtodo_iff_rfc (t : Todo) (r fs fe : Int)
    (hbounded : t.hasStart = true ∨ t.hasDue = true ∨ t.hasCompleted = true)
    (hdue : ∀ d, t.dueDelta = some d → 0 ≤ d) (hc : 0 ≤ t.complDelta) :
    (todoRanges t r).any (overlaps fs fe) = true ↔ Rfc.vtodo t r fs fe := by
  unfold todoRanges Rfc.vtodo
  cases hs : t.hasStart with
  | true =>
    cases hdur : t.duration with
    | some d => simp [overlaps]; omega
    | none =>
      cases hdu : t.hasDue with
      | true =>
        have h0 : 0 ≤ t.dueDelta.getD 0 := by
          cases hx : t.dueDelta with
          | none => simp
          | some d => simpa using hdue d hx
        simp [overlaps]; omega
      | false => simp [overlaps]; omega
  | false =>
    cases hdu : t.hasDue with
    | true => simp [overlaps]; omega
    | false =>
      cases hco : t.hasCompleted with
      | false => simp [hs, hdu, hco] at hbounded
      | true =>
        cases hcr : t.hasCreated with
        | true => simp [overlaps]; omega
        | false => simp [overlaps]; omega

/-- VTODO, lines 7 and 8 (CREATED only / nothing) -/
theorem vtodo_open_iff_rfc (t : Todo) (r fs fe : Int) (h1 : t.hasStart = false) (h2 : t.hasDue = false)
    (h3 : t.hasCompleted = false) : todoOpen t r fe = some true ↔ Rfc.vtodo t r fs fe := by
  cases hcr : t.hasCreated <;> simp [todoOpen, Rfc.vtodo, h1, h2, h3, hcr]

/-- VJOURNAL, both lines -/
theorem vjournal_iff_rfc (isDatetime : Bool) (s fs fe : Int) :
    overlaps fs fe (journalRange isDatetime s) = true ↔ Rfc.vjournal isDatetime s fs fe := by
  cases isDatetime <;> simp [overlaps, journalRange, Rfc.vjournal] <;> omega

/-- The early exit of the visitor is harmless: when the ranges come with non-decreasing starts (occurrences of
    a rule, in order), stopping at the first range that starts after the filter's end loses no match. -/
theorem early_exit_sound (fs fe : Int) (rs : List Range) (hsorted : rs.Pairwise (fun a b => a.s ≤ b.s)) :
    visitMain fs fe rs = rs.any (overlaps fs fe) := by
  induction rs with
  | nil => rfl
  | cons r rest ih =>
    have hrest := (List.pairwise_cons.1 hsorted).2
    have hle := (List.pairwise_cons.1 hsorted).1
    simp only [visitMain, List.any_cons]
    by_cases ho : overlaps fs fe r = true
    · simp [ho]
    · simp only [ho, Bool.false_eq_true, if_false, Bool.false_or]
      by_cases hpast : fe < r.s
      · simp only [hpast, if_true]
        symm
        rw [Bool.eq_false_iff]
        intro hany
        obtain ⟨x, hx, hox⟩ := List.any_eq_true.1 hany
        have := hle x hx
        simp only [overlaps, Bool.and_eq_true, decide_eq_true_eq] at hox
        omega
      · simp only [hpast, if_false]
        exact ih hrest

/-- occurrences of a DAILY / WEEKLY rule with a non-negative period come in non-decreasing order -/
theorem occurrences_sorted (s : Int) (period : Int) (hp : 0 ≤ period) (n : Nat) :
    (occurrences s period n).Pairwise (· ≤ ·) := by
  induction n generalizing s with
  | zero => simp [occurrences]
  | succ n ih =>
    simp only [occurrences, List.pairwise_cons]
    refine ⟨?_, ih (s + period)⟩
    have hge : ∀ (m : Nat) (s' : Int), ∀ x ∈ occurrences s' period m, s' ≤ x := by
      intro m
      induction m with
      | zero => intro s' x hx; simp [occurrences] at hx
      | succ m ihm =>
        intro s' x hx
        simp only [occurrences, List.mem_cons] at hx
        rcases hx with rfl | hx
        · exact Int.le_refl _
        · have := ihm (s' + period) x hx; omega
    intro x hx
    have := hge n (s + period) x hx
    omega

/-- hence the whole time-range test of a recurring event is the plain "some occurrence overlaps" -/
theorem recurring_event_match (isDatetime : Bool) (en : EvEnd) (s : Int) (period : Int) (hp : 0 ≤ period) (n : Nat)
    (fs fe : Int) :
    visitMain fs fe ((occurrences s period n).map (eventRange isDatetime en)) =
      (occurrences s period n).any (fun o => overlaps fs fe (eventRange isDatetime en o)) := by
  rw [early_exit_sound, List.any_map]
  · rfl
  · rw [List.pairwise_map]
    refine (occurrences_sorted s period hp n).imp ?_
    intro a b hab
    cases en with
    | dtend od => simpa [eventRange] using hab
    | duration d => simp only [eventRange]; split <;> simpa using hab
    | none => simp only [eventRange]; split <;> simpa using hab

/-- the hull kept in the item cache encloses every visited range -/
theorem hull_encloses (rs : List Range) (h : Range) (hh : hull rs = some h) : ∀ r ∈ rs, h.s ≤ r.s ∧ r.e ≤ h.e := by
  induction rs generalizing h with
  | nil => simp [hull] at hh
  | cons r rest ih =>
    intro x hx
    simp only [hull] at hh
    cases hr : hull rest with
    | none =>
      rw [hr] at hh
      simp only [Option.some.injEq] at hh
      subst hh
      cases rest with
      | nil => simp at hx; subst hx; exact ⟨Int.le_refl _, Int.le_refl _⟩
      | cons a l =>
        simp only [hull] at hr
        cases hl : hull l <;> rw [hl] at hr <;> simp at hr
    | some h' =>
      rw [hr] at hh
      simp only [Option.some.injEq] at hh
      subst hh
      rcases List.mem_cons.1 hx with rfl | hx
      · simp only; omega
      · have := ih h' hr x hx
        simp only; omega

theorem hull_attained (rs : List Range) (h : Range) (hh : hull rs = some h) :
    (∃ r ∈ rs, r.s = h.s) ∧ (∃ r ∈ rs, r.e = h.e) := by
  induction rs generalizing h with
  | nil => simp [hull] at hh
  | cons r rest ih =>
    simp only [hull] at hh
    cases hr : hull rest with
    | none =>
      rw [hr] at hh; simp only [Option.some.injEq] at hh; subst hh
      exact ⟨⟨r, List.mem_cons_self, rfl⟩, ⟨r, List.mem_cons_self, rfl⟩⟩
    | some h' =>
      rw [hr] at hh; simp only [Option.some.injEq] at hh; subst hh
      obtain ⟨⟨a, ha, hsa⟩, ⟨b, hb, heb⟩⟩ := ih h' hr
      constructor
      · by_cases hle : r.s ≤ h'.s
        · exact ⟨r, List.mem_cons_self, by simp only; omega⟩
        · exact ⟨a, List.mem_cons_of_mem _ ha, by simp only; omega⟩
      · by_cases hle : h'.e ≤ r.e
        · exact ⟨r, List.mem_cons_self, by simp only; omega⟩
        · exact ⟨b, List.mem_cons_of_mem _ hb, by simp only; omega⟩

/-- The answer does not depend on the storage's pre-selection shortcut: for objects whose visited ranges are
    well formed (start ≤ end: since fix F37 an occurrence may take no time at all, DTEND = DTSTART) and lie strictly between the
    smallest and the largest time stamp (every date does) the shortcut report equals the full evaluation, whether or not the filter is
    "simple" (adding an always-true condition makes it non-simple) — also for an object with no visited range at all (`rs = []`,
    a VJOURNAL without DTSTART; since fix F38), given that a time range is requested (`hlim`; without one there is no time test). -/
theorem shortcut_agrees (simple : Bool) (fs fe tmin tmax : Int) (rs : List Range) (wf : ∀ r ∈ rs, r.s ≤ r.e)
    (hin : ∀ r ∈ rs, tmin < r.s ∧ r.e < tmax) (hlim : fs > tmin ∨ fe < tmax) :
    reportWithShortcut simple fs fe rs tmin tmax = rs.any (overlaps fs fe) := by
  unfold reportWithShortcut
  cases hh : hull rs with
  | none =>
    cases rs with
    | nil =>
      -- nothing visited (a VJOURNAL without DTSTART): the enclosing range is the whole time line, and since fix F38 a request
      -- with a time range is not answered from it
      have hu : decide (fs ≤ tmin ∧ fe ≥ tmax) = false := by simp only [decide_eq_false_iff_not]; omega
      simp only [Option.getD_none, prefilter, hu, List.any_nil]
      split
      · rfl
      · rename_i heq
        split at heq
        · cases heq
        · simp at heq
      · rfl
    | cons a l => simp only [hull] at hh; cases hl : hull l <;> rw [hl] at hh <;> simp at hh
  | some h =>
    simp only [Option.getD_some]
    have henc := hull_encloses rs h hh
    obtain ⟨⟨a, ha, hsa⟩, ⟨b, hb, heb⟩⟩ := hull_attained rs h hh
    simp only [prefilter]
    by_cases hmiss : (decide (h.s > fe) || decide (h.e < fs)) = true
    · simp only [hmiss, if_true]
      symm
      rw [Bool.eq_false_iff]
      intro hany
      obtain ⟨x, hx, hox⟩ := List.any_eq_true.1 hany
      have := henc x hx
      have := wf x hx
      simp only [overlaps, Bool.and_eq_true, decide_eq_true_eq] at hox
      simp only [Bool.or_eq_true, decide_eq_true_eq] at hmiss
      omega
    · simp only [hmiss, Bool.false_eq_true, if_false]
      simp only [Bool.or_eq_true, decide_eq_true_eq, not_or, Int.not_lt] at hmiss
      cases hsimple : (simple && !(h.s == fe || h.e == fs || (h.s == fs && decide (fs > tmin)) || (h.e == fe && decide (fe < tmax))) && (decide (fs ≤ tmin ∧ fe ≥ tmax) || !decide (h.s ≤ tmin ∧ h.e ≥ tmax)) && (decide (fs ≤ h.s) || decide (h.e ≤ fe))) with
      | false => rfl
      | true =>
        have hia := hin a ha
        have hib := hin b hb
        -- a shared end point is a coincidence of two dates here (all ranges lie strictly inside the time stamps): excluded
        have hns : h.s ≠ fs := by
          intro heq
          have hd : decide (fs > tmin) = true := by simp only [decide_eq_true_eq]; omega
          simp [heq, hd] at hsimple
        have hne : h.e ≠ fe := by
          intro heq
          have hd : decide (fe < tmax) = true := by simp only [decide_eq_true_eq]; omega
          simp [heq, hd] at hsimple
        simp only [Bool.and_eq_true, Bool.or_eq_true, decide_eq_true_eq, Bool.not_eq_true', Bool.or_eq_false_iff,
          beq_eq_false_iff_ne, ne_eq] at hsimple
        symm
        apply List.any_eq_true.2
        rcases hsimple.2 with h1 | h1
        · refine ⟨a, ha, ?_⟩
          have := wf a ha
          simp only [overlaps, Bool.and_eq_true, decide_eq_true_eq]
          omega
        · refine ⟨b, hb, ?_⟩
          have := wf b hb
          simp only [overlaps, Bool.and_eq_true, decide_eq_true_eq]
          omega

/-- The same for a series without end, where the enclosing range kept by the storage layer is
    `[date of the first occurrence, largest time stamp]`: the visited ranges start at most one second before that date
    (a to-do's ranges do), the first occurrence's range contains the date, and some occurrence ends after the start of
    the requested range (the series never ends).  Then the report equals the full evaluation. -/
theorem shortcut_agrees_unbounded (simple : Bool) (tmax fs fe occ0 : Int) (rs : List Range)
    (hfs : fs ≤ tmax) (hfe : fe ≤ tmax)
    (hlow : ∀ r ∈ rs, occ0 - 1 ≤ r.s) (hfirst : ∃ a ∈ rs, a.s ≤ occ0 ∧ occ0 < a.e)
    (hlater : ∃ b ∈ rs, fs < b.e ∧ occ0 ≤ b.s ∧ b.s < tmax) (tmin : Int) :
    reportUnbounded simple tmax fs fe occ0 rs tmin = rs.any (overlaps fs fe) := by
  unfold reportUnbounded
  simp only [prefilter]
  by_cases hmiss : (decide (occ0 > fe) || decide (tmax < fs)) = true
  · simp only [hmiss, if_true]
    symm
    rw [Bool.eq_false_iff]
    intro hany
    obtain ⟨x, hx, hox⟩ := List.any_eq_true.1 hany
    have := hlow x hx
    simp only [overlaps, Bool.and_eq_true, decide_eq_true_eq] at hox
    simp only [Bool.or_eq_true, decide_eq_true_eq] at hmiss
    omega
  · simp only [hmiss, Bool.false_eq_true, if_false]
    simp only [Bool.or_eq_true, decide_eq_true_eq, not_or, Int.not_lt] at hmiss
    cases hsimple : (simple && !(occ0 == fe || tmax == fs || (occ0 == fs && decide (fs > tmin)) || (tmax == fe && decide (fe < tmax))) && (decide (fs ≤ tmin ∧ fe ≥ tmax) || !decide (occ0 ≤ tmin ∧ tmax ≥ tmax)) && (decide (fs ≤ occ0) || decide (tmax ≤ fe))) with
    | false => rfl
    | true =>
      simp only [Bool.and_eq_true, Bool.or_eq_true, decide_eq_true_eq, Bool.not_eq_true', Bool.or_eq_false_iff,
        beq_eq_false_iff_ne, ne_eq] at hsimple
      symm
      apply List.any_eq_true.2
      rcases hsimple.2 with h1 | h1
      · obtain ⟨a, ha, h2, h3⟩ := hfirst
        refine ⟨a, ha, ?_⟩
        simp only [overlaps, Bool.and_eq_true, decide_eq_true_eq]
        omega
      · obtain ⟨b, hb, h2, h3, h4⟩ := hlater
        refine ⟨b, hb, ?_⟩
        simp only [overlaps, Bool.and_eq_true, decide_eq_true_eq]
        omega

/-- Finding F27 as a theorem: before the repair the pre-selection skipped an enclosing range that touches the
    requested range — a recurring to-do of zero duration whose first occurrence is the range's last instant
    (RFC 4791 9.9: `end >= DTSTART+DURATION`) was dropped although the full evaluation matches it. -/
theorem f27_touching_range_was_skipped :
    reportUnboundedStrict true 1000000 50 100 100 [⟨100, 101⟩, ⟨99, 101⟩, ⟨200, 201⟩, ⟨199, 201⟩] = false ∧
    [(⟨100, 101⟩ : Range), ⟨99, 101⟩, ⟨200, 201⟩, ⟨199, 201⟩].any (overlaps 50 100) = true ∧
    reportUnbounded true 1000000 50 100 100 [⟨100, 101⟩, ⟨99, 101⟩, ⟨200, 201⟩, ⟨199, 201⟩] (-1000000) = true := by
  decide

/-- Finding F37 as a theorem: between the repairs of F27 and F37 the pre-selection reported a match for a requested range that
    begins exactly where the enclosing range begins (or ends where it ends) — wrong for a series of events written with
    DTEND = DTSTART (occurrences take no time: RFC 4791 9.9 asks `start < DTEND`), which the full evaluation does not
    match; the repaired pre-selection hands such ranges to the full evaluation (`shortcut_agrees` now needs only
    `start ≤ end`). -/
theorem f37_shared_end_point_was_matched :
    prefilterF27 true 10 11 ⟨10, 20⟩ = some true ∧ prefilterF27 true 15 20 ⟨10, 20⟩ = some true ∧
    [(⟨10, 10⟩ : Range), ⟨20, 20⟩].any (overlaps 10 11) = false ∧ [(⟨10, 10⟩ : Range), ⟨20, 20⟩].any (overlaps 15 20) = false ∧
    hull [(⟨10, 10⟩ : Range), ⟨20, 20⟩] = some ⟨10, 20⟩ ∧
    reportWithShortcut true 10 11 [⟨10, 10⟩, ⟨20, 20⟩] 0 100 = false ∧ reportWithShortcut true 15 20 [⟨10, 10⟩, ⟨20, 20⟩] 0 100 = false := by
  decide

/-- Finding F38 as a theorem: an object for which nothing is visited (a VJOURNAL without DTSTART: RFC 4791 9.9 says it matches no
    time range) has the whole time line as its enclosing range; between the repairs of F37 and F38 the pre-selection reported
    it as matched for every request open at one end, while the full evaluation (and a request closed at both ends) does not
    match it.  The repaired pre-selection answers a request with a time range from such an enclosing range never. -/
theorem f38_undated_was_matched_for_open_ranges :
    prefilterF37 true 100 1000 ⟨0, 1000⟩ 0 1000 = some true ∧ prefilterF37 true 0 100 ⟨0, 1000⟩ 0 1000 = some true ∧
    ([] : List Range).any (overlaps 100 1000) = false ∧
    reportWithShortcut true 100 1000 [] 0 1000 = false ∧ reportWithShortcut true 0 100 [] 0 1000 = false ∧
    reportWithShortcut true 0 1000 [] 0 1000 = true := by
  decide

/-- The end points that stand for "no limit" / "no date" are exempt from the shared-end-point rule: a query without time-range
    (the whole time line) reports a contact or an undated object, whose enclosing range is the whole time line too, through the
    shortcut — as before the repair of F37 (an `addressbook-query` with an empty filter lists every contact). -/
theorem whole_range_selects_undated (tmin tmax : Int) (h : tmin < tmax) :
    prefilter true tmin tmax ⟨tmin, tmax⟩ tmin tmax = some true := by
  have h1 : ¬ (tmin > tmax) := by omega
  have h2 : ¬ (tmax < tmin) := by omega
  have h3 : (tmin == tmax) = false := by simp; omega
  have h4 : (tmax == tmin) = false := by simp; omega
  simp [prefilter, h1, h2, h3, h4]

/-- Finding F9 as a theorem: an ill-formed range (end before start) breaks the shortcut -/
theorem f9_illformed_range_breaks_shortcut :
    reportWithShortcut true 10 20 [⟨15, 5⟩, ⟨100, 200⟩] 0 1000 = true ∧ [⟨15, 5⟩, ⟨100, 200⟩].any (overlaps 10 20) = false := by
  decide

/-- adding an always-true condition anywhere in a conjunction of filter conditions never changes it -/
theorem true_conjunct_invariant (conds : List Bool) (i : Nat) :
    ((conds.take i ++ true :: conds.drop i).all id) = conds.all id := by
  rw [List.all_append, List.all_cons]
  simp only [id, Bool.true_and]
  rw [← List.all_append, List.take_append_drop]

/-! ### free-busy -/

theorem eventRange_start (isDatetime : Bool) (en : EvEnd) (s : Int) : (eventRange isDatetime en s).s = s := by
  cases en with
  | dtend od => rfl
  | duration d => simp only [eventRange]; split <;> rfl
  | none => simp only [eventRange]; split <;> rfl

/-- the ranges of a recurring event are visited in order of their start -/
theorem recurring_ranges_sorted (isDatetime : Bool) (en : EvEnd) (s : Int) (period : Int) (hp : 0 ≤ period) (n : Nat) :
    Sorted ((occurrences s period n).map (eventRange isDatetime en)) := by
  unfold Sorted
  rw [List.pairwise_map]
  have := occurrences_sorted s period hp n
  apply this.imp
  intro a b hab
  rw [eventRange_start, eventRange_start]; exact hab

/-- **free-busy lists exactly the overlapping occurrences.**  For an opaque event whose occurrences are visited
    in order, and a positive limit `max`: if fewer than `max` occurrences (overrides included) overlap the range,
    the report lists exactly those, each with its start and end, and nothing else; otherwise it is refused. -/
theorem freebusy_exact (max : Nat) (hmax : 0 < max) (fs fe : Int) (ovr main : List Range) (hs : Sorted main) :
    fbEvent true max fs fe ovr main =
      if ((ovr ++ main).filter (overlaps fs fe)).length < max then some ((ovr ++ main).filter (overlaps fs fe)) else none := by
  unfold fbEvent
  simp only [Bool.not_true, Bool.false_eq_true, if_false, hmax, if_true]
  rw [timeRangeFill_take fs fe (max + 1) (by omega) ovr main hs]
  by_cases hlt : ((ovr ++ main).filter (overlaps fs fe)).length < max
  · simp only [hlt, if_true]
    rw [List.take_of_length_le (by omega)]
    have : ¬ (((ovr ++ main).filter (overlaps fs fe)).length ≥ max) := by omega
    rw [if_neg this]
  · simp only [hlt, if_false]
    have : (List.take (max + 1) ((ovr ++ main).filter (overlaps fs fe))).length ≥ max := by
      rw [List.length_take]; omega
    rw [if_pos this]

/-- applied to a recurring event (DAILY / WEEKLY progression) -/
theorem freebusy_recurring_event (max : Nat) (hmax : 0 < max) (isDatetime : Bool) (en : EvEnd) (s period : Int) (hp : 0 ≤ period)
    (n : Nat) (fs fe : Int) (hfew : (((occurrences s period n).map (eventRange isDatetime en)).filter (overlaps fs fe)).length < max) :
    fbEvent true max fs fe [] ((occurrences s period n).map (eventRange isDatetime en)) =
      some (((occurrences s period n).map (eventRange isDatetime en)).filter (overlaps fs fe)) := by
  rw [freebusy_exact max hmax fs fe [] _ (recurring_ranges_sorted isDatetime en s period hp n)]
  simp only [List.nil_append, hfew, if_true]

/-- transparent events never appear -/
theorem freebusy_transparent (max : Nat) (fs fe : Int) (ovr main : List Range) : fbEvent false max fs fe ovr main = some [] := by
  simp [fbEvent]

/-- observation (not a listed finding): with `max_freebusy_occurrence = 0` the limit test `len >= 0` refuses every
    report on a calendar that has an opaque event -/
theorem freebusy_limit_zero_refuses (fs fe : Int) (ovr main : List Range) : fbEvent true 0 fs fe ovr main = none := by
  simp [fbEvent]

/-! ### the structure of the filter: `simplify_prefilters` (model RadicaleModel/Prefilter.lean) -/

/-- **"simple" means the simplified condition is the filter.**  When `simplify_prefilters` reports the filter as simple,
    then for every calendar object all filter elements hold (`comp_match`) exactly if its component type is the returned
    one and its time-range test holds for the returned range.  Hence an object that the storage pre-selection reports as
    fully matched does match the filter itself, for every shape of filter (several filter elements, sibling
    comp-filters, prop-filters before or after the time-range, is-not-defined, unsupported components, unknown
    elements — none of them is "simple"). -/
theorem simple_means_equivalent (it : Radicale.Prefilter.ItemView) (tmin tmax : Int) (flat : List Radicale.Prefilter.Flt)
    (hname : it.name = "VCALENDAR") (hcomp : it.component ≠ "") (hfull : it.tr tmin tmax = true)
    (hs : (Radicale.Prefilter.simplify "VCALENDAR" tmin tmax flat).simple = true) :
    Radicale.Prefilter.allMatch it flat =
      some (Radicale.Prefilter.simplifiedMatch it (Radicale.Prefilter.simplify "VCALENDAR" tmin tmax flat)) :=
  Radicale.Prefilter.simple_sound it tmin tmax flat hname hcomp hfull hs

-- two sibling comp-filters below VCALENDAR are not simple (seed C16e removed exactly this test)
example : (Radicale.Prefilter.simplify "VCALENDAR" 0 100
    [.comp "VCALENDAR" [.comp "VEVENT" [], .comp "VEVENT" [.timeRange 10 20]]]).simple = false := by decide
example : Radicale.Prefilter.simplify "VCALENDAR" 0 100 [.comp "VCALENDAR" [.comp "VEVENT" [.timeRange 10 20]]]
    = ⟨some "VEVENT", 10, 20, true⟩ := by decide

end C16
