import Generated.LockShape
/-
  C11 (static part, regenerated from the source on every run): leaving a lock section by an exception undoes the same
  bookkeeping as leaving it normally.  `Generated.lockSections` is harness/lockshape.py's translation of the current
  pathutils.py / multifilesystem_nolock.py / multifilesystem/lock.py.
-/
namespace C11Shape
open Radicale.LockShape

/-- whatever the section: if nothing that was written on the way in is undone only after the `yield` outside a `finally:`,
    an exception in the body leaves exactly what a normal return leaves -/
theorem release_on_exception_general (s : Section) (h : ∀ a ∈ s.setBefore, a ∉ s.resetAfter) :
    leftSet s .exception = leftSet s .normal := by
  simp only [leftSet]
  apply List.filter_congr
  intro a ha
  have hn : a ∉ s.resetAfter := h a ha
  simp [hn]

/-- the current lock sections: every attribute written on the way in is written again in a `finally:` — an exception in the body
    leaves no bookkeeping behind (seed C02i moved the writes out of the `finally:`) -/
theorem c11_current_sections_release_on_exception :
    ∀ s ∈ Generated.lockSections, leftSet s .exception = [] ∧ leftSet s .normal = [] := by
  decide

/-- the translator found the three lock classes the dynamic part of the check drives (it did not silently translate nothing) -/
theorem c11_translated_the_lock_classes :
    ∀ n ∈ ["radicale/pathutils.py:RwLock.acquire", "radicale/storage/multifilesystem_nolock.py:RwLock.acquire",
           "radicale/storage/multifilesystem_nolock.py:LockDict.acquire", "radicale/storage/multifilesystem/lock.py:StoragePartLock.acquire_lock"],
      n ∈ Generated.lockSections.map (·.name) := by
  decide

/-- … and each of them takes effect: the three lock classes write bookkeeping on the way in -/
theorem c11_lock_classes_keep_bookkeeping :
    ∀ s ∈ Generated.lockSections, (s.name = "radicale/pathutils.py:RwLock.acquire" ∨
      s.name = "radicale/storage/multifilesystem_nolock.py:RwLock.acquire" ∨
      s.name = "radicale/storage/multifilesystem_nolock.py:LockDict.acquire") → s.setBefore ≠ [] := by
  decide

end C11Shape
