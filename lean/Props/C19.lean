import RadicaleProofs.SkeletonXml
import Generated.Skeleton
/-
  C19 — hostile XML request bodies are inert   (partial: the parser itself is a C library and is not modelled).

  What is proved, on the skeleton regenerated from /repo/radicale/app/*.py on every run:
   * in every execution of every `do_*` handler the request body is parsed before the storage lock is taken and
     before any storage call (`c19_handlers_parse_first`, from the sound static check `xmlFirst`);
   * the five XML-accepting methods do parse through `_read_xml_request_body`, and the only XML parser call in
     radicale/app, xmlutils.py and httputils.py is `DefusedET.fromstring` with `DefusedET` = defusedxml.ElementTree.
  What is assumed (trusted base): defusedxml + expat raise on every entity declaration before expanding or
  resolving anything, in bounded time.  The run-time part of the check observes exactly that on an attack grammar.
-/
namespace C19
open Radicale.Skeleton

/-- soundness of the static check, for every skeleton and execution -/
theorem xml_first_sound (sk : Sk) (hc : xmlFirst sk = true) (h : Held) (t : Trace) (o : Outcome) (hx : Exec sk h t o) :
    ∀ t1 hx' t2, t = t1 ++ (Ev.xml, hx') :: t2 → ∀ p ∈ t1, touch p.1 = false :=
  xmlFirst_sound sk h t o hx hc

/-- the current tree: every handler passes the check -/
theorem c19_current_tree : ∀ p ∈ Generated.doHandlers, xmlFirst p.2 = true := by decide +kernel

/-- hence: whenever a handler parses the request body, nothing before it has touched the storage or its lock -/
theorem c19_handlers_parse_first (name : String) (sk : Sk) (hm : (name, sk) ∈ Generated.doHandlers)
    (t : Trace) (o : Outcome) (hx : Exec sk none t o) :
    ∀ t1 hx' t2, t = t1 ++ (Ev.xml, hx') :: t2 → ∀ p ∈ t1, touch p.1 = false :=
  xml_first_sound sk (c19_current_tree (name, sk) hm) none t o hx

/-- the XML-accepting methods read their body through `_read_xml_request_body` -/
theorem c19_xml_methods_parse :
    ∀ m ∈ ["PROPFIND", "PROPPATCH", "REPORT", "MKCOL", "MKCALENDAR"],
      (Generated.doHandlers.find? (fun p => p.1 == m)).any (fun p => hasXml p.2) = true := by decide +kernel

/-- and nothing else in the request path parses XML text: one call site, defusedxml's `fromstring` -/
theorem c19_only_defusedxml :
    Generated.xmlParserCalls = [("radicale/app/base.py", "DefusedET.fromstring")] ∧
    Generated.defusedETModule = "defusedxml.ElementTree" := by decide

-- the check is not vacuous
example : xmlFirst (.seq (.lock .r (.ev .read)) (.ev .xml)) = false := by decide
example : xmlFirst (.lock .w (.seq (.ev .xml) (.ev .write))) = false := by decide
example : xmlFirst (.seq (.try_ (.ev .xml) .ret) (.lock .w (.ev .write))) = true := by decide

end C19
