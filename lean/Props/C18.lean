import RadicaleProofs.Quote
import RadicaleProofs.Sanitize
import RadicaleProofs.UrlSplit
import RadicaleProofs.Netloc
/-
  C18 — every name the server hands out or accepts round-trips through URL encoding.
  Property theorems only; helper lemmas live in RadicaleProofs.
-/
namespace C18
open Radicale Radicale.Quote Radicale.Path

/-- `unquote ∘ quote = id` for every string of Unicode scalar values. -/
theorem unquote_quote (s : Str) : unquote (quote s) = s := Quote.unquote_quote s

/-- Everything `quote` emits is an unreserved character, "/", or part of a %XX triplet; in particular no
    "?", "#" or ";" survives, so the path part of an emitted href is the href itself. -/
theorem quote_is_urlpath (s : Str) :
    ∀ c ∈ quote s, urlPathChar c = true ∧ c ≠ '?' ∧ c ≠ '#' ∧ c ≠ ';' := Quote.quote_chars s

/-- An emitted href, sent back on the request line, decodes to the very string that was encoded. -/
theorem emitted_href_addresses (basePrefix path : Str) :
    decodeRequestLine (makeHref basePrefix path) = basePrefix ++ path := by
  unfold decodeRequestLine makeHref
  rw [takeWhile_all]
  · exact Quote.unquote_quote _
  · intro c hc
    simpa using (Quote.quote_chars _ c hc).2.1

/-- … and after the gate's `sanitize_path` it is the sanitised path the href was made from. -/
theorem emitted_href_reaches_resource (p : Str) :
    gatePath (decodeRequestLine (makeHref [] (sanitize p))) = sanitize p := by
  rw [emitted_href_addresses]
  simp [gatePath, sanitize_idem]

/-- multiget hrefs are decoded exactly like the request line -/
theorem multiget_decodes_same (basePrefix path : Str) :
    decodeMultigetHref (makeHref basePrefix path) = sanitize (basePrefix ++ path) := by
  simp [decodeMultigetHref, makeHref, Quote.unquote_quote]

/-- the MOVE Destination (repaired behaviour, fix F12) is decoded exactly like the request line -/
theorem destination_decodes_same (basePrefix path : Str) :
    decodeDestination true (makeHref basePrefix path) = sanitize (basePrefix ++ path) := by
  simp [decodeDestination, makeHref, Quote.unquote_quote]

/-- The three decoders agree on *every* client-supplied URL path without a query part. -/
theorem three_decoders_agree (u : Str) (h : '?' ∉ u) :
    gatePath (decodeRequestLine u) = decodeMultigetHref u ∧
    decodeDestination true u = decodeMultigetHref u := by
  have : u.takeWhile (· ≠ '?') = u := by
    apply takeWhile_all
    intro c hc
    simp only [ne_eq, decide_not, Bool.not_eq_eq_eq_not, Bool.not_true, decide_eq_false_iff_not]
    exact fun e => h (e ▸ hc)
  unfold gatePath decodeRequestLine decodeMultigetHref decodeDestination
  rw [this]
  simp

/-- Finding F12 as a theorem: without `unquote` the Destination decoder disagrees with the request line. -/
theorem destination_undecoded_witness :
    decodeDestination false (makeHref [] "/u/cal/my event.ics".toList) ≠ "/u/cal/my event.ics".toList := by
  decide +kernel

/-! ### from the URL to its path: `urlsplit(...).path` (MOVE `Destination`, multiget `D:href`), model RadicaleModel/UrlSplit.lean -/

section UrlSplit
open Radicale.UrlSplit

/-- **the URL splitting step keeps the path**: for an absolute `http://` / `https://` URL whose path starts with "/"
    and has no "?", "#", tab, CR or LF, the path handed to the decoder is the path as written — every other
    character, ";" included, stays where it is -/
theorem url_path_kept (host p : Str) (hh : ∀ c ∈ host, isDelim c = false ∧ removed c = false)
    (hp : p.head? = some '/') (hc : ∀ c ∈ p, c ≠ '?' ∧ c ≠ '#' ∧ removed c = false) :
    urlsplitPath (httpPrefix ++ (host ++ p)) = p ∧ urlsplitPath (httpsPrefix ++ (host ++ p)) = p :=
  ⟨urlsplitPath_http host p hh hp hc, urlsplitPath_https host p hh hp hc⟩

/-- **an emitted href, sent back as an absolute URL in `Destination` or in a multiget `D:href`, reaches the resource
    it was made from** (the full chain: split, unquote, sanitize) -/
theorem emitted_href_as_url_reaches_resource (host basePrefix path : Str)
    (hh : ∀ c ∈ host, isDelim c = false ∧ removed c = false) (hp : (basePrefix ++ path).head? = some '/') :
    decodeDestinationUrl (httpPrefix ++ (host ++ makeHref basePrefix path)) = sanitize (basePrefix ++ path) ∧
    decodeMultigetUrl (httpPrefix ++ (host ++ makeHref basePrefix path)) = sanitize (basePrefix ++ path) := by
  have hsplit : urlsplitPath (httpPrefix ++ (host ++ makeHref basePrefix path)) = makeHref basePrefix path := by
    apply urlsplitPath_http host _ hh
    · exact quote_head_slash _ hp
    · intro c hc
      have := Quote.quote_chars _ c hc
      exact ⟨this.2.1, this.2.2.1, urlPathChar_not_removed c this.1⟩
  unfold decodeDestinationUrl decodeMultigetUrl
  rw [hsplit]
  exact ⟨destination_decodes_same basePrefix path, multiget_decodes_same basePrefix path⟩

/-- a client need not encode ";" (a sub-delimiter of RFC 3986): the name with the ";" is reached -/
example : decodeDestinationUrl "http://127.0.0.1/u/cal/a;b.ics".toList = "/u/cal/a;b.ics".toList := by decide +kernel

/-- Finding F28 as a theorem: `urlparse(...).path`, used before the fix, cuts the last segment at its first ";" —
    the Destination `…/a;b.ics` addressed the resource `a` -/
theorem f28_urlparse_cuts_the_name :
    urlparsePath "http://127.0.0.1/u/cal/a;b.ics".toList = "/u/cal/a".toList ∧
    urlsplitPath "http://127.0.0.1/u/cal/a;b.ics".toList = "/u/cal/a;b.ics".toList := by decide +kernel

-- non-vacuity of the hypotheses: a host with a port, a path with ";" and "+"
example : (∀ c ∈ "127.0.0.1:5232".toList, isDelim c = false ∧ removed c = false) ∧
    ("/u/c/a;b+c.ics".toList).head? = some '/' ∧ (∀ c ∈ "/u/c/a;b+c.ics".toList, c ≠ '?' ∧ c ≠ '#' ∧ removed c = false) := by decide

end UrlSplit

/-! ### is the Destination on this server?  (`get_server_netloc`, model RadicaleModel/Netloc.lean) -/

section Netloc
open Radicale.UrlSplit Radicale.Netloc

/-- **behind a reverse proxy**: the proxy passes the host the client used in `X-Forwarded-Host` (and the scheme in
    `X-Forwarded-Proto` or not at all) and no `X-Forwarded-Port`; a Destination on that host with that scheme is this
    server — whatever `Host`, SERVER_NAME and SERVER_PORT the proxy's own connection has (the code as repaired by F30) -/
theorem proxied_destination_is_local (h p : Str) (hh : PlainHost h) (hp : p.head? = some '/') (hpr : ∀ c ∈ p, removed c = false)
    (httpHost serverName scheme port : Str) :
    verdict true ⟨h, [], none, httpHost, serverName, scheme, port⟩ (httpPrefix ++ (h ++ p)) = .local ∧
    verdict true ⟨h, Netloc.http, none, httpHost, serverName, scheme, port⟩ (httpPrefix ++ (h ++ p)) = .local ∧
    verdict true ⟨h, Netloc.https, none, httpHost, serverName, scheme, port⟩ (httpsPrefix ++ (h ++ p)) = .local := by
  obtain ⟨hne, hc⟩ := hh
  have hd := dest_http h p (fun c hm => ⟨(hc c hm).1, (hc c hm).2.1⟩) hp hpr
  have hds := dest_https h p (fun c hm => ⟨(hc c hm).1, (hc c hm).2.1⟩) hp hpr
  have hpm := portMissing_plain h (fun c hm => (hc c hm).2.2)
  have hhp := hasPort_false h (fun c hm => (hc c hm).2.2)
  have hne' : (h != []) = true := by simpa using hne
  refine ⟨?_, ?_, ?_⟩
  · simp [verdict, serverNetloc, destNetloc, hd.1, hd.2, hpm, hhp, hne', Netloc.http, Netloc.https, defaultPort]
  · simp [verdict, serverNetloc, destNetloc, hd.1, hd.2, hpm, hhp, hne', Netloc.http, Netloc.https, defaultPort]
  · simp [verdict, serverNetloc, destNetloc, hds.1, hds.2, hpm, hhp, hne', Netloc.http, Netloc.https, defaultPort]

/-- **without a proxy**: the client addressed the server as `Host: h` on the scheme's default port; a Destination on
    `http://h/…` (resp. `https://h/…`) is this server -/
theorem direct_destination_is_local (h p : Str) (hh : PlainHost h) (hp : p.head? = some '/') (hpr : ∀ c ∈ p, removed c = false)
    (serverName : Str) (xfPort : Option Str) (xfProto : Str) :
    verdict true ⟨[], xfProto, xfPort, h, serverName, Netloc.http, ['8', '0']⟩ (httpPrefix ++ (h ++ p)) = .local ∧
    verdict true ⟨[], xfProto, xfPort, h, serverName, Netloc.https, ['4', '4', '3']⟩ (httpsPrefix ++ (h ++ p)) = .local := by
  obtain ⟨hne, hc⟩ := hh
  have hd := dest_http h p (fun c hm => ⟨(hc c hm).1, (hc c hm).2.1⟩) hp hpr
  have hds := dest_https h p (fun c hm => ⟨(hc c hm).1, (hc c hm).2.1⟩) hp hpr
  have hpm := portMissing_plain h (fun c hm => (hc c hm).2.2)
  have hhp := hasPort_false h (fun c hm => (hc c hm).2.2)
  have hne' : (h != []) = true := by simpa using hne
  refine ⟨?_, ?_⟩
  · simp [verdict, serverNetloc, destNetloc, hd.1, hd.2, hpm, hhp, hne', Netloc.http, Netloc.https, defaultPort]
  · simp [verdict, serverNetloc, destNetloc, hds.1, hds.2, hpm, hhp, hne', Netloc.http, Netloc.https, defaultPort]

/-- Finding F30 as a theorem: before the fix every MOVE through a proxy that sends `X-Forwarded-Host` without
    `X-Forwarded-Port` ended in a KeyError (status 500), wherever the Destination pointed -/
theorem f30_forwarded_host_without_port_failed (h : Str) (hne : h ≠ []) (xfProto httpHost serverName scheme port dest : Str) :
    verdict false ⟨h, xfProto, none, httpHost, serverName, scheme, port⟩ dest = .error := by
  have hne' : (h != []) = true := by simpa using hne
  simp [verdict, serverNetloc, hne']

-- non-vacuity and the other verdicts: another host is remote; an explicit port is compared as written
example : PlainHost "cal.example.org".toList := by
  refine ⟨by decide, ?_⟩; decide
example : verdict true ⟨[], [], none, "a.example".toList, [], Netloc.http, "80".toList⟩ "http://b.example/u/c/x.ics".toList = .remote := by
  decide +kernel
example : verdict true ⟨[], [], none, "a.example:5232".toList, [], Netloc.http, "5232".toList⟩ "http://a.example:5232/u/c/x.ics".toList = .local := by
  decide +kernel

end Netloc

/-- sanitised paths are fixed points of `sanitize_path` (used above; also a C06 fact) -/
theorem sanitize_idempotent (p : Str) : sanitize (sanitize p) = sanitize p := sanitize_idem p

-- non-vacuity: the statements speak about non-trivial names
example : quote "/a b/é%.ics".toList = "/a%20b/%C3%A9%25.ics".toList := by decide +kernel
example : unquote "/a%20b/%C3%A9%25.ics".toList = "/a b/é%.ics".toList := by decide +kernel
example : sanitize "//a/../b/./c/".toList = "/b/c/".toList := by decide +kernel

end C18
