import RadicaleProofs.Quote
import RadicaleProofs.Sanitize
/-
  C18 — every name the server hands out or accepts round-trips through URL encoding.
  Property theorems only; helper lemmas live in RadicaleProofs.
-/
namespace C18
open Radicale Radicale.Quote Radicale.Path

/-- `unquote ∘ quote = id` for every string of Unicode scalar values. -/
theorem unquote_quote (s : Str) : unquote (quote s) = s := Quote.unquote_quote s

/-- Everything `quote` emits is an unreserved character, "/", or part of a %XX triplet; in particular no
    "?", "#" or ";" survives, so `urlparse(...).path` of an emitted href is the href itself. -/
theorem quote_is_urlpath (s : Str) :
    ∀ c ∈ quote s, urlPathChar c = true ∧ c ≠ '?' ∧ c ≠ '#' ∧ c ≠ ';' := Quote.quote_chars s

/-- An emitted href, sent back on the request line, decodes to the very string that was encoded. -/
theorem emitted_href_addresses (basePrefix path : Str) :
    decodeRequestLine (makeHref basePrefix path) = basePrefix ++ path := by
  unfold decodeRequestLine makeHref
  rw [takeWhile_all]
  · exact Quote.unquote_quote _
  · intro c hc
    simpa using (Quote.quote_chars _ c hc).2.1

/-- … and after the gate's `sanitize_path` it is the sanitised path the href was made from. -/
theorem emitted_href_reaches_resource (p : Str) :
    gatePath (decodeRequestLine (makeHref [] (sanitize p))) = sanitize p := by
  rw [emitted_href_addresses]
  simp [gatePath, sanitize_idem]

/-- multiget hrefs are decoded exactly like the request line -/
theorem multiget_decodes_same (basePrefix path : Str) :
    decodeMultigetHref (makeHref basePrefix path) = sanitize (basePrefix ++ path) := by
  simp [decodeMultigetHref, makeHref, Quote.unquote_quote]

/-- the MOVE Destination (repaired behaviour, fix F12) is decoded exactly like the request line -/
theorem destination_decodes_same (basePrefix path : Str) :
    decodeDestination true (makeHref basePrefix path) = sanitize (basePrefix ++ path) := by
  simp [decodeDestination, makeHref, Quote.unquote_quote]

/-- The three decoders agree on *every* client-supplied URL path without a query part. -/
theorem three_decoders_agree (u : Str) (h : '?' ∉ u) :
    gatePath (decodeRequestLine u) = decodeMultigetHref u ∧
    decodeDestination true u = decodeMultigetHref u := by
  have : u.takeWhile (· ≠ '?') = u := by
    apply takeWhile_all
    intro c hc
    simp only [ne_eq, decide_not, Bool.not_eq_eq_eq_not, Bool.not_true, decide_eq_false_iff_not]
    exact fun e => h (e ▸ hc)
  unfold gatePath decodeRequestLine decodeMultigetHref decodeDestination
  rw [this]
  simp

/-- Finding F12 as a theorem: without `unquote` the Destination decoder disagrees with the request line. -/
theorem destination_undecoded_witness :
    decodeDestination false (makeHref [] "/u/cal/my event.ics".toList) ≠ "/u/cal/my event.ics".toList := by
  decide +kernel

/-- sanitised paths are fixed points of `sanitize_path` (used above; also a C06 fact) -/
theorem sanitize_idempotent (p : Str) : sanitize (sanitize p) = sanitize p := sanitize_idem p

-- non-vacuity: the statements speak about non-trivial names
example : quote "/a b/é%.ics".toList = "/a%20b/%C3%A9%25.ics".toList := by decide +kernel
example : unquote "/a%20b/%C3%A9%25.ics".toList = "/a b/é%.ics".toList := by decide +kernel
example : sanitize "//a/../b/./c/".toList = "/b/c/".toList := by decide +kernel

end C18
