import RadicaleProofs.TraceSync
/-
  C12 — acknowledged writes are durable: data is synced before it becomes visible.
  `syncOrdered` (RadicaleModel/Trace.lean) is the ordering rule as a monitor over a trace: when an
  operation makes something visible, no written file and no directory at or below the moved source is
  unsynced; afterwards every directory whose visible entries changed is synced; nothing is pending at the
  end.  Each storage call's trace (fsync enabled, the default) obeys it, for all names and any number of items.
-/
namespace C12
open Radicale Radicale.Trace

theorem upload_sync_ordered (coll : FPath) (href : Comp) (k : Nat) :
    syncOrdered (upload true coll href k) = true := atomicWrite_syncOrdered coll href k

theorem set_meta_sync_ordered (coll : FPath) (k : Nat) :
    syncOrdered (setMeta true coll k) = true := atomicWrite_syncOrdered coll propsName k

theorem delete_item_sync_ordered (coll : FPath) (href : Comp) :
    syncOrdered (deleteItem true coll href) = true := deleteItem_syncOrdered coll href

theorem delete_collection_sync_ordered (parent : FPath) (name : Comp) (empty : Bool) (k : Nat)
    (hv : hidden (parent ++ [name]) = false) :
    syncOrdered (deleteColl true (parent ++ [name]) empty k) = true := deleteColl_syncOrdered parent name empty k hv

theorem move_sync_ordered (c1 : FPath) (h1 : Comp) (c2 : FPath) (h2 : Comp)
    (hv : hidden (c2 ++ [h2]) = false) (h1v : isTmp h1 = false) :
    syncOrdered (move true c1 h1 c2 h2) = true := move_syncOrdered c1 h1 c2 h2 hv h1v

theorem makedirs_sync_ordered (p : FPath) : syncOrdered (makedirs true p 1) = true := makedirs_syncOrdered p

/-- whole-collection uploads of n items, for every n (induction on the item list inside) -/
theorem create_collection_sync_ordered (parent : FPath) (name : Comp) (items : Option (List Comp))
    (hitems : ∀ hs, items = some hs → ∀ h ∈ hs, isTmp h = false)
    (missing : Nat) (hm : missing ≤ 1) (existsTarget : Bool) (k : Nat) (cacheInColl : Bool)
    (hv : hidden (parent ++ [name]) = false) (hnt : isTmp name = false) :
    syncOrdered (createCollection true (parent ++ [name]) true items missing existsTarget k cacheInColl) = true :=
  createCollection_syncOrdered parent name items hitems missing hm existsTarget k cacheInColl hv hnt

/-- the rule has teeth: the same traces with syncing switched off are rejected, and so is a trace in which
    the file is synced only after the rename -/
theorem upload_without_fsync_rejected :
    syncOrdered (upload false ["collection-root".toList, "u".toList] "a.ics".toList 0) = false := by decide +kernel

theorem sync_after_rename_rejected :
    let d : FPath := ["collection-root".toList, "u".toList]
    let t := d ++ [tmpName 0]
    syncOrdered [.mkdir t, .openw (t ++ ["a".toList]), .write (t ++ ["a".toList]),
      .rename (t ++ ["a".toList]) (d ++ ["a".toList]), .fsync (d ++ ["a".toList]), .rmtree t, .fsync d] = false := by
  decide +kernel

theorem missing_dir_sync_rejected :
    let d : FPath := ["collection-root".toList, "u".toList]
    syncOrdered [.unlink (d ++ ["a".toList])] = false := by decide +kernel

end C12
