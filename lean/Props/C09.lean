import RadicaleProofs.Conc
import RadicaleProofs.TmpNames
/-
  C09 — concurrent requests behave as if executed one at a time.

  Model: RadicaleModel/Conc.lean — any number of threads, each executing one lock window (mode + list of
  micro-operations on the abstract store) under the readers-writer lock, interleaved arbitrarily at the granularity
  of single micro-operations.  The lock's correctness is C11, "all storage access is inside windows" is C10,
  "shared windows do not change the abstract store" is C13 (`ReadOnly`).
  Result: every reachable configuration is explained by running the windows one after the other in the order
  in which they acquired the lock; that order respects real time.  A request that consists of one window is
  therefore linearizable.  Requests of a user's first login consist of three windows — finding F6 below.
-/
namespace C09
open Radicale Radicale.Conc

variable {σ Obs : Type}

/-- **windows are linearizable**: in any reachable configuration, every finished window observed exactly what
    it observes when the windows run one at a time in acquisition order, and — when nobody is inside — the store
    is the one that serial execution leaves -/
theorem windows_linearizable (ws : Nat → Window σ Obs) (hro : ReadOnly ws) (s0 : σ) (c : Config σ Obs) (hr : Reach ws s0 c) :
    (∀ i b, (i, b) ∈ serialTrace ws (c.acq.map (·.1)) s0 → c.st i = .done → c.obs i = (runBody (ws i).ops b).2) ∧
    ((∀ j, isRunning (c.st j) = false) → c.s = serialFinal ws (c.acq.map (·.1)) s0) := by
  have hi := inv_reach ws hro s0 c hr
  constructor
  · intro i b hmem hd
    rw [← hi.trace] at hmem
    exact hi.obsDone i b hmem hd
  · intro hq
    exact hi.quiet (fun j hj => by rw [hq j] at hj; cases hj)

/-- **no reader sees a partially applied write**: all observations of a finished shared window were made on one
    and the same store, the one serial execution gives it -/
theorem readers_see_one_state (ws : Nat → Window σ Obs) (hro : ReadOnly ws) (s0 : σ) (c : Config σ Obs) (hr : Reach ws s0 c)
    (i : Nat) (b : σ) (hmem : (i, b) ∈ serialTrace ws (c.acq.map (·.1)) s0) (hd : c.st i = .done) (hm : (ws i).mode = .r) :
    c.obs i = (ws i).ops.map (fun op => (op b).2) := by
  rw [(windows_linearizable ws hro s0 c hr).1 i b hmem hd]
  have hops := hro i hm
  generalize (ws i).ops = ops at hops
  induction ops with
  | nil => rfl
  | cons op rest ih =>
    simp only [runBody, List.map_cons]
    rw [hops op (by simp) b]
    rw [ih (fun o ho => hops o (List.mem_cons_of_mem _ ho))]

/-- **real-time order**: a window that has finished when another one acquires the lock precedes it in the
    serial order -/
theorem real_time_order (ws : Nat → Window σ Obs) (hro : ReadOnly ws) (s0 : σ) (c : Config σ Obs) (hr : Reach ws s0 c)
    (i j : Nat) (hdone : c.st i = .done) (hwait : c.st j = .waiting) (b : σ) :
    ∃ pre post, (c.acq ++ [(j, b)]).map (·.1) = pre ++ i :: post ++ [j] ∧ j ∉ pre ++ i :: post := by
  have hi := inv_reach ws hro s0 c hr
  have hin : i ∈ c.acq.map (·.1) := hi.acquired i (by rw [hdone]; simp)
  obtain ⟨pre, post, hsplit⟩ := List.append_of_mem hin
  refine ⟨pre, post, by simp [hsplit], ?_⟩
  rw [← hsplit]
  exact hi.waiting j hwait

/-- **an acknowledged write is not lost**: the store a later window starts from is the serial store, which
    contains the complete effect of every exclusive window that finished before -/
theorem later_windows_start_from_serial_state (ws : Nat → Window σ Obs) (l : List Nat) (j : Nat) (s0 : σ) :
    serialTrace ws (l ++ [j]) s0 = serialTrace ws l s0 ++ [(j, serialFinal ws l s0)] :=
  serialTrace_append ws l j s0

/-- mutual exclusion as the model sees it: two windows are inside at the same time only if both are shared -/
theorem inside_together_only_readers (ws : Nat → Window σ Obs) (hro : ReadOnly ws) (s0 : σ) (c : Config σ Obs) (hr : Reach ws s0 c)
    (i j : Nat) (hne : i ≠ j) (hi : isRunning (c.st i) = true) (hj : isRunning (c.st j) = true) :
    (ws i).mode = .r ∧ (ws j).mode = .r :=
  (inv_reach ws hro s0 c hr).excl i j hne hi hj

/-! ### finding F6: a first-login request is three windows, and is not linearizable as a whole

  store = "does the home collection exist"; thread 0,1,2 = the three windows of `PROPFIND /u/` by a new user
  (look-up under the shared lock, creation under the exclusive lock, the handler under the shared lock);
  thread 3 = `DELETE /u/`.  Observations: 1 = found / 200, 0 = not found / 404. -/

def f6 : Nat → Window Bool Nat
  | 0 => ⟨.r, [fun s => (s, if s then 1 else 0)]⟩
  | 1 => ⟨.w, [fun _ => (true, 1)]⟩
  | 2 => ⟨.r, [fun s => (s, if s then 1 else 0)]⟩
  | _ => ⟨.w, [fun s => (false, if s then 1 else 0)]⟩

/-- the schedule look-up, create, DELETE, handler: the handler answers 404 and the DELETE 200 … -/
theorem f6_interleaved : (serialTrace f6 [0, 1, 3, 2] false).map (fun p => (p.1, (runBody (f6 p.1).ops p.2).2))
    = [(0, [0]), (1, [1]), (3, [1]), (2, [0])] := by decide
/-- … which neither one-at-a-time order of the two requests produces -/
theorem f6_no_serial_order :
    (serialTrace f6 [0, 1, 2, 3] false).map (fun p => (p.1, (runBody (f6 p.1).ops p.2).2)) = [(0, [0]), (1, [1]), (2, [1]), (3, [1])] ∧
    (serialTrace f6 [3, 0, 1, 2] false).map (fun p => (p.1, (runBody (f6 p.1).ops p.2).2)) = [(3, [0]), (0, [0]), (1, [1]), (2, [1])] := by
  decide

-- non-vacuity of the model: a reachable configuration with two readers inside at once
example : ∃ c : Config Bool Nat, Reach f6 false c ∧ isRunning (c.st 0) = true ∧ isRunning (c.st 2) = true := by
  refine ⟨_, .step _ _ (.step _ _ .init (.acquire _ 0 rfl ?_)) (.acquire _ 2 rfl ?_), ?_, ?_⟩
  · intro j hj; simp [isRunning] at hj
  · intro j hj
    simp only [upd] at hj
    by_cases h : j = 0
    · subst h; exact ⟨rfl, rfl⟩
    · simp [h, isRunning] at hj
  · simp [upd, isRunning]
  · simp [upd, isRunning]

/-! ### writes inside a shared window (model RadicaleModel/TmpNames.lean): readers write too — `sync()` its token and history files, `_get`
    its cache entries — side by side under the shared lock.  They behave as if done one at a time because every `_atomic_write` has
    a temporary name of its own (seed C09j gave all writes of one process and directory the same one). -/
section SharedWindowWrites
open Radicale.TmpNames

/-- any number of writers, any interleaving of their `create` / `rename` calls in which each writer alternates the two: with pairwise
    different temporary names, none of which is the target, no call fails and every writer in the middle of a write finds its own
    file with its own content -/
theorem concurrent_atomic_writes_never_fail (t c : Nat → Nat) (g : Nat) (ht : ∀ i j, t i = t j → i = j) (hg : ∀ i, t i ≠ g)
    (fs0 : FS) (es : List Ev) (hw : WellFormed es) :
    ∃ fs, runRev t c g fs0 es = some fs ∧ ∀ i, pending i es = true → fs (t i) = some (c i) :=
  private_names_never_fail t c g ht hg fs0 es hw

/-- … and what ends up under the target name is what the writer that renamed last wrote -/
theorem last_rename_wins (t c : Nat → Nat) (g : Nat) (ht : ∀ i j, t i = t j → i = j) (hg : ∀ i, t i ≠ g)
    (fs0 : FS) (es : List Ev) (j : Nat) (hw : WellFormed (.rename j :: es)) :
    ∃ fs, runRev t c g fs0 (.rename j :: es) = some fs ∧ fs g = some (c j) := by
  obtain ⟨hp, hw'⟩ := hw
  obtain ⟨fs, hr, hinv⟩ := private_names_never_fail t c g ht hg fs0 es hw'
  have hj := hinv j hp
  refine ⟨fun n => if n = g then some (c j) else if n = t j then none else fs n, ?_, by simp⟩
  simp only [runRev, List.reverse_cons, run_append]
  simp only [runRev] at hr
  simp [hr, run, step, hj]

/-- the hypothesis is what the code provides and what seed C09j took away: with ONE temporary name for two writers the well-formed
    schedule create₀ create₁ rename₀ rename₁ ends in a failing `os.replace` (the 500 of the seed's demonstration) -/
theorem shared_temporary_name_fails :
    WellFormed [.rename 1, .rename 0, .create 1, .create 0] ∧
    (runRev (fun _ => 7) (fun i => 100 + i) 0 (fun _ => none) [.rename 1, .rename 0, .create 1, .create 0]).isNone = true ∧
    (runRev (fun i => 7 + i) (fun i => 100 + i) 0 (fun _ => none) [.rename 1, .rename 0, .create 1, .create 0]).isSome = true := by
  refine ⟨by simp [WellFormed, pending], by decide, by decide⟩

end SharedWindowWrites

end C09
