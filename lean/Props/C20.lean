import RadicaleModel.Server
import RadicaleModel.ContentLength
/-
  C20 — the built-in server bounds concurrency and request size and shuts down cleanly.   (partial:
  sockets, the idle-client time-out and wire-level completeness of responses are observed, not modelled)
-/
namespace C20
open Server

def Inv (max : Int) (s : State) : Prop :=
  s.running ≤ s.workers ∧ (0 < max → (s.workers : Int) ≤ max) ∧ (s.phase = .returned → s.workers = 0)

theorem inv_init (max : Int) : Inv max init := by
  refine ⟨Nat.le_refl _, fun _ => ?_, fun _ => rfl⟩
  simp [init]; omega

theorem inv_step (max : Int) (s s' : State) (e : Ev) (hi : Inv max s) (h : step max s e = some s') : Inv max s' := by
  obtain ⟨h1, h2, h3⟩ := hi
  cases e with
  | arrive => simp [step] at h; subst h; exact ⟨h1, h2, h3⟩
  | signal => simp [step] at h; subst h; exact ⟨h1, h2, h3⟩
  | finish =>
    simp only [step] at h
    split at h
    · simp at h; subst h; exact ⟨by simp only; omega, h2, h3⟩
    · simp at h
  | loop =>
    simp only [step] at h
    cases hp : s.phase with
    | returned => simp [hp] at h
    | draining =>
      simp only [hp] at h
      split at h
      · simp at h; subst h
        exact ⟨by simp only; omega, fun hm => by simp only; omega, fun _ => rfl⟩
      · simp at h
    | looping =>
      simp only [hp] at h
      split at h
      · simp at h
      · split at h
        · simp at h; subst h
          exact ⟨h1, h2, by simp⟩
        · split at h
          · rename_i hpoll
            simp at h; subst h
            refine ⟨by simp only; omega, fun hm => ?_, by simp [hp]⟩
            simp only [pollsListener, Bool.and_eq_true, Bool.or_eq_true, decide_eq_true_eq] at hpoll
            simp only
            rcases hpoll.1 with hle | hlt
            · omega
            · have : (s.running : Int) ≤ s.workers := by exact_mod_cast h1
              push_cast
              omega
          · simp at h; subst h
            refine ⟨Nat.le_refl _, fun hm => ?_, by simp [hp]⟩
            have := h2 hm
            have : (s.running : Int) ≤ s.workers := by exact_mod_cast h1
            simp only
            omega

theorem inv_run (max : Int) (s : State) (es : List Ev) (hi : Inv max s) : Inv max (run max s es) := by
  induction es generalizing s with
  | nil => exact hi
  | cons e es ih =>
    simp only [run]
    cases h : step max s e with
    | none => exact ih s hi
    | some s' => exact ih s' (inv_step max s s' e hi h)

/-- for every arrival / completion / shutdown order: never more than `max_connections` connections occupy a
    slot, and the threads still processing are among them -/
theorem in_flight_bounded (max : Int) (hmax : 0 < max) (es : List Ev) :
    let s := run max init es
    s.running ≤ s.workers ∧ (s.workers : Int) ≤ max := by
  have := inv_run max init es (inv_init max)
  exact ⟨this.1, this.2.1 hmax⟩

/-- no slot leak: while a slot is free (or the limit is off) and a client waits, the loop is not blocked,
    and that iteration accepts the client (unless shutdown was signalled) -/
theorem queued_client_served (max : Int) (s : State) (hp : s.phase = .looping) (hs : s.shutdown = false)
    (hfree : max ≤ 0 ∨ (s.workers : Int) < max) (hb : 0 < s.backlog) :
    ∃ s', step max s .loop = some s' ∧ s'.accepted = s.accepted + 1 ∧ s'.backlog = s.backlog - 1 := by
  have hpoll : pollsListener max s = true := by
    simp only [pollsListener, Bool.or_eq_true, decide_eq_true_eq]; exact hfree
  have hready : ready max s = true := by simp [ready, hpoll, hb]
  refine ⟨{ s with workers := s.running + 1, running := s.running + 1, backlog := s.backlog - 1,
                   accepted := s.accepted + 1 }, ?_, rfl, rfl⟩
  simp [step, hp, hready, hs, hpoll, hb]

/-- a finished worker frees its slot at the very next iteration: after any loop iteration that stays in the
    loop, the slots in use are exactly the still-running workers plus at most the newly accepted one -/
theorem slots_freed (max : Int) (s s' : State) (hp : s.phase = .looping) (h : step max s .loop = some s')
    (hs : s'.phase = .looping) : s'.workers ≤ s.running + 1 ∧ s'.running = s'.workers := by
  simp only [step, hp] at h
  split at h
  · simp at h
  · split at h
    · simp at h; subst h; simp at hs
    · split at h <;> (simp at h; subst h; simp)

/-- after shutdown has been noticed nothing is accepted any more -/
theorem no_accept_after_shutdown (max : Int) (s s' : State) (e : Ev) (hp : s.phase ≠ .looping)
    (h : step max s e = some s') : s'.accepted = s.accepted ∧ s'.phase ≠ .looping := by
  cases e with
  | arrive => simp [step] at h; subst h; exact ⟨rfl, hp⟩
  | signal => simp [step] at h; subst h; exact ⟨rfl, hp⟩
  | finish =>
    simp only [step] at h
    split at h
    · simp at h; subst h; exact ⟨rfl, hp⟩
    · simp at h
  | loop =>
    simp only [step] at h
    cases hph : s.phase with
    | looping => exact absurd hph hp
    | returned => simp [hph] at h
    | draining =>
      simp only [hph] at h
      split at h
      · simp at h; subst h; simp
      · simp at h

/-- the iteration that sees the shutdown signal accepts nobody, even if clients are waiting -/
theorem shutdown_iteration_accepts_nobody (max : Int) (s s' : State) (hp : s.phase = .looping)
    (hs : s.shutdown = true) (h : step max s .loop = some s') : s'.accepted = s.accepted ∧ s'.phase = .draining := by
  simp only [step, hp] at h
  have : ready max s = true := by simp [ready, hs]
  simp [this, hs] at h
  subst h
  exact ⟨rfl, rfl⟩

/-- `serve` returns only when every request in flight has finished -/
theorem returns_only_when_idle (max : Int) (es : List Ev) :
    let s := run max init es
    s.phase = .returned → s.running = 0 ∧ s.workers = 0 := by
  intro s hr
  have := inv_run max init es (inv_init max)
  have hw := this.2.2 hr
  have h1 := this.1
  rw [hw] at h1
  exact ⟨Nat.le_zero.1 h1, hw⟩

/-- oversize bodies are refused (internal server, positive limit) — and only those -/
theorem oversize_refused (maxLen : Int) (len : Nat) (hpos : 0 < maxLen) :
    refusesBody true maxLen len = true ↔ (len : Int) > maxLen := by
  simp only [refusesBody, Bool.true_and, Bool.and_eq_true, bne_iff_ne, ne_eq, decide_eq_true_eq]
  constructor
  · intro h; exact h.2
  · intro h; exact ⟨⟨by omega, hpos⟩, h⟩

/-! ### the raw `Content-Length` header (model RadicaleModel/ContentLength.lean): whatever text the client puts there,
    a handler never takes in more body bytes than the limit -/

section ContentLength
open Radicale Radicale.ContentLength

/-- **the request size is bounded for every header text**: with the built-in server and a positive limit, no value of
    the `Content-Length` header — negative, signed, padded, with underscores, not a number — and no amount of data the
    client sends makes a handler take in more than `max_content_length` bytes (the reader as repaired by fix F29) -/
theorem body_taken_bounded (maxLen : Int) (hpos : 0 < maxLen) (raw : Str) (avail : Nat) :
    ((handle true true maxLen raw avail).2 : Int) ≤ maxLen := by
  unfold handle
  cases hp : pyInt raw with
  | none => simp; omega
  | some cl =>
    simp only [Bool.true_and]
    by_cases hgt : cl > maxLen
    · have : cl ≠ 0 := by omega
      simp [this, hpos, hgt]; omega
    · by_cases h0 : cl = 0
      · simp [h0]; omega
      · by_cases hneg : cl < 0
        · simp [h0, hgt, hneg]; omega
        · simp only [bne_iff_ne, ne_eq, h0, not_false_eq_true, decide_true, hpos, hgt, decide_false, Bool.and_false,
            Bool.false_eq_true, if_false, hneg]
          split
          · simp only; omega
          · split
            · simp only; omega
            · simp only; omega

/-- a declared length above the limit is answered 413 with nothing read, whatever follows -/
theorem declared_oversize_reads_nothing (fixed : Bool) (maxLen : Int) (hpos : 0 < maxLen) (raw : Str) (avail : Nat) (cl : Int)
    (hp : pyInt raw = some cl) (hgt : cl > maxLen) : handle fixed true maxLen raw avail = (.tooLarge, 0) := by
  have : cl ≠ 0 := by omega
  simp [handle, hp, this, hpos, hgt]

/-- Finding F29 as a theorem: before the fix `Content-Length: -1` made the reader call `read(-1)` — everything the
    client cares to send is taken in, limit or not -/
theorem f29_negative_length_was_unbounded (avail : Nat) :
    handle false true 1000 "-1".toList avail = (.proceeds, avail) ∧ handle true true 1000 "-1".toList avail = (.badRequest, 0) := by
  constructor <;> rfl

-- how header texts are read: as Python's int() reads them
example : pyInt " 12 ".toList = some 12 ∧ pyInt "+1_0".toList = some 10 ∧ pyInt "-0".toList = some 0 ∧ pyInt [] = some 0 ∧
    pyInt "1__0".toList = none ∧ pyInt "_1".toList = none ∧ pyInt "0x10".toList = none ∧ pyInt "-".toList = none ∧ pyInt " ".toList = none := by
  decide +kernel

end ContentLength

-- non-vacuity: with max = 1, a second client waits until the first is done and is then accepted
example : (run 1 init [.arrive, .arrive, .loop, .loop]).accepted = 1 := by decide
example : (run 1 init [.arrive, .arrive, .loop, .finish, .loop, .loop]).accepted = 2 := by decide
example : (run 1 init [.arrive, .loop, .signal, .loop, .loop]).phase = .draining := by decide
example : (run 1 init [.arrive, .loop, .signal, .loop, .finish, .loop]).phase = .returned := by decide

end C20
