import RadicaleProofs.SyncInv
import RadicaleProofs.SyncLive
import RadicaleProofs.SyncIdem
import RadicaleProofs.SyncEnc
/-
  C07 — sync-token deltas always bring a client to the server's current state.

  Model: RadicaleModel/Sync.lean (one collection: members, history entries, token files, clock).
  A client that was in step with the collection when a token was handed out (its view = the members at that
  moment), and later presents that token, gets either a refusal or a change list; replacing the reported hrefs
  by their current status (ETag or 404) yields exactly the current members — after any history in between
  (uploads, deletions, moves onto free / existing names, whole-collection replacement, deletion and
  re-creation, loss of the cache folder, clock jumps, other clients' syncs with any tokens).
-/
namespace C07
open Radicale Radicale.Sync

/-- the token a successful sync returns is the state dictionary computed by the scan, whatever was presented -/
theorem sync_ok_token (cfg : Cfg) (s s1 : State) (a : Arg) (T : Snapshot) (ch : List Nat)
    (h : sync cfg s a = (s1, .ok T ch)) :
    T = (survey cfg s).2 ∧
    (ch = [] ∧ a = .tok T ∨ ch = changesOf T [] ∧ a = .none ∨ ∃ t, a = .tok t ∧ ch = changesOf T t) := by
  cases a with
  | none => simp only [sync, Prod.mk.injEq, Out.ok.injEq] at h; exact ⟨h.2.1.symm, Or.inr (Or.inl ⟨by rw [← h.2.2, h.2.1], rfl⟩)⟩
  | malformed => simp [sync] at h
  | unknown => simp [sync] at h
  | tok t =>
    simp only [sync] at h
    split at h
    · rename_i ht
      simp only [Prod.mk.injEq, Out.ok.injEq] at h
      exact ⟨h.2.1.symm, Or.inl ⟨h.2.2.symm, by rw [ht, h.2.1]⟩⟩
    · split at h
      · simp only [Prod.mk.injEq, Out.ok.injEq] at h
        exact ⟨h.2.1.symm, Or.inr (Or.inr ⟨t, rfl, by rw [← h.2.2, h.2.1]⟩)⟩
      · simp at h

/-- two scans (of states satisfying the invariant) that give an href the same entry — or both none — see the
    same member under that href: equal hash chains end in equal etags -/
theorem same_entry_same_member (cfg : Cfg) (s s' : State) (hs : Inv s) (hs' : Inv s') (h : Nat)
    (heq : lookup (survey cfg s).2 h = lookup (survey cfg s').2 h) : s.members h = s'.members h := by
  cases hl : lookup (survey cfg s').2 h with
  | none =>
    rw [hl] at heq
    rw [(survey_reflects cfg s hs h).1 heq, (survey_reflects cfg s' hs' h).1 hl]
  | some t =>
    rw [hl] at heq
    obtain ⟨p, hp⟩ := (survey_reflects cfg s hs h).2 t (lookup_some _ h t heq)
    obtain ⟨p', hp'⟩ := (survey_reflects cfg s' hs' h).2 t (lookup_some _ h t hl)
    have := hp.symm.trans hp'
    injection this with _ he

theorem lookup_eq_none_of (snap : Snapshot) (h : Nat) (hn : ∀ t, (h, t) ∉ snap) : lookup snap h = none := by
  cases hl : lookup snap h with
  | none => rfl
  | some t => exact absurd (lookup_some snap h t hl) (hn t)

/-- **convergence.**  `ops0` is any history up to the moment a sync (with any argument) hands out the token `T`;
    `ops` is any history after it; if the later sync with `T` is not refused, then applying its change list to
    what the client held when `T` was issued gives exactly the current members. -/
theorem c07_convergence (cfg : Cfg) (ops0 ops : List Op) (a : Arg) (s1 s2 : State) (T T' : Snapshot) (ch1 ch2 : List Nat)
    (issue : sync cfg (run cfg State.init ops0) a = (s1, .ok T ch1))
    (later : sync cfg (run cfg s1 ops) (.tok T) = (s2, .ok T' ch2)) :
    applyDelta (run cfg State.init ops0).members ch2 (run cfg s1 ops).members = (run cfg s1 ops).members := by
  have hs0 : Inv (run cfg State.init ops0) := run_inv cfg _ ops0 inv_init
  have hs1 : Inv s1 := by have := sync_inv cfg _ a hs0; rw [issue] at this; exact this
  have hs' : Inv (run cfg s1 ops) := run_inv cfg s1 ops hs1
  have hT := (sync_ok_token cfg _ s1 a T ch1 issue).1
  obtain ⟨hT', hch⟩ := sync_ok_token cfg _ s2 (.tok T) T' ch2 later
  funext h
  unfold applyDelta
  split
  · rfl
  · rename_i hn
    apply same_entry_same_member cfg _ _ hs0 hs' h
    rw [← hT, ← hT']
    rcases hch with ⟨_, ha⟩ | ⟨_, ha⟩ | ⟨t, ha, hc⟩
    · injection ha with ha; rw [ha]
    · cases ha
    · injection ha with ha
      subst ha
      rw [hc] at hn
      have nc := not_changed T' T h hn
      cases hl : lookup T' h with
      | none => exact lookup_eq_none_of T h (nc.2 hl)
      | some x => exact nc.1 x (lookup_some T' h x hl)

/-- the first sync of a client (no token): the change list covers everything present -/
theorem c07_initial (cfg : Cfg) (ops0 : List Op) (s1 : State) (T : Snapshot) (ch : List Nat)
    (first : sync cfg (run cfg State.init ops0) .none = (s1, .ok T ch)) :
    applyDelta (fun _ => none) ch (run cfg State.init ops0).members = (run cfg State.init ops0).members := by
  have hs0 : Inv (run cfg State.init ops0) := run_inv cfg _ ops0 inv_init
  obtain ⟨hT, hch⟩ := sync_ok_token cfg _ s1 .none T ch first
  funext h
  unfold applyDelta
  split
  · rfl
  · rename_i hn
    rcases hch with ⟨_, ha⟩ | ⟨hc, _⟩ | ⟨t, ha, _⟩
    · cases ha
    · rw [hc] at hn
      have nc := not_changed T [] h hn
      have : lookup T h = none := by
        apply lookup_eq_none_of
        intro t ht
        have := nc.1 t ht
        simp [lookup] at this
      rw [hT] at this
      exact ((survey_reflects cfg _ hs0 h).1 this).symm
    · cases ha

/-- a sync never changes what the collection holds -/
theorem c07_sync_readonly (cfg : Cfg) (s : State) (a : Arg) : (sync cfg s a).1.members = s.members :=
  sync_members cfg s a

/-- PROPFIND's sync-token (a sync without token) and the token of a REPORT answered in the same state agree,
    whatever token the REPORT presented -/
theorem c07_propfind_eq_report (cfg : Cfg) (s s1 s2 : State) (a : Arg) (T T' : Snapshot) (ch ch' : List Nat)
    (pf : sync cfg s .none = (s1, .ok T ch)) (rp : sync cfg s a = (s2, .ok T' ch')) : T = T' := by
  rw [(sync_ok_token cfg s s1 .none T ch pf).1, (sync_ok_token cfg s s2 a T' ch' rp).1]

/-- a token naming the current state is answered with the empty list and itself, and nothing is written -/
theorem c07_current_token (cfg : Cfg) (s : State) :
    sync cfg s (.tok (survey cfg s).2) = ((survey cfg s).1, .ok (survey cfg s).2 []) := by
  simp [sync]

/-- **no early refusal.**  A token handed out at time `t` (by a sync that wrote or touched its file) is not
    refused by any later sync before the clock reaches `t + max_sync_token_age`, whatever happens in between —
    except operations that lose the sync-token folder (replacement / deletion of the collection when the folder
    lives inside it, deletion of the cache by other means). -/
theorem c07_not_refused_early (cfg : Cfg) (hmax : cfg.maxAge ≠ 0) (s s1 : State) (a : Arg) (T : Snapshot) (ch : List Nat)
    (issue : sync cfg s a = (s1, .ok T ch)) (hne : a ≠ .tok T) (ops : List Op)
    (hk : ∀ op ∈ ops, keepsTokens cfg op = true) (hage : (run cfg s1 ops).now < s.now + cfg.maxAge) :
    (sync cfg (run cfg s1 ops) (.tok T)).2 ≠ .refused := by
  have hl := run_live cfg s1 ops T s.now (issue_records cfg s s1 a T ch hmax issue hne) hk ⟨hmax, hage⟩
  obtain ⟨_, m', hm', _⟩ := survey_live cfg (run cfg s1 ops) T s.now hl
  simp only [sync]
  split
  · simp
  · simp [hm']

/-- **up-to-date token.**  The token a sync hands out, presented again before anything else happens, is
    answered with itself and the empty change list (after any history before the first sync). -/
theorem c07_up_to_date (cfg : Cfg) (hmax : cfg.maxAge ≠ 0) (ops0 : List Op) (a : Arg) (s1 : State) (T : Snapshot) (ch : List Nat)
    (issue : sync cfg (run cfg State.init ops0) a = (s1, .ok T ch)) :
    (sync cfg s1 (.tok T)).2 = .ok T [] := by
  have hs0 : Inv (run cfg State.init ops0) := run_inv cfg _ ops0 inv_init
  obtain ⟨hm, hh, hr, hn⟩ := sync_ok_state cfg hmax _ s1 a T ch issue
  have hst := survey_stable cfg hmax _ s1 hs0 hm hh hr hn
  have hT := (sync_ok_token cfg _ s1 a T ch issue).1
  simp only [sync]
  rw [hst, ← hT]
  simp

/-- PROPFIND right after a REPORT shows the token the REPORT returned -/
theorem c07_propfind_after_report (cfg : Cfg) (hmax : cfg.maxAge ≠ 0) (ops0 : List Op) (a : Arg) (s1 : State) (T : Snapshot)
    (ch : List Nat) (issue : sync cfg (run cfg State.init ops0) a = (s1, .ok T ch)) :
    ∃ ch', (sync cfg s1 .none).2 = .ok T ch' := by
  have hs0 : Inv (run cfg State.init ops0) := run_inv cfg _ ops0 inv_init
  obtain ⟨hm, hh, hr, hn⟩ := sync_ok_state cfg hmax _ s1 a T ch issue
  have hst := survey_stable cfg hmax _ s1 hs0 hm hh hr hn
  have hT := (sync_ok_token cfg _ s1 a T ch issue).1
  simp only [sync]
  rw [hst, ← hT]
  exact ⟨_, rfl⟩

/-- the string hashed into a token name determines the state dictionary (hrefs without "/", 64-digit history
    tags), and the string hashed into a history tag determines (previous tag, etag): with SHA-256 injective, equal
    token names / tags mean equal structures — the symbolic `Snapshot` / `HTag` of the model -/
theorem c07_token_name_input_injective (l l' : List (SyncEnc.Str × SyncEnc.Str))
    (hl : ∀ p ∈ l, SyncEnc.EntryOk p) (hl' : ∀ p ∈ l', SyncEnc.EntryOk p) (h : SyncEnc.enc l = SyncEnc.enc l') : l = l' :=
  SyncEnc.enc_injective l l' hl hl' h

theorem c07_history_tag_input_injective (t t' e e' : SyncEnc.Str) (ht : '/' ∉ t) (ht' : '/' ∉ t')
    (h : t ++ '/' :: e = t' ++ '/' :: e') : t = t' ∧ e = e' :=
  SyncEnc.chain_input_injective t t' e e' ht ht' h

/-- **a failed token write costs nothing**: when the file of the new token cannot be written, the collection's sync
    state is exactly the state a request with an unknown token leaves (history advanced, no token) — so every theorem
    above, being about all histories of requests, covers histories with such faults; if the token's file existed
    already the request is an ordinary sync -/
theorem c07_failed_token_write (cfg : Cfg) (s : State) :
    syncFault cfg s = (sync cfg s .unknown).1 ∨ syncFault cfg s = (sync cfg s .none).1 := by
  unfold syncFault
  by_cases h : ((survey cfg s).1.tokens (survey cfg s).2).isNone
  · left; simp [h, sync]
  · right; simp [h]

/-- a malformed token is refused before anything is read or written -/
theorem c07_malformed_refused (cfg : Cfg) (s : State) : sync cfg s .malformed = (s, .refused) := rfl

/-- a token that was never issued is refused -/
theorem c07_unknown_refused (cfg : Cfg) (s : State) : (sync cfg s .unknown).2 = .refused := rfl

-- non-vacuity: put 1, sync → T; put 2, delete 1, put 1 again (same content); sync T reports both
example :
    let cfg : Cfg := ⟨100, false, false⟩
    let s0 := run cfg State.init [.put 1 10]
    let r := sync cfg s0 .none
    let s1 := run cfg r.1 [.put 2 20, .del 1, .put 1 10]
    (match r.2, (sync cfg s1 (.tok (survey cfg s0).2)).2 with
     | .ok t c, .ok _ c' => c == [1] && c' == [1, 2] && t == (survey cfg s0).2
     | _, _ => false) = true := by decide +kernel

-- the history of finding F23 (a remembered deletion expires): the token handed out stays valid
example :
    let cfg : Cfg := ⟨1000, false, false⟩
    let s0 := run cfg State.init [.put 1 10, .del 1, .tick 1000]
    let r := sync cfg s0 .none
    (match r.2 with
     | .ok t _ => (sync cfg r.1 (.tok t)).2 == .ok t []
     | _ => false) = true := by decide +kernel

end C07
