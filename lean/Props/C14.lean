import RadicaleProofs.Fold
import RadicaleProofs.Export
import RadicaleProofs.BulkNames
import RadicaleProofs.TextValue
import RadicaleProofs.Charset
/-
  C14 — calendar objects and contacts come back exactly as they were stored   (partial).

  The part of the round trip that is pure text coding and that every stored object passes through on each read:
  vobject's line folder (serialisation) and vobject's unfolder `getLogicalLines(allowQP=True)` (as Radicale calls
  it).  Model: RadicaleModel/Fold.lean.  `safe s` is a decidable condition on a logical line; for safe lines the
  round trip is proved, for unsafe ones the two failure shapes are exhibited (findings F5 and F24, both reproduced
  on the running server by the check).
  Property parsing / value typing of vobject and dateutil are not modelled; they are exercised by the generator
  grammar of the correspondence harness (fixed point, four read paths, whole-collection round trip).
-/
namespace C14
open Radicale Radicale.Fold

/-- folding never loses or alters text (an ideal unfolder gets everything back) -/
theorem fold_is_lossless (s : Line) : unfoldPhys (foldLine s) = s := unfold_fold s

/-- **round trip**: any sequence of safe logical lines, folded and written out, is read back by vobject's reader
    as exactly those lines — any lengths, any characters, any number of lines -/
theorem read_back_what_was_written (L : List Line) (hs : ∀ s ∈ L, safe s = true) :
    readLines (L.flatMap foldLine) = L := by
  have := read_many L hs [] []
  simpa [readLines] using this

/-- lines shorter than 75 characters that are not blank, do not start with a blank or tab, and do not end in `=`
    after mentioning quoted-printable are safe -/
theorem short_lines_safe (s : Line) (hl : s.length < 75) (hb : isBlank s = false)
    (hh : (s.head?.map spaceOrTab).getD false = false) (hq : endsQP s = false) : safe s = true := by
  simp [safe, foldLine, hl, groupOk, contsOk, hb, hh, hq]

/-- every physical line the folder emits holds at most 75 bytes (the point of folding) -/
theorem foldGo_bound (rest : List Char) (n : Nat) (cur : Line) (hcur : (cur.map Char.utf8Size).sum = n) (hn : n ≤ 75) :
    ∀ l ∈ foldGo rest n cur, (l.map Char.utf8Size).sum ≤ 75 := by
  induction rest generalizing n cur with
  | nil => intro l hl; simp [foldGo] at hl; subst hl; omega
  | cons c rest ih =>
    intro l hl
    simp only [foldGo] at hl
    split at hl
    · rcases List.mem_cons.mp hl with e | hl
      · subst e; omega
      · have hz : c.utf8Size ≤ 4 := Char.utf8Size_le_four c
        exact ih (1 + c.utf8Size) [' ', c] (by simp [Char.utf8Size]) (by omega) l hl
    · rename_i hle
      exact ih (n + c.utf8Size) (cur ++ [c]) (by simp [hcur]) (by omega) l hl

/-! ### the two ways vobject's reader fails on vobject's own output -/

/-- finding F5: a continuation line that consists of blanks only ends the logical line -/
def f5 : Line := "DESCRIPTION:a".toList ++ List.replicate 150 ' ' ++ ['b']
theorem f5_not_read_back : safe f5 = false ∧ readLines (foldLine f5) ≠ [f5] := by decide +kernel

/-- finding F24: text that mentions quoted-printable and has `=` as the last character of a physical line makes the
    reader glue the next physical line on with a line feed and its leading blank -/
def f24 : Line :=
  "DESCRIPTION:see quoted-printable spec ".toList ++ List.replicate 36 'x' ++ ['='] ++ "tail of the text".toList
theorem f24_not_read_back : safe f24 = false ∧ readLines (foldLine f24) ≠ [f24] := by decide +kernel

-- non-vacuity: a long non-ASCII line with blanks inside is safe and comes back
example : safe ("SUMMARY:".toList ++ List.replicate 40 'ä' ++ " und ".toList ++ List.replicate 60 'x') = true := by decide +kernel

/-! ### the whole-calendar export (`BaseCollection.serialize`), model RadicaleModel/Export.lean: the line-level loop -/

/-- **each VTIMEZONE once**: whatever the stored objects look like, the TZIDs of the VTIMEZONE blocks copied into the
    export are pairwise different -/
theorem export_each_tzid_once (items : List (List Export.Line)) : (Export.emittedTzids items).Nodup :=
  (Export.run_inv items).1

/-- and none is lost: a TZID whose definition was seen in some object has a VTIMEZONE block in the export -/
theorem export_keeps_every_tzid (items : List (List Export.Line)) (t : Str) (h : t ∈ (Export.run items).included) :
    t ∈ Export.emittedTzids items := by
  have := (Export.run_inv items).2.2 t h
  simp only [Export.emittedTzids, List.mem_filterMap, id]
  exact ⟨some t, this, rfl⟩

-- non-vacuity: two objects with different definitions of one time zone, one block in the export
private def obj (uid tzextra : String) : List Export.Line :=
  ["BEGIN:VCALENDAR", "VERSION:2.0", "BEGIN:VTIMEZONE", "TZID:Europe/Berlin", tzextra, "END:VTIMEZONE",
   "BEGIN:VEVENT", "UID:" ++ uid, "END:VEVENT", "END:VCALENDAR", ""].map String.toList
example : Export.emittedTzids [obj "a" "X-A:1", obj "b" "X-B:2"] = ["Europe/Berlin".toList] := by decide +kernel
example : (Export.body [obj "a" "X-A:1", obj "b" "X-B:2"]).length = 4 + 3 + 3 := by decide +kernel

/-! ### the value layer: how vobject reads and writes the text of a value (model RadicaleModel/TextValue.lean) -/

section TextValue
open Radicale.TextValue

/-- **what is written for a value is read back as that value** — any characters: commas, semicolons, backslashes,
    quotes, line feeds (a CR or CRLF inside a value is a line feed afterwards) -/
theorem written_value_is_read_back (v : Str) : readFirst (escape v) = norm v ∧ ('\r' ∉ v → readFirst (escape v) = v) :=
  ⟨readFirst_escape v, fun h => by rw [readFirst_escape, norm_id v h]⟩

/-- **what the server serves is a fixed point of the value layer**: whatever text a client sent for a value, the text
    stored after one trip (read, then written) is stored unchanged by every further trip -/
theorem served_value_is_fixed_point (raw : Str) : stored (stored raw) = stored raw := stored_stored raw

/-- Finding F33 as a theorem: the reader ends the value at the first unescaped comma — the longitude of an Apple
    structured location, the data of a `data:` URI, the second nickname are not part of what is stored -/
theorem f33_value_cut_at_comma :
    stored "geo:48.137154,11.576124".toList = "geo:48.137154".toList ∧
    stored "data:image/jpeg;base64,AAECAwQF".toList = "data:image/jpeg\\;base64".toList ∧
    stored "Johnny,JD".toList = "Johnny".toList := by decide +kernel

/-- Finding F34 as a theorem: an unescaped ";" is read as text and written back escaped -/
theorem f34_separator_comes_back_escaped : stored "M;male".toList = "M\\;male".toList := by decide +kernel

/-- the reader's quirk at a trailing lone backslash (the iterator's end marker is taken for a character) -/
example : readFirst "abc\\".toList = "abc\\eof".toList := by decide +kernel
-- non-vacuity: a value with every special character comes back
example : readFirst (escape "a,b;c\\d\ne\"f".toList) = "a,b;c\\d\ne\"f".toList := by decide +kernel

end TextValue

/-! ### the charset a client declares for its body (model RadicaleModel/Charset.lean; `decode_request` after fix F31) -/

section Charset
open Radicale.Charset

/-- **neither the spelling of the parameter name nor that of the label matters**: two Content-Type headers that differ
    only in letter case name the same charset -/
theorem charset_label_ignores_case (ct ct' : Str) (h : lower ct = lower ct') : label true ct = label true ct' := by
  simp [label, h]

/-- **nor does the position of the parameter**: whatever stands before the first `charset=` (in any letter case) — the
    media type, other parameters, blanks — the label is what follows it up to the next ";", in lower case, stripped -/
theorem charset_label_position (pre name v post : Str) (hname : lower name = key) (hv : ';' ∉ lower v)
    (hpre : ∀ k, k < (lower pre).length → afterPrefix key ((lower pre ++ (key ++ (lower v ++ ';' :: lower post))).drop k) = none) :
    label true (pre ++ (name ++ (v ++ ';' :: post))) = some (BasicHeader.pyStrip (lower v)) := by
  have hl : lower (pre ++ (name ++ (v ++ ';' :: post))) = lower pre ++ (key ++ (lower v ++ ';' :: lower post)) := by
    rw [lower_append, lower_append, lower_append, hname]
    have : Charset.lower (';' :: post) = ';' :: Charset.lower post := by
      show (';' :: post).map Char.toLower = ';' :: post.map Char.toLower
      rw [List.map_cons]
      rfl
    rw [this]
  have htake : (lower v ++ ';' :: lower post).takeWhile (· != ';') = lower v := by
    generalize lower v = w at hv
    induction w with
    | nil => simp
    | cons a t ih =>
      have ha : a ≠ ';' := fun e => hv (e ▸ List.mem_cons_self)
      simp [ha, ih (fun hm => hv (List.mem_cons_of_mem _ hm))]
  simp only [label, if_true, hl]
  rw [afterFirst_first key (lower pre) _ hpre]
  simp [htake]

/-- Finding F31 as a theorem: before the fix the capitalised parameter name was not found at all — the declared charset
    was ignored and the body went through the fall-backs -/
theorem f31_capitalised_parameter_was_ignored :
    label false "text/calendar; Charset=iso-8859-2".toList = none ∧
    label true "text/calendar; Charset=iso-8859-2".toList = some "iso-8859-2".toList ∧
    label true "text/calendar; component=VEVENT; CHARSET=ISO-8859-2 ; x=y".toList = some "iso-8859-2".toList := by decide +kernel

-- non-vacuity of `charset_label_position`: the hypotheses hold for an ordinary header
example : lower "Charset=".toList = key ∧ ';' ∉ lower "Windows-1252".toList ∧
    (∀ k, k < (lower "text/calendar; component=VEVENT; ".toList).length →
      afterPrefix key ((lower "text/calendar; component=VEVENT; ".toList ++ (key ++ (lower "Windows-1252".toList ++ ';' :: lower " x=y".toList))).drop k) = none) := by
  refine ⟨by decide, by decide, ?_⟩
  decide +kernel

end Charset

/-! ### whole-collection upload: the names the objects are stored under (`_upload_all_nonatomic`), model
    RadicaleModel/BulkNames.lean.  "Preserves the set of objects" needs, below all text coding, that no object of the
    upload is written over another one -/

section BulkNames
open Radicale.BulkNames

/-- **whole-collection upload, names**: the objects of one upload get pairwise different, safe file names, none of
    them a name already present — for every list of UIDs (also UIDs whose derived names coincide, such as `X` and
    `X.ics`), every digest function and every random source that keeps its contract -/
theorem bulk_names_distinct (e : Env) (hf : FreshOk e) (uids taken : List Str) :
    ((assign e uids taken).map (·.1)).Nodup ∧
    ∀ p ∈ assign e uids taken, Path.safeFsComp p.1 = true ∧ p.1 ∉ taken :=
  ⟨(assign_spec e hf uids taken).2, (assign_spec e hf uids taken).1⟩

/-- one name per object, in upload order: no object is dropped -/
theorem bulk_keeps_every_object (e : Env) (uids taken : List Str) :
    (assign e uids taken).map (·.2) = uids := assign_uids e uids taken

/-- **nothing is overwritten**: after the loop has written every object under its name, each object of the upload
    is read back under the name it was given -/
theorem bulk_upload_overwrites_nothing (e : Env) (hf : FreshOk e) (uids : List Str) (dir : List (Str × Str)) :
    ∀ p ∈ assign e uids (dir.map (·.1)), lookup (writeAll dir (assign e uids (dir.map (·.1)))) p.1 = some p.2 :=
  read_back_of_nodup _ dir (assign_spec e hf uids _).2

/-- the plain name is used whenever it is safe and not present -/
theorem bulk_plain_name_when_free (e : Env) (taken : List Str) (uid : Str)
    (hs : Path.safeFsComp (first e uid) = true) (hn : first e uid ∉ taken) : pick e taken uid = first e uid := by
  have : free taken (first e uid) = true := (free_iff _ _).2 ⟨hs, hn⟩
  simp [pick, this]

def demoEnv : Env := { suffix := ".ics".toList, hash := fun u => "H".toList ++ u, fresh := fun t => "R".toList ++ t.flatten ++ ".ics".toList }

/-- non-vacuity, and the case the fall-back names exist for: `X` and `X.ics` both want `X.ics`; the second one
    gets the digest name -/
example : (assign demoEnv ["X".toList, "X.ics".toList] []).map (fun p => String.ofList p.1) = ["X.ics", "HX.ics.ics"] := by decide

/-- the contract asked of the random source can be kept (so the theorems above are not vacuous): with a source that
    hands out a name longer than everything present, any upload — whatever the digest function — gets pairwise different
    names and loses nothing -/
theorem bulk_names_distinct_witness (suffix : Str) (hash : Str → Str) (uids : List Str) :
    ((assign ⟨suffix, hash, freshLong⟩ uids []).map (·.1)).Nodup ∧ (assign ⟨suffix, hash, freshLong⟩ uids []).map (·.2) = uids :=
  ⟨(bulk_names_distinct _ (freshOk_exists suffix hash) uids []).1, bulk_keeps_every_object _ uids []⟩

/-- seeded change C14f (the "not yet present" test dropped): the same two objects get the same name, and the
    first one is gone after the loop -/
theorem naive_names_overwrite :
    (assignNaive demoEnv ["X".toList, "X.ics".toList]).map (fun p => String.ofList p.1) = ["X.ics", "X.ics"] ∧
    lookup (writeAll [] (assignNaive demoEnv ["X".toList, "X.ics".toList])) "X.ics".toList = some "X.ics".toList ∧
    (writeAll [] (assignNaive demoEnv ["X".toList, "X.ics".toList])).length = 1 := by decide

end BulkNames

end C14
