import RadicaleProofs.Cache
import RadicaleProofs.CacheLocal
import RadicaleProofs.CacheFolder
/-
  C13 — the item cache never changes what clients see.

  Model: RadicaleModel/Cache.lean.  `parse` = what reading the bytes of a file yields (uid, ETag, text, … as one
  number; `none` = broken item); `up c` = what the uploader derives from the item it holds when it writes `c`.
  World `W` = the file versions that occur in the history.  Hypotheses, each explicit:
    KeyInj    the cache key identifies the bytes among those versions (hash mode: proved below for any world;
              mtime+size mode: an edit changes size or mtime — the documented condition of that mode);
    OpOk      uploaded items re-read as what the uploader derived (vobject writes what it can read — finding F5
              is a content for which this fails), planted entries are sound (left over from any earlier content,
              or written under the other keying mode, whose keys never match).
-/
namespace C13
open Radicale Radicale.Cache

/-- **the cache is invisible**: any history of requests, external edits, restarts under the other keying mode
    and cache manipulations (wipe, single entries dropped, stale or foreign entries planted — at any points)
    answers every request exactly like the cache-free reference, from any sound starting cache -/
theorem c13_cache_invisible (modes : Mode → Prop) (parse : Nat → Option Nat) (up : Nat → Nat) (W : File → Prop)
    (hk : KeysInj modes W) (ops : List Op) (hops : ∀ op ∈ ops, OpOk modes parse up W op)
    (m : Mode) (hm : modes m) (s : State) (hs : Sound modes parse W s) :
    run parse up m s ops = refRun parse s.files ops := by
  induction ops generalizing s m with
  | nil => rfl
  | cons op ops ih =>
    have hop := hops op (by simp)
    have hrest : ∀ o ∈ ops, OpOk modes parse up W o := fun o ho => hops o (by simp [ho])
    cases op with
    | req r =>
      obtain ⟨h1, h2, h3⟩ := stepReq_spec modes m hm parse up W hk s hs r hop
      simp only [run, step, refRun, List.singleton_append]
      rw [h1, ih hrest m hm _ h3, h2]
    | adv a =>
      have hp : ∀ h e, a = .plant h e → EntrySound modes parse W e := by
        intro h e he; subst he; exact hop
      obtain ⟨h1, h2⟩ := stepAdv_sound modes parse W s hs a hp
      simp only [run, step, refRun, List.nil_append]
      rw [ih hrest m hm _ h1, h2]
    | mode m' =>
      simp only [run, step, refRun, List.nil_append]
      exact ih hrest m' hop s hs

/-- two runs whose requests are the same and which differ only in what happens to the cache (and in the keying
    mode) give the same answers -/
theorem c13_same_answers (modes : Mode → Prop) (parse : Nat → Option Nat) (up : Nat → Nat) (W : File → Prop)
    (hk : KeysInj modes W) (ops ops' : List Op)
    (hops : ∀ op ∈ ops, OpOk modes parse up W op) (hops' : ∀ op ∈ ops', OpOk modes parse up W op)
    (m m' : Mode) (hm : modes m) (hm' : modes m')
    (s s' : State) (hs : Sound modes parse W s) (hs' : Sound modes parse W s')
    (hsame : refRun parse s.files ops = refRun parse s'.files ops') :
    run parse up m s ops = run parse up m' s' ops' := by
  rw [c13_cache_invisible modes parse up W hk ops hops m hm s hs,
      c13_cache_invisible modes parse up W hk ops' hops' m' hm' s' hs', hsame]

/-- the reference ignores cache manipulations and restarts: removing them from a history changes no answer -/
theorem c13_ref_ignores_cache_ops (parse : Nat → Option Nat) (files : Nat → Option File) (ops : List Op) :
    refRun parse files ops = refRun parse files (ops.filter (fun o => match o with | .req _ => true | _ => false)) := by
  induction ops generalizing files with
  | nil => rfl
  | cons op ops ih =>
    cases op with
    | req r => simp only [refRun, List.filter_cons_of_pos]; rw [ih]
    | adv a => simp only [refRun]; rw [ih]; rfl
    | mode m => simp only [refRun]; rw [ih]; rfl

/-- **the cache is invisible, local form.**  No global assumption on keys: the invariant is that an entry stored
    under a name fits the file currently stored under that name; entries travel with files on MOVE (the request
    reads the item first, so the entry exists), so different files with equal size and mtime are harmless.  The only
    assumptions are local and are the documented ones: a file written by other means, an entry put back from an
    earlier time, a member written by a whole upload in the sub-folder layout must not *match* what it meets under
    the same name unless it is right for it (`OpOkAt`, checked in the state each operation meets). -/
theorem c13_cache_invisible_local (modes : Mode → Prop) (parse : Nat → Option Nat) (up : Nat → Nat) (ops : List Op)
    (m : Mode) (hm : modes m) (s : State) (hs : LInv modes parse s) (hok : OkRun modes parse up m s ops) :
    run parse up m s ops = refRun parse s.files ops :=
  run_local modes parse up ops m s hm hs hok

/-- the empty cache satisfies the local invariant, whatever the files are -/
theorem c13_empty_cache_ok (modes : Mode → Prop) (parse : Nat → Option Nat) (files : Nat → Option File) :
    LInv modes parse ⟨files, fun _ => none⟩ := by
  intro m _ h e f he; cases he

/-- hash keying: the key identifies the bytes in every world (SHA-256 injective) -/
theorem c13_hash_key_injective (W : File → Prop) : KeysInj (· = .hash) W := by
  intro m hm; subst hm; exact keyInj_hash W

/-- an entry written under the other keying mode is never used: its key has the other shape -/
theorem c13_foreign_entry_sound (parse : Nat → Option Nat) (W : File → Prop) (c d size mtime : Nat) :
    EntrySound (· = .stat) parse W (.h c, d) ∧ EntrySound (· = .hash) parse W (.s size mtime, d) := by
  constructor
  · intro m hm f _ hkey; subst hm; simp [key] at hkey
  · intro m hm f _ hkey; subst hm; simp [key] at hkey

/-- a file replaced by other means is served with its new content on the next request (its key differs) -/
theorem c13_external_edit_served (modes : Mode → Prop) (m : Mode) (hm : modes m) (parse : Nat → Option Nat) (W : File → Prop)
    (hk : KeysInj modes W) (s : State) (hs : Sound modes parse W s) (h : Nat) (f : File) (hf : W f) :
    (get m parse ⟨Cache.set s.files h (some f), s.cache⟩ h).2.1 = parse f.content := by
  have hs' : Sound modes parse W ⟨Cache.set s.files h (some f), s.cache⟩ := by
    refine ⟨hs.entries, ?_⟩
    intro h' g hg
    simp only [Cache.set] at hg
    split at hg
    · cases hg; exact hf
    · exact hs.files h' g hg
  rw [(get_spec modes m hm parse W hk _ hs' h).1]
  simp [Cache.set]

-- non-vacuity: upload 1, wipe, stale entry planted for other content, get: the file's own parse is served
example :
    let parse : Nat → Option Nat := fun c => some (c * 10)
    let up : Nat → Nat := fun c => c * 10
    run parse up .hash ⟨fun _ => none, fun _ => none⟩
      [.req (.upload 1 ⟨7, 3, 100⟩), .adv .wipe, .adv (.plant 1 (.h 8, 80)), .req (.get 1),
       .req (.edit 1 (some ⟨9, 3, 100⟩)), .mode .stat, .req (.get 1)]
      = [some 70, some 70, none, some 90] := by decide +kernel

-- "twins" (finding-free): two different files with equal size and mtime, one MOVEd over the other in mtime+size mode
example :
    let parse : Nat → Option Nat := fun c => some (c * 10)
    let up : Nat → Nat := fun c => c * 10
    run parse up .stat ⟨fun _ => none, fun _ => none⟩
      [.req (.upload 1 ⟨7, 3, 100⟩), .req (.upload 2 ⟨8, 3, 100⟩), .req (.get 2), .req (.move 1 2), .req (.get 2)]
      = [some 70, some 80, some 80, none, some 70] := by decide +kernel

/-- An upload decides what is read next, whatever the cache held and even where keys are not injective (a file system with
    whole-second time stamps gives two uploads of equal size in one tick the same size+mtime key): the entry written by
    the upload replaces the one stored under that name, so the upload's answer and the following read are the uploaded
    object. -/
theorem c13_upload_overrides_entry (m : Mode) (parse : Nat → Option Nat) (up : Nat → Nat) (s : State) (h : Nat) (f : File) :
    (stepReq m parse up s (.upload h f)).2 = some (up f.content) ∧
    (stepReq m parse up (stepReq m parse up s (.upload h f)).1 (.get h)).2 = some (up f.content) := by
  simp [stepReq, Cache.get, Cache.set]

/-! ### where a collection's cache lives (model RadicaleModel/CacheFolder.lean): the cache model above is per collection — that
    two collections never share item-cache, history or sync-token folders is what makes it so (seed C03i keyed the relocated
    folder by the last path component) -/
section Folder
open Radicale.CacheFolder Radicale.Str

/-- the relocated folder of the collection at `root ++ rel`: the root is replaced by the cache root, the rest is kept — provided
    the root folder's text does not occur again inside the collection's own path -/
theorem cache_folder_of_collection (root cache rel folder sub : Str) (hne : root ≠ [])
    (hno : ∀ i, startsWith (rel.drop i) root = false) :
    cacheSubfolder true root cache (root ++ rel) folder sub = join3 (cache ++ rel) folder sub := by
  simp only [cacheSubfolder, if_true]
  rw [replaceAll_prefix root cache rel hne]
  simp only [replaceAll]
  rw [replaceGo_no_occurrence root cache rel hno]

/-- two different collections have different folders for each kind of cached data, relocated or not -/
theorem cache_folders_distinct (relocated : Bool) (root cache rel₁ rel₂ folder sub : Str) (hne : root ≠ [])
    (h₁ : ∀ i, startsWith (rel₁.drop i) root = false) (h₂ : ∀ i, startsWith (rel₂.drop i) root = false) (hd : rel₁ ≠ rel₂) :
    cacheSubfolder relocated root cache (root ++ rel₁) folder sub ≠ cacheSubfolder relocated root cache (root ++ rel₂) folder sub := by
  intro heq
  cases relocated with
  | true =>
    rw [cache_folder_of_collection root cache rel₁ folder sub hne h₁, cache_folder_of_collection root cache rel₂ folder sub hne h₂] at heq
    simp only [join3] at heq
    have h3 : cache ++ rel₁ = cache ++ rel₂ := List.append_cancel_right (List.append_cancel_right heq)
    exact hd (List.append_cancel_left h3)
  | false =>
    simp only [cacheSubfolder, Bool.false_eq_true, if_false, join3] at heq
    have h3 : root ++ rel₁ = root ++ rel₂ := List.append_cancel_right (List.append_cancel_right heq)
    exact hd (List.append_cancel_left h3)

/-- the hypothesis is needed, and it is the code's (`str.replace` replaces every occurrence): where the root folder's text occurs
    again inside a collection's path, two collections can be sent to one folder — observed on the real function by the
    correspondence (`cache_folder_level`); it takes collections nested so that their path spells out the server's storage folder -/
theorem cache_folders_collide_when_root_reoccurs :
    cacheSubfolder true "/s/collection-root".toList "/s/collection-cache".toList "/s/collection-root/u/s/collection-root/x".toList ".Radicale.cache".toList "history".toList
      = cacheSubfolder true "/s/collection-root".toList "/s/collection-cache".toList "/s/collection-root/u/s/collection-cache/x".toList ".Radicale.cache".toList "history".toList := by
  decide

example : (∀ i, startsWith ("/u/cal".toList.drop i) "/s/collection-root".toList = false) := by
  intro i
  by_cases h : i < 7
  · have hb : ∀ j < 7, startsWith ("/u/cal".toList.drop j) "/s/collection-root".toList = false := by decide
    exact hb i h
  · have hd : "/u/cal".toList.drop i = [] := List.drop_eq_nil_of_le (by simp; omega)
    rw [hd]; decide

end Folder

end C13
