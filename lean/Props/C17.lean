import RadicaleProofs.AuthIndep
/-
  C17 — the login cache never changes the outcome of a login.
  Model: RadicaleModel/AuthCache.lean (`BaseAuth.login`, cache enabled, repaired code: fixes F10, F11, F17, F26).
  The SHA3-512 digest is a symbolic perfect hash of the byte string it is fed, `str(salt) ":" login ":" password`;
  that this string determines salt and password (for one login) is proved, not assumed.
  A history is a list of steps (advance the clock by dt ns; optionally attempt `login l pw` against the
  back-end function in force at that moment).  `run` executes it from the empty caches.
-/
namespace C17
open Radicale Radicale.AuthCache

/-- A successful login is backed by the back-end having accepted the same login and password — with the very
    user name answered — now or at most `succExp` seconds ago, at a moment of this history. -/
theorem cached_success_justified (cfg : Cfg) (t0 : Nat) (steps : List Step) :
    ∀ o ∈ (run cfg t0 steps).outs, o.user ≠ [] →
      ∃ c ∈ (run cfg t0 steps).log, Faithful t0 steps c ∧ c.login = o.l ∧ c.pw = o.pw ∧ c.result = o.user ∧
        c.time ≤ o.time ∧ age o.time c.time ≤ cfg.succExp := by
  intro o ho hu
  have h := runInv_run cfg t0 steps
  obtain ⟨c, hc, h1, h2, h3, h4, h5⟩ := (h.outs o ho).2.1 hu
  exact ⟨c, hc, (h.log c hc).2, h1, h2, h3, h4, h5⟩

/-- A failed login is backed by the back-end having rejected the same login and password now or at most
    `failExp` seconds ago. -/
theorem cached_failure_justified (cfg : Cfg) (t0 : Nat) (steps : List Step) :
    ∀ o ∈ (run cfg t0 steps).outs, o.user = [] →
      ∃ c ∈ (run cfg t0 steps).log, Faithful t0 steps c ∧ c.login = o.l ∧ c.pw = o.pw ∧ c.result = [] ∧
        c.time ≤ o.time ∧ age o.time c.time ≤ cfg.failExp := by
  intro o ho hu
  have h := runInv_run cfg t0 steps
  obtain ⟨c, hc, h1, h2, h3, h4, h5⟩ := (h.outs o ho).2.2 hu
  exact ⟨c, hc, (h.log c hc).2, h1, h2, h3, h4, h5⟩

/-- With unchanged credentials (one back-end function `f` throughout) every answer is exactly `f`'s. -/
theorem unchanged_credentials_transparent (cfg : Cfg) (t0 : Nat) (steps : List Step) (f : Str → Str → Str)
    (hf : ∀ s ∈ steps, s.backend = f) :
    ∀ o ∈ (run cfg t0 steps).outs, o.user = f o.l o.pw := by
  intro o ho
  have h := runInv_run cfg t0 steps
  have key : ∀ c ∈ (run cfg t0 steps).log, c.result = f c.login c.pw := by
    intro c hc
    obtain ⟨pre, s, post, hd, _, _, _, _, hb⟩ := (h.log c hc).2
    have hs : s ∈ steps := by rw [hd]; simp
    rw [← hb, hf s hs]
  by_cases hu : o.user = []
  · obtain ⟨c, hc, h1, h2, h3, _⟩ := (h.outs o ho).2.2 hu
    rw [hu, ← h3, key c hc, h1, h2]
  · obtain ⟨c, hc, h1, h2, h3, _⟩ := (h.outs o ho).2.1 hu
    rw [← h3, key c hc, h1, h2]

/-- The answers given to login `l` are the same when every attempt under any other login is removed from the
    history (the clock still advances). -/
theorem logins_independent (cfg : Cfg) (t0 : Nat) (steps : List Step) (l : Str) :
    outsOf l (run cfg t0 steps) = outsOf l (run cfg t0 (steps.map (forget l))) := by
  unfold run
  exact indep_foldl cfg l steps _ _ rfl (fun _ _ => rfl) rfl

/-- Housekeeping only ever removes expired failed-login entries, whatever login is being checked. -/
theorem housekeeping_only_expired (cfg : Cfg) (now : Nat) (failed : Str × Str → Option Nat) (k : Str × Str) (t : Nat)
    (h : failed k = some t) (hage : age now t ≤ cfg.failExp) : sweep cfg now failed k = some t := by
  simp [sweep, h, Nat.not_lt.2 hage]


/-- The input of the cache digest determines the salt and the password (for the login the entry is filed under):
    two different passwords, or two different clock readings, never share a digest. -/
theorem digest_input_unambiguous (s s' : Nat) (l pw pw' : Str) (h : digest s l pw = digest s' l pw') :
    s = s' ∧ pw = pw' := digest_inj h

/-- F26 (fixed): without the separators the input is ambiguous as soon as two clock readings differ in their number
    of decimal digits — a password never accepted by the back-end shares the digest of an accepted one. -/
theorem f26_unseparated_digest_ambiguous :
    digestUnsep 99999999999 "33".toList "3x".toList = digestUnsep 999999999993 "33".toList "x".toList ∧
    "3x".toList ≠ "x".toList := ⟨AuthCache.f26_unseparated_digest_ambiguous, by decide⟩

/-- **a back-end error is not a rejection.**  When the back-end raises instead of answering, nothing is added to either
    cache (every entry is still backed by a recorded answer, the record is unchanged), and `login` answers only if a cache
    entry justified by an earlier back-end answer inside its lifetime says so — otherwise the error goes to the caller. -/
theorem backend_error_is_not_cached (cfg : Cfg) (st : State) (log : List Call) (now : Nat) (l pw : Str) (h : Inv cfg st log) :
    Inv cfg (loginFault cfg st now l pw).2 log ∧
    (∀ r, (loginFault cfg st now l pw).1 = some r →
      (r.user ≠ [] → ∃ c ∈ log, c.login = l ∧ c.pw = pw ∧ c.result = r.user ∧ age now c.time ≤ cfg.succExp) ∧
      (r.user = [] → ∃ c ∈ log, c.login = l ∧ c.pw = pw ∧ c.result = [] ∧ age now c.time ≤ cfg.failExp)) :=
  loginFault_step cfg st log now l pw h

/-- One call: invariant preserved and answer justified (the step lemma behind the history theorems). -/
theorem login_step_justified (cfg : Cfg) (st : State) (log : List Call) (now : Nat) (backend : Str → Str → Str)
    (l pw : Str) (h : Inv cfg st log) :
    let r := login cfg st now backend l pw
    let log' := logAfter r now backend l pw log
    Inv cfg r.state log' ∧
    (r.user ≠ [] → ∃ c ∈ log', c.login = l ∧ c.pw = pw ∧ c.result = r.user ∧ age now c.time ≤ cfg.succExp) ∧
    (r.user = [] → ∃ c ∈ log', c.login = l ∧ c.pw = pw ∧ c.result = [] ∧ age now c.time ≤ cfg.failExp) := by
  have := login_step cfg st log now backend l pw h
  exact ⟨this.1, this.2.2.1, this.2.2.2⟩

-- non-vacuity: a history in which the cache really answers (second attempt is served from the cache,
-- the third, after expiry, from the changed back-end)
private def ok : Str → Str → Str := fun l p => if p = "p".toList then l else []
private def no : Str → Str → Str := fun _ _ => []
private def demo : List Step :=
  [⟨0, ok, "a".toList, "p".toList, true⟩, ⟨3000000000, no, "a".toList, "p".toList, true⟩,
   ⟨9000000000, no, "a".toList, "p".toList, true⟩]
example : ((run ⟨5, 5, 7⟩ 100 demo).outs.map (·.user)) = [[], "a".toList, "a".toList] := by decide +kernel
example : ((run ⟨5, 5, 7⟩ 100 demo).log.length) = 2 := by decide +kernel

end C17
