import RadicaleProofs.LockCV
import RadicaleProofs.LockFlock
/-
  C11 — the storage lock is a correct readers-writer lock under every schedule.
  Three transition systems, any number of threads, any schedule (a schedule is a path of `Step` / `next`):
  CV      the condition-variable lock of multifilesystem_nolock (RadicaleModel/LockCV.lean)
  Flock   the flock-based lock of pathutils (RadicaleModel/LockFlock.lean), kernel = correct RW lock
  LockDict the keyed FIFO cache lock (queue per key)
-/
namespace C11
open CV (Mode)

/-- CV lock: a writer inside excludes every other holder, in every reachable state -/
theorem cv_exclusion {n : Nat} {s : CV.State} (h : CV.Reachable n s) {t u : Nat}
    (ht : t < s.pcs.length) (hu : u < s.pcs.length)
    (hw : CV.holdW s.pcs[t] = true) (hh : CV.holdW s.pcs[u] = true ∨ CV.holdR s.pcs[u] = true) : t = u :=
  CV.reachable_exclusion h ht hu hw hh

/-- CV lock: the bookkeeping always equals who actually holds the lock -/
theorem cv_bookkeeping {n : Nat} {s : CV.State} (h : CV.Reachable n s) :
    s.readers = s.pcs.countP CV.holdR ∧ (s.writer = true ↔ 0 < s.pcs.countP CV.holdW) := by
  have hi := CV.reachable_inv h
  exact ⟨hi.rd, by rw [hi.wr]; simp⟩

/-- CV lock: inside a body `locked` reports the mode held; it reports "free" iff nobody holds the lock -/
theorem cv_locked_view {n : Nat} {s : CV.State} (h : CV.Reachable n s) {t : Nat} (ht : t < s.pcs.length)
    {m : Mode} (hcs : s.pcs[t] = .cs m) : CV.lockedView s = some m :=
  CV.locked_view (CV.reachable_inv h) ht hcs

theorem cv_locked_free {n : Nat} {s : CV.State} (h : CV.Reachable n s) :
    CV.lockedView s = none ↔ (s.pcs.countP CV.holdR = 0 ∧ s.pcs.countP CV.holdW = 0) :=
  CV.locked_view_free (CV.reachable_inv h)

/-- CV lock: no lost wake-up — when a waiter's predicate holds, it is not asleep -/
theorem cv_no_lost_wakeup {n : Nat} {s : CV.State} (h : CV.Reachable n s) (m : Mode)
    (hp : CV.pred s m = true) : CV.PC.asleep m ∉ s.pcs :=
  CV.no_lost_wakeup (CV.reachable_inv h) m hp

/-- CV lock: no deadlock — while some thread is not idle, some thread can take a step -/
theorem cv_deadlock_free {n : Nat} {s : CV.State} (h : CV.Reachable n s)
    (hne : ∃ t, ∃ ht : t < s.pcs.length, s.pcs[t] ≠ .idle) : ∃ t m s', CV.next s t m = some s' :=
  CV.deadlock_free (CV.reachable_inv h) (CV.reachable_minv h) hne

/-- the function the driver executes is a refinement of the step relation the invariants are proved for -/
theorem cv_next_is_step {s s' : CV.State} {t : Nat} {m : Mode} (h : CV.next s t m = some s') : CV.Step s s' :=
  CV.next_sound h

/-- flock lock: the "Guarantees failed" branch is unreachable -/
theorem flock_guarantees_hold {n : Nat} {s : Flock.State} (h : Flock.Reachable n s) :
    s.pcs.countP Flock.isFailed = 0 := (Flock.reachable_inv h).nofail

/-- flock lock: bookkeeping = holders; a writer inside excludes readers and other writers -/
theorem flock_bookkeeping {n : Nat} {s : Flock.State} (h : Flock.Reachable n s) :
    s.readers = s.pcs.countP Flock.inR ∧ (s.writer = true ↔ 0 < s.pcs.countP Flock.inW) :=
  ⟨(Flock.reachable_inv h).rd, (Flock.reachable_inv h).wr⟩

theorem flock_exclusion {n : Nat} {s : Flock.State} (h : Flock.Reachable n s) :
    s.pcs.countP Flock.inW ≤ 1 ∧ (0 < s.pcs.countP Flock.inW → s.pcs.countP Flock.inR = 0) := by
  have hi := Flock.reachable_inv h
  have l1 := Flock.inR_le_kR s.pcs
  have l2 := Flock.inW_le_kW s.pcs
  refine ⟨Nat.le_trans l2 hi.w1, fun hw => ?_⟩
  have := hi.ex (Nat.lt_of_lt_of_le hw l2)
  omega

/-- flock lock: `_writer = False` on a reader's exit changes nothing -/
theorem flock_reader_exit_noop {n : Nat} {s : Flock.State} (h : Flock.Reachable n s) {t : Nat}
    (ht : t < s.pcs.length) (hcs : s.pcs[t] = .cs .r) : s.writer = false := by
  have hi := Flock.reachable_inv h
  have hkr : 0 < s.pcs.countP Flock.kR := Flock.pos_of_getElem ht (by simp [hcs, Flock.kR])
  have hkw0 : s.pcs.countP Flock.kW = 0 := by
    rcases Nat.eq_zero_or_pos (s.pcs.countP Flock.kW) with h0 | hp
    · exact h0
    · have := hi.ex hp; omega
  have := Flock.inW_le_kW s.pcs
  cases hw : s.writer with
  | false => rfl
  | true => have := hi.wr.1 hw; omega

/-- keyed lock: one holder per key (the queue head), served in arrival order, keys independent -/
theorem lockdict_fifo {κ : Type} [DecidableEq κ] (s : LockDict.State κ) (k : κ) (t : Nat) :
    (LockDict.enter s k t) k = s k ++ [t] ∧
    (s k ≠ [] → LockDict.holder (LockDict.enter s k t) k = LockDict.holder s k) ∧
    LockDict.holder (LockDict.leave s k) k = (s k)[1]? := by
  refine ⟨by simp [LockDict.enter], ?_, ?_⟩
  · intro hne
    simp only [LockDict.holder, LockDict.enter, if_true]
    cases h : s k with
    | nil => exact absurd h hne
    | cons a l => simp
  · simp only [LockDict.holder, LockDict.leave, if_true]
    cases s k with
    | nil => simp
    | cons a l => cases l <;> simp

theorem lockdict_keys_independent {κ : Type} [DecidableEq κ] (s : LockDict.State κ) (k k' : κ) (t : Nat)
    (h : k' ≠ k) : (LockDict.enter s k t) k' = s k' ∧ (LockDict.leave s k) k' = s k' := by
  simp [LockDict.enter, LockDict.leave, h]

-- non-vacuity: a reachable CV state with a writer inside and a sleeping reader
example : ∃ s, CV.Reachable 2 s ∧ s.pcs = [.cs .w, .asleep .r] := by
  refine ⟨⟨0, true, none, [.cs .w, .asleep .r]⟩, ?_, rfl⟩
  have step := fun (s s' : CV.State) (t : Nat) (m : Mode) (hr : CV.Reachable 2 s) (h : CV.next s t m = some s') =>
    CV.Reachable.step hr (CV.next_sound h)
  have h0 : CV.Reachable 2 (CV.init 2) := CV.Reachable.init
  have h1 := step _ ⟨0, false, none, [.wantA .w, .idle]⟩ 0 .w h0 (by rfl)
  have h2 := step _ ⟨0, false, some 0, [.testA .w, .idle]⟩ 0 .w h1 (by rfl)
  have h3 := step _ ⟨0, true, some 0, [.exitA .w, .idle]⟩ 0 .w h2 (by rfl)
  have h4 := step _ ⟨0, true, none, [.cs .w, .idle]⟩ 0 .w h3 (by rfl)
  have h5 := step _ ⟨0, true, none, [.cs .w, .wantA .r]⟩ 1 .r h4 (by rfl)
  have h6 := step _ ⟨0, true, some 1, [.cs .w, .testA .r]⟩ 1 .r h5 (by rfl)
  exact step _ ⟨0, true, none, [.cs .w, .asleep .r]⟩ 1 .r h6 (by rfl)

end C11
