import RadicaleModel.Rights
import RadicaleProofs.Regex
/-
  C04 — built-in rights back-ends grant exactly the documented permissions.
  `verify` = authentication is enabled (auth type ≠ none).  Paths are sanitised paths.
-/
namespace C04
open Radicale Radicale.Rights Radicale.Regex

/-- owner_only never grants anything inside another user's home -/
theorem owner_only_foreign (user path : Str) (hroot : sane path ≠ []) (hf : firstComp (sane path) ≠ user) :
    ownerOnly true user path = [] := by
  unfold ownerOnly
  by_cases hu : user = []
  · simp [hu]
  · simp only [hu, and_false, if_false, hroot, true_and]
    simp [Ne.symm hf]

/-- owner_only: what the owner gets -/
theorem owner_only_own (user path : Str) (hu : user ≠ []) (hroot : sane path ≠ [])
    (ho : firstComp (sane path) = user) :
    ownerOnly true user path =
      (if slashCount (sane path) = 0 then "RW".toList else if slashCount (sane path) = 1 then "rw".toList else []) := by
  simp [ownerOnly, hu, hroot, ho]

/-- owner_write never grants write outside one's own home -/
theorem owner_write_no_foreign_write (user path : Str) (hf : firstComp (sane path) ≠ user) :
    'w' ∉ ownerWrite true user path ∧ 'W' ∉ ownerWrite true user path := by
  unfold ownerWrite
  by_cases hu : user = []
  · simp [hu]
  · by_cases hroot : sane path = []
    · simp [hu, hroot]
    · simp only [hu, and_false, if_false, hroot, true_and, if_true, Ne.symm hf]
      split
      · simp
      · split <;> simp

/-- owner_write: everybody authenticated may read the two upper levels -/
theorem owner_write_read (user path : Str) (hu : user ≠ []) (hroot : sane path ≠ []) (hd : slashCount (sane path) ≤ 1) :
    'r' ∈ ownerWrite true user path ∨ 'R' ∈ ownerWrite true user path := by
  unfold ownerWrite
  simp only [hu, and_false, if_false, hroot, true_and, if_true]
  by_cases h0 : slashCount (sane path) = 0
  · simp only [h0, if_true]; split <;> simp
  · have h1 : slashCount (sane path) = 1 := by omega
    have h10 : ¬ (1 = 0) := by decide
    simp only [h1, h10, if_false, if_true]; split <;> simp

/-- none of the three grants anything below the calendar / address-book level -/
theorem none_below_depth2 (verify : Bool) (user path : Str) (h : 2 ≤ slashCount (sane path)) :
    authenticated verify user path = [] ∧ ownerOnly verify user path = [] ∧ ownerWrite verify user path = [] := by
  have h0 : slashCount (sane path) ≠ 0 := by omega
  have h1 : slashCount (sane path) ≠ 1 := by omega
  have hne : sane path ≠ [] := by
    intro e; rw [e] at h; simp [slashCount] at h
  refine ⟨?_, ?_, ?_⟩
  · unfold authenticated; split <;> simp [h0, h1]
  · unfold ownerOnly; split
    · rfl
    · simp only [hne, if_false, h0, h1]; split <;> rfl
  · unfold ownerWrite; split
    · rfl
    · simp [hne, h0, h1]

/-- anonymous users get nothing while authentication is enabled -/
theorem anonymous_gets_nothing (path : Str) :
    authenticated true [] path = [] ∧ ownerOnly true [] path = [] ∧ ownerWrite true [] path = [] := by
  simp [authenticated, ownerOnly, ownerWrite]

/-- `authenticated`: read and write everything down to the calendar level -/
theorem authenticated_all (user path : Str) (hu : user ≠ []) (hd : slashCount (sane path) ≤ 1) :
    authenticated true user path = (if slashCount (sane path) = 0 then "RW".toList else "rw".toList) := by
  unfold authenticated
  simp only [hu, and_false, if_false]
  by_cases h0 : slashCount (sane path) = 0
  · simp [h0]
  · have h1 : slashCount (sane path) = 1 := by omega
    simp [h1]

/-- `re.escape` makes a string literal: the escaped pattern parses, and full-matches exactly the string itself
    — whatever regex metacharacters the (user) name contains. -/
theorem escape_is_literal (s t : Str) :
    ∃ r n, parse (escape s) = some (r, n) ∧ ((fullmatch r n t).isSome = true ↔ t = s) :=
  ⟨lit s, 0, parse_escape s, fullmatch_lit s t 0⟩

/-- `"{user}".format(*groups, user=re.escape(user))` is the escaped user name -/
theorem user_template_subst (gs : List Str) (e : Str) :
    pyFormat "{user}".toList gs (some e) = .ok e := by
  simp [pyFormat, pyFormatAux, parseNat?]

/-- a section whose collection pattern is `{user}` (the documented "principal" rule) applies, for a user its
    user pattern accepts, to exactly the collection named like the user — never to more. -/
theorem principal_rule_literal (up perms user p : Str) (ure : Re) (ng : Nat) (caps : Caps)
    (hup : up ≠ []) (hfmt : pyFormat up [] none = .ok up) (hparse : parse up = some (ure, ng))
    (hmatch : fullmatch ure ng user = some caps) (hcaps : caps.any Option.isNone = false) :
    ruleMatches ⟨up, "{user}".toList, perms⟩ user p = if p = user then .yes else .no := by
  unfold ruleMatches
  simp only [hup, if_false, hfmt, hparse, hmatch, hcaps, Bool.false_eq_true]
  rw [user_template_subst, ]
  simp only [parse_escape]
  have := fullmatch_lit user p 0
  by_cases h : p = user
  · subst h
    simp [this.2 rfl]
  · have : (fullmatch (lit user) 0 p).isSome = false := by
      cases hh : (fullmatch (lit user) 0 p).isSome with
      | true => exact absurd (this.1 hh) h
      | false => rfl
    simp [h, this]

/-- from_file: the permissions of the first section that applies; a section that does not apply is skipped,
    no section → deny; (an error in a section that is reached aborts the request). -/
theorem from_file_first_match (rules : List Rule) (user path : Str) :
    fromFile rules user path =
      match rules.find? (fun r => ruleMatches r user (sane path) != .no) with
      | none => .perms []
      | some r =>
        match ruleMatches r user (sane path) with
        | .yes => .perms r.perms
        | .err => .error
        | _ => .unsupported := by
  induction rules with
  | nil => rfl
  | cons r rest ih =>
    unfold fromFile
    cases h : ruleMatches r user (sane path) with
    | err =>
      have : (RuleRes.err != RuleRes.no) = true := by decide
      simp [List.find?, h, this]
    | unsup =>
      have : (RuleRes.unsup != RuleRes.no) = true := by decide
      simp [List.find?, h, this]
    | yes =>
      have : (RuleRes.yes != RuleRes.no) = true := by decide
      simp [List.find?, h, this]
    | no => simp [List.find?, h, ih]

-- non-vacuity: a user name full of metacharacters against the documented example rules
private def docRules : List Rule :=
  [⟨".+".toList, [], "R".toList⟩, ⟨".+".toList, "{user}".toList, "RW".toList⟩,
   ⟨".+".toList, "{user}/[^/]+".toList, "rw".toList⟩]
example : fromFile docRules ".*".toList "/.*/".toList = .perms "RW".toList := by decide +kernel
example : fromFile docRules ".*".toList "/bob/".toList = .perms [] := by decide +kernel
example : fromFile docRules ".*".toList "/.*/cal/".toList = .perms "rw".toList := by decide +kernel
example : fromFile docRules "a(b".toList "/a(b/".toList = .perms "RW".toList := by decide +kernel
example : ownerOnly true "bob".toList "/alice/cal/".toList = [] := by decide +kernel

end C04
