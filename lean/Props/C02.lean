import RadicaleProofs.Trace
/-
  C02 — modifying requests are all-or-nothing under crashes.
  Model: RadicaleModel/Trace.lean — the data projection of the file-system operations of every storage
  call; `FS` a partial map from paths to nodes; `abs` = what clients can observe (everything outside
  lock / cache / temporary names).  A crash after k operations leaves `applyAll fs (ops.take k)`.
-/
namespace C02
open Radicale Radicale.Trace

/-- The general theorem: a trace with one commit point is crash-atomic at every boundary. -/
theorem crash_atomic {ops : List Op} (h : OneCommit ops) (fs : FS) (k : Nat) :
    abs (applyAll fs (ops.take k)) = abs fs ∨ abs (applyAll fs (ops.take k)) = abs (applyAll fs ops) :=
  prefix_before_or_after h fs k

/-- operations on temporary / cache / lock names never change what clients see (left-overs are invisible) -/
theorem leftovers_invisible (fs : FS) (ops : List Op) (h : ∀ o ∈ ops, o.hiddenOnly = true) :
    abs (applyAll fs ops) = abs fs := abs_applyAll_hidden ops fs h

theorem upload_atomic (fsync : Bool) (coll : FPath) (href : Comp) (k : Nat) (fs : FS) (n : Nat) :
    abs (applyAll fs ((upload fsync coll href k).take n)) = abs fs ∨
    abs (applyAll fs ((upload fsync coll href k).take n)) = abs (applyAll fs (upload fsync coll href k)) :=
  crash_atomic (atomicWrite_oneCommit fsync coll href k) fs n

theorem set_meta_atomic (fsync : Bool) (coll : FPath) (k : Nat) (fs : FS) (n : Nat) :
    abs (applyAll fs ((setMeta fsync coll k).take n)) = abs fs ∨
    abs (applyAll fs ((setMeta fsync coll k).take n)) = abs (applyAll fs (setMeta fsync coll k)) :=
  crash_atomic (atomicWrite_oneCommit fsync coll propsName k) fs n

theorem delete_item_atomic (fsync : Bool) (coll : FPath) (href : Comp) (fs : FS) (n : Nat) :
    abs (applyAll fs ((deleteItem fsync coll href).take n)) = abs fs ∨
    abs (applyAll fs ((deleteItem fsync coll href).take n)) = abs (applyAll fs (deleteItem fsync coll href)) :=
  crash_atomic (deleteItem_oneCommit fsync coll href) fs n

theorem delete_collection_atomic (fsync : Bool) (coll : FPath) (empty : Bool) (k : Nat) (fs : FS) (n : Nat) :
    abs (applyAll fs ((deleteColl fsync coll empty k).take n)) = abs fs ∨
    abs (applyAll fs ((deleteColl fsync coll empty k).take n)) = abs (applyAll fs (deleteColl fsync coll empty k)) :=
  crash_atomic (deleteColl_oneCommit fsync coll empty k) fs n

theorem move_atomic (fsync : Bool) (c1 : FPath) (h1 : Comp) (c2 : FPath) (h2 : Comp) (fs : FS) (n : Nat) :
    abs (applyAll fs ((move fsync c1 h1 c2 h2).take n)) = abs fs ∨
    abs (applyAll fs ((move fsync c1 h1 c2 h2).take n)) = abs (applyAll fs (move fsync c1 h1 c2 h2)) :=
  crash_atomic (move_oneCommit fsync c1 h1 c2 h2) fs n

/-- MKCALENDAR / MKCOL with a body / whole-collection PUT with *any* number of items, new or replacing -/
theorem create_collection_atomic (fsync : Bool) (coll : FPath) (items : Option (List Comp)) (missing : Nat)
    (hm : missing ≤ 1) (existsTarget : Bool) (k : Nat) (cacheInColl : Bool) (fs : FS) (n : Nat) :
    let ops := createCollection fsync coll true items missing existsTarget k cacheInColl
    abs (applyAll fs (ops.take n)) = abs fs ∨ abs (applyAll fs (ops.take n)) = abs (applyAll fs ops) :=
  crash_atomic (createCollection_oneCommit fsync coll items missing hm existsTarget k cacheInColl) fs n

/-- MKCOL without body / first-login home creation (one directory) -/
theorem makedirs_atomic (fsync : Bool) (p : FPath) (fs : FS) (n : Nat) :
    abs (applyAll fs ((makedirs fsync p 1).take n)) = abs fs ∨
    abs (applyAll fs ((makedirs fsync p 1).take n)) = abs (applyAll fs (makedirs fsync p 1)) :=
  crash_atomic (makedirs_oneCommit fsync p) fs n

-- non-vacuity: the upload trace really has a commit that changes what clients see
private def c : FPath := ["collection-root".toList, "u".toList, "cal".toList]
private def fs0 : FS := fun p => if p = c then some .dir else none
example : abs (applyAll fs0 (upload true c "a.ics".toList 0)) (c ++ ["a.ics".toList]) = some (.file true) := by
  decide +kernel
example : abs (applyAll fs0 ((upload true c "a.ics".toList 0).take 4)) (c ++ ["a.ics".toList]) = none := by
  decide +kernel
example : (upload true c "a.ics".toList 0).length = 7 := by decide +kernel

end C02
