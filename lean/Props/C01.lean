import RadicaleProofs.TraceEffect
import RadicaleProofs.PropsReq
import RadicaleProofs.Dav
import RadicaleProofs.DavStore
/-
  C01 — stored data follows the DAV object model.  The ideal store is RadicaleModel/Dav.lean; these theorems
  say what "ideal" means; that the implementation behaves like it is the correspondence check.
-/
namespace C01
open Dav

theorem last_write_wins (c : Coll) (h : String) (it : Item) : item? (c.put h it) h = some it := item_put_same c h it
theorem write_leaves_others (c : Coll) (h h' : String) (it : Item) (hne : h' ≠ h) :
    item? (c.put h it) h' = item? c h' := item_put_other c h h' it hne
theorem deleted_is_gone (c : Coll) (h : String) : item? (c.del h) h = none := item_del_same c h
theorem delete_leaves_others (c : Coll) (h h' : String) (hne : h' ≠ h) : item? (c.del h) h' = item? c h' :=
  item_del_other c h h' hne

/-! ### store level: one acknowledged write, seen through `resolve` (what every read handler starts from) -/

/-- **an acknowledged PUT of an object is visible under its name, and nothing else appears, disappears or
    changes**: the name resolves to the new object; every other path resolves to the same resource as before -/
theorem put_item_visible_nothing_else (cfg : Cfg) (rights : Rights) (user : String) (s : Store) (hw : WF s)
    (p : Path) (body : Body) (im raw nm imc) (resp : Resp) (u : Update) (pc : Coll)
    (hpar : parentOk s p = some pc) (hitem : isWhole (resolve s p) pc = false)
    (h : putU cfg rights user s p body im raw nm imc = (resp, some u)) :
    ∃ it x, asItem pc.tag body = some it ∧ p.getLast? = some x ∧
      resolve (applyUpdate s u) p = .item p.dropLast (pc.put x it) x it ∧
      ∀ q, q ≠ p → sameResource (resolve (applyUpdate s u) q) (resolve s q) := by
  have h2 : (putU cfg rights user s p body im raw nm imc).2 = some u := by rw [h]
  unfold putU at h2
  split at h2
  · simp at h2
  split at h2
  · simp at h2
  rw [hpar] at h2
  simp only [putDispatch, hitem, Bool.false_eq_true, if_false] at h2
  obtain ⟨it, hit, rfl, _⟩ := putItemU_upd rights user p body pc (resolve s p) im raw nm u h2
  have hfree : coll? s p = none := by
    cases hc : coll? s p with
    | none => rfl
    | some c =>
      have : resolve s p = .coll p c := by unfold resolve; rw [hc]
      rw [this] at hitem
      simp [isWhole] at hitem
  have hne : p ≠ [] := by
    intro e; subst e
    obtain ⟨r, hr, _⟩ := root_present s hw
    rw [hr] at hfree; cases hfree
  obtain ⟨x, hx⟩ : ∃ x, p.getLast? = some x := by
    cases hl : p.getLast? with
    | none => exact absurd (List.getLast?_eq_none_iff.mp hl) hne
    | some x => exact ⟨x, rfl⟩
  have hp := dropLast_getLast p x hx
  have hxd : p.getLast?.getD "" = x := by rw [hx]; rfl
  refine ⟨it, x, hit, hx, ?_, ?_⟩
  · simp only [applyUpdate, hxd]
    have := resolve_member s p.dropLast (pc.put x it) x (by rw [← hp]; exact hfree)
    rw [← hp] at this
    rw [this, item_put_same]
  · intro q hq
    simp only [applyUpdate, hxd]
    apply resolve_after_member_change s p.dropLast pc (pc.put x it) x hpar (by simp [Coll.put]) (by simp [Coll.put])
    · intro y hy; exact item_put_other pc x y it hy
    · rw [← hp]; exact hq

/-- **an acknowledged DELETE of an object removes exactly that object** -/
theorem delete_item_gone_nothing_else (cfg : Cfg) (rights : Rights) (user : String) (s : Store)
    (p : Path) (im imc) (resp : Resp) (u : Update) (parent : Path) (c : Coll) (x : String) (it : Item)
    (hres : resolve s p = .item parent c x it)
    (h : deleteU cfg rights user s p im imc = (resp, some u)) :
    resolve (applyUpdate s u) p = .absent ∧ ∀ q, q ≠ p → sameResource (resolve (applyUpdate s u) q) (resolve s q) := by
  have h2 : (deleteU cfg rights user s p im imc).2 = some u := by rw [h]
  have hu := deleteU_item_upd cfg rights user s p im imc u parent c x it hres h2
  subst hu
  obtain ⟨hfree, hpar, hc, hlast, _⟩ := resolve_item s p parent c x it hres
  subst hpar
  have hp := dropLast_getLast p x hlast
  constructor
  · simp only [applyUpdate]
    have := resolve_member s p.dropLast (c.del x) x (by rw [← hp]; exact hfree)
    rw [← hp] at this
    rw [this, item_del_same]
  · intro q hq
    simp only [applyUpdate]
    apply resolve_after_member_change s p.dropLast c (c.del x) x hc (by simp [Coll.del]) (by simp [Coll.del])
    · intro y hy; exact item_del_other c x y hy
    · rw [← hp]; exact hq

/-- **an acknowledged MOVE never replaces an object by one with another UID, and never without `Overwrite: T`**
    (RFC 4791 5.3.2.1 no-uid-conflict): when the destination name holds an object, the moved object has the same UID,
    the client asked for the overwrite, and the update is the move of exactly the source object to exactly that name -/
theorem move_acknowledged (cfg : Cfg) (rights : Rights) (user : String) (s : Store) (src dst : Path) (ow : Bool)
    (resp : Resp) (u : Update) (h : moveU cfg rights user s src dst ow = (resp, some u)) :
    ∃ parent c x it, resolve s src = .item parent c x it ∧
      u = .moveItem parent x dst.dropLast (dst.getLast?.getD "") it ∧
      (∀ dp dc dx old, resolve s dst = .item dp dc dx old → it.uid = old.uid ∧ ow = true ∧ resp.status = 204) ∧
      (resolve s dst = .absent → resp.status = 201) := by
  unfold moveU at h
  split at h
  · simp at h
  split at h
  · simp at h
  split at h
  · simp at h
  · split at h <;> (simp only at h; split at h <;> simp at h)
  · rename_i parent c x it hsrc
    split at h
    · simp at h
    refine ⟨parent, c, x, it, hsrc, ?_⟩
    cases hd : resolve s dst with
    | coll p c' => rw [hd] at h; simp at h
    | absent =>
      rw [hd] at h
      simp only at h
      split at h
      · repeat' split at h
        all_goals simp at h
      · split at h
        · simp at h
        simp only [Option.isSome_none, Bool.false_and, Bool.false_eq_true, if_false] at h
        split at h
        · simp at h
        simp only [Prod.mk.injEq, Option.some.injEq] at h
        refine ⟨h.2.symm, ?_, ?_⟩
        · intro dp dc dx old hx; cases hx
        · intro _; rw [← h.1]
    | item dp dc dx old =>
      rw [hd] at h
      simp only at h
      split at h
      · repeat' split at h
        all_goals simp at h
      · split at h
        · simp at h
        simp only [Option.isSome_some, Bool.true_and] at h
        split at h
        · simp at h
        split at h
        · simp at h
        simp only [Prod.mk.injEq, Option.some.injEq] at h
        refine ⟨h.2.symm, ?_, ?_⟩
        · intro dp' dc' dx' old' hx
          cases hx
          rename_i hc how
          refine ⟨by simpa using how, by simpa using hc, by rw [← h.1]; simp⟩
        · intro hx; cases hx

/-- a refused or failed request is the identity on the store (with C15's `error_is_identity`) and reads never
    change it: `handle` returns the store it was given whenever the handler decides on no update -/
theorem no_update_no_change (cfg : Cfg) (rights : Rights) (user : String) (s : Store) (r : Req)
    (h : (handleU cfg rights user s r).2 = none) : (handle cfg rights user s r).2 = s := by
  unfold handle
  cases hh : handleU cfg rights user s r with
  | mk resp ou =>
    rw [hh] at h
    simp only at h
    subst h
    rfl

/-! ### file-system level: what the storage calls do to the tree of files clients can see

  `Trace.FS` is a partial map from paths to nodes, `Trace.apply` the effect of one system call (mkdir, open, write,
  rename, exchange, unlink, rmtree), and `Trace.upload` … `Trace.createCollection` the exact call sequences of the
  multifilesystem back-end (tied to the code by the system-call correspondence of C02 / C12).  A path is visible when
  none of its components is a lock, cache or temporary name.  These theorems are the functional half of the
  refinement "file system ⊑ ideal store" (C02 has the crash half): each storage call changes exactly the names the
  ideal operation changes. -/

open Radicale.Trace in
/-- **the last successful write to a name wins and nothing else appears or disappears** -/
theorem fs_upload (fsync : Bool) (coll : FPath) (href : Comp) (k : Nat) (fs : FS)
    (hfresh : Fresh fs (coll ++ [tmpName k])) (q : FPath) (hq : hidden q = false) :
    applyAll fs (upload fsync coll href k) q =
      if q = coll ++ [href] then some (.file true) else if isPrefix (coll ++ [href]) q then none else fs q :=
  upload_effect fsync coll href k fs hfresh q hq

open Radicale.Trace in
/-- **a deleted name is gone, and only that name** -/
theorem fs_delete_item (fsync : Bool) (coll : FPath) (href : Comp) (fs : FS) (q : FPath) :
    applyAll fs (deleteItem fsync coll href) q = if q = coll ++ [href] then none else fs q :=
  deleteItem_effect fsync coll href fs q

open Radicale.Trace in
/-- **a moved-away name is gone, the object is under the new name, nothing else changes** -/
theorem fs_move (fsync : Bool) (c1 : FPath) (h1 : Comp) (c2 : FPath) (h2 : Comp) (fs : FS)
    (hfile : ∀ c rs, fs (c1 ++ [h1] ++ c :: rs) = none) (q : FPath) :
    applyAll fs (move fsync c1 h1 c2 h2) q =
      if q = c2 ++ [h2] then fs (c1 ++ [h1]) else if isPrefix (c2 ++ [h2]) q then none
      else if isPrefix (c1 ++ [h1]) q then none else fs q :=
  move_effect fsync c1 h1 c2 h2 fs hfile q

open Radicale.Trace in
/-- **a created or replaced collection contains only the new objects**: afterwards there is, at and below the
    collection, exactly the directory, its properties file and one file per uploaded object — whether the
    collection existed before (`existsTarget`, any previous content) or not — and every other visible path is
    unchanged -/
theorem fs_replace_collection (fsync : Bool) (coll : FPath) (items : Option (List Comp)) (missing : Nat)
    (hm : missing ≤ 1) (existsTarget : Bool) (k : Nat) (cacheInColl : Bool) (fs : FS)
    (hfresh : Fresh fs (coll.dropLast ++ [tmpName k])) (q : FPath) (hq : hidden q = false) :
    applyAll fs (createCollection fsync coll true items missing existsTarget k cacheInColl) q =
      if isPrefix coll q then newCollNode items (q.drop coll.length) else fs q :=
  createCollection_effect fsync coll items missing hm existsTarget k cacheInColl fs hfresh q hq

open Radicale.Trace in
/-- **a deleted collection is gone with everything below it, and nothing else** -/
theorem fs_delete_collection (fsync : Bool) (coll : FPath) (empty : Bool) (k : Nat) (fs : FS)
    (hempty : empty = true → ∀ c rs, fs (coll ++ c :: rs) = none) (q : FPath) (hq : hidden q = false) :
    applyAll fs (deleteColl fsync coll empty k) q = if isPrefix coll q then none else fs q :=
  deleteColl_effect fsync coll empty k fs hempty q hq

open Radicale.Trace in
/-- properties are replaced as one file; members are untouched -/
theorem fs_set_meta (fsync : Bool) (coll : FPath) (k : Nat) (fs : FS)
    (hfresh : Fresh fs (coll ++ [tmpName k])) (q : FPath) (hq : hidden q = false) :
    applyAll fs (setMeta fsync coll k) q =
      if q = coll ++ [propsName] then some (.file true) else if isPrefix (coll ++ [propsName]) q then none else fs q :=
  setMeta_effect fsync coll k fs hfresh q hq

-- non-vacuity: replacing a calendar that held x.ics and y.ics by one holding a.ics
private def cal : Radicale.Trace.FPath := ["collection-root".toList, "u".toList, "cal".toList]
private def fsOld : Radicale.Trace.FS := fun p =>
  if p = cal ∨ p = cal.dropLast ∨ p = cal.dropLast.dropLast then some .dir
  else if p = cal ++ ["x.ics".toList] ∨ p = cal ++ ["y.ics".toList] ∨ p = cal ++ [Radicale.Trace.propsName] then some (.file true) else none
example : Radicale.Trace.applyAll fsOld (Radicale.Trace.createCollection true cal true (some ["a.ics".toList]) 0 true 0) (cal ++ ["x.ics".toList]) = none ∧
    Radicale.Trace.applyAll fsOld (Radicale.Trace.createCollection true cal true (some ["a.ics".toList]) 0 true 0) (cal ++ ["a.ics".toList]) = some (.file true) ∧
    Radicale.Trace.applyAll fsOld (Radicale.Trace.createCollection true cal true (some ["a.ics".toList]) 0 true 0) cal = some .dir := by
  decide +kernel

/-! ### properties: `props_from_request` and PROPPATCH (model RadicaleModel/PropsReq.lean) -/

/-- **the last write to a property wins, within one request too**: after a PROPPATCH (or the property part of MKCOL /
    MKCALENDAR) property `k` is what the *last* instruction of the body for `k` says — its value, or gone — whatever
    mixture and order of `<set>` and `<remove>` elements the body holds; properties the body does not name are untouched -/
theorem proppatch_last_instruction_wins (ps : Radicale.PropsReq.Props) (is : List Radicale.PropsReq.Instr) (k : String) :
    Radicale.PropsReq.lookup (Radicale.PropsReq.apply ps (Radicale.PropsReq.propsFromRequest is)) k =
      match Radicale.PropsReq.lastFor is k with
      | some i => if i.isSet then some i.value else none
      | none => Radicale.PropsReq.lookup ps k :=
  Radicale.PropsReq.proppatch_last_instruction_wins ps is k

/-- `props_from_request` names every property once -/
theorem props_from_request_one_entry_per_property (is : List Radicale.PropsReq.Instr) :
    ((Radicale.PropsReq.propsFromRequest is).map (·.1)).Nodup := Radicale.PropsReq.propsFromRequest_nodup is

example : Radicale.PropsReq.lookup (Radicale.PropsReq.apply [("D:displayname", "old")]
    (Radicale.PropsReq.propsFromRequest [⟨false, "D:displayname", ""⟩, ⟨true, "D:displayname", "new"⟩])) "D:displayname" = some "new" := by
  decide +kernel

end C01
