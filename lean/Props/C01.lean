import RadicaleProofs.Dav
/-
  C01 — stored data follows the DAV object model.  The ideal store is RadicaleModel/Dav.lean; these theorems
  say what "ideal" means; that the implementation behaves like it is the correspondence check.
-/
namespace C01
open Dav

theorem last_write_wins (c : Coll) (h : String) (it : Item) : item? (c.put h it) h = some it := item_put_same c h it
theorem write_leaves_others (c : Coll) (h h' : String) (it : Item) (hne : h' ≠ h) :
    item? (c.put h it) h' = item? c h' := item_put_other c h h' it hne
theorem deleted_is_gone (c : Coll) (h : String) : item? (c.del h) h = none := item_del_same c h
theorem delete_leaves_others (c : Coll) (h h' : String) (hne : h' ≠ h) : item? (c.del h) h' = item? c h' :=
  item_del_other c h h' hne

end C01
