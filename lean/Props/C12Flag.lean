import Generated.LockShape
/-
  C12 (static part, regenerated from the source on every run by harness/lockshape.py): whether data is synced is configuration,
  fixed when the storage object is built.  The trace theorems of Props/C12.lean are about a storage whose `_filesystem_fsync` is
  on; they carry over to every request of a process only if nothing switches the flag later.
-/
namespace C12Flag

/-- the storage-wide flag is written by the constructor and by the offline `--verify-storage` routine only … -/
theorem fsync_flag_written_only_at_configuration :
    ∀ w ∈ Generated.flagWrites, w.2.1 = "__init__" ∨ (w.1 = "radicale/storage/multifilesystem/verify.py" ∧ w.2.1 = "verify") := by
  decide

/-- … the constructor does write it (the translator did not translate nothing) … -/
theorem fsync_flag_is_configured :
    ("radicale/storage/multifilesystem/base.py", "__init__", "_filesystem_fsync") ∈ Generated.flagWrites := by
  decide

/-- … and the request-serving code (radicale/app, server.py, the WSGI entry) never calls the offline routine -/
theorem server_never_runs_the_offline_verifier : Generated.verifyCallsFromServer = [] := by
  decide

end C12Flag
