import RadicaleProofs.Skeleton
import Generated.Skeleton
/-
  C10 — all storage access happens under the storage lock in a sufficient mode.

  `Generated.handlers` is regenerated from /repo/radicale/app/*.py on every run (harness/skeleton.py): per HTTP
  method the lock-relevant skeleton of `_handle_request` with the `do_*` handler inlined.  `disciplined` is the
  static check; `disciplined_sound` proves it correct against the execution semantics `Exec` (any branch, any
  number of loop iterations, a return or an exception at any storage call, REPORT's early unlock).
-/
namespace C10
open Radicale.Skeleton

/-- **soundness of the check**: in every execution of a disciplined skeleton, storage is read only while the lock
    is held (shared or exclusive), modified only while it is held exclusively, and the hook runs only while it
    is held exclusively — also after REPORT's early unlock, on every early return and in every exception handler -/
theorem disciplined_sound (sk : Sk) (hd : disciplined sk = true) (t : Trace) (o : Outcome) (hx : Exec sk none t o) :
    ∀ p ∈ t, (p.1 = .read → p.2.isSome = true) ∧ (p.1 = .write → p.2 = some .w) ∧ (p.1 = .hook → p.2 = some .w) := by
  intro p hp
  have g := (run_sound sk none t o hx hd).events p hp
  obtain ⟨e, h⟩ := p
  cases e <;> simp_all [allowed]

/-- **the current tree**: every handler generated from /repo's source passes the check -/
theorem c10_current_tree : ∀ p ∈ Generated.handlers, disciplined p.2 = true := by decide +kernel

/-- hence the discipline holds for every execution of every handler of the current tree -/
theorem c10_handlers_disciplined (name : String) (sk : Sk) (hm : (name, sk) ∈ Generated.handlers)
    (t : Trace) (o : Outcome) (hx : Exec sk none t o) :
    ∀ p ∈ t, (p.1 = .read → p.2.isSome = true) ∧ (p.1 = .write → p.2 = some .w) ∧ (p.1 = .hook → p.2 = some .w) :=
  disciplined_sound sk (c10_current_tree (name, sk) hm) t o hx

/-- the hook runs at the end of every exclusive window that is left without an exception … -/
theorem hook_after_success (body : Sk) (h : Held) (t : Trace) (o : Outcome) (hx : Exec (.lock .w body) h t o)
    (hok : ∀ x, o ≠ .raised x) : ∃ t' hh, t = t' ++ [(.hook, hh)] := by
  cases hx with
  | lockDone _ _ _ h1 t0 _ => exact ⟨(.acquire, h) :: t0, h1, by simp⟩
  | lockRet _ _ _ h1 t0 _ => exact ⟨(.acquire, h) :: t0, h1, by simp⟩
  | lockRaise _ _ _ h1 _ _ => exact absurd rfl (hok none)

/-- … and not when the window is left by an exception -/
theorem no_hook_on_exception (body : Sk) (h : Held) (t : Trace) (x : Held) (hx : Exec (.lock .w body) h t (.raised x))
    (hb : ∀ t' o', Exec body (some .w) t' o' → ∀ p ∈ t', p.1 ≠ .hook) : ∀ p ∈ t, p.1 ≠ .hook := by
  cases hx with
  | lockRaise _ _ _ h1 _ hbody =>
    intro p hp
    rcases List.mem_cons.mp hp with hp | hp
    · subst hp; simp
    · exact hb _ _ hbody p hp

/-- a skeleton without exclusive windows never runs the hook -/
def noW : Sk → Bool
  | .ev .hook => false
  | .lock .w _ => false
  | .lock .r b => noW b
  | .seq a b => noW a && noW b
  | .alt a b => noW a && noW b
  | .star a => noW a
  | .try_ b h => noW b && noW h
  | .fn b => noW b
  | _ => true

theorem no_hook_without_w (sk : Sk) (h : Held) (t : Trace) (o : Outcome) (hx : Exec sk h t o) (hn : noW sk = true) :
    ∀ p ∈ t, p.1 ≠ .hook := by
  induction hx with
  | skip => intro p hp; simp at hp
  | ev e h => intro p hp; simp at hp; subst hp; cases e <;> simp_all [noW]
  | evRaises e h => intro p hp; simp at hp; subst hp; cases e <;> simp_all [noW]
  | evRaises0 => intro p hp; simp at hp
  | ret => intro p hp; simp at hp
  | raise => intro p hp; simp at hp
  | seq a b h h1 ta tb o _ _ iha ihb =>
    simp only [noW, Bool.and_eq_true] at hn
    intro p hp
    rcases List.mem_append.mp hp with hp | hp
    · exact iha hn.1 p hp
    · exact ihb hn.2 p hp
  | seqRet a b h h1 ta _ iha => simp only [noW, Bool.and_eq_true] at hn; exact iha hn.1
  | seqRaise a b h h1 ta _ iha => simp only [noW, Bool.and_eq_true] at hn; exact iha hn.1
  | altL a b h t o _ ih => simp only [noW, Bool.and_eq_true] at hn; exact ih hn.1
  | altR a b h t o _ ih => simp only [noW, Bool.and_eq_true] at hn; exact ih hn.2
  | star0 => intro p hp; simp at hp
  | starS a h h1 ta tb o _ _ iha ihs =>
    have hn' := hn
    simp only [noW] at hn
    intro p hp
    rcases List.mem_append.mp hp with hp | hp
    · exact iha hn p hp
    · exact ihs hn' p hp
  | starRet a h h1 ta _ iha => simp only [noW] at hn; exact iha hn
  | starRaise a h h1 ta _ iha => simp only [noW] at hn; exact iha hn
  | lockDone m body h h1 t _ ih =>
    cases m with
    | w => simp [noW] at hn
    | r =>
      simp only [noW] at hn; intro p hp; simp at hp
      rcases hp with hp | hp
      · subst hp; simp
      · exact ih hn p hp
  | lockRet m body h h1 t _ ih =>
    cases m with
    | w => simp [noW] at hn
    | r =>
      simp only [noW] at hn; intro p hp; simp at hp
      rcases hp with hp | hp
      · subst hp; simp
      · exact ih hn p hp
  | lockRaise m body h h1 t _ ih =>
    cases m with
    | w => simp [noW] at hn
    | r =>
      simp only [noW] at hn; intro p hp
      rcases List.mem_cons.mp hp with hp | hp
      · subst hp; simp
      · exact ih hn p hp
  | tryOk b hd h t o _ _ ih => simp only [noW, Bool.and_eq_true] at hn; exact ih hn.1
  | tryCaught b hd h h1 t t' o _ _ ihb ihh =>
    simp only [noW, Bool.and_eq_true] at hn
    intro p hp
    rcases List.mem_append.mp hp with hp | hp
    · exact ihb hn.1 p hp
    · exact ihh hn.2 p hp
  | tryUncaught b hd h h1 t _ ih => simp only [noW, Bool.and_eq_true] at hn; exact ih hn.1
  | fnDone b h h1 t _ ih => simp only [noW] at hn; exact ih hn
  | fnRet b h h1 t _ ih => simp only [noW] at hn; exact ih hn
  | fnRaise b h h1 t _ ih => simp only [noW] at hn; exact ih hn

-- the check is not vacuous: it rejects a write under the shared lock, storage access after the early unlock,
-- access outside any window, and a window opened inside another
example : disciplined (.lock .r (.ev .write)) = false := by decide
example : disciplined (.lock .r (.seq (.ev .read) (.seq (.ev .unlock) (.ev .read)))) = false := by decide
example : disciplined (.seq (.lock .w (.ev .write)) (.ev .read)) = false := by decide
example : disciplined (.lock .w (.lock .r (.ev .read))) = false := by decide
example : disciplined (.lock .r (.try_ (.seq (.ev .read) (.ev .unlock)) (.ev .read))) = false := by decide
example : Exec (.lock .w (.seq (.ev .write) .ret)) none [(.acquire, none), (.write, some .w), (.hook, some .w)] (.returned none) :=
  .lockRet _ _ _ _ _ (.seq _ _ _ _ _ _ _ (.ev _ _) (.ret _))

end C10
