import RadicaleProofs.Sanitize
import RadicaleProofs.Shell
import RadicaleProofs.Trace
/-
  C06 — requests cannot escape the storage folder or touch internal files.
  Every client-controlled path goes through `sanitize_path`; every storage path is built by
  `path_to_filesystem` from components that pass `is_safe_filesystem_path_component`; the hook command gets
  client text only through `shlex.quote`.
-/
namespace C06
open Radicale Radicale.Path Radicale.Str

/-- `sanitize_path` always yields "/" ++ "/".join(components) ++ optional "/" with safe components only:
    non-empty, no "/", not "." or "..". -/
theorem sanitize_shape (s : Str) :
    ∃ comps t, sanitize s = shape comps t ∧ ∀ c ∈ comps, c ≠ [] ∧ '/' ∉ c ∧ c ≠ ['.'] ∧ c ≠ ['.', '.'] := by
  refine ⟨sanitizeComps s, endsWith s ['/'], sanitize_eq_shape s, ?_⟩
  intro c hc
  exact (safeComp_iff c).1 (sanitizeComps_safe s c hc)

/-- sanitising twice is sanitising once -/
theorem sanitize_idempotent (s : Str) : sanitize (sanitize s) = sanitize s := sanitize_idem s

/-- a component accepted for the file system is an ordinary name: no separator, no dot-name (so no ".",
    "..", lock / cache / props / temporary name), no trailing "~" -/
theorem safe_fs_component (c : Str) (h : safeFsComp c = true) :
    c ≠ [] ∧ '/' ∉ c ∧ c.head? ≠ some '.' ∧ c.getLast? ≠ some '~' ∧ c ≠ ['.', '.'] ∧ c ≠ ['.'] := by
  simp [safeFsComp] at h
  exact ⟨h.1.1.1.1.1, h.1.1.1.1.2, h.1.2, h.2, h.1.1.2, h.1.1.1.2⟩

/-- `path_to_filesystem` only succeeds with safe components, and they are exactly the path's components:
    the result is `root` followed by ordinary names — it stays below `root`. -/
theorem to_filesystem_confined (sane : Str) (parts : List Str) (h : toFilesystem sane = .ok parts) :
    (∀ c ∈ parts, safeFsComp c = true) ∧ parts = (if sane = [] then [] else split '/' sane) := by
  unfold toFilesystem at h
  simp only at h
  split at h
  · simp at h
  · rename_i hnone
    simp only [Except.ok.injEq] at h
    subst h
    refine ⟨?_, rfl⟩
    intro c hc
    have := List.find?_eq_none.1 hnone c hc
    simpa using this

/-- a reserved name anywhere in the path makes `path_to_filesystem` refuse it -/
theorem reserved_never_resolved (sane : Str) (c : Str) (hne : sane ≠ [])
    (hc : c ∈ split '/' sane) (hbad : safeFsComp c = false) :
    ∃ bad, toFilesystem sane = .error bad := by
  unfold toFilesystem
  simp only [hne, if_false]
  cases hf : (split '/' sane).find? (fun c => !safeFsComp c) with
  | some bad => exact ⟨bad, rfl⟩
  | none =>
    have := List.find?_eq_none.1 hf c hc
    simp [hbad] at this

/-- an accepted sync-token name is a safe file name -/
theorem token_name_safe (t : Str) (h : checkTokenName t = true) : safeFsComp t = true := by
  simp only [checkTokenName, Bool.and_eq_true, beq_iff_eq, List.all_eq_true] at h
  obtain ⟨hl, hall⟩ := h
  have hhex : ∀ c ∈ t, c ≠ '/' ∧ c ≠ '.' ∧ c ≠ '~' := by
    intro c hc
    have := hall c hc
    refine ⟨?_, ?_, ?_⟩ <;> (intro e; subst e; simp at this)
  have hne : t ≠ [] := by intro e; rw [e] at hl; simp at hl
  cases t with
  | nil => exact absurd rfl hne
  | cons a rest =>
    have ha := hhex a List.mem_cons_self
    have hlast : (a :: rest).getLast? ≠ some '~' := by
      intro e
      have := List.mem_of_getLast? e
      exact (hhex _ this).2.2 rfl
    have hslash : ('/' ∈ (a :: rest)) = False := by
      simp only [eq_iff_iff, iff_false]
      intro hm
      exact (hhex _ hm).1 rfl
    have h1 : (a :: rest) ≠ ['.'] := by
      intro e; simp only [List.cons.injEq] at e; exact ha.2.1 e.1
    have h2 : (a :: rest) ≠ ['.', '.'] := by
      intro e; simp only [List.cons.injEq] at e; exact ha.2.1 e.1
    simp only [safeFsComp, Bool.and_eq_true, decide_eq_true_eq, Bool.not_eq_true', List.contains_eq_mem]
    refine ⟨⟨⟨⟨⟨by simp, by simpa using hslash⟩, h1⟩, h2⟩, ?_⟩, hlast⟩
    simp only [List.head?_cons, ne_eq, Option.some.injEq]
    exact ha.2.1

/-- the shell that runs the storage hook sees `shlex.quote(text)` as exactly one word equal to the text -/
theorem shlex_quote_one_word (s : Str) : Shell.words (Shell.quote s) = some [s] := Shell.words_quote s

/-- every operation of a storage call acts at or below the collection (or its parent directory for calls
    that create / remove the collection itself): the traces never leave the storage folder -/
theorem upload_confined (fsync : Bool) (coll : Trace.FPath) (href : Trace.Comp) (k : Nat) :
    ∀ o ∈ Trace.upload fsync coll href k, ∀ p ∈ o.paths, Trace.isPrefix coll p = true := by
  intro o ho p hp
  cases fsync <;> simp [Trace.upload, Trace.atomicWrite, Trace.syncDir] at ho <;>
    rcases ho with rfl | rfl | rfl | rfl | rfl | rfl | rfl <;>
    simp [Trace.Op.paths] at hp <;> (try rcases hp with rfl | rfl) <;> (try subst hp) <;>
    simp [Trace.isPrefix, List.isPrefixOf_iff_prefix]

theorem delete_item_confined (fsync : Bool) (coll : Trace.FPath) (href : Trace.Comp) :
    ∀ o ∈ Trace.deleteItem fsync coll href, ∀ p ∈ o.paths, Trace.isPrefix coll p = true := by
  intro o ho p hp
  cases fsync <;> simp [Trace.deleteItem, Trace.syncDir] at ho <;>
    (try rcases ho with rfl | rfl) <;> (try subst ho) <;>
    simp [Trace.Op.paths] at hp <;> subst hp <;> simp [Trace.isPrefix, List.isPrefixOf_iff_prefix]

theorem move_confined (fsync : Bool) (c1 : Trace.FPath) (h1 : Trace.Comp) (c2 : Trace.FPath) (h2 : Trace.Comp) :
    ∀ o ∈ Trace.move fsync c1 h1 c2 h2, ∀ p ∈ o.paths, Trace.isPrefix c1 p = true ∨ Trace.isPrefix c2 p = true := by
  intro o ho p hp
  by_cases hc : c1 = c2 <;> cases fsync <;> simp [Trace.move, Trace.syncDir, hc] at ho <;>
    (try rcases ho with rfl | rfl | rfl) <;> (try rcases ho with rfl | rfl) <;> (try subst ho) <;>
    simp [Trace.Op.paths] at hp <;> (try rcases hp with rfl | rfl) <;> (try subst hp) <;>
    simp [Trace.isPrefix, List.isPrefixOf_iff_prefix]

/-- the hook command as a whole: for a template of plain words and placeholders, the shell reads exactly the
    template's words with `%(user)s`, `%(path)s`, `%(cwd)s` replaced by the login, the item's file-system path and the
    storage folder — whatever characters the login and the request path contain -/
theorem hook_command_words (e : Shell.HookEnv) (ts : List Shell.HookTok) (h : ∀ t ∈ ts, t.plain) :
    Shell.words (Shell.hookCommand ts e) = some (ts.map (Shell.HookTok.value e)) := Shell.words_hookCommand e ts h

/-- in particular the command has as many words as the template, and its first word (the program) is the template's -/
theorem hook_command_shape (e : Shell.HookEnv) (prog : Str) (ts : List Shell.HookTok)
    (h : ∀ t ∈ (Shell.HookTok.lit prog :: ts), t.plain) :
    ∃ args, Shell.words (Shell.hookCommand (.lit prog :: ts) e) = some (prog :: args) ∧ args.length = ts.length := by
  refine ⟨ts.map (Shell.HookTok.value e), ?_, by simp⟩
  rw [Shell.words_hookCommand e _ h]
  simp [Shell.HookTok.value]

-- non-vacuity
example : sanitize "/../../etc/passwd".toList = "/etc/passwd".toList := by decide +kernel
example : (match toFilesystem "u/.Radicale.cache/item".toList with
    | .error b => b == ".Radicale.cache".toList | .ok _ => false) = true := by decide +kernel
example : (match toFilesystem "u/cal~".toList with | .error b => b == "cal~".toList | .ok _ => false) = true := by
  decide +kernel
example : Shell.quote "a'; rm -rf $HOME #".toList = "'a'\"'\"'; rm -rf $HOME #'".toList := by decide +kernel
example : Shell.words (Shell.hookCommand [.lit "git".toList, .lit "add".toList, .path, .user]
    { user := "a; touch pwned".toList, path := "/u/$(reboot).ics".toList, folder := "/srv".toList, root := "/srv/collection-root".toList })
    = some ["git".toList, "add".toList, "/srv/collection-root/u/$(reboot).ics".toList, "a; touch pwned".toList] := by decide +kernel
-- without the quoting the same request path would be an expansion the model shell refuses to read as text
example : Shell.words ("git add /srv/collection-root/u/$(reboot).ics".toList) = none := by decide +kernel

end C06
