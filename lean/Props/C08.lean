import RadicaleProofs.DavCond
import RadicaleProofs.CondHeaders
import RadicaleProofs.Sanitize
/-
  C08 — ETags identify content and conditional requests prevent lost updates.
  In the model an item's ETag *is* its content id (SHA-256 as a perfect hash), the same value in the PUT
  response, GET, PROPFIND and REPORT by construction of `Dav.Resp`/`Dav.Entry`; the theorems below are the
  precondition logic of PUT and DELETE.  Interleavings are reduced to serial orders by C09/C10/C11.
-/
namespace C08
open Dav

theorem put_if_match_only_current (cfg : Cfg) (rights : Rights) (user : String) (s : Store) (p : Path) (body : Body)
    (e : Option Nat) (nm : Bool) (imc) (pc : Coll) (hpc : parentOk s p = some pc) (htag : pc.tag ≠ .none)
    (hnc : ∀ q c, resolve s p ≠ .coll q c) :
    ∀ u, (putU cfg rights user s p body e true nm imc).2 = some u →
      ∃ parent c h it, resolve s p = .item parent c h it ∧ e = some it.cid :=
  put_if_match cfg rights user s p body e nm imc pc hpc htag hnc

theorem put_if_none_match_star_only_absent (cfg : Cfg) (rights : Rights) (user : String) (s : Store) (p : Path)
    (body : Body) (e : Option Nat) (raw : Bool) (imc) (pc : Coll) (hpc : parentOk s p = some pc)
    (htag : pc.tag ≠ .none) (hnc : ∀ q c, resolve s p ≠ .coll q c) :
    ∀ u, (putU cfg rights user s p body e raw true imc).2 = some u → resolve s p = .absent :=
  put_if_none_match cfg rights user s p body e raw imc pc hpc htag hnc

theorem delete_if_match_only_current (cfg : Cfg) (rights : Rights) (user : String) (s : Store) (p : Path) (e : Option Nat)
    (parent : Path) (c : Coll) (h : String) (it : Item) (hr : resolve s p = .item parent c h it) (imc) :
    ∀ u, (deleteU cfg rights user s p (some e) imc).2 = some u → e = some it.cid :=
  delete_if_match cfg rights user s p e parent c h it hr imc

/-- … and a collection is deleted under If-Match only if the header is its current ETag -/
theorem delete_collection_if_match_only_current (cfg : Cfg) (rights : Rights) (user : String) (s : Store) (p : Path) (e : Option Nat)
    (c : Coll) (hr : resolve s p = .coll p c) (imc) :
    ∀ u, (deleteU cfg rights user s p (some e) imc).2 = some u → imc = some (collEtag c) :=
  delete_coll_if_match cfg rights user s p e c hr imc

/-- a precondition that fails means 4xx-or-nothing: the store is unchanged -/
theorem failed_precondition_changes_nothing (cfg : Cfg) (rights : Rights) (user : String) (s : Store) (r : Req)
    (h : (handle cfg rights user s r).1.status ≥ 400) : (handle cfg rights user s r).2 = s :=
  handle_error cfg rights user s r h

/-- lost updates are excluded: of two writers that both saw ETag `e`, once the first has changed the content
    the second one's conditional PUT is not carried out -/
theorem lost_update_excluded (cfg : Cfg) (rights : Rights) (user : String) (s' : Store) (p : Path) (body : Body)
    (e : Nat) (nm : Bool) (imc) (pc : Coll) (hpc : parentOk s' p = some pc) (htag : pc.tag ≠ .none)
    (parent : Path) (c : Coll) (h : String) (it : Item) (hr : resolve s' p = .item parent c h it)
    (hchanged : it.cid ≠ e) :
    (putU cfg rights user s' p body (some e) true nm imc).2 = none :=
  put_stale_refused cfg rights user s' p body e nm imc pc hpc htag parent c h it hr hchanged

/-- ETag ⇔ content, collection ETag sensitive to members and properties (model level: injective encodings) -/
theorem coll_etag_sensitive (c d : Coll) (h : collEtag c = collEtag d) (ht : c.tag = d.tag) :
    c.items.map (fun e => (e.1, e.2.cid)) = d.items.map (fun e => (e.1, e.2.cid)) ∧ c.props = d.props := by
  unfold collEtag at h
  simp only [Prod.mk.injEq] at h
  refine ⟨h.1, ?_⟩
  have h2 := h.2
  rw [ht] at h2
  cases hd : d.tag <;> simp_all


/-! ### the headers as the client sent them (model RadicaleModel/CondHeaders.lean): `If-Match`, `If-None-Match`, `Overwrite`
    are compared as text, exactly; the `Dav` model's tests on content ids are those tests (`wire_refines_dav_*`), so the
    theorems above hold for the header text -/
section Wire
open Radicale Radicale.CondHeaders

/-- a PUT that carries `If-Match: e` (any non-empty text: an ETag, a weak validator, a list, `*`) and is not refused found
    a resource whose current ETag is literally `e` -/
theorem wire_put_if_match_exact (cur : Option Str) (w : Wire) (e : Str) (hw : w.ifMatch = some e) (he : e ≠ [])
    (h : putRefuses cur w = false) : cur = some e := by
  cases cur with
  | none => simp [putRefuses, hw, he] at h
  | some c =>
    simp [putRefuses, hw, he] at h
    rw [h.1]

/-- a PUT that carries `If-None-Match: *` and is not refused found nothing at the path -/
theorem wire_put_if_none_match_star (cur : Option Str) (w : Wire) (hw : w.ifNoneMatch = some ['*'])
    (h : putRefuses cur w = false) : cur = none := by
  cases cur with
  | none => rfl
  | some c => simp [putRefuses, hw] at h

/-- without the two headers (or with empty ones) PUT is never refused for a precondition -/
theorem wire_put_unconditional (cur : Option Str) (w : Wire) (h1 : w.ifMatch.getD [] = []) (h2 : w.ifNoneMatch.getD [] ≠ ['*']) :
    putRefuses cur w = false := by
  simp [putRefuses, h1, h2]

/-- a DELETE that carries `If-Match: e` with `e` other than `*` and is not refused found a resource whose ETag is literally `e` -/
theorem wire_delete_if_match_exact (cur : Str) (w : Wire) (e : Str) (hw : w.ifMatch = some e) (he : e ≠ ['*'])
    (h : deleteRefuses cur w = false) : e = cur := by
  simpa [deleteRefuses, hw, he] using h

/-- two clients hold the same ETag `e`; once the first one's write went through and the resource's ETag is no longer `e`
    (new content, or gone), the second one's `If-Match: e` PUT and DELETE are refused -/
theorem wire_racing_writers (e : Str) (he : e ≠ []) (hs : e ≠ ['*']) (w1 w2 : Wire) (_h1 : w1.ifMatch = some e) (h2 : w2.ifMatch = some e)
    (cur cur' : Option Str) (_first : putRefuses cur w1 = false) (hchanged : cur' ≠ some e) :
    putRefuses cur' w2 = true ∧ ∀ c, cur' = some c → deleteRefuses c w2 = true := by
  constructor
  · cases hr : putRefuses cur' w2 with
    | true => rfl
    | false => exact absurd (wire_put_if_match_exact cur' w2 e h2 he hr) hchanged
  · intro c hc
    cases hr : deleteRefuses c w2 with
    | true => rfl
    | false =>
      have := wire_delete_if_match_exact c w2 e h2 hs hr
      exact absurd (by rw [hc, this]) hchanged

/-- MOVE replaces an existing destination only for the literal header value `T` (absent, `t`, ` T`, `true` … do not) -/
theorem wire_overwrite_exact (w : Wire) : overwrites w = true ↔ w.overwrite = some ['T'] := by
  cases h : w.overwrite <;> simp [overwrites, h]

/-- PROPFIND stays on the resource itself exactly for an absent header and the literal `0` -/
theorem wire_depth_zero (w : Wire) : listsChildren w = false ↔ (w.depth = none ∨ w.depth = some ['0']) := by
  cases h : w.depth <;> simp [listsChildren, h]

/-- the `Dav` model's test for PUT, on the digest of the headers, is the handler's test on the header text -/
theorem wire_refines_dav_put (etagOf : Nat → Str) (tbl : List (Str × Nat)) (cur : Option Nat) (w : Wire)
    (hf : Faithful etagOf tbl) (hk : ∀ c, cur = some c → Knows etagOf tbl c) :
    putRefuses (cur.map etagOf) w = davPutRefuses cur (digestPut tbl w) :=
  putRefuses_digest etagOf tbl cur w hf hk

theorem wire_refines_dav_delete (etagOf : Nat → Str) (tbl : List (Str × Nat)) (c : Nat) (w : Wire)
    (hf : Faithful etagOf tbl) (hk : Knows etagOf tbl c) :
    deleteRefuses (etagOf c) w = davDeleteRefuses c (digestDelete tbl w) :=
  deleteRefuses_digest etagOf tbl c w hf hk

/-- the request model fed with the digest: a PUT with header text `If-Match: e` is carried out only on an item whose ETag
    text is `e` -/
theorem wire_put_carried_out_only_current (cfg : Cfg) (rights : Rights) (user : String) (s : Store) (p : Path) (body : Body)
    (etagOf : Nat → Str) (tbl : List (Str × Nat)) (hf : Faithful etagOf tbl) (w : Wire) (e : Str) (hw : w.ifMatch = some e) (he : e ≠ [])
    (imc) (pc : Coll) (hpc : parentOk s p = some pc) (htag : pc.tag ≠ .none) (hnc : ∀ q c, resolve s p ≠ .coll q c) :
    ∀ u, (putU cfg rights user s p body (digestPut tbl w).ifMatch (digestPut tbl w).raw (digestPut tbl w).star imc).2 = some u →
      ∃ parent c h it, resolve s p = .item parent c h it ∧ etagOf it.cid = e := by
  intro u hu
  have hraw : (digestPut tbl w).raw = true := by simp [digestPut, hw, he]
  rw [hraw] at hu
  obtain ⟨parent, c, h, it, hr, hit⟩ := put_if_match_only_current cfg rights user s p body _ _ imc pc hpc htag hnc u hu
  refine ⟨parent, c, h, it, hr, ?_⟩
  have : lookup tbl e = some it.cid := by simpa [digestPut, hw] using hit
  exact hf e it.cid this

/-- … and a DELETE with header text `If-Match: e` (not `*`) likewise -/
theorem wire_delete_carried_out_only_current (cfg : Cfg) (rights : Rights) (user : String) (s : Store) (p : Path)
    (etagOf : Nat → Str) (tbl : List (Str × Nat)) (hf : Faithful etagOf tbl) (w : Wire) (e : Str) (hw : w.ifMatch = some e) (he : e ≠ ['*'])
    (parent : Path) (c : Coll) (h : String) (it : Item) (hr : resolve s p = .item parent c h it) (imc) :
    ∀ u, (deleteU cfg rights user s p (digestDelete tbl w) imc).2 = some u → etagOf it.cid = e := by
  intro u hu
  have hd : digestDelete tbl w = some (lookup tbl e) := by simp [digestDelete, hw, he]
  rw [hd] at hu
  exact hf e it.cid (delete_if_match_only_current cfg rights user s p _ parent c h it hr imc u hu)

/-- lost update excluded, on the header text: the resource's ETag text is no longer the `e` both writers saw -/
theorem wire_lost_update_excluded (cfg : Cfg) (rights : Rights) (user : String) (s' : Store) (p : Path) (body : Body)
    (etagOf : Nat → Str) (tbl : List (Str × Nat)) (hf : Faithful etagOf tbl) (w : Wire) (e : Str) (hw : w.ifMatch = some e) (he : e ≠ [])
    (imc) (pc : Coll) (hpc : parentOk s' p = some pc) (htag : pc.tag ≠ .none)
    (parent : Path) (c : Coll) (h : String) (it : Item) (hr : resolve s' p = .item parent c h it) (hchanged : etagOf it.cid ≠ e) :
    (putU cfg rights user s' p body (digestPut tbl w).ifMatch (digestPut tbl w).raw (digestPut tbl w).star imc).2 = none := by
  cases hu : (putU cfg rights user s' p body (digestPut tbl w).ifMatch (digestPut tbl w).raw (digestPut tbl w).star imc).2 with
  | none => rfl
  | some u =>
    have hnc : ∀ q c, resolve s' p ≠ .coll q c := by intro q c' hq; rw [hr] at hq; cases hq
    obtain ⟨parent', c', h', it', hr', hit⟩ :=
      wire_put_carried_out_only_current cfg rights user s' p body etagOf tbl hf w e hw he imc pc hpc htag hnc u hu
    rw [hr] at hr'
    cases hr'
    exact absurd hit hchanged

/-- the premises are met by concrete header texts: the current ETag goes through, a weak validator, a list and `*` on PUT do not -/
example : putRefuses (some "\"ab\"".toList) { ifMatch := some "\"ab\"".toList } = false
    ∧ putRefuses (some "\"ab\"".toList) { ifMatch := some "W/\"ab\"".toList } = true
    ∧ putRefuses (some "\"ab\"".toList) { ifMatch := some "\"ab\", \"cd\"".toList } = true
    ∧ putRefuses (some "\"ab\"".toList) { ifMatch := some "*".toList } = true
    ∧ deleteRefuses "\"ab\"".toList { ifMatch := some "*".toList } = false
    ∧ deleteRefuses "\"ab\"".toList { ifMatch := some "\"cd\"".toList } = true
    ∧ overwrites { overwrite := some "t".toList } = false ∧ listsChildren { depth := some "infinity".toList } = true := by decide

end Wire

/-! ### the URL spelling of the target: the handlers' tests speak about "the resource at the path"; which resource that is does
    not depend on a trailing slash (seed C08i: `PUT /u/cal/e.ics/` with `If-None-Match: *` must see the existing item) -/
section Spelling
open Radicale Radicale.Path

/-- the components `sanitize_path` extracts (they are what `discover` resolves, the parent collection and the member name)
    are the same for both spellings of a URL, with and without the trailing slash … -/
theorem url_spelling_names_one_resource (comps : List Str) (h : ∀ c ∈ comps, safeComp c = true) :
    sanitizeComps (shape comps true) = comps ∧ sanitizeComps (shape comps false) = comps :=
  ⟨sanitizeComps_shape comps true h, sanitizeComps_shape comps false h⟩

/-- … and sanitising any request path and then writing it with the other spelling still names the same components -/
theorem sanitized_path_either_spelling (p : Str) (t : Bool) :
    sanitizeComps (shape (sanitizeComps p) t) = sanitizeComps p :=
  sanitizeComps_shape (sanitizeComps p) t (sanitizeComps_safe p)

example : sanitizeComps "/u/cal/e.ics/".toList = sanitizeComps "/u/cal/e.ics".toList := by decide

end Spelling

end C08
