import RadicaleProofs.DavCond
/-
  C08 — ETags identify content and conditional requests prevent lost updates.
  In the model an item's ETag *is* its content id (SHA-256 as a perfect hash), the same value in the PUT
  response, GET, PROPFIND and REPORT by construction of `Dav.Resp`/`Dav.Entry`; the theorems below are the
  precondition logic of PUT and DELETE.  Interleavings are reduced to serial orders by C09/C10/C11.
-/
namespace C08
open Dav

theorem put_if_match_only_current (cfg : Cfg) (rights : Rights) (user : String) (s : Store) (p : Path) (body : Body)
    (e : Option Nat) (nm : Bool) (imc) (pc : Coll) (hpc : parentOk s p = some pc) (htag : pc.tag ≠ .none)
    (hnc : ∀ q c, resolve s p ≠ .coll q c) :
    ∀ u, (putU cfg rights user s p body e true nm imc).2 = some u →
      ∃ parent c h it, resolve s p = .item parent c h it ∧ e = some it.cid :=
  put_if_match cfg rights user s p body e nm imc pc hpc htag hnc

theorem put_if_none_match_star_only_absent (cfg : Cfg) (rights : Rights) (user : String) (s : Store) (p : Path)
    (body : Body) (e : Option Nat) (raw : Bool) (imc) (pc : Coll) (hpc : parentOk s p = some pc)
    (htag : pc.tag ≠ .none) (hnc : ∀ q c, resolve s p ≠ .coll q c) :
    ∀ u, (putU cfg rights user s p body e raw true imc).2 = some u → resolve s p = .absent :=
  put_if_none_match cfg rights user s p body e raw imc pc hpc htag hnc

theorem delete_if_match_only_current (cfg : Cfg) (rights : Rights) (user : String) (s : Store) (p : Path) (e : Option Nat)
    (parent : Path) (c : Coll) (h : String) (it : Item) (hr : resolve s p = .item parent c h it) (imc) :
    ∀ u, (deleteU cfg rights user s p (some e) imc).2 = some u → e = some it.cid :=
  delete_if_match cfg rights user s p e parent c h it hr imc

/-- … and a collection is deleted under If-Match only if the header is its current ETag -/
theorem delete_collection_if_match_only_current (cfg : Cfg) (rights : Rights) (user : String) (s : Store) (p : Path) (e : Option Nat)
    (c : Coll) (hr : resolve s p = .coll p c) (imc) :
    ∀ u, (deleteU cfg rights user s p (some e) imc).2 = some u → imc = some (collEtag c) :=
  delete_coll_if_match cfg rights user s p e c hr imc

/-- a precondition that fails means 4xx-or-nothing: the store is unchanged -/
theorem failed_precondition_changes_nothing (cfg : Cfg) (rights : Rights) (user : String) (s : Store) (r : Req)
    (h : (handle cfg rights user s r).1.status ≥ 400) : (handle cfg rights user s r).2 = s :=
  handle_error cfg rights user s r h

/-- lost updates are excluded: of two writers that both saw ETag `e`, once the first has changed the content
    the second one's conditional PUT is not carried out -/
theorem lost_update_excluded (cfg : Cfg) (rights : Rights) (user : String) (s' : Store) (p : Path) (body : Body)
    (e : Nat) (nm : Bool) (imc) (pc : Coll) (hpc : parentOk s' p = some pc) (htag : pc.tag ≠ .none)
    (parent : Path) (c : Coll) (h : String) (it : Item) (hr : resolve s' p = .item parent c h it)
    (hchanged : it.cid ≠ e) :
    (putU cfg rights user s' p body (some e) true nm imc).2 = none :=
  put_stale_refused cfg rights user s' p body e nm imc pc hpc htag parent c h it hr hchanged

/-- ETag ⇔ content, collection ETag sensitive to members and properties (model level: injective encodings) -/
theorem coll_etag_sensitive (c d : Coll) (h : collEtag c = collEtag d) (ht : c.tag = d.tag) :
    c.items.map (fun e => (e.1, e.2.cid)) = d.items.map (fun e => (e.1, e.2.cid)) ∧ c.props = d.props := by
  unfold collEtag at h
  simp only [Prod.mk.injEq] at h
  refine ⟨h.1, ?_⟩
  have h2 := h.2
  rw [ht] at h2
  cases hd : d.tag <;> simp_all

end C08
