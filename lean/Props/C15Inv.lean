import RadicaleProofs.DavInv
/-
  C15 — the store stays well-formed: the inductive invariant.

  `WF s`: collection paths are unique; in every collection the members' UIDs are pairwise different and so are their
  names; a collection without a tag holds no members; no collection lies inside a calendar or address book; every
  collection's parent exists; the root exists and is untagged.
  It holds initially and is kept by every request of every user, whatever the request, its body, its conditional
  headers and the policy — provided the policy never grants `w` on the root itself (finding F15: with `w` on "/"
  a whole-collection PUT turns the root into a calendar, inside which the next first login creates a home).
-/
namespace C15
open Dav

/-- one request (gate's home creation + handler) keeps the store well-formed -/
theorem wf_step (cfg : Cfg) (rights : Rights) (user : String) (s : Store) (hw : WF s)
    (hroot : has (rights user []) "w" = false) (r : Req) : WF (request cfg rights user s r).2 :=
  wf_request cfg rights user s hw hroot r

/-- a history of requests by any users -/
def runRequests (cfg : Cfg) (rights : Rights) : Store → List (String × Req) → Store
  | s, [] => s
  | s, (user, r) :: rest => runRequests cfg rights (request cfg rights user s r).2 rest

/-- **the invariant**: after any history of requests the store is well-formed -/
theorem c15_wellformed_always (cfg : Cfg) (rights : Rights) (hroot : ∀ user, has (rights user []) "w" = false)
    (hist : List (String × Req)) : WF (runRequests cfg rights Store.init hist) := by
  suffices h : ∀ s, WF s → WF (runRequests cfg rights s hist) from h _ wf_init
  induction hist with
  | nil => intro s hs; exact hs
  | cons ur rest ih =>
    intro s hs
    obtain ⟨user, r⟩ := ur
    exact ih _ (wf_step cfg rights user s hs (hroot user) r)

/-- what well-formedness says, clause by clause -/
theorem c15_no_duplicate_uids (s : Store) (hw : WF s) (p : Path) (c : Coll) (hm : (p, c) ∈ s) (a b : String × Item)
    (ha : a ∈ c.items) (hb : b ∈ c.items) (hu : a.2.uid = b.2.uid) : a = b :=
  same_uid_same_member c.items (hw.colls p c hm).1 a b ha hb hu

theorem c15_nothing_inside_a_calendar (s : Store) (hw : WF s) (p q : Path) (c d : Coll) (hp : (p, c) ∈ s) (hq : (q, d) ∈ s)
    (ht : c.tag ≠ .none) (hpre : p <+: q) : p = q :=
  hw.nonest p c q d hp hq ht hpre

theorem c15_plain_collections_hold_no_items (s : Store) (hw : WF s) (p : Path) (c : Coll) (hm : (p, c) ∈ s)
    (ht : c.tag = .none) : c.items = [] :=
  (hw.colls p c hm).2.2 ht

/-- finding F15: the hypothesis on the root is needed -/
def f15rights : Rights := fun _ _ => "RrWw"
theorem f15_root_becomes_calendar :
    let s1 := (request {} f15rights "u" Store.init (.put [] (.cal [⟨"x", .event, 1⟩]) none false false)).2
    let s2 := (request {} f15rights "v" s1 (.propfind ["v"] false)).2
    (coll? s2 []).map (·.tag) = some .cal ∧ (coll? s2 ["v"]).isSome = true := by decide +kernel

-- non-vacuity: a store reached by real requests
example : WF (runRequests {} (fun _ p => if p = [] then "R" else "RrWw") Store.init
    [("u", .mkcalendar ["u", "c"] [] false), ("u", .put ["u", "c", "a.ics"] (.cal [⟨"x", .event, 1⟩]) none false false)]) :=
  c15_wellformed_always {} _ (by intro u; decide) _

end C15
