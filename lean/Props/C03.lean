import RadicaleProofs.DavRights
/-
  C03 — no request reads or changes anything the rights policy does not grant.
  `rights` is an arbitrary function user → path → permission letters (any policy, any back-end).
  Write clause: *partial* — changes are confined to the subtree rooted at a target on which the matching
  write permission holds; that the subtree may contain collections on which the policy grants nothing is
  finding F7 (theorem `delete_destroys_hidden_subtree`).  F8: the d/D letters are read inverted for plain
  collections (theorem `plain_collection_delete_letter_inverted`).
-/
namespace C03
open Dav

theorem denied_changes_nothing (cfg : Cfg) (rights : Rights) (user : String) (s : Store) (r : Req)
    (h : (handle cfg rights user s r).1.status = 403) : (handle cfg rights user s r).2 = s :=
  denied_is_identity cfg rights user s r h

theorem item_put_needs_w (cfg : Cfg) (rights : Rights) (user : String) (s : Store) (p body im raw nm imc) (q : Path) (c : Coll) :
    (putU cfg rights user s p body im raw nm imc).2 = some (.setColl q c) →
      q = p.dropLast ∧ has (rights user p.dropLast) "w" = true :=
  put_item_needs_w cfg rights user s p body im raw nm imc q c

theorem whole_put_needs_w_and_overwrite_gate (cfg : Cfg) (rights : Rights) (user : String) (s : Store) (p body im raw nm imc)
    (q : Path) (c : Coll) :
    (putU cfg rights user s p body im raw nm imc).2 = some (.replaceTree q c) →
      q = p ∧ has (rights user p) (if c.tag = .none then "W" else "w") = true ∧
      ((cfg.permitOverwrite = true ∧ has (rights user p) "o" = false) ∨ (cfg.permitOverwrite = false ∧ has (rights user p) "O" = true)) :=
  put_whole_needs_w cfg rights user s p body im raw nm imc q c

theorem mkcol_needs_write_letter (cfg : Cfg) (rights : Rights) (user : String) (s : Store) (p tag props bad) (u : Update) :
    (mkcolU cfg rights user s p tag props bad).2 = some u →
      (if tag = .none then has (rights user p) "W" else has (rights user p) "w") = true :=
  mkcol_needs_w cfg rights user s p tag props bad u

theorem mkcalendar_needs_write_letter (cfg : Cfg) (rights : Rights) (user : String) (s : Store) (p props bad) (u : Update) :
    (mkcalendarU cfg rights user s p props bad).2 = some u → has (rights user p) "w" = true :=
  mkcalendar_needs_w cfg rights user s p props bad u

theorem delete_needs_write (cfg : Cfg) (rights : Rights) (user : String) (s : Store) (p im imc) (u : Update) :
    (deleteU cfg rights user s p im imc).2 = some u → check rights user p 'w' (subjectOf (resolve s p)) = true :=
  delete_needs_w cfg rights user s p im imc u

/-- **deleting a collection is decided on the collection's own path.**  With `permit_delete_collection = False` a
    DELETE of a collection that is carried out found the letter `D` in the permissions of that very path (the parent's
    letters cannot stand in); with `permit_delete_collection = True` it is carried out only if the letter for "forbidden"
    is absent there (`d` for a calendar / address book, `D` for a plain collection — finding F8). -/
theorem delete_collection_needs_own_letter (cfg : Cfg) (rights : Rights) (user : String) (s : Store) (p : Path) (im imc)
    (q : Path) (c : Coll) (u : Update) (hres : resolve s p = .coll q c)
    (h : (deleteU cfg rights user s p im imc).2 = some u) :
    (cfg.permitDelete = false → has (rights user p) "D" = true) ∧
    (cfg.permitDelete = true → has (rights user p) (if c.tag = .none then "D" else "d") = false) := by
  have hcheck : ∀ (perm : Char) (subj : Subject), subj = .collTagged ∨ subj = .collPlain →
      check rights user p perm subj = has (rights user p) (String.mk [if subj = .collTagged then perm else perm.toUpper]) := by
    intro perm subj hs
    rcases hs with rfl | rfl <;> simp [check, has]
  have eD : String.mk ['D'] = "D" := by decide
  have ed : String.mk ['d'] = "d" := by decide
  unfold deleteU at h
  split at h
  · simp at h
  rw [hres] at h
  by_cases ht : c.tag = .none
  · simp only [ht, if_true] at h
    split at h
    · simp at h
    split at h
    · simp at h
    split at h
    · simp at h
    split at h
    · simp at h
    rename_i hd hD
    rw [hcheck 'd' .collPlain (Or.inr rfl)] at hd
    rw [hcheck 'D' .collPlain (Or.inr rfl)] at hD
    simp only [ht, if_true]
    constructor
    · intro hp
      simp only [hp, true_and, Bool.not_eq_false] at hD
      simpa [eD, ed] using hD
    · intro hp
      simp only [hp, true_and, Bool.not_eq_true] at hd
      simpa [eD, ed] using hd
  · simp only [ht, if_false] at h
    split at h
    · simp at h
    split at h
    · simp at h
    split at h
    · simp at h
    split at h
    · simp at h
    rename_i hd hD
    rw [hcheck 'd' .collTagged (Or.inl rfl)] at hd
    rw [hcheck 'D' .collTagged (Or.inl rfl)] at hD
    simp only [ht, if_false]
    constructor
    · intro hp
      simp only [hp, true_and, Bool.not_eq_false] at hD
      simpa [eD, ed] using hD
    · intro hp
      simp only [hp, true_and, Bool.not_eq_true] at hd
      simpa [eD, ed] using hd

theorem proppatch_needs_write (cfg : Cfg) (rights : Rights) (user : String) (s : Store) (p set rm st bad) (u : Update) :
    (proppatchU cfg rights user s p set rm st bad).2 = some u → check rights user p 'w' (subjectOf (resolve s p)) = true :=
  proppatch_needs_w cfg rights user s p set rm st bad u

theorem move_needs_write_both (cfg : Cfg) (rights : Rights) (user : String) (s : Store) (src dst ov) (u : Update) :
    (moveU cfg rights user s src dst ov).2 = some u →
      check rights user src 'w' .anItem = true ∧ check rights user dst 'w' .anItem = true :=
  move_needs_w cfg rights user s src dst ov u

theorem get_needs_read (cfg : Cfg) (rights : Rights) (user : String) (s : Store) (p : Path) :
    (getU cfg rights user s p).1.status = 200 →
      check rights user p 'r' (subjectOf (resolve s p)) = true ∨
      (has (rights user p) "i" = true ∧ ∃ q c, resolve s p = .coll q c) :=
  get_needs_r cfg rights user s p

theorem propfind_shows_only_permitted (cfg : Cfg) (rights : Rights) (user : String) (s : Store) (p : Path) (d : Bool) :
    ∀ e ∈ (propfindU cfg rights user s p d).1.entries,
      match e with
      | .coll q tag _ _ => ∃ c, mayShowColl rights user q c = true ∧ c.tag = tag
      | .item q _ => mayShowItem rights user q.dropLast = true
      | .missing _ => False :=
  propfind_entries_allowed cfg rights user s p d

/-- Finding F7: a policy that grants RW on /u and nothing on /u/private lets DELETE /u/ remove /u/private -/
private def f7rights : Rights := fun u p => if u = "u" ∧ p = ["u"] then "RW" else ""
private def f7store : Store :=
  [([], ⟨.none, [], []⟩), (["u"], ⟨.none, [], []⟩), (["u", "private"], ⟨.cal, [], [("a.ics", ⟨"a", .event, 1⟩)]⟩)]
theorem delete_destroys_hidden_subtree :
    f7rights "u" ["u", "private"] = "" ∧
    (handle {} f7rights "u" f7store (.delete ["u"] none)).1.status = 200 ∧
    coll? (handle {} f7rights "u" f7store (.delete ["u"] none)).2 ["u", "private"] = none := by
  decide

/-- Finding F8: with permit_delete_collection = true the documentation says `d` forbids deleting; for a plain
    collection the code looks at `D` instead: `d` does not forbid, `D` does -/
private def f8rights (letters : String) : Rights := fun u p => if u = "u" ∧ p = ["u", "plain"] then letters else "RW"
private def f8store : Store := [([], ⟨.none, [], []⟩), (["u"], ⟨.none, [], []⟩), (["u", "plain"], ⟨.none, [], []⟩)]
theorem plain_collection_delete_letter_inverted :
    (handle {} (f8rights "RWd") "u" f8store (.delete ["u", "plain"] none)).1.status = 200 ∧
    (handle {} (f8rights "RWD") "u" f8store (.delete ["u", "plain"] none)).1.status = 403 := by
  decide

end C03
