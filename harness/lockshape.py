#!/usr/bin/env python3
"""lockshape.py — translator for C11: the shape of every lock section (generator-based context manager) of /repo's lock code.

For each `@contextmanager def …` in radicale/pathutils.py, radicale/storage/multifilesystem_nolock.py and
radicale/storage/multifilesystem/lock.py that contains a `yield`:
  setBefore     attributes of `self` written (assigned, augmented, subscript-assigned, deleted) on the way to the `yield`
  resetFinally  attributes of `self` written in a `finally:` block of a `try:` that encloses the `yield`
  resetAfter    attributes of `self` written after the `yield` outside such a `finally:`
  withGuards    number of `with` statements that enclose the `yield` (their __exit__ runs on an exception too)
Output: /verif/lean/Generated/LockShape.lean (regenerated on every C11 run; theorems in Props/C11Shape.lean)."""
import ast
import os
import sys

FILES = ["radicale/pathutils.py", "radicale/storage/multifilesystem_nolock.py", "radicale/storage/multifilesystem/lock.py"]


def self_attr(t):
    """the attribute of `self` a target writes to: self.a, self.a[k], self.a.b -> 'a'"""
    while isinstance(t, (ast.Subscript, ast.Attribute)):
        if isinstance(t, ast.Attribute) and isinstance(t.value, ast.Name) and t.value.id == "self":
            return t.attr
        t = t.value
    return None


def writes(node):
    out = []
    for n in ast.walk(node):
        targets = []
        if isinstance(n, ast.Assign):
            targets = n.targets
        elif isinstance(n, (ast.AugAssign, ast.AnnAssign)):
            targets = [n.target]
        elif isinstance(n, ast.Delete):
            targets = n.targets
        for t in targets:
            for e in (t.elts if isinstance(t, ast.Tuple) else [t]):
                a = self_attr(e)
                if a and a not in out:
                    out.append(a)
    return out


def has_yield(node):
    return any(isinstance(n, (ast.Yield, ast.YieldFrom)) for n in ast.walk(node))


def analyse(fn):
    """walk the statement list that leads to the yield"""
    before, fin, after = [], [], []
    guards = [0]

    def add(dst, names):
        for a in names:
            if a not in dst:
                dst.append(a)

    def walk(stmts, seen_yield):
        for s in stmts:
            if not has_yield(s):
                add(after if seen_yield[0] else before, writes(s))
                continue
            if isinstance(s, ast.Try):
                walk(s.body, seen_yield)
                for h in s.handlers:
                    add(after, writes(h))
                add(after, writes(ast.Module(body=s.orelse, type_ignores=[])))
                add(fin, writes(ast.Module(body=s.finalbody, type_ignores=[])))
            elif isinstance(s, (ast.With, ast.AsyncWith)):
                guards[0] += 1
                walk(s.body, seen_yield)
            elif isinstance(s, (ast.If, ast.For, ast.While)):
                walk(s.body, seen_yield)
                walk(s.orelse, seen_yield)
            else:
                seen_yield[0] = True
    walk(fn.body, [False])
    return before, fin, after, guards[0]


REPO_FOR_FLAGS = ["/repo"]


def generate(repo="/repo"):
    REPO_FOR_FLAGS[0] = repo
    sections = []
    for rel in FILES:
        path = os.path.join(repo, rel)
        if not os.path.exists(path):
            continue
        tree = ast.parse(open(path, encoding="utf-8").read())
        for cls in [n for n in ast.walk(tree) if isinstance(n, ast.ClassDef)]:
            for fn in [n for n in cls.body if isinstance(n, ast.FunctionDef)]:
                deco = [ast.unparse(d) for d in fn.decorator_list]
                if not any("contextmanager" in d for d in deco) or not has_yield(fn):
                    continue
                b, f, a, g = analyse(fn)
                sections.append({"name": "%s:%s.%s" % (rel, cls.name, fn.name), "setBefore": b, "resetFinally": f, "resetAfter": a, "withGuards": g})
    return sections


FLAGS = ["_filesystem_fsync"]


def flag_writes(repo="/repo"):
    """every place in radicale/ (tests aside) that writes a storage-wide durability flag: (file, enclosing function, attribute);
    and every call of `.verify(` from the request-serving code (radicale/app, radicale/server.py, radicale/__init__.py)"""
    out, verify_calls = [], []
    base = os.path.join(repo, "radicale")
    for root, dirs, files in os.walk(base):
        dirs[:] = [d for d in dirs if d != "tests"]
        for fn in sorted(files):
            if not fn.endswith(".py"):
                continue
            path = os.path.join(root, fn)
            rel = os.path.relpath(path, repo)
            try:
                tree = ast.parse(open(path, encoding="utf-8").read())
            except SyntaxError:
                continue
            funcs = [n for n in ast.walk(tree) if isinstance(n, (ast.FunctionDef, ast.AsyncFunctionDef))]

            def enclosing(node):
                best = None
                for f in funcs:
                    if f.lineno <= node.lineno <= getattr(f, "end_lineno", f.lineno):
                        if best is None or f.lineno >= best.lineno:
                            best = f
                return best.name if best else "<module>"
            for n in ast.walk(tree):
                targets = []
                if isinstance(n, ast.Assign):
                    targets = n.targets
                elif isinstance(n, (ast.AugAssign, ast.AnnAssign)) and getattr(n, "value", None) is not None:
                    targets = [n.target]
                elif isinstance(n, ast.Delete):
                    targets = n.targets
                for t in targets:
                    for e in (t.elts if isinstance(t, ast.Tuple) else [t]):
                        if isinstance(e, ast.Attribute) and e.attr in FLAGS:
                            out.append((rel, enclosing(n), e.attr))
                if isinstance(n, ast.Call) and isinstance(n.func, ast.Name) and n.func.id == "setattr" and len(n.args) >= 2 and \
                        isinstance(n.args[1], ast.Constant) and n.args[1].value in FLAGS:
                    out.append((rel, enclosing(n), n.args[1].value))
                if isinstance(n, ast.Call) and isinstance(n.func, ast.Attribute) and n.func.attr == "verify" and \
                        (rel.startswith("radicale/app/") or rel in ("radicale/server.py", "radicale/__init__.py")):
                    verify_calls.append((rel, enclosing(n)))
    return sorted(set(out)), sorted(set(verify_calls))


def write_lean(sections, path):
    def lst(xs):
        return "[" + ", ".join('"%s"' % x for x in xs) + "]"
    lines = ["import RadicaleModel.LockShape",
             "/- GENERATED by harness/lockshape.py from /repo's lock code (pathutils.py, multifilesystem_nolock.py, multifilesystem/lock.py) - do not edit -/",
             "namespace Generated", "open Radicale.LockShape", "",
             "def lockSections : List Section := ["]
    lines.append(",\n".join('  { name := "%s", setBefore := %s, resetFinally := %s, resetAfter := %s, withGuards := %d }'
                            % (s["name"], lst(s["setBefore"]), lst(s["resetFinally"]), lst(s["resetAfter"]), s["withGuards"]) for s in sections))
    lines += ["]", ""]
    fw, vc = flag_writes(REPO_FOR_FLAGS[0])
    lines.append("/-- every write of a storage-wide durability flag outside the tests: (file, enclosing function, attribute) -/")
    lines.append("def flagWrites : List (String × String × String) := [%s]" % ", ".join('("%s", "%s", "%s")' % w for w in fw))
    lines.append("/-- calls of `.verify(` from the request-serving code: (file, enclosing function) -/")
    lines.append("def verifyCallsFromServer : List (String × String) := [%s]" % ", ".join('("%s", "%s")' % w for w in vc))
    lines += ["", "end Generated"]
    text = "\n".join(lines) + "\n"
    os.makedirs(os.path.dirname(path), exist_ok=True)
    old = open(path).read() if os.path.exists(path) else None
    if old != text:
        with open(path, "w") as f:
            f.write(text)
    return text


if __name__ == "__main__":
    repo = sys.argv[1] if len(sys.argv) > 1 else "/repo"
    here = os.path.dirname(os.path.dirname(os.path.abspath(__file__)))
    secs = generate(repo)
    write_lean(secs, os.path.join(here, "lean", "Generated", "LockShape.lean"))
    for s in secs:
        print(s)
