"""Modifying request types on a populated store, with the storage calls (parameters of the Lean trace
model) each of them performs.  Shared by C02, C06, C10, C12."""
from fsobs import chars, jpath

ROOT = "collection-root"


def ev(uid, summary="s", extra=""):
    return ("BEGIN:VCALENDAR\r\nVERSION:2.0\r\nPRODID:-//verif//EN\r\nBEGIN:VEVENT\r\nUID:%s\r\nDTSTAMP:20240101T000000Z\r\n"
            "DTSTART:20240101T100000Z\r\nDTEND:20240101T110000Z\r\nSUMMARY:%s\r\n%sEND:VEVENT\r\nEND:VCALENDAR\r\n" % (uid, summary, extra))


def cal(uids):
    body = "BEGIN:VCALENDAR\r\nVERSION:2.0\r\nPRODID:-//verif//EN\r\n"
    for u in uids:
        body += ("BEGIN:VEVENT\r\nUID:%s\r\nDTSTAMP:20240101T000000Z\r\nDTSTART:20240101T100000Z\r\n"
                 "DTEND:20240101T110000Z\r\nSUMMARY:w\r\nEND:VEVENT\r\n" % u)
    return body + "END:VCALENDAR\r\n"


def vcard(uid, fn="N"):
    return "BEGIN:VCARD\r\nVERSION:3.0\r\nUID:%s\r\nFN:%s\r\nN:%s;;;;\r\nEND:VCARD\r\n" % (uid, fn, fn)


def book(uids):
    return "".join(vcard(u) for u in uids)


MKCOL_AB = ('<?xml version="1.0" encoding="UTF-8" ?><create xmlns="DAV:" xmlns:CR="urn:ietf:params:xml:ns:carddav"><set><prop>'
            '<resourcetype><collection /><CR:addressbook /></resourcetype><displayname>ab</displayname></prop></set></create>')
PROPPATCH = ('<?xml version="1.0"?><D:propertyupdate xmlns:D="DAV:"><D:set><D:prop><D:displayname>renamed</D:displayname>'
             '</D:prop></D:set></D:propertyupdate>')

LOGIN = "u:pw"


def build_store(app, shape=0):
    """populated store for user u"""
    r = app.request
    assert r("MKCALENDAR", "/u/cal/", login=LOGIN)[0] == 201
    assert r("MKCALENDAR", "/u/cal2/", login=LOGIN)[0] == 201
    assert r("MKCALENDAR", "/u/empty/", login=LOGIN)[0] == 201
    assert r("MKCOL", "/u/ab/", MKCOL_AB, login=LOGIN)[0] == 201
    assert r("MKCOL", "/u/plain/", login=LOGIN)[0] == 201
    assert r("MKCOL", "/u/plainempty/", login=LOGIN)[0] == 201
    assert r("MKCALENDAR", "/u/plain/sub/", login=LOGIN)[0] == 201
    for uid in ("a", "b") + (("c", "d") if shape else ()):
        assert r("PUT", "/u/cal/%s.ics" % uid, ev(uid), login=LOGIN)[0] == 201
    assert r("PUT", "/u/cal2/a.ics", ev("a", "other"), login=LOGIN)[0] == 201
    assert r("PUT", "/u/plain/sub/x.ics", ev("x"), login=LOGIN)[0] == 201
    assert r("PUT", "/u/ab/c.vcf", vcard("c"), login=LOGIN)[0] == 201
    if shape == 2:
        # sync tokens and history present
        r("REPORT", "/u/cal/", '<?xml version="1.0"?><D:sync-collection xmlns:D="DAV:"><D:sync-token/><D:prop><D:getetag/></D:prop></D:sync-collection>', login=LOGIN)


def P(*c):
    return jpath([ROOT] + list(c))


# name -> (method, path, body, extra environ, login, [model calls], expected status)
def kinds():
    dest = lambda p: {"HTTP_DESTINATION": "http://127.0.0.1" + p}
    return {
        "put_new": ("PUT", "/u/cal/new.ics", ev("new"), {}, LOGIN,
                    [{"call": "upload", "coll": P("u", "cal"), "href": chars("new.ics")}], 201),
        "put_overwrite": ("PUT", "/u/cal/a.ics", ev("a", "changed"), {}, LOGIN,
                          [{"call": "upload", "coll": P("u", "cal"), "href": chars("a.ics")}], 201),
        "put_whole_new": ("PUT", "/u/newcal/", cal(["w1", "w2", "w3"]), {"CONTENT_TYPE": "text/calendar"}, LOGIN,
                          [{"call": "create", "coll": P("u", "newcal"), "props": True,
                            "items": [chars("w1.ics"), chars("w2.ics"), chars("w3.ics")], "missing": 1, "exists": False}], 201),
        "put_whole_replace": ("PUT", "/u/cal/", cal(["w1", "w2"]), {"CONTENT_TYPE": "text/calendar"}, LOGIN,
                              [{"call": "create", "coll": P("u", "cal"), "props": True,
                                "items": [chars("w1.ics"), chars("w2.ics")], "missing": 0, "exists": True}], 201),
        "put_whole_book": ("PUT", "/u/newab/", book(["k1", "k2"]), {"CONTENT_TYPE": "text/vcard"}, LOGIN,
                           [{"call": "create", "coll": P("u", "newab"), "props": True,
                             "items": [chars("k1.vcf"), chars("k2.vcf")], "missing": 1, "exists": False}], 201),
        "put_whole_empty": ("PUT", "/u/cal/", cal([]), {"CONTENT_TYPE": "text/calendar"}, LOGIN,
                            [{"call": "create", "coll": P("u", "cal"), "props": True, "items": [], "missing": 0, "exists": True}], 201),
        "delete_item": ("DELETE", "/u/cal/a.ics", None, {}, LOGIN,
                        [{"call": "delete_item", "coll": P("u", "cal"), "href": chars("a.ics")}], 200),
        "delete_calendar": ("DELETE", "/u/cal/", None, {}, LOGIN,
                            [{"call": "delete_coll", "coll": P("u", "cal"), "empty": False}], 200),
        "delete_plain_empty": ("DELETE", "/u/plainempty/", None, {}, LOGIN,
                               [{"call": "delete_coll", "coll": P("u", "plainempty"), "empty": True}], 200),
        "delete_nested": ("DELETE", "/u/plain/", None, {}, LOGIN,
                          [{"call": "delete_coll", "coll": P("u", "plain"), "empty": False}], 200),
        "delete_home": ("DELETE", "/u/", None, {}, LOGIN,
                        [{"call": "delete_coll", "coll": P("u"), "empty": False}], 200),
        "move_within": ("MOVE", "/u/cal/a.ics", None, dest("/u/cal/z.ics"), LOGIN,
                        [{"call": "move", "coll": P("u", "cal"), "href": chars("a.ics"), "coll2": P("u", "cal"), "href2": chars("z.ics")}], 201),
        "move_across": ("MOVE", "/u/cal/b.ics", None, dest("/u/cal2/b.ics"), LOGIN,
                        [{"call": "move", "coll": P("u", "cal"), "href": chars("b.ics"), "coll2": P("u", "cal2"), "href2": chars("b.ics")}], 201),
        "move_overwrite": ("MOVE", "/u/cal/a.ics", None, dict(dest("/u/cal2/a.ics"), HTTP_OVERWRITE="T"), LOGIN,
                           [{"call": "move", "coll": P("u", "cal"), "href": chars("a.ics"), "coll2": P("u", "cal2"), "href2": chars("a.ics")}], 204),
        "proppatch": ("PROPPATCH", "/u/cal/", PROPPATCH, {}, LOGIN,
                      [{"call": "set_meta", "coll": P("u", "cal")}], 207),
        "mkcol_plain": ("MKCOL", "/u/newplain/", None, {}, LOGIN,
                        [{"call": "makedirs", "coll": P("u", "newplain"), "missing": 1}], 201),
        "mkcol_book": ("MKCOL", "/u/newbook/", MKCOL_AB, {}, LOGIN,
                       [{"call": "create", "coll": P("u", "newbook"), "props": True, "missing": 1, "exists": False}], 201),
        "mkcalendar": ("MKCALENDAR", "/u/newcal2/", None, {}, LOGIN,
                       [{"call": "create", "coll": P("u", "newcal2"), "props": True, "missing": 1, "exists": False}], 201),
        "mkcalendar_nested": ("MKCALENDAR", "/u/plain/sub2/", None, {}, LOGIN,
                              [{"call": "create", "coll": P("u", "plain", "sub2"), "props": True, "missing": 1, "exists": False}], 201),
        "first_login": ("PROPFIND", "/v/", None, {"HTTP_DEPTH": "0"}, "v:pw",
                        [{"call": "makedirs", "coll": P("v"), "missing": 1}], 207),
    }


def temps_used(call):
    c = call["call"]
    if c in ("upload", "set_meta"):
        return 1
    if c == "delete_coll":
        return 0 if call.get("empty") else 1
    if c == "create":
        return 2 if call.get("props") else 0
    return 0


def model_trace(driver, calls, fsync, cache_in_coll=True):
    """concatenated model trace + index of each commit"""
    from fsobs import from_driver_ops
    ops = []
    commits = []
    k = 0
    allok = True
    for call in calls:
        req = dict(call, m="trace", op="trace", fsync=fsync, k=k, cache_in_coll=cache_in_coll)
        a = driver.ask1(req)
        commits += [len(ops) + i for i in a["commits"]]
        ops += from_driver_ops(a["ops"])
        allok = allok and a["sync_ordered"]
        k += temps_used(call)
    return ops, commits, allok
