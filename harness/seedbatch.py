#!/usr/bin/env python3
"""seedbatch.py <suffix> <id>[:<prop>[,<prop>…]] … — run seedcheck for several worktrees and print one line each."""
import json
import subprocess
import sys

suffix = sys.argv[1]
for arg in sys.argv[2:]:
    wid, _, props = arg.partition(":")
    props = props or wid
    name = wid + suffix
    subprocess.run([sys.executable, "/verif/harness/seedcheck.py", wid, props, name], stdout=open("/tmp/wt/%s-seedcheck.log" % wid, "w"),
                   stderr=subprocess.STDOUT)
    try:
        m = json.load(open("/verif/seeded/%s/meta.json" % name))
        c = m["confirmation"]
        print(name, "confirmed" if c["confirmed"] else "NOT-CONFIRMED demo=%s/%s" % (c.get("demo_with_change_exit"), c.get("demo_without_change_exit")),
              c["tests_with_change"][:11], "applies" if c.get("applies_to_repo") else "DOES-NOT-APPLY",
              {k: (v["exit"], (v["lines"][-1:] or [""])[0][:60].replace("VIOLATION property=", "V "),
                   v["summary"].split("theorems")[1][:50] if "theorems" in v["summary"] else v["summary"][-60:])
               for k, v in c.get("our_checks", {}).items()})
    except Exception as e:
        print(name, "no meta:", e)
    sys.stdout.flush()
subprocess.run(["git", "-C", "/repo", "status", "--short"])
subprocess.run([sys.executable, "/verif/harness/skeleton.py"], stdout=subprocess.DEVNULL)
subprocess.run([sys.executable, "/verif/harness/lockshape.py"], stdout=subprocess.DEVNULL)
