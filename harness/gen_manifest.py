#!/usr/bin/env python3
"""Regenerates MANIFEST.json from the table below (keeps it schema-valid)."""
import json
import os

VERIF = os.path.dirname(os.path.dirname(os.path.abspath(__file__)))
ALL = ["C%02d" % i for i in range(1, 21)]

CHECKS = {
 "C18": dict(
  technique="Lean 4 theorems (unquote∘quote = id via core's verified UTF-8 codec, sanitize_path idempotence, three decoders agree) + differential correspondence of the executable model with urllib/pathutils/xmlutils/server.get_environ and end-to-end href round trips",
  text="Proof: quote/unquote/sanitize_path/make_href and the three URL decoders are modelled as total Lean functions; the round-trip and decoder-agreement theorems hold for all strings. The model is tied to the code on every run by running the same generated strings through Python and the compiled model driver, and by sending every emitted href back through GET / multiget / MOVE on the real application under generated base prefixes.",
  note="Trusted: Lean kernel; standard axioms only; the hand-written model agrees with CPython's urllib.parse/posixpath and Radicale's pathutils only as far as the correspondence run shows; strings without lone surrogates; front end strips the script name on the decoded path.",
  ref="5/C18"),
 "C17": dict(
  technique="Lean 4 inductive invariant over login histories (every cache entry is backed by a recorded back-end answer), lifted to all histories; independence of logins by a simulation argument; differential correspondence of BaseAuth.login with a scripted back-end and clock",
  text="Proof: BaseAuth.login with the cache enabled is modelled as a total function on two finite maps with a symbolic perfect hash; for every history of attempts, clock advances and credential changes each answer is justified by a back-end answer for the same credentials within the success/failure lifetime, equals the back-end when credentials never change, and is independent of attempts under other logins. Tie: generated histories run through the real login() (scripted _login, clock shim) and the model driver; answers, cached/consulted flags must agree; a model-independent oracle re-checks justification and independence on the implementation.",
  note="Trusted: Lean kernel, standard axioms; SHA3-512 as an injective function of (salt, login, password); clock constant during one call and monotone; ASCII logins for lc/uc; the hand-written model agrees with the code as far as the correspondence run shows.",
  ref="5/C17"),
 "C04": dict(
  technique="Lean 4 theorems on models of the four rights back-ends (closed permission tables; re.escape is literal through a modelled regex parser + backtracking matcher; first-match evaluation of from_file) + exhaustive small-scope and random differential correspondence with Rights.authorization and Python re",
  text="Proof: authenticated/owner_only/owner_write are modelled verbatim and their documented guarantees (nothing in foreign homes, no foreign write, nothing below depth 2, anonymous gets nothing) are theorems for all names and paths; re.escape is proved to yield a pattern that parses to a literal and full-matches exactly the name, so a user name cannot widen a `{user}` rule; from_file is proved to return the first applicable section. Tie: Rights.authorization of the really loaded back-ends vs the model driver, exhaustively over a small scope and on generated rights files, plus the model's regex engine vs Python re.",
  note="Trusted: Lean kernel, standard axioms; Python `re` agrees with the modelled regex subset (rule grammar; ASCII for \\w \\d \\s) as far as the run shows; configparser section order; LDAP groups empty; general `{user}`-inside-larger-template literalness is validated by an independent \\U-escape oracle, proved only for the `{user}` template.",
  ref="5/C04"),
 "C02": dict(
  technique="Lean 4 theorem: every storage call's file-system trace has a single commit point and every prefix of it abstracts to the before- or after-state (all names, any number of items) + syscall-level correspondence and exhaustive crash/fault injection at every mutating system call through an LD_PRELOAD interposer",
  text="Proof: the data projection of the multifilesystem storage's system calls is modelled per storage call as a list of primitive operations on a partial-map file system; operations on temporary/cache/lock names provably never change what clients observe, each call has exactly one other operation, hence any crash prefix shows the state before or after. Tie: the real syscall log of each request type equals the model trace; the server is killed before each mutating call in turn (and each call failed with ENOSPC/EACCES/EIO), the folder re-opened by a fresh Application and dumped: it must be the before/after state the model's commit position predicts, verify() passes, follow-up requests succeed.",
  note="Trusted: Lean kernel, standard axioms; interposer and log canonicalisation; kernel atomicity of rename/RENAME_EXCHANGE/unlink/mkdir/rmdir; cache trees are outside the model (invisible by construction of abs); power loss is C12's subject.",
  ref="5/C02"),
 "C12": dict(
  technique="Lean 4 theorem: the sync-ordering monitor accepts the trace of every storage call with fsync enabled (all names; induction over the item list for bulk uploads) + equality of the real syscall log's data projection with the model trace; the Lean monitor is also evaluated on the observed trace",
  text="Proof: the durability rule (written files fsynced before a rename makes them visible, directories with changed visible entries fsynced afterwards, nothing pending at the end) is a decidable monitor over operation traces; it is proved to accept the model trace of upload, set_meta, delete, move, create_collection (any n items), makedirs. Tie: per request type and configuration the interposer's log, reduced to operations outside cache/lock and with temporary names renumbered, must equal the model trace; the same Lean monitor (driver) and an independent Python monitor run on the observed trace.",
  note="Trusted: Lean kernel, standard axioms; interposer + canonicaliser; what the disk does with fsync; cache/temporary files exempt as the property states.",
  ref="5/C12"),
 "C06": dict(
  technique="Lean 4 theorems (shape and idempotence of sanitize_path, path_to_filesystem accepts only ordinary names, token names are safe, storage traces stay below the collection, the shell reads shlex.quote(s) as the single word s) + differential correspondence and a syscall-level confinement monitor under an LD_PRELOAD interposer",
  text="Proof: sanitize_path is modelled on top of posixpath.normpath and proved to yield only clean absolute paths (and to be idempotent); path_to_filesystem is proved to refuse any component that is a dot-name, ends in '~' or contains a separator; shlex.quote is proved, against a model of POSIX word splitting, to produce exactly one word equal to its input for every string. Tie: the Python functions vs the model on generated hostile strings, the real /bin/sh on shlex.quote output, and requests with hostile text in all six client channels observed by the interposer: no path outside the storage folder is touched, decoys are never served, reserved names never change, the hook executes only the configured command.",
  note="Trusted: Lean kernel, standard axioms; interposer; the model of sh word splitting (validated against /bin/sh each run); POSIX branch only (Windows drive/ADS branches not modelled); case-sensitive file system.",
  ref="5/C06"),
 "C11": dict(
  technique="Lean 4 inductive invariants of three lock protocols for an unbounded number of threads (exclusion, bookkeeping = holders, `locked` view, no lost wake-up, deadlock freedom, unreachable 'Guarantees failed', FIFO per key) + step-by-step correspondence of the real lock classes under cooperative stand-ins driven by generated schedules",
  text="Proof: the condition-variable RwLock, the flock-based RwLock (kernel = correct RW lock) and the keyed LockDict are transition systems at the granularity of their synchronisation operations; invariants are proved by induction over all reachable states for any thread count, and yield mutual exclusion, correct self-view, absence of lost wake-ups and deadlock freedom. Tie: the real classes run with threading/fcntl/open replaced (in the lock modules' namespaces) by cooperative stand-ins; after every scheduled operation counters, mutex owner, per-thread phase, `locked` and the enabled set must equal the model's.",
  note="Trusted: Lean kernel, standard axioms; the stand-ins re-implement Lock/Condition semantics (CPython's own implementation is not exercised); kernel flock correctness is an assumption; 'eventually' needs a fair scheduler; writer starvation is not excluded by the code and not claimed.",
  ref="5/C11"),
 "C20": dict(
  technique="Lean 4 loop invariant of the accept loop for every arrival/completion/shutdown order (slots <= max_connections, no slot leak, no accept after shutdown, returns only when idle) + the real serve() loop driven through scripted select/server/socket stand-ins, plus real-socket runs with a blocking handler",
  text="Proof (partial): the main loop of radicale.server.serve is a transition system over (slots in use, running workers, total backlog over any number of listening sockets, shutdown, phase); by induction over any event sequence the slots in use never exceed max_connections, a finished worker frees its slot at the next iteration, a waiting client is accepted whenever a slot is free, nothing is accepted once shutdown was seen and the function returns only with no request in flight; the Content-Length gate is a closed formula. Tie: generated environment schedules drive the real serve() with select.select, the server class and sockets replaced by scripted stand-ins; poll sets, slot counts and the return point are compared with the model at every iteration; real-socket runs check the concurrent-entry bound, 413 and shutdown with requests in flight.",
  note="Partial: the idle-client time-out and complete responses on the wire are socket/OS behaviour, observed in the real-socket runs, not modelled. Trusted: Lean kernel, standard axioms; the scripted stand-ins; socketserver/wsgiref threading.",
  ref="5/C20"),
 "C07": dict(
  technique="Lean 4 invariant over all operation histories of a collection's sync state (every stored history tag is a hash chain ending in the remembered ETag; present hrefs are enumerated) and, from it, the convergence theorem for any token handed out at any earlier point, the initial sync, PROPFIND token = REPORT token, and no refusal before max_sync_token_age unless the token folder is lost + history-level differential correspondence of sync-collection REPORT / PROPFIND on two real calendars under all cache-subfolder layouts",
  text="Proof: members, history entries (with symbolic hash chains and fresh seeds), token files and the clock of one collection are a Lean state; upload, delete, move (onto free / existing names / itself), whole-collection replacement, delete-and-recreate, loss of the cache folder, clock jumps and syncs with any argument are total step functions. By induction over every history the invariant holds; hence for every token T handed out after any history and presented after any further history the answer is a refusal or a change list whose application to the holder's view yields exactly the current members; a sync never changes members; tokens younger than the maximum age are not refused unless an operation lost the token folder. Tie: random histories with up to five outstanding tokens against the real application (clock jumps by ageing cache files) on the 8 layouts; every REPORT/PROPFIND is compared with the compiled model (refused or not, token identity up to renaming, reported hrefs); a model-independent oracle applies each delta to the holder's view and compares with a fresh listing.",
  note="Trusted: Lean kernel, standard axioms; SHA-256 injective (ETags, history tags, token names are symbolic), os.urandom seeds fresh, pickle round trip, directory listing order stable while unchanged; the members map is fed from the real application's answers (object-model correctness is C01). Finding F23 (token outdated at birth after expiry of remembered deletions) was found by this check and fixed; 'nothing changed => same token' is claimed for unchanged clock only (expiry of remembered deletions changes the token by design).",
  ref="5/C07"),
 "C13": dict(
  technique="Lean 4 refinement theorem: with sound cache entries every history of requests, external file edits, restarts under the other keying mode and arbitrary cache manipulations (wipe, entries dropped, stale or foreign entries planted at any points) answers exactly like a cache-free reference + paired differential runs of the real application (reference vs cache tampered with, both keying modes, both cache locations) and model correspondence on content served and cache hit/miss",
  text="Proof: a collection's files (content, size, mtime) and item-cache entries (key, derived data) are a Lean state; _get, upload, delete, move (entry carried, or the destination's stale entry left behind), whole-collection replacement (fresh entries, or none in the sub-folder layout), external edits and cache manipulations are total step functions. Invariant: every entry is sound (any file version carrying its key parses to its content) - kept by every step because written entries carry the key of the bytes they were derived from, hash keys identify bytes, and entries of the other keying mode never match. Hence run = cache-free reference for all histories, and two runs differing only in cache treatment answer alike. Tie: (a) the same random request history on a reference application and on one whose cache is wiped / partially removed / planted with remembered entries / restarted under the other keying mode, comparing status, ETag, bodies and listings with data; (b) the application under test vs the compiled model per item read: content served and hit/miss as logged by Radicale's own cache debug log.",
  note="Trusted: Lean kernel, standard axioms; SHA-256 injective; Radicale's cache debug log as the hit/miss observation; a scratch application as the cache-free parser. Hypotheses stated in the theorem: mtime+size keying assumes an edit changes size or mtime (documented for that option); uploaded items re-read as what the uploader derived - finding F5 (vobject cannot re-read a folded line of blanks) violates exactly this and is reported as KNOWN-FINDING with its witness.",
  ref="5/C13"),
 "C16": dict(
  technique="Lean 4 theorems: every line of the RFC 4791 9.9 tables (VEVENT, VTODO, VJOURNAL) is equivalent to the overlap test on the ranges the visitor emits; the early exit is sound for ordered occurrences; the cached hull encloses all ranges and the storage shortcut agrees with full evaluation + differential correspondence of comp_match / find_time_range / calendar-query with the model and an independent RFC oracle",
  text="Proof: visit_time_ranges is modelled per component type over integer seconds; for all values each table line's emitted ranges overlap a filter range iff the RFC condition (written independently) holds; the visitor's early exit equals 'some occurrence overlaps' for occurrences in non-decreasing order (proved for DAILY/WEEKLY progressions); the hull encloses every range, so skipping by hull and claiming a match by hull are both sound when ranges are well formed - hence an always-true extra condition cannot change a result. Tie: objects and boundary-placed ranges from the property's grammar through comp_match, find_time_range and real calendar-query REPORTs (with the extra condition before/after) vs the model driver and an RFC oracle over independently computed occurrences.",
  note="Trusted: Lean kernel, standard axioms; vobject/dateutil produce the arithmetic progression for DAILY/WEEKLY rules (validated by the oracle); integer seconds. Free-busy periods are not modelled yet. Known finding F9 (ill-formed override) is outside the grammar and reported as KNOWN-FINDING.",
  ref="5/C16"),
 "C01": dict(
  technique="Lean 4 model of an ideal in-memory DAV store with the handlers' decision logic (decide + apply) and sanity theorems + history-level differential correspondence of the real application (both file-system back-ends, several cache layouts) with the model after every request",
  text="The property is a refinement claim: the implementation behaves like the ideal store. The ideal store and all handlers (gate, MKCOL, MKCALENDAR, PUT item/whole, DELETE, MOVE, PROPPATCH, GET, PROPFIND, multiget) are a total Lean function; theorems fix what 'ideal' means (last write wins, other names untouched, deleted names gone, errors are the identity). The refinement itself is checked by correspondence: random request histories run against the real Application on multifilesystem and multifilesystem_nolock and against the compiled model; status, ETag headers (as a bijection with content ids), listings and a full storage-API dump must agree after every request, and the back-ends must agree with each other.",
  note="Level: proof for the model's theorems, correspondence (not proof) for model = code; the multifilesystem-to-ideal-store refinement is not proved in Lean (DESIGN.md 5/C01). Trusted: Lean kernel, standard axioms; davsim translation; bodies limited to the object pool; SHA-256 injective.",
  ref="5/C01"),
 "C08": dict(
  technique="Lean 4 theorems on the PUT/DELETE precondition logic of the handler model (If-Match only with the current ETag, If-None-Match:* only on absent resources, stale conditional write not carried out, errors are the identity, collection ETag injective in members and properties) + correspondence on conditional-request histories with ETags read through four paths",
  text="Proof: on the handler model a conditional PUT/DELETE of an item that is carried out found exactly the ETag asked for, If-None-Match:* lets a PUT through only on an absent name, a writer holding a stale ETag is not carried out (lost update excluded for serial orders), 4xx answers change nothing. Tie: histories with current/stale/foreign/malformed/* preconditions against the real application; every ETag is read back through PUT response, GET, HEAD, PROPFIND and REPORT and must be one value per content (bijection with the model's content ids); 412 leaves dump unchanged.",
  note="Trusted: Lean kernel, standard axioms; SHA-256 as a perfect hash; interleavings of racing writers are reduced to serial orders by C09/C10/C11; `If-Match: *` on PUT behaves as the code does (412).",
  ref="5/C08"),
 "C15": dict(
  technique="Lean 4 theorem: every handler of the model decides on no update whenever it answers with an error status (all nine request kinds, all stores and policies) + correspondence on invalid-request-biased histories with a byte-level unchanged-store oracle, well-formedness monitor and the offline verifier",
  text="Proof: the handler model is split into decide (status + optional update) and apply; for every request kind, store, policy and user an answer >= 400 carries no update, so the store is exactly as after the automatic home-collection step; read-only methods never update. Tie: histories in which a quarter of the requests are outside the valid vocabulary (broken RRULE, missing/duplicate UIDs, several objects, mixed types, malformed XML, unknown resource types) and the rest from the model's vocabulary; after every request: status and dump vs model, errors leave the API dump and the bytes of the collection tree unchanged, no duplicate UIDs per collection, no collection inside a calendar/address book, verify() succeeds.",
  note="Partial: the inductive well-formedness invariant of the model is being proved separately (Props/C15Inv.lean when present); until then well-formedness is checked by the monitor only. Known finding F19 (empty VCALENDAR accepted) is reported as KNOWN-FINDING. Trusted: Lean kernel, standard axioms; davsim; vobject inside verify().",
  ref="5/C15"),
 "C03": dict(
  technique="Lean 4 theorems on the handler model for an arbitrary policy function: every decided update needs the matching write letter (item PUT, whole PUT incl. overwrite gate, MKCOL, MKCALENDAR, DELETE, PROPPATCH, MOVE), GET/PROPFIND show only what r/w-R/W permit, a denied request is the identity; witnesses of F7/F8 + correspondence under generated policies, twin-store non-interference oracle, byte-level denial oracle",
  text="Proof: with `rights` an arbitrary function user -> path -> letters, each handler of the model is shown to decide an update only under the matching permission and to expose entries only for permitted collections; 403 carries no update. The write clause is partial: changes are confined to the subtree of a target whose root has the letter - that nested collections without any permission are destroyed with it is finding F7 (theorem + replay), the inverted d/D letter for plain collections is F8. Tie: generated policy tables through a rights plug-in, all methods, two users and anonymous, model vs real application; twin stores differing only inside hidden subtrees must answer identically; denied requests leave the collection tree byte-identical; every changed collection must be writable for the user.",
  note="Partial (write clause as stated above; full non-interference is checked by the twin-store oracle, not proved). Known findings F7, F8, F20 (existence probing 403 vs 404 under exotic policies) are reported as KNOWN-FINDING. Trusted: Lean kernel, standard axioms; davsim + verif_rights plug-in; timing channels out of scope.",
  ref="5/C03"),
 "C05": dict(
  technique="Lean 4 theorems on models of the htpasswd back-end (file parsing, scheme dispatch, autodetect with length fall-backs) and of the request gate (credential extraction, name mapping, unsafe-user refusal, who reaches a handler) + correspondence of Auth.login and whole requests for five back-ends",
  text="Proof: an htpasswd login succeeds iff the file has an entry for the login whose hash verifies under the configured/detected scheme, and then as exactly that login; the identity a handler runs under is the back-end's answer for the mapped login and a safe path component; rejected or unsafe credentials give 401 without reaching a handler; an undecodable Authorization header only fails the request; identity headers do not influence the decision unless that back-end is configured. Tie: generated htpasswd files and attempts through the real Auth.login for every scheme/cache/mapping option, and whole requests with every header shape against none/denyall/htpasswd/remote_user/http_x_remote_user: status, WWW-Authenticate, principal served, store untouched.",
  note="Trusted: Lean kernel, standard axioms; passlib/bcrypt verifiers enter the model as a truth table (assumed correct); LDAP/IMAP/PAM/OAuth2/Dovecot back-ends are outside the model; early exits (well-known, 405, 413) are modelled in C20/C01 not here.",
  ref="5/C05"),
}

NA_REASON = "check not built yet (work in progress; see DESIGN.md section 5 for the plan)"


def main():
    checks = []
    for pid in ALL:
        if pid not in CHECKS:
            continue
        c = CHECKS[pid]
        checks.append({
            "property_id": pid,
            "quick_cmd": "./check %s quick" % pid,
            "thorough_cmd": "./check %s thorough" % pid,
            "evidence_file": "evidence/%s.json" % pid,
            "replay_cmd_template": "cat {path}",
            "engine": "lean4+correspondence",
            "level_claimed": {"category": c.get("category", "proof"), "text": c["text"], "design_ref": c["ref"]},
            "level_note": c["note"],
            "technique": c["technique"],
        })
    m = {
        "version": 1,
        "setup_cmd": "./setup.sh",
        "hooks": {"guard": "RADICALE_VERIF",
                  "enable": "no hooks inside /repo: observers attach from outside (LD_PRELOAD interposer, stand-ins installed into module namespaces by the harness); /venv/bin/python runs /repo's working tree (editable install)",
                  "baseline_off_cmd": "cd /repo && /venv/bin/python -m pytest -ra -q -p no:cacheprovider --timeout=900 --continue-on-collection-errors",
                  "source_commits": [], "add_only": True},
        "engines": [{"name": "lean4+correspondence", "path": "lean/ harness/",
                     "serves_properties": sorted(CHECKS),
                     "kind_free_text": "Lean 4 model + theorems (lake), compiled model driver (JSON lines), Python differential harness against the real code"}],
        "checks": checks,
        "not_applicable": [{"property_id": p, "reason": NA_REASON} for p in ALL if p not in CHECKS],
        "notes": "fix: commits in /repo and known findings are listed in known_findings.json; see DESIGN.md.",
    }
    with open(os.path.join(VERIF, "MANIFEST.json"), "w") as f:
        json.dump(m, f, indent=1, ensure_ascii=False)
    print("MANIFEST: %d checks, %d not applicable" % (len(checks), len(m["not_applicable"])))


if __name__ == "__main__":
    main()
