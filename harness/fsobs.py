"""Observation of the storage's file-system behaviour through the interposer, and its canonical
*data projection* (the operations the Lean trace model describes; see lean/RadicaleModel/Trace.lean)."""
import os
import tempfile

import interposer

TMP_PREFIX = ".Radicale.tmp-"
O_CREAT = 0o100
O_TRUNC = 0o1000
O_WRONLY = 1
O_RDWR = 2


def chars(s):
    return [ord(c) for c in s]


def jpath(comps):
    return [chars(c) for c in comps]


def unjpath(j):
    return ["".join(chr(x) for x in c) for c in j]


def rel(folder, path):
    """components relative to the storage folder, or None if outside"""
    folder = folder.rstrip("/")
    if path == folder:
        return []
    if not path.startswith(folder + "/"):
        return None
    return [c for c in path[len(folder) + 1:].split("/") if c]


def is_cache(comps):
    return any(c == ".Radicale.cache" for c in comps) or (comps[:1] == ["collection-cache"])


def is_lock(comps):
    return bool(comps) and comps[-1] == ".Radicale.lock"


def data_projection(entries, folder):
    """canonical list of {"op","p"[,"q"]} with component lists; temporary names renumbered by first occurrence."""
    out = []
    for e in entries:
        op = e["op"]
        if op in ("stat", "open", "opendir", "close", "flock", "flock-req", "MARK", "execve", "utime", "CRASH", "FAULT"):
            continue
        p = rel(folder, e["path"])
        if p is None or not p or p[0] != "collection-root":
            continue
        if is_cache(p) or is_lock(p):
            continue
        if op == "openw":
            if "ret=-1" in e["detail"]:
                continue
            try:
                flags = int(e["detail"].split("flags=")[1].split()[0], 16)
            except Exception:
                flags = 0
            if not (flags & (O_CREAT | O_TRUNC)):
                continue
            out.append({"op": "openw", "p": p})
        elif op == "write":
            if out and out[-1]["op"] == "write" and out[-1]["p"] == p:
                continue
            out.append({"op": "write", "p": p})
        elif op in ("fsync", "mkdir", "rmdir", "unlink"):
            if e["detail"] != "ok":
                continue
            out.append({"op": op, "p": p})
        elif op in ("rename", "exchange"):
            if e["detail"] != "ok":
                continue
            q = rel(folder, e["path2"])
            out.append({"op": op, "p": p, "q": q})
    # collapse clean-up of temporary directories into rmtree
    res = []
    for o in out:
        if o["op"] == "rmdir" and o["p"][-1].startswith(TMP_PREFIX):
            t = o["p"]
            while res and res[-1]["op"] in ("unlink", "rmdir") and res[-1]["p"][:len(t)] == t:
                res.pop()
            res.append({"op": "rmtree", "p": t})
        else:
            res.append(o)
    # renumber temporary names
    names = {}

    def ren(comps):
        r = []
        for c in comps:
            if c.startswith(TMP_PREFIX):
                if c not in names:
                    names[c] = "%s%d" % (TMP_PREFIX, len(names))
                c = names[c]
            r.append(c)
        return r
    for o in res:
        o["p"] = ren(o["p"])
        if "q" in o and o["q"] is not None:
            o["q"] = ren(o["q"])
    return res


def to_driver_ops(ops):
    r = []
    for o in ops:
        d = {"op": o["op"], "p": jpath(o["p"])}
        if "q" in o:
            d["q"] = jpath(o["q"] or [])
        r.append(d)
    return r


def from_driver_ops(jops):
    r = []
    for o in jops:
        d = {"op": o["op"], "p": unjpath(o["p"])}
        if "q" in o:
            d["q"] = unjpath(o["q"])
        r.append(d)
    return r


class Recorder:
    """logs the calling process' file-system calls between start() and stop()"""

    def __init__(self):
        self.dir = tempfile.mkdtemp(prefix="rverif-log-")
        self.n = 0

    def start(self):
        self.n += 1
        self.path = os.path.join(self.dir, "log%d" % self.n)
        interposer.start(self.path)

    def stop(self):
        m = interposer.mutcount()
        interposer.stop()
        ent = interposer.parse_log(self.path)
        os.unlink(self.path)
        return ent, m

    def close(self):
        import shutil
        shutil.rmtree(self.dir, ignore_errors=True)


def py_sync_monitor(ops):
    """independent oracle for C12 on a data projection: returns a list of complaints"""
    bad = []

    def hidden(p):
        return any(c.startswith(".") and c != ".Radicale.props" for c in p)
    for j, o in enumerate(ops):
        vis_dirs = []
        if o["op"] in ("rename", "exchange"):
            if not hidden(o["q"]):
                vis_dirs.append(o["q"][:-1])
                src = o["p"]
                # every earlier write at or below the source is synced before j, after its last write
                last_write = {}
                for i in range(j):
                    oi = ops[i]
                    if oi["op"] == "write" and oi["p"][:len(src)] == src:
                        last_write[tuple(oi["p"])] = i
                    if oi["op"] in ("rmtree", "unlink", "rmdir"):
                        for k in list(last_write):
                            if list(k)[:len(oi["p"])] == oi["p"]:
                                del last_write[k]
                for path, i in last_write.items():
                    if not any(ops[k]["op"] == "fsync" and tuple(ops[k]["p"]) == path for k in range(i + 1, j)):
                        bad.append("file %s written at %d not synced before it becomes visible at %d" % ("/".join(path), i, j))
                # entries created directly in a moved directory are synced
                for i in range(j):
                    oi = ops[i]
                    tgt = oi.get("q") if oi["op"] == "rename" else oi["p"] if oi["op"] in ("openw", "mkdir") else None
                    if tgt and tgt[:-1] == src and not tgt[-1].startswith(TMP_PREFIX):
                        if not any(ops[k]["op"] == "fsync" and ops[k]["p"] == src for k in range(i + 1, j)):
                            bad.append("entry %s created at %d in a directory that becomes visible at %d without directory sync" % ("/".join(tgt), i, j))
            if not hidden(o["p"]):
                vis_dirs.append(o["p"][:-1])
        elif o["op"] in ("unlink", "rmdir", "mkdir") and not hidden(o["p"]):
            vis_dirs.append(o["p"][:-1])
        for d in vis_dirs:
            if not any(ops[k]["op"] == "fsync" and ops[k]["p"] == d for k in range(j + 1, len(ops))):
                bad.append("directory %s changed at %d (%s) is not synced afterwards" % ("/".join(d), j, o["op"]))
    return bad
