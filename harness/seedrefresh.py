#!/usr/bin/env python3
"""seedrefresh.py <seed-name>[:<prop>[,<prop>…]] … — re-run our checks against archived seeds (after a check was strengthened):
apply /verif/seeded/<name>/patch.diff (patch_rebased.diff if present) to /repo, run ./check <prop> quick, undo; the result replaces
`confirmation.our_checks` in meta.json (the first result is kept under `our_checks_before_strengthening`)."""
import json
import os
import shutil
import subprocess
import sys


def run(cmd, cwd=None, timeout=1500):
    p = subprocess.run(cmd, cwd=cwd, stdout=subprocess.PIPE, stderr=subprocess.STDOUT, text=True, timeout=timeout)
    return p.returncode, p.stdout


for arg in sys.argv[1:]:
    name, _, props = arg.partition(":")
    dst = "/verif/seeded/%s" % name
    meta = json.load(open(os.path.join(dst, "meta.json")))
    props = props.split(",") if props else [meta["property"]] + meta.get("also_run", [])
    patch = os.path.join(dst, "patch_rebased.diff")
    if not os.path.exists(patch):
        patch = os.path.join(dst, "patch.diff")
    rc, o = run(["git", "-C", "/repo", "apply", "--check", patch])
    if rc != 0:
        print(name, "DOES-NOT-APPLY")
        continue
    run(["git", "-C", "/repo", "apply", patch])
    checks = {}
    try:
        for pr in props:
            ev = os.path.join("/verif/evidence", "%s.json" % pr)
            saved = open(ev, "rb").read() if os.path.exists(ev) else None
            rc, o = run(["./check", pr, "quick"], cwd="/verif")
            if saved is not None:
                shutil.copy(ev, os.path.join(dst, "evidence-%s.json" % pr))
                open(ev, "wb").write(saved)
            viol = [l for l in o.splitlines() if l.startswith("VIOLATION") or l.startswith("KNOWN-FINDING")]
            checks[pr] = {"exit": rc, "lines": viol, "summary": o.strip().splitlines()[-1] if o.strip() else ""}
            rp = os.path.join("/verif/replays", "%s-quick-0.json" % pr)
            if os.path.exists(rp):
                shutil.copy(rp, os.path.join(dst, "replay-%s.json" % pr))
    finally:
        run(["git", "-C", "/repo", "checkout", "--", "."])
    c = meta["confirmation"]
    if "our_checks" in c and "our_checks_before_strengthening" not in c and any(v["exit"] == 0 for v in c["our_checks"].values()):
        c["our_checks_before_strengthening"] = c["our_checks"]
    c["our_checks"] = checks
    meta["also_run"] = [p for p in props if p != meta["property"]]
    json.dump(meta, open(os.path.join(dst, "meta.json"), "w"), indent=1)
    print(name, {k: (v["exit"], v["summary"][-70:]) for k, v in checks.items()})
    sys.stdout.flush()
subprocess.run(["git", "-C", "/repo", "status", "--short"])
subprocess.run([sys.executable, "/verif/harness/skeleton.py"], stdout=subprocess.DEVNULL)
