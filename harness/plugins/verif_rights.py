"""Rights plug-in used by the verification harness: an explicit (user, path) -> permissions table."""
from radicale import pathutils, rights

TABLE = {}          # (user, "a/b") -> perms
DEFAULT = ["RrWw"]


class Rights(rights.BaseRights):
    def authorization(self, user, path):
        key = (user or "", pathutils.strip_path(path))
        return TABLE.get(key, DEFAULT[0])
