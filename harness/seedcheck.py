#!/usr/bin/env python3
"""seedcheck.py <worktree-id> <property> [name] — confirm a seeded defect and run our check against it.
1. in /tmp/wt/<id>: demo fails with the change, full test suite passes, demo passes without the change;
2. copy patch/demo/notes to /verif/seeded/<name>/ with meta.json;
3. apply the patch to /repo, run ./check <property> quick, undo."""
import json
import os
import shutil
import subprocess
import sys

wid, prop = sys.argv[1], sys.argv[2]
name = sys.argv[3] if len(sys.argv) > 3 else wid
wt = "/tmp/wt/%s" % wid
out = "/tmp/wt/%s-out" % wid
demo = os.path.join(out, "demo.py") if os.path.exists(os.path.join(out, "demo.py")) else os.path.join(out, "demo.sh")


def run(cmd, cwd=None, env=None, timeout=900):
    p = subprocess.run(cmd, cwd=cwd, env=env, shell=isinstance(cmd, str), stdout=subprocess.PIPE, stderr=subprocess.STDOUT, text=True, timeout=timeout)
    return p.returncode, p.stdout


env = dict(os.environ, PYTHONPATH=wt)
democmd = ["/venv/bin/python", demo] if demo.endswith(".py") else ["sh", demo]
res = {}
rc, o = run(["git", "-C", wt, "diff", "--stat"])
res["diffstat"] = o.strip().splitlines()[-1] if o.strip() else "NO CHANGE"
rc, o = run(democmd, cwd=wt, env=env)
res["demo_with_change_exit"] = rc
rc, o = run("/venv/bin/python -m pytest -q -p no:cacheprovider -x 2>&1 | tail -1", cwd=wt)
res["tests_with_change"] = o.strip()
# (not `git stash`: the stash is shared by all worktrees of one repository and other seed agents may be using it)
rcd, saved_diff = run(["git", "-C", wt, "diff"])
tmp_patch = os.path.join(out, ".seedcheck.diff")
open(tmp_patch, "w").write(saved_diff)
run(["git", "-C", wt, "apply", "-R", tmp_patch])
rc, o = run(democmd, cwd=wt, env=env)
res["demo_without_change_exit"] = rc
run(["git", "-C", wt, "apply", tmp_patch])
os.unlink(tmp_patch)
confirmed = res["demo_with_change_exit"] != 0 and res["demo_without_change_exit"] == 0 and "217 passed" in res["tests_with_change"]
res["confirmed"] = confirmed
dst = "/verif/seeded/%s" % name
if confirmed:
    os.makedirs(dst, exist_ok=True)
    for f in os.listdir(out):
        if os.path.isfile(os.path.join(out, f)) and os.path.getsize(os.path.join(out, f)) < 200000:
            shutil.copy(os.path.join(out, f), dst)
    # regenerate the patch from the worktree to be sure
    rc, o = run(["git", "-C", wt, "diff"])
    open(os.path.join(dst, "patch.diff"), "w").write(o)
    rc, o = run(["git", "-C", "/repo", "apply", "--check", os.path.join(dst, "patch.diff")])
    res["applies_to_repo"] = rc == 0
    # SEEDCHECK_IN_WORKTREE=1: /repo is in use (background sweeps): run our checks against the worktree instead - the real code is
    # imported from it (PYTHONPATH) and the translators read it (VERIF_REPO); /repo is not touched
    in_wt = os.environ.get("SEEDCHECK_IN_WORKTREE") == "1"
    if in_wt:
        os.environ["PYTHONPATH"] = wt
        os.environ["VERIF_REPO"] = wt
        res["checked_in"] = "worktree (PYTHONPATH / VERIF_REPO), /repo untouched"
    if rc == 0:
        if not in_wt:
            run(["git", "-C", "/repo", "apply", os.path.join(dst, "patch.diff")])
        try:
            checks = {}
            for pr in prop.split(","):
                # the evidence file of a run on a seeded tree must not replace the one of the unchanged tree
                ev = os.path.join("/verif/evidence", "%s.json" % pr)
                saved = open(ev, "rb").read() if os.path.exists(ev) else None
                rc, o = run(["./check", pr, "quick"], cwd="/verif", timeout=1500)
                if saved is not None:
                    shutil.copy(ev, os.path.join(dst, "evidence-%s.json" % pr))
                    open(ev, "wb").write(saved)
                viol = [l for l in o.splitlines() if l.startswith("VIOLATION") or l.startswith("KNOWN-FINDING")]
                checks[pr] = {"exit": rc, "lines": viol, "summary": o.strip().splitlines()[-1] if o.strip() else ""}
                rp = os.path.join("/verif/replays", "%s-quick-0.json" % pr)
                if os.path.exists(rp):
                    shutil.copy(rp, os.path.join(dst, "replay-%s.json" % pr))
            res["our_checks"] = checks
        finally:
            if not in_wt:
                run(["git", "-C", "/repo", "checkout", "--", "."])
            os.environ.pop("PYTHONPATH", None)
            os.environ.pop("VERIF_REPO", None)
    meta = {"property": prop.split(",")[0], "also_run": prop.split(",")[1:], "source": "independent sub-agent given only the property text",
            "needs_to_manifest": "see notes.md", "confirmation": res}
    json.dump(meta, open(os.path.join(dst, "meta.json"), "w"), indent=1)
print(json.dumps(res, indent=1))
