#!/usr/bin/env python3
"""Translator: radicale/app/*.py (current working tree of /repo)  ->  lean/Generated/Skeleton.lean

For every HTTP method the skeleton of `Application._handle_request` with the method's `do_*` handler inlined.
Deliberately coarse and name-based; it turns into events only what is syntactically unambiguous:

  with <x>.acquire_lock("r"|"w", …): body                       -> lock m body
  with contextlib.ExitStack() as s: … s.enter_context(<x>.acquire_lock(m, …)); rest
                                                                  -> lock m rest   (REPORT)
  <stack>.close()  /  unlock_storage_fn()                         -> ev unlock
  <x>.discover / get_all / get_multi / get_filtered / has_uid / get_meta / sync / verify (…)   -> ev read
  <collection-named expr>.tag                                     -> ev read   (get_meta behind a property)
  <x>.create_collection / upload / delete / move / set_meta (…)                             -> ev write
  return / raise / if / for / while / try / with                  -> ret / raise / alt / star / try_ / seq
  calls of functions and methods defined in radicale/app/*.py     -> fn <their body>   (inlined, depth-limited)

Attribute reads that may or may not touch storage (.etag, .serialize(), .last_modified, …) and lazily consumed
generators are *not* decided here; the run-time lock-set monitor (harness/props/c10.py) covers them.
"""
import ast
import os
import sys

READ = {"discover", "get_all", "get_multi", "get_filtered", "has_uid", "get_meta", "sync", "verify"}
WRITE = {"create_collection", "upload", "delete", "move", "set_meta"}
UNLOCK_NAMES = {"unlock_storage_fn"}
MAX_DEPTH = 7


class Tr:
    def __init__(self, app_dir):
        self.app_dir = app_dir
        self.modules = {}          # module name -> ast.Module
        self.funcs = {}            # name -> FunctionDef (module level functions, all app modules)
        self.methods = {}          # name -> FunctionDef (methods of the Application* classes)
        for fn in sorted(os.listdir(app_dir)):
            if fn.endswith(".py"):
                tree = ast.parse(open(os.path.join(app_dir, fn)).read(), fn)
                self.modules[fn[:-3]] = tree
                for node in tree.body:
                    if isinstance(node, ast.FunctionDef):
                        self.funcs[node.name] = node
                    elif isinstance(node, ast.ClassDef):
                        for sub in node.body:
                            if isinstance(sub, ast.FunctionDef):
                                self.methods.setdefault(sub.name, sub)
        self.notes = []

    # ---- terms ------------------------------------------------------------------------------------------
    @staticmethod
    def seq(parts):
        parts = [p for p in parts if p != ("skip",)]
        if not parts:
            return ("skip",)
        out = parts[-1]
        for p in reversed(parts[:-1]):
            out = ("seq", p, out)
        return out

    @staticmethod
    def alt(a, b):
        if a == b:
            return a
        return ("alt", a, b)

    # ---- expressions ------------------------------------------------------------------------------------
    def expr(self, e, scope, depth, stack_names):
        """events of evaluating `e`, in evaluation order"""
        if e is None:
            return ("skip",)
        if isinstance(e, ast.Call):
            parts = []
            f = e.func
            if isinstance(f, ast.Attribute):
                parts.append(self.expr(f.value, scope, depth, stack_names))
            for a in e.args:
                parts.append(self.expr(a.value if isinstance(a, ast.Starred) else a, scope, depth, stack_names))
            for k in e.keywords:
                parts.append(self.expr(k.value, scope, depth, stack_names))
            parts.append(self.call(e, scope, depth, stack_names))
            return self.seq(parts)
        if isinstance(e, ast.IfExp):
            return self.seq([self.expr(e.test, scope, depth, stack_names),
                             self.alt(self.expr(e.body, scope, depth, stack_names), self.expr(e.orelse, scope, depth, stack_names))])
        if isinstance(e, ast.BoolOp):
            parts = [self.expr(e.values[0], scope, depth, stack_names)]
            for v in e.values[1:]:
                parts.append(self.alt(("skip",), self.expr(v, scope, depth, stack_names)))
            return self.seq(parts)
        if isinstance(e, (ast.ListComp, ast.SetComp, ast.GeneratorExp, ast.DictComp)):
            parts = []
            for g in e.generators:
                parts.append(self.expr(g.iter, scope, depth, stack_names))
            inner = []
            for g in e.generators:
                for c in g.ifs:
                    inner.append(self.expr(c, scope, depth, stack_names))
            if isinstance(e, ast.DictComp):
                inner += [self.expr(e.key, scope, depth, stack_names), self.expr(e.value, scope, depth, stack_names)]
            else:
                inner.append(self.expr(e.elt, scope, depth, stack_names))
            body = self.seq(inner)
            if body != ("skip",):
                parts.append(("star", body))
            return self.seq(parts)
        if isinstance(e, ast.Attribute) and e.attr == "tag" and self.is_collection_expr(e.value):
            # `<collection>.tag` goes through get_meta(): it reads .Radicale.props unless the per-request cache
            # is filled *and* nobody in the process holds the lock in write mode
            return self.seq([self.expr(e.value, scope, depth, stack_names), ("ev", "read")])
        if isinstance(e, ast.Lambda):
            return ("skip",)
        if isinstance(e, (ast.Yield, ast.Await)):
            return self.expr(e.value, scope, depth, stack_names)
        if isinstance(e, ast.YieldFrom):
            return self.expr(e.value, scope, depth, stack_names)
        parts = []
        for child in ast.iter_child_nodes(e):
            if isinstance(child, ast.expr):
                parts.append(self.expr(child, scope, depth, stack_names))
        return self.seq(parts)

    COLLECTION_NAMES = {"collection", "to_collection", "parent_item", "item", "principal", "new_coll"}

    def is_collection_expr(self, v):
        if isinstance(v, ast.Name):
            return v.id in self.COLLECTION_NAMES
        if isinstance(v, ast.Attribute):
            return v.attr == "collection"
        return False

    def call(self, e, scope, depth, stack_names):
        f = e.func
        if isinstance(f, ast.Attribute):
            name = f.attr
            if name == "close" and isinstance(f.value, ast.Name) and f.value.id in stack_names:
                return ("ev", "unlock")
            if name == "_read_xml_request_body":
                return ("ev", "xml")
            if name in READ:
                return ("ev", "read")
            if name in WRITE:
                # dict-like .delete/.move do not occur in radicale/app; every hit is a storage call
                return ("ev", "write")
            if isinstance(f.value, ast.Name) and f.value.id == "self" and name in self.methods:
                return self.inline(self.methods[name], scope, depth, stack_names)
            return ("skip",)
        if isinstance(f, ast.Name):
            if f.id in UNLOCK_NAMES:
                return ("ev", "unlock")
            if f.id == "function" and scope.get("__handler__") is not None:
                return ("hole",)
            if f.id in scope.get("__local_funcs__", {}):
                return self.inline(scope["__local_funcs__"][f.id], scope, depth, stack_names)
            if f.id in self.funcs:
                return self.inline(self.funcs[f.id], scope, depth, stack_names)
        return ("skip",)

    def inline(self, fdef, scope, depth, stack_names):
        if depth >= MAX_DEPTH or fdef.name in scope.get("__inlining__", ()):
            self.notes.append("not inlined (depth/recursion): %s" % fdef.name)
            return ("skip",)
        sc = {"__inlining__": tuple(scope.get("__inlining__", ())) + (fdef.name,), "__local_funcs__": dict(scope.get("__local_funcs__", {}))}
        body = self.block(fdef.body, sc, depth + 1, set())
        if body == ("skip",):
            return body
        return ("fn", body)

    # ---- statements -------------------------------------------------------------------------------------
    def block(self, stmts, scope, depth, stack_names):
        parts = []
        for i, st in enumerate(stmts):
            if isinstance(st, ast.FunctionDef):
                scope.setdefault("__local_funcs__", {})[st.name] = st
                continue
            # ExitStack: `<stack>.enter_context(<x>.acquire_lock(m, …))` opens a window for the rest of the block
            m = self.enter_context_mode(st, stack_names)
            if m is not None:
                rest = self.block(stmts[i + 1:], scope, depth, stack_names)
                parts.append(("lock", m, rest))
                return self.seq(parts)
            parts.append(self.stmt(st, scope, depth, stack_names))
        return self.seq(parts)

    @staticmethod
    def lock_mode(call):
        if (isinstance(call, ast.Call) and isinstance(call.func, ast.Attribute) and call.func.attr == "acquire_lock"
                and call.args and isinstance(call.args[0], ast.Constant) and call.args[0].value in ("r", "w")):
            return call.args[0].value
        return None

    def enter_context_mode(self, st, stack_names):
        if isinstance(st, ast.Expr) and isinstance(st.value, ast.Call):
            c = st.value
            if (isinstance(c.func, ast.Attribute) and c.func.attr == "enter_context" and isinstance(c.func.value, ast.Name)
                    and c.func.value.id in stack_names and c.args):
                return self.lock_mode(c.args[0])
        return None

    def stmt(self, st, scope, depth, stack_names):
        E = lambda e: self.expr(e, scope, depth, stack_names)      # noqa: E731
        B = lambda b, names=stack_names: self.block(b, scope, depth, names)      # noqa: E731
        if isinstance(st, ast.Return):
            return self.seq([E(st.value), ("ret",)])
        if isinstance(st, ast.Raise):
            return self.seq([E(st.exc), ("raise",)])
        if isinstance(st, (ast.Expr,)):
            return E(st.value)
        if isinstance(st, ast.Assign):
            return E(st.value)
        if isinstance(st, (ast.AugAssign, ast.AnnAssign)):
            return E(st.value)
        if isinstance(st, ast.If):
            return self.seq([E(st.test), self.alt(B(st.body), B(st.orelse))])
        if isinstance(st, ast.For):
            return self.seq([E(st.iter), ("star", B(st.body)), B(st.orelse)])
        if isinstance(st, ast.While):
            return self.seq([("star", self.seq([E(st.test), B(st.body)])), E(st.test), B(st.orelse)])
        if isinstance(st, ast.With):
            parts = []
            names = set(stack_names)
            lock = None
            for item in st.items:
                m = self.lock_mode(item.context_expr)
                if m is not None:
                    # arguments of acquire_lock are evaluated before the window opens
                    for a in item.context_expr.args[1:]:
                        parts.append(E(a))
                    lock = m
                    continue
                c = item.context_expr
                if (isinstance(c, ast.Call) and isinstance(c.func, ast.Attribute) and c.func.attr == "ExitStack"
                        and isinstance(item.optional_vars, ast.Name)):
                    names.add(item.optional_vars.id)
                    continue
                parts.append(E(c))
            body = self.block(st.body, scope, depth, names)
            if lock is not None:
                body = ("lock", lock, body)
            parts.append(body)
            return self.seq(parts)
        if isinstance(st, ast.Try):
            handlers = ("skip",)
            hs = [B(h.body) for h in st.handlers]
            if hs:
                handlers = hs[0]
                for h in hs[1:]:
                    handlers = self.alt(handlers, h)
            body = self.seq([B(st.body), B(st.orelse)])
            t = ("try", body, handlers) if st.handlers else body
            if st.finalbody:
                t = self.seq([("try", t, ("skip",)), B(st.finalbody)])
            return t
        if isinstance(st, ast.Assert):
            return E(st.test)
        if isinstance(st, (ast.Pass, ast.Break, ast.Continue, ast.Import, ast.ImportFrom, ast.Global, ast.Nonlocal, ast.Delete)):
            return ("skip",)
        self.notes.append("statement kind not translated: %s" % type(st).__name__)
        return ("skip",)

    # ---- top level --------------------------------------------------------------------------------------
    def handler(self, method):
        fdef = self.methods.get("do_%s" % method)
        if fdef is None:
            return None
        return ("fn", self.block(fdef.body, {"__inlining__": ("do_%s" % method,)}, 1, set()))

    def handle_request(self):
        fdef = self.methods["_handle_request"]
        return self.block(fdef.body, {"__handler__": True, "__inlining__": ("_handle_request",)}, 0, set())


def fill(t, h):
    if t == ("hole",):
        return h
    if isinstance(t, tuple):
        return tuple(fill(x, h) if isinstance(x, tuple) else x for x in t)
    return t


def simplify(t):
    """drop `fn`/`seq`/`alt`/`star`/`try` shells that contain no event, lock, return or raise"""
    if not isinstance(t, tuple):
        return t
    k = t[0]
    if k in ("skip", "ev", "ret", "raise", "hole"):
        return t
    args = [simplify(x) if isinstance(x, tuple) else x for x in t[1:]]
    if k == "seq":
        a, b = args
        if a == ("skip",):
            return b
        if b == ("skip",):
            return a
        return ("seq", a, b)
    if k == "alt":
        a, b = args
        return a if a == b else ("alt", a, b)
    if k == "star":
        return ("skip",) if args[0] == ("skip",) else ("star", args[0])
    if k == "fn":
        b = args[0]
        if b == ("skip",) or b == ("ret",):
            return ("skip",)
        if not contains(b, ("ret",)):
            return b
        return ("fn", b)
    if k == "try":
        b, h = args
        if b == ("skip",) and h == ("skip",):
            return ("skip",)
        return ("try", b, h)
    if k == "lock":
        return ("lock", args[0], args[1])
    return (k,) + tuple(args)


def contains(t, what):
    if t == what:
        return True
    if isinstance(t, tuple):
        return any(contains(x, what) for x in t if isinstance(x, tuple))
    return False


def strip_pure_returns(t):
    """`alt (ret) (ret)` etc. stay; nothing else to do - kept for clarity"""
    return t


def to_lean(t):
    k = t[0]
    if k == "skip":
        return ".skip"
    if k == "ev":
        return "(.ev .%s)" % t[1]
    if k == "ret":
        return ".ret"
    if k == "raise":
        return ".raise"
    if k == "seq":
        return "(.seq %s %s)" % (to_lean(t[1]), to_lean(t[2]))
    if k == "alt":
        return "(.alt %s %s)" % (to_lean(t[1]), to_lean(t[2]))
    if k == "star":
        return "(.star %s)" % to_lean(t[1])
    if k == "lock":
        return "(.lock .%s %s)" % (t[1], to_lean(t[2]))
    if k == "try":
        return "(.try_ %s %s)" % (to_lean(t[1]), to_lean(t[2]))
    if k == "fn":
        return "(.fn %s)" % to_lean(t[1])
    raise ValueError(t)


def to_json(t):
    return [t[0]] + [to_json(x) if isinstance(x, tuple) else x for x in t[1:]]


METHODS = ["DELETE", "GET", "HEAD", "MKCALENDAR", "MKCOL", "MOVE", "OPTIONS", "POST", "PROPFIND", "PROPPATCH", "PUT", "REPORT"]


XML_PARSE_NAMES = {"fromstring", "XML", "parse", "iterparse", "XMLParser", "XMLPullParser", "parseString"}


def xml_parser_calls(repo="/repo"):
    """every call in radicale/app/*.py and radicale/xmlutils.py, httputils.py that parses XML text: (file, callee as written)"""
    out = []
    base = os.path.join(repo, "radicale")
    files = [os.path.join(base, "app", f) for f in sorted(os.listdir(os.path.join(base, "app"))) if f.endswith(".py")]
    files += [os.path.join(base, f) for f in ("xmlutils.py", "httputils.py")]
    for fp in files:
        tree = ast.parse(open(fp).read(), fp)
        for node in ast.walk(tree):
            if isinstance(node, ast.Call):
                f = node.func
                if isinstance(f, ast.Attribute) and f.attr in XML_PARSE_NAMES:
                    recv = f.value
                    rname = recv.id if isinstance(recv, ast.Name) else ast.unparse(recv)
                    if rname in ("urlparse", "urllib", "parse", "json", "email", "vobject", "dateutil", "datetime", "time", "posixpath"):
                        continue
                    if f.attr == "parse" and rname not in ("ET", "DefusedET", "etree", "minidom", "sax", "ElementTree"):
                        continue
                    out.append((os.path.relpath(fp, repo), "%s.%s" % (rname, f.attr)))
                elif isinstance(f, ast.Name) and f.id in XML_PARSE_NAMES and f.id != "parse":
                    out.append((os.path.relpath(fp, repo), f.id))
    # what the names stand for (import table of app/base.py)
    imports = {}
    tree = ast.parse(open(os.path.join(base, "app", "base.py")).read())
    for node in tree.body:
        if isinstance(node, ast.Import):
            for a in node.names:
                imports[a.asname or a.name] = a.name
        elif isinstance(node, ast.ImportFrom):
            for a in node.names:
                imports[a.asname or a.name] = "%s.%s" % (node.module, a.name)
    return out, imports


def generate(repo="/repo", with_do=False):
    tr = Tr(os.path.join(repo, "radicale", "app"))
    outer = tr.handle_request()
    out = {}
    do = {}
    for m in METHODS:
        h = tr.handler(m)
        if h is None:
            continue
        out[m] = simplify(fill(outer, h))
        do[m] = simplify(h)
    if with_do:
        return out, do, tr.notes
    return out, tr.notes


def write_lean(skeletons, path, do=None, parser_calls=None, imports=None):
    lines = ["import RadicaleModel.Skeleton",
             "/- GENERATED by harness/skeleton.py from /repo/radicale/app/*.py - do not edit -/",
             "namespace Generated", "open Radicale.Skeleton", ""]
    for m, t in skeletons.items():
        lines.append("def sk_%s : Sk :=\n  %s\n" % (m, to_lean(t)))
    lines.append("def handlers : List (String × Sk) := [%s]" % ", ".join('("%s", sk_%s)' % (m, m) for m in skeletons))
    lines.append("")
    if do is not None:
        lines.append("/-- the `do_*` handlers alone (what runs after authentication and home creation) -/")
        for m, t in do.items():
            lines.append("def do_%s : Sk :=\n  %s\n" % (m, to_lean(t)))
        lines.append("def doHandlers : List (String × Sk) := [%s]" % ", ".join('("%s", do_%s)' % (m, m) for m in do))
        lines.append("")
    if parser_calls is not None:
        lines.append("/-- every call in radicale/app, xmlutils.py, httputils.py that parses XML text: (file, callee) -/")
        lines.append("def xmlParserCalls : List (String × String) := [%s]" % ", ".join('("%s", "%s")' % c for c in parser_calls))
        lines.append("/-- what `DefusedET` is bound to in radicale/app/base.py -/")
        lines.append('def defusedETModule : String := "%s"' % (imports or {}).get("DefusedET", "?"))
        lines.append("")
    lines.append("end Generated")
    text = "\n".join(lines) + "\n"
    os.makedirs(os.path.dirname(path), exist_ok=True)
    old = open(path).read() if os.path.exists(path) else None
    if old != text:
        with open(path, "w") as f:
            f.write(text)
    return text


if __name__ == "__main__":
    repo = sys.argv[1] if len(sys.argv) > 1 else "/repo"
    sk, do, notes = generate(repo, with_do=True)
    calls, imports = xml_parser_calls(repo)
    here = os.path.dirname(os.path.dirname(os.path.abspath(__file__)))
    write_lean(sk, os.path.join(here, "lean", "Generated", "Skeleton.lean"), do, calls, imports)
    for m, t in sk.items():
        print(m, len(to_lean(t)))
    for n in sorted(set(notes)):
        print("note:", n)
