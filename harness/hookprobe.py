#!/venv/bin/python
"""Storage hook used by the C10 check: records that it ran and whether the storage lock is held exclusively
while it runs (a non-blocking shared flock on the lock file must fail)."""
import fcntl
import os
import sys

folder, user, out = sys.argv[1], sys.argv[2], sys.argv[3]
linger = len(sys.argv) > 4 and sys.argv[4] == "linger"


def probe():
    state = "no-lock-file"
    p = os.path.join(folder, ".Radicale.lock")
    if os.path.exists(p):
        with open(p, "r") as f:
            try:
                fcntl.flock(f.fileno(), fcntl.LOCK_SH | fcntl.LOCK_NB)
                state = "not-exclusive"
                fcntl.flock(f.fileno(), fcntl.LOCK_UN)
            except OSError:
                state = "exclusive"
    return state


with open(out, "a") as g:
    g.write("%s %s\n" % (probe(), user))
if linger:
    # a hook that leaves a background job behind (same process group, as `cmd &` in a shell script does): the server ends the
    # hook's process group before it gives up the lock, so this child must never get to look at the storage again
    if os.fork() == 0:
        import time
        devnull = os.open(os.devnull, os.O_RDWR)
        for fd in (0, 1, 2):
            os.dup2(devnull, fd)
        time.sleep(0.4)
        with open(out, "a") as g:
            g.write("late:%s %s\n" % (probe(), user))
        os._exit(0)
