#!/venv/bin/python
"""Storage hook used by the C10 check: records that it ran and whether the storage lock is held exclusively
while it runs (a non-blocking shared flock on the lock file must fail)."""
import fcntl
import os
import sys

folder, user, out = sys.argv[1], sys.argv[2], sys.argv[3]
state = "no-lock-file"
p = os.path.join(folder, ".Radicale.lock")
if os.path.exists(p):
    with open(p, "r") as f:
        try:
            fcntl.flock(f.fileno(), fcntl.LOCK_SH | fcntl.LOCK_NB)
            state = "not-exclusive"
            fcntl.flock(f.fileno(), fcntl.LOCK_UN)
        except OSError:
            state = "exclusive"
with open(out, "a") as g:
    g.write("%s %s\n" % (state, user))
