"""Shared machinery for the properties decided on the Dav/App model (C01, C03, C08, C15):
object pool, abstract requests, their HTTP form, canonical observations, ETag renaming, store dumps."""
import json
import os
import sys

from common import App, dump_store, parse_multistatus

sys.path.insert(0, os.path.join(os.path.dirname(os.path.abspath(__file__)), "plugins"))
import verif_rights  # noqa: E402

KINDS = ["VEVENT", "VTODO", "VJOURNAL", "VCARD"]


def comp_text(kind, uid, cid, extra=""):
    if kind == "VEVENT":
        return ("BEGIN:VEVENT\r\nUID:%s\r\nDTSTAMP:20240101T000000Z\r\nDTSTART:20240102T100000Z\r\nDTEND:20240102T110000Z\r\n"
                "SUMMARY:c%d caf\u00e9\r\n%sEND:VEVENT\r\n" % (uid, cid, extra))
    if kind == "VTODO":
        return "BEGIN:VTODO\r\nUID:%s\r\nDTSTAMP:20240101T000000Z\r\nSUMMARY:c%d caf\u00e9\r\n%sEND:VTODO\r\n" % (uid, cid, extra)
    if kind == "VJOURNAL":
        return ("BEGIN:VJOURNAL\r\nUID:%s\r\nDTSTAMP:20240101T000000Z\r\nDTSTART;VALUE=DATE:20240102\r\nSUMMARY:c%d caf\u00e9\r\n%sEND:VJOURNAL\r\n"
                % (uid, cid, extra))
    return "BEGIN:VCARD\r\nVERSION:3.0\r\nUID:%s\r\nFN:c%d caf\u00e9\r\nN:c%d;;;;\r\n%sEND:VCARD\r\n" % (uid, cid, cid, extra)


def cal_text(objs):
    return "BEGIN:VCALENDAR\r\nVERSION:2.0\r\nPRODID:-//verif pool//EN\r\n" + "".join(
        comp_text(o["kind"], o["uid"], o["cid"]) for o in objs) + "END:VCALENDAR\r\n"


def cards_text(objs):
    return "".join(comp_text("VCARD", o["uid"], o["cid"]) for o in objs)


def make_pool():
    pool = []
    cid = 1
    for uid in ["u1", "u2", "u3", "u4"]:
        for kind in ["VEVENT", "VTODO", "VJOURNAL"]:
            for _ in range(2 if kind == "VEVENT" else 1):
                pool.append({"uid": uid, "kind": kind, "cid": cid})
                cid += 1
    for uid in ["u1", "u5", "u6"]:
        for _ in range(2):
            pool.append({"uid": uid, "kind": "VCARD", "cid": cid})
            cid += 1
    # UIDs that collide with the file name derived from another UID in a whole-collection upload
    # ("u1" and "u1.ics" both want the name u1.ics; the second one falls back to the hash of its UID)
    for uid, kind in [("u1.ics", "VEVENT"), ("u2.ICS", "VTODO"), ("u5.vcf", "VCARD")]:
        pool.append({"uid": uid, "kind": kind, "cid": cid})
        cid += 1
    return pool


POOL = make_pool()


def _hash_names():
    from radicale import item as radicale_item
    t = {}
    for o in POOL:
        t[radicale_item.get_etag(o["uid"]).strip('"')] = o["uid"]
    return t


_HASH_NAMES = {}


def canon_href(h):
    """file names derived from the hash of a UID -> the model's symbolic name"""
    if not _HASH_NAMES:
        _HASH_NAMES.update(_hash_names())
    for suffix in (".ics", ".vcf"):
        if h.endswith(suffix) and h[:-len(suffix)] in _HASH_NAMES:
            return "#H(%s)%s" % (_HASH_NAMES[h[:-len(suffix)]], suffix)
    return h

PROPFIND_BODY = ('<?xml version="1.0"?><D:propfind xmlns:D="DAV:"><D:prop><D:resourcetype/><D:getetag/><D:displayname/>'
                 '</D:prop></D:propfind>')


def path_str(p, coll):
    return "/" + "/".join(p) + ("/" if coll and p else "") if p else "/"


WIRE_HEADERS = {"if_match": "HTTP_IF_MATCH", "if_none_match": "HTTP_IF_NONE_MATCH", "depth": "HTTP_DEPTH", "overwrite": "HTTP_OVERWRITE"}


def wire_of(r):
    """the conditional headers of request `r` as the client sends them (None = header absent).  `r["wire"]` gives them
    literally; otherwise they follow from the generator's fields.  What they MEAN is decided by the Lean model
    (RadicaleModel/CondHeaders.lean), not here."""
    w = {"if_match": None, "if_none_match": None, "depth": None, "overwrite": None}
    m = r["method"]
    if m in ("PUT", "DELETE") and r.get("if_match_present"):
        w["if_match"] = r["if_match_value"]
    if m == "PUT" and r.get("if_none_match_star"):
        w["if_none_match"] = "*"
    if m == "MOVE":
        w["overwrite"] = "T" if r.get("overwrite") else "F"
    if m == "PROPFIND":
        w["depth"] = "1" if r.get("depth1") else "0"
    w.update(r.get("wire") or {})
    return w


ODD_OVERWRITE = [None, "t", "true", " T", "T ", "", "F", "f", "TT"]          # none of these is the literal "T"
ODD_DEPTH_CHILDREN = ["infinity", "", "00", "1 ", " 0", "2", "Infinity"]      # none of these is the literal "0"
ODD_IF_NONE_MATCH = [" *", "**", '"*"', "* ", '"x"', ""]                      # none of these is the literal "*"


def vary_wire(rng, r, p=0.25):
    """now and then replace a header by an unusual but legal-to-send text (absent, other case, padding, other values)"""
    m = r["method"]
    if m in ("PUT", "DELETE", "GET", "MOVE") and not r.get("as_collection") and rng.random() < p / 2:
        r["trailing_slash"] = True
    if rng.random() >= p:
        return r
    if m == "MOVE":
        r["wire"] = {"overwrite": rng.choice(ODD_OVERWRITE + ["T", "T"])}
    elif m == "PROPFIND":
        r["wire"] = {"depth": rng.choice(ODD_DEPTH_CHILDREN + [None, "0", "1"])}
    elif m == "PUT" and not r.get("if_match_present") and not r.get("if_none_match_star"):
        r["wire"] = {"if_none_match": rng.choice(ODD_IF_NONE_MATCH + ["*"]), "if_match": rng.choice([None, None, ""])}
    elif m == "DELETE" and not r.get("if_match_present"):
        r["wire"] = {"if_match": rng.choice(["", "*", " *", "**"])}
    return r


import collections
WIRE_SEEN = collections.Counter()     # header texts sent, per method (for the evidence)


class EtagMap:
    """real ETag strings <-> model ETag tokens, must stay a bijection"""

    def __init__(self):
        self.r2m = {}
        self.m2r = {}

    def check(self, real, model):
        """returns None if consistent, else a description"""
        mk = json.dumps(model, sort_keys=True)
        if real in self.r2m and self.r2m[real] != mk:
            return "real ETag %s was %s, now %s" % (real, self.r2m[real], mk)
        if mk in self.m2r and self.m2r[mk] != real:
            return "model ETag %s was %s, now %s" % (mk, self.m2r[mk], real)
        self.r2m[real] = mk
        self.m2r[mk] = real
        return None

    def model_of(self, real):
        v = self.r2m.get(real)
        return None if v is None else json.loads(v)


class Sim:
    """one real application + one model store, stepped together"""

    def __init__(self, ctx, conf=None, rights_default="RrWw", rights_table=None, permit_delete=True, permit_overwrite=True):
        self.ctx = ctx
        verif_rights.TABLE.clear()
        verif_rights.DEFAULT[0] = rights_default
        self.rights_default = rights_default
        self.rights_table = rights_table or {}
        for (u, p), perms in self.rights_table.items():
            verif_rights.TABLE[(u, "/".join(p))] = perms
        c = {"auth": {"type": "none"}, "rights": {"type": "verif_rights", "permit_delete_collection": str(permit_delete),
                                                  "permit_overwrite_collection": str(permit_overwrite)}}
        for k, v in (conf or {}).items():
            c.setdefault(k, {}).update(v)
        self.app = App(c)
        self.permit_delete = permit_delete
        self.permit_overwrite = permit_overwrite
        self.etags = EtagMap()
        self.wire_seen = WIRE_SEEN
        self.sid = ctx.driver.ask1({"m": "dav", "op": "new"})["sid"] if ctx.driver else None
        self.model_store = None

    def close(self):
        self.app.close()

    # ---- abstract request -> HTTP ---------------------------------------------------------------------
    def http(self, r):
        m = r["method"]
        env = {}
        body = None
        p = r["path"]
        is_coll = r.get("as_collection", False)
        path = path_str(p, is_coll)
        if m in ("MKCOL", "MKCALENDAR"):
            path = path_str(p, True)
            if r.get("bad_body"):
                body = "<notxml"
            elif m == "MKCOL" and (r.get("tag") or r.get("props")):
                rt = {"VCALENDAR": '<C:calendar xmlns:C="urn:ietf:params:xml:ns:caldav"/>',
                      "VADDRESSBOOK": '<CR:addressbook xmlns:CR="urn:ietf:params:xml:ns:carddav"/>'}.get(r.get("tag"), "")
                props = "".join("<D:displayname>%s</D:displayname>" % v for k, v in r.get("props", []) if k == "D:displayname")
                body = ('<?xml version="1.0"?><D:mkcol xmlns:D="DAV:"><D:set><D:prop><D:resourcetype><D:collection/>%s'
                        '</D:resourcetype>%s</D:prop></D:set></D:mkcol>' % (rt, props))
            elif m == "MKCALENDAR" and r.get("props"):
                props = "".join("<D:displayname>%s</D:displayname>" % v for k, v in r.get("props", []) if k == "D:displayname")
                body = ('<?xml version="1.0"?><C:mkcalendar xmlns:D="DAV:" xmlns:C="urn:ietf:params:xml:ns:caldav"><D:set><D:prop>%s'
                        '</D:prop></D:set></C:mkcalendar>' % props)
        elif m == "PUT":
            if r["body"] == "cal":
                body = cal_text(r["objs"])
                env["CONTENT_TYPE"] = "text/calendar"
            elif r["body"] == "cards":
                body = cards_text(r["objs"])
                env["CONTENT_TYPE"] = "text/vcard"
            else:
                body = "BEGIN:VCALENDAR\r\nBEGIN:VEVENT\r\nthis is not a content line\r\n"
                env["CONTENT_TYPE"] = "text/calendar"
            if r.get("if_match_present"):
                env["HTTP_IF_MATCH"] = r["if_match_value"]
            if r.get("if_none_match_star"):
                env["HTTP_IF_NONE_MATCH"] = "*"
        elif m == "DELETE":
            if r.get("if_match_present"):
                env["HTTP_IF_MATCH"] = r["if_match_value"]
        elif m == "MOVE":
            env["HTTP_DESTINATION"] = "http://127.0.0.1" + path_str(r["dest"], False)
            env["HTTP_OVERWRITE"] = "T" if r.get("overwrite") else "F"
        elif m == "PROPPATCH":
            path = path_str(p, r.get("as_collection", True))
            if r.get("bad_body"):
                body = "<notxml"
            else:
                sets = "".join("<D:displayname>%s</D:displayname>" % v if k == "D:displayname" else
                               '<C:calendar-description xmlns:C="urn:ietf:params:xml:ns:caldav">%s</C:calendar-description>' % v
                               for k, v in r.get("set", []))
                if r.get("sets_type"):
                    sets += '<D:resourcetype><D:collection/><CR:addressbook xmlns:CR="urn:ietf:params:xml:ns:carddav"/></D:resourcetype>'
                rem = "".join("<D:displayname/>" if k == "D:displayname" else
                              '<C:calendar-description xmlns:C="urn:ietf:params:xml:ns:caldav"/>' for k in r.get("remove", []))
                body = '<?xml version="1.0"?><D:propertyupdate xmlns:D="DAV:">'
                if r.get("order"):
                    # instructions in document order, one element each (RFC 4918 9.2: processed in document order);
                    # `set` / `remove` of the request hold the equivalent "last instruction per property wins" form
                    for ins in r["order"]:
                        el = ("<D:displayname%s" if ins[1] == "D:displayname" else
                              '<C:calendar-description xmlns:C="urn:ietf:params:xml:ns:caldav"%s')
                        close = "</D:displayname>" if ins[1] == "D:displayname" else "</C:calendar-description>"
                        if ins[0] == "set":
                            body += "<D:set><D:prop>%s%s</D:prop></D:set>" % (el % (">" + ins[2]), close)
                        else:
                            body += "<D:remove><D:prop>%s</D:prop></D:remove>" % (el % "/>")
                else:
                    if sets:
                        body += "<D:set><D:prop>%s</D:prop></D:set>" % sets
                    if rem:
                        body += "<D:remove><D:prop>%s</D:prop></D:remove>" % rem
                body += "</D:propertyupdate>"
        elif m == "PROPFIND":
            body = PROPFIND_BODY
            env["HTTP_DEPTH"] = "1" if r.get("depth1") else "0"
        elif m == "MULTIGET":
            m = "REPORT"
            path = path_str(p, True)
            body = ('<?xml version="1.0"?><C:calendar-multiget xmlns:D="DAV:" xmlns:C="urn:ietf:params:xml:ns:caldav"><D:prop><D:getetag/></D:prop>%s'
                    '</C:calendar-multiget>' % "".join("<D:href>%s</D:href>" % path_str(h, False) for h in r["hrefs"]))
            if r.get("book"):
                body = body.replace("C:calendar-multiget", "CR:addressbook-multiget").replace(
                    'xmlns:C="urn:ietf:params:xml:ns:caldav"', 'xmlns:CR="urn:ietf:params:xml:ns:carddav"')
        if r.get("trailing_slash") and not path.endswith("/"):
            path += "/"          # an item URL written with a trailing slash names the same resource (discover() strips it)
        for k, v in wire_of(r).items():
            env.pop(WIRE_HEADERS[k], None)
            if v is not None:
                env[WIRE_HEADERS[k]] = v
        return m, path, body, env

    # ---- canonical observation of the real answer ---------------------------------------------------------
    def observe(self, r, st, hd, text):
        obs = {"status": st, "etag": None, "cetag": None, "entries": []}
        if "ETag" in hd and st < 300:
            obs["etag_raw"] = hd["ETag"]
        if st == 207 and r["method"] in ("PROPFIND", "MULTIGET"):
            ms, order, _ = parse_multistatus(text)
            for href in order:
                props = ms[href]
                comps = [canon_href(c) for c in href.split("/") if c]
                if isinstance(props, int):
                    obs["entries"].append({"type": "missing", "path": comps})
                    continue
                rt = props.get("D:resourcetype")
                et = props.get("D:getetag")
                is_coll = rt is not None and rt[0] == 200 and any(ch.tag == "{DAV:}collection" for ch in rt[1])
                if r["method"] == "MULTIGET":
                    if et is not None and et[0] == 200:
                        obs["entries"].append({"type": "item", "path": comps, "etag_raw": et[1].text})
                    else:
                        obs["entries"].append({"type": "missing", "path": comps})
                elif is_coll:
                    tag = ""
                    for ch in rt[1]:
                        if ch.tag.endswith("}calendar"):
                            tag = "VCALENDAR"
                        if ch.tag.endswith("}addressbook"):
                            tag = "VADDRESSBOOK"
                    dn = props.get("D:displayname")
                    obs["entries"].append({"type": "coll", "path": comps, "tag": tag,
                                           "displayname": dn[1].text if dn is not None and dn[0] == 200 else None,
                                           "etag_raw": et[1].text if et is not None and et[0] == 200 else None})
                else:
                    obs["entries"].append({"type": "item", "path": comps, "etag_raw": et[1].text if et is not None and et[0] == 200 else None})
            obs["entries"].sort(key=lambda e: (e["path"], e["type"]))
        return obs

    def real_dump(self):
        d = dump_store(self.app, with_text=False)
        out = []
        for path in sorted(d):
            e = d[path]
            comps = [c for c in path.split("/") if c]
            props = sorted((k, v) for k, v in e["props"].items() if k != "tag")
            out.append({"path": comps, "tag": e["tag"], "props": [list(x) for x in props],
                        "items": sorted([{"href": canon_href(h), "uid": e["items"][h]["uid"], "etag_raw": e["items"][h]["etag"], "name": e["items"][h].get("name")}
                                        for h in e["items"]],
                                         key=lambda i: i["href"])})
        return out

    # ---- one step on both sides --------------------------------------------------------------------------
    def step(self, r, user="u", compare_store=True):
        """returns (real observation, model answer or None, list of disagreement strings)"""
        m, path, body, env = self.http(r)
        login = (user + ":pw") if user else None
        st, hd, text = self.app.request(m, path, body, login=login, **env)
        obs = self.observe(r, st, hd, text)
        diffs = []
        ans = None
        if m == "GET" and st == 200 and ("SUMMARY:c" in text or "FN:c" in text):
            # every pool object carries the text "café": it must come back as it went in, whatever the storage encoding
            import re as _re
            bad = [l for l in _re.findall(r"(?:SUMMARY|FN):c\d+[^\r\n]*", text) if not l.endswith(" caf\u00e9")]
            if bad:
                diffs.append("served content differs from what was stored: %r" % bad[:2])
        if self.sid is not None:
            req = dict(r, m="dav", op="request", sid=self.sid, user=user, rights_default=self.rights_default,
                       rights=[{"user": u, "path": list(p), "perms": perms} for (u, p), perms in self.rights_table.items()],
                       permit_delete=self.permit_delete, permit_overwrite=self.permit_overwrite)
            w = wire_of(r)
            if r["method"] in ("PUT", "DELETE", "MOVE", "PROPFIND"):
                # the meaning of the header texts comes from the Lean model (CondHeaders.digestPut / digestDelete / overwrites /
                # listsChildren); this side only supplies the table ETag text -> content id observed so far
                table = [[k, json.loads(v)] for k, v in self.etags.r2m.items() if isinstance(json.loads(v), int)]
                dg = self.ctx.driver.ask1(dict(w, m="condheaders", cur=None, table=table))
                as_coll_etag = self.etags.model_of(w["if_match"]) if w["if_match"] is not None else None
                if r["method"] == "PUT":
                    req["if_match_present"] = dg["put_digest"]["raw"]
                    req["if_match"] = as_coll_etag if isinstance(as_coll_etag, dict) else dg["put_digest"]["if_match"]
                    req["if_none_match_star"] = dg["put_digest"]["star"]
                elif r["method"] == "DELETE":
                    req["if_match_present"] = dg["delete_digest"]["present"]
                    req["if_match"] = as_coll_etag if isinstance(as_coll_etag, dict) else dg["delete_digest"]["if_match"]
                elif r["method"] == "MOVE":
                    req["overwrite"] = dg["overwrites"]
                elif r["method"] == "PROPFIND":
                    req["depth1"] = dg["lists_children"]
                self.wire_seen[r["method"] + ":" + "/".join("%s=%s" % (k, "current-or-known ETag" if k == "if_match" and v and v.startswith('"') and len(v) > 20 else repr(v))
                                                            for k, v in sorted(w.items()) if v is not None)] += 1
            ans = self.ctx.driver.ask1(req)
            mst = ans["status"]
            # 403 NOT_ALLOWED is rewritten to 401 for anonymous users by the gate
            if mst != st and not (mst == 403 and st == 401 and not user):
                diffs.append("status %s (model %s)" % (st, mst))
            else:
                if "etag_raw" in obs:
                    me = ans["etag"] if ans["etag"] is not None else ans["cetag"]
                    if me is None:
                        diffs.append("ETag header %s but the model has none" % obs["etag_raw"])
                    else:
                        d = self.etags.check(obs["etag_raw"], me)
                        if d:
                            diffs.append("ETag header: " + d)
                if st == 207 and r["method"] in ("PROPFIND", "MULTIGET"):
                    ments = sorted(ans["entries"], key=lambda e: (e["path"], e["type"]))
                    if [(e["type"], e["path"]) for e in ments] != [(e["type"], e["path"]) for e in obs["entries"]]:
                        diffs.append("listing %s (model %s)" % ([(e["type"], "/".join(e["path"])) for e in obs["entries"]],
                                                                 [(e["type"], "/".join(e["path"])) for e in ments]))
                    else:
                        for a, b in zip(obs["entries"], ments):
                            if a["type"] == "coll":
                                if a["tag"] != b["tag"] or a["displayname"] != b["displayname"]:
                                    diffs.append("collection entry %s: tag/displayname %s/%s (model %s/%s)" % (
                                        "/".join(a["path"]), a["tag"], a["displayname"], b["tag"], b["displayname"]))
                            if a.get("etag_raw") is not None:
                                d = self.etags.check(a["etag_raw"], b["etag"])
                                if d:
                                    diffs.append("entry %s: %s" % ("/".join(a["path"]), d))
            if compare_store:
                rd = self.real_dump()
                md = ans["store"]
                self.model_store = md
                rs = [(list(e["path"]), e["tag"], [list(x) for x in e["props"]], [(i["href"], i["uid"]) for i in e["items"]]) for e in rd]
                ms = [(list(e["path"]), e["tag"], [list(x) for x in e["props"]], [(i["href"], i["uid"]) for i in e["items"]]) for e in md]
                rs.sort(key=lambda x: x[0])
                ms.sort(key=lambda x: x[0])
                rd = sorted(rd, key=lambda e: e["path"])
                md = sorted(md, key=lambda e: e["path"])
                if rs != ms:
                    diffs.append("store after the request differs: real %s / model %s" % (
                        [("/".join(x[0]), x[1], x[3]) for x in rs if x not in ms], [("/".join(x[0]), x[1], x[3]) for x in ms if x not in rs]))
                else:
                    for e, f in zip(rd, md):
                        for i, j in zip(e["items"], f["items"]):
                            d = self.etags.check(i["etag_raw"], j["cid"])
                            if d:
                                diffs.append("stored item %s/%s: %s" % ("/".join(e["path"]), i["href"], d))
        return obs, ans, diffs


# ---- request generator ----------------------------------------------------------------------------------

COLLS = [["u"], ["u", "c1"], ["u", "c2"], ["u", "ab"], ["u", "p"], ["u", "p", "c3"], ["u", "new"], ["v"], ["v", "c1"],
         ["u", "c1", "sub"], ["u", "ab", "sub"]]       # (the last two: collections asked for below what usually is a calendar / an address book)
HREFS = ["a.ics", "b.ics", "u1.ics", "u2.ics", "k.vcf", "u5.vcf", "zz"]


def warmup(rng):
    """a few requests that populate the store, so that a history is not mostly 404 / 409 (they go through the same
    model-vs-implementation step as every other request)"""
    cal = lambda uid: rng.choice([o for o in POOL if o["uid"] == uid and o["kind"] != "VCARD"])   # noqa: E731
    reqs = [{"method": "MKCALENDAR", "path": ["u", "c1"], "props": []},
            {"method": "MKCOL", "path": ["u", "ab"], "tag": "VADDRESSBOOK", "props": []},
            {"method": "PUT", "path": ["u", "c1", "a.ics"], "body": "cal", "objs": [cal("u3")]},
            {"method": "PUT", "path": ["u", "c1", "b.ics"], "body": "cal", "objs": [cal("u4")]},
            {"method": "MKCALENDAR", "path": ["u", "c2"], "props": []},
            {"method": "PUT", "path": ["u", "c2", "c.ics"], "body": "cal", "objs": [cal("u3")]},     # the same UID in two calendars
            {"method": "PUT", "path": ["u", "ab", "k.vcf"], "body": "cards", "objs": [rng.choice([o for o in POOL if o["kind"] == "VCARD"])]}]
    if rng.random() < 0.3:
        # a calendar uploaded as a whole, read, and replaced as a whole by objects with the same UIDs (hence the same member names) and
        # other content of the same length - what a client does that always syncs the whole calendar
        ev = [o for o in POOL if o["uid"] in ("u1", "u2") and o["kind"] == "VEVENT"]
        first = [ev[0], ev[2]]
        second = [ev[1], ev[3]]
        return [{"method": "PUT", "path": ["u", "c1"], "as_collection": True, "body": "cal", "objs": first},
                {"method": "GET", "path": ["u", "c1", "u1.ics"], "as_collection": False},
                {"method": "GET", "path": ["u", "c1", "u2.ics"], "as_collection": False},
                {"method": "PUT", "path": ["u", "c1"], "as_collection": True, "body": "cal", "objs": second},
                {"method": "GET", "path": ["u", "c1", "u1.ics"], "as_collection": False},
                {"method": "GET", "path": ["u", "c1"], "as_collection": False}]
    return reqs[:rng.randint(2, len(reqs))]


def gen_request(rng, sim, known_etags):
    return vary_wire(rng, _gen_request(rng, sim, known_etags))


def _gen_request(rng, sim, known_etags):
    k = rng.random()
    coll = rng.choice(COLLS)
    item_path = rng.choice(COLLS[1:6]) + [rng.choice(HREFS)]
    # half of the time requests on items go to a calendar / address book that exists (otherwise most of a history is 409 / 404)
    tagged = [e for e in (getattr(sim, "model_store", None) or []) if e.get("tag")]
    if tagged and rng.random() < 0.5:
        e = rng.choice(tagged)
        names = [i["href"] for i in e["items"] if not i["href"].startswith("#")]
        item_path = list(e["path"]) + [rng.choice(names) if names and rng.random() < 0.5 else rng.choice(HREFS)]
        if rng.random() < 0.3:
            coll = list(e["path"])

    def objs(n, kinds=None, same_uid=False):
        cand = [o for o in POOL if (kinds is None or o["kind"] in kinds)]
        sel = [rng.choice(cand) for _ in range(n)]
        if same_uid and sel:
            sel = [o for o in cand if o["uid"] == sel[0]["uid"] and o["kind"] == sel[0]["kind"]][:n] or sel[:1]
        return sel
    if k < 0.08:
        return {"method": "MKCOL", "path": coll, "tag": rng.choice(["", "", "VADDRESSBOOK", "VCALENDAR"]),
                "props": rng.choice([[], [], [["D:displayname", "name%d" % rng.randint(0, 3)]]]), "bad_body": rng.random() < 0.05}
    if k < 0.16:
        return {"method": "MKCALENDAR", "path": coll, "props": rng.choice([[], [["D:displayname", "cal%d" % rng.randint(0, 3)]]]),
                "bad_body": rng.random() < 0.05}
    if k < 0.46:
        # PUT of an item
        r = {"method": "PUT", "path": item_path}
        q = rng.random()
        if q < 0.6:
            r.update(body="cal", objs=objs(1, ["VEVENT", "VTODO", "VJOURNAL"]))
        elif q < 0.7:
            r.update(body="cal", objs=objs(2, ["VEVENT", "VTODO", "VJOURNAL"]))       # usually different UIDs / kinds
        elif q < 0.85:
            r.update(body="cards", objs=objs(1, ["VCARD"]))
        elif q < 0.9:
            r.update(body="cards", objs=objs(2, ["VCARD"]))
        else:
            r.update(body="bad", objs=[])
        h = rng.random()
        if h < 0.25 and known_etags:
            r.update(if_match_present=True, if_match_value=rng.choice(known_etags))
        elif h < 0.32:
            r.update(if_match_present=True, if_match_value=rng.choice(['"deadbeef"', "*", "W/\"x\"", "garbage"]))
        elif h < 0.42:
            r["if_none_match_star"] = True
        return r
    if k < 0.54:
        # whole-collection PUT
        r = {"method": "PUT", "path": coll, "as_collection": True}
        q = rng.random()
        if q < 0.1:
            # two UIDs that want the same file name (X and X.ics / X.vcf): both objects must be stored
            if rng.random() < 0.6:
                base, ext = rng.choice([("u1", "u1.ics"), ("u2", "u2.ICS")])
                sel = [rng.choice([o for o in POOL if o["uid"] == base and o["kind"] != "VCARD"]),
                       rng.choice([o for o in POOL if o["uid"] == ext])]
                if rng.random() < 0.5:
                    sel.append(rng.choice([o for o in POOL if o["uid"] in ("u3", "u4") and o["kind"] != "VCARD"]))
                rng.shuffle(sel)
                r.update(body="cal", objs=sel)
            else:
                sel = [rng.choice([o for o in POOL if o["uid"] == "u5" and o["kind"] == "VCARD"]),
                       rng.choice([o for o in POOL if o["uid"] == "u5.vcf"])]
                rng.shuffle(sel)
                r.update(body="cards", objs=sel)
        elif q < 0.22:
            # components sharing a UID that are not adjacent in the upload (A, B, A'): the grouping by UID must
            # not depend on their order; also one UID with two component types (VEVENT X, VEVENT Y, VTODO X)
            ua, ub = rng.sample(["u1", "u2", "u3", "u4"], 2)
            a = [o for o in POOL if o["uid"] == ua and o["kind"] != "VCARD"]
            b = [o for o in POOL if o["uid"] == ub and o["kind"] != "VCARD"]
            first = rng.choice(a)
            second = rng.choice([o for o in a if o is not first and (o["kind"] == first["kind"] or rng.random() < 0.5)] or a)
            r.update(body="cal", objs=[first] + [rng.choice(b) for _ in range(rng.randint(1, 2))] + [second])
        elif q < 0.7:
            sel = objs(rng.randint(0, 3), ["VEVENT", "VTODO", "VJOURNAL"])
            r.update(body="cal", objs=sel)
        else:
            # (two contacts with one UID in an upload are refused since the repair of F13: both sides must say 400)
            sel = objs(rng.randint(1, 3), ["VCARD"], same_uid=rng.random() < 0.25)
            r.update(body="cards", objs=sel)
        if rng.random() < 0.1:
            r["if_none_match_star"] = True
        return r
    if k < 0.64:
        r = {"method": "DELETE", "path": item_path if rng.random() < 0.7 else coll, "as_collection": False}
        if r["path"] == coll:
            r["as_collection"] = True
        h = rng.random()
        if h < 0.25 and known_etags and not r["as_collection"]:
            r.update(if_match_present=True, if_match_value=rng.choice(known_etags))
        elif h < 0.32:
            r.update(if_match_present=True, if_match_value='"deadbeef"')
        return r
    if k < 0.74:
        store = [e for e in (getattr(sim, "model_store", None) or []) if any(not i["href"].startswith("#") for i in e["items"])]
        dup = [(a, i, b) for a in store for i in a["items"] if not i["href"].startswith("#")
               for b in store if b is not a and b.get("tag") == a.get("tag") and any(j["uid"] == i["uid"] for j in b["items"])]
        if dup and rng.random() < 0.35:
            # the object's UID already lives in the destination collection under another name: a free destination name, Overwrite T or F
            a, i, b = rng.choice(dup)
            return {"method": "MOVE", "path": list(a["path"]) + [i["href"]], "dest": list(b["path"]) + [rng.choice(["zz", "free.ics", "k2.vcf"])],
                    "overwrite": rng.random() < 0.6}
        if store and rng.random() < 0.5:
            # MOVE of an item that exists, onto a name that exists (same or other UID) or is free, in the same or another collection
            src_c = rng.choice(store)
            src_i = rng.choice([i for i in src_c["items"] if not i["href"].startswith("#")])
            dst_c = src_c if rng.random() < 0.5 else rng.choice(store + [{"path": rng.choice(COLLS[1:6]), "items": []}])
            others = [i["href"] for i in dst_c["items"] if not i["href"].startswith("#") and (dst_c is not src_c or i["href"] != src_i["href"])]
            href = rng.choice(others) if others and rng.random() < 0.65 else rng.choice(HREFS)
            if rng.random() < 0.25:
                # onto itself: nothing is to happen, with or without Overwrite
                return {"method": "MOVE", "path": list(src_c["path"]) + [src_i["href"]], "dest": list(src_c["path"]) + [src_i["href"]],
                        "overwrite": rng.random() < 0.8}
            return {"method": "MOVE", "path": list(src_c["path"]) + [src_i["href"]], "dest": list(dst_c["path"]) + [href],
                    "overwrite": rng.random() < 0.65}
        dst = rng.choice(COLLS[1:6]) + [rng.choice(HREFS)] if rng.random() < 0.9 else rng.choice(COLLS)
        return {"method": "MOVE", "path": item_path if rng.random() < 0.9 else coll, "dest": dst, "overwrite": rng.random() < 0.5}
    if 0.74 <= k < 0.80 and tagged and rng.random() < 0.7:
        coll = list(rng.choice(tagged)["path"])         # PROPPATCH mostly on a collection that exists
    if k < 0.80 and rng.random() < 0.5:
        # several instructions on the same properties in one body, in any order: the last one per property decides
        order = []
        for _ in range(rng.randint(2, 4)):
            key = rng.choice(["D:displayname", "D:displayname", "C:calendar-description"])
            order.append(["set", key, "v%d" % rng.randint(0, 3)] if rng.random() < 0.55 else ["remove", key])
        last = {}
        for ins in order:
            last[ins[1]] = ins
        return {"method": "PROPPATCH", "path": coll if rng.random() < 0.9 else item_path, "as_collection": True, "order": order,
                "set": [[k2, i[2]] for k2, i in sorted(last.items()) if i[0] == "set"],
                "remove": [k2 for k2, i in sorted(last.items()) if i[0] == "remove"], "sets_type": False, "bad_body": False}
    if k < 0.80:
        return {"method": "PROPPATCH", "path": coll if rng.random() < 0.85 else item_path, "as_collection": True,
                "set": rng.choice([[], [["D:displayname", "n%d" % rng.randint(0, 3)]], [["C:calendar-description", "d"]]]),
                "remove": rng.choice([[], [], ["D:displayname"]]), "sets_type": rng.random() < 0.08, "bad_body": rng.random() < 0.05}
    if k < 0.86:
        return {"method": "GET", "path": item_path if rng.random() < 0.7 else coll, "as_collection": False}
    if k < 0.95:
        return {"method": "PROPFIND", "path": coll if rng.random() < 0.8 else item_path, "as_collection": True, "depth1": rng.random() < 0.6}
    c = rng.choice(COLLS[1:6])
    return {"method": "MULTIGET", "path": c, "hrefs": [rng.choice([c, rng.choice(COLLS[1:6])]) + [rng.choice(HREFS)] for _ in range(rng.randint(1, 3))],
            "book": c[-1] == "ab"}
