"""Python side of interpose/interpose.c (the process must run with LD_PRELOAD=interpose/interpose.so)."""
import ctypes
import os
import subprocess
import sys

VERIF = os.path.dirname(os.path.dirname(os.path.abspath(__file__)))
SO = os.path.join(VERIF, "interpose", "interpose.so")
SRC = os.path.join(VERIF, "interpose", "interpose.c")

MUTATING = {"openw", "mkdir", "rmdir", "unlink", "rename", "exchange", "fsync", "write", "utime"}


def ensure_built():
    if not os.path.exists(SO) or os.path.getmtime(SO) < os.path.getmtime(SRC):
        subprocess.check_call(["gcc", "-O2", "-shared", "-fPIC", "-o", SO, SRC, "-ldl", "-lpthread"])


def active():
    return SO in os.environ.get("LD_PRELOAD", "")


def reexec_with_preload():
    """Re-executes the current script under the interposer (once)."""
    if active():
        return
    ensure_built()
    env = dict(os.environ)
    env["LD_PRELOAD"] = SO
    os.execve(sys.executable, [sys.executable] + sys.argv, env)


def clean_env():
    env = dict(os.environ)
    env.pop("LD_PRELOAD", None)
    env.pop("RVERIF_LOG", None)
    return env


_lib = None


def lib():
    global _lib
    if _lib is None:
        _lib = ctypes.CDLL(None)
        _lib.rverif_start.argtypes = [ctypes.c_char_p]
        _lib.rverif_inject.argtypes = [ctypes.c_int, ctypes.c_long, ctypes.c_int]
        _lib.rverif_mutcount.restype = ctypes.c_long
        _lib.rverif_mark.argtypes = [ctypes.c_char_p]
        _lib.rverif_delay.argtypes = [ctypes.c_int, ctypes.c_uint]
    return _lib


def start(path):
    lib().rverif_start(path.encode())


def stop():
    lib().rverif_stop()


def inject(mode, n, err=0):
    lib().rverif_inject(mode, n, err)


def mutcount():
    return lib().rverif_mutcount()


def mark(text):
    lib().rverif_mark(text.encode())


def delay(max_us, seed):
    lib().rverif_delay(max_us, seed)


def parse_log(path):
    out = []
    try:
        data = open(path, "rb").read().decode("utf-8", "surrogateescape")
    except OSError:
        return out
    for line in data.split("\n"):
        if not line:
            continue
        f = line.split("\t")
        if len(f) < 5:
            continue
        out.append({"tid": f[0], "op": f[1], "path": f[2], "path2": f[3], "detail": f[4]})
    return out
