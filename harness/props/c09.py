"""C09 — concurrent requests behave as if executed one at a time.

Theorems: lean/Props/C09.lean (windows under the readers-writer lock are linearizable in acquisition order for any
number of threads and any interleaving of micro-operations; readers see one state; real-time order; F6 witness).
Tie: real concurrency, two ways - threads against one in-process Application, and several server processes sharing
one storage folder (multifilesystem) - with 2..8 clients issuing mixed reads and writes on overlapping names and
scheduling perturbed by random delays at file-system calls (interposer).  The recorded invocation / response
intervals are checked for linearizability against the sequential Dav model (compiled driver, forked states):
some one-at-a-time order that respects real time must reproduce every status, every body / listing and the final
store.  When none exists the same requests are replayed sequentially to separate a concurrency violation from a
sequential model mismatch.  The first-login race (finding F6) is replayed deterministically as a witness.
"""
import interposer
interposer.reexec_with_preload()

import http.client  # noqa: E402
import json  # noqa: E402
import logging  # noqa: E402
import traceback  # noqa: E402
import os  # noqa: E402
import re  # noqa: E402
import socket  # noqa: E402
import subprocess  # noqa: E402
import sys  # noqa: E402
import tempfile  # noqa: E402
import threading  # noqa: E402
import time  # noqa: E402

import davsim  # noqa: E402
from common import App, parse_multistatus, permissive_rights  # noqa: E402

PROP_FILES = ["Props/C09.lean"]
LEVEL = "proof"

CALS = [["u", "c1"], ["u", "c2"]]
HREFS = ["a.ics", "b.ics"]
POOL = [o for o in davsim.POOL if o["kind"] in ("VEVENT", "VTODO") and o["uid"] in ("u1", "u2", "u3")]


def gen_op(rng):
    cal = rng.choice(CALS)
    item = cal + [rng.choice(HREFS)]
    k = rng.random()
    if k < 0.3:
        return {"method": "PUT", "path": item, "body": "cal", "objs": [rng.choice(POOL)]}
    if k < 0.45:
        return {"method": "GET", "path": item, "as_collection": False}
    if k < 0.55:
        return {"method": "DELETE", "path": item, "as_collection": False}
    if k < 0.67:
        return {"method": "MOVE", "path": item, "dest": rng.choice(CALS) + [rng.choice(HREFS)], "overwrite": rng.random() < 0.6}
    if k < 0.8:
        return {"method": "PROPFIND", "path": cal, "as_collection": True, "depth1": True}
    if k < 0.88:
        return {"method": "MULTIGET", "path": cal, "hrefs": [cal + [h] for h in HREFS], "book": False}
    if k < 0.95:
        objs = []
        seen = set()
        for o in [rng.choice(POOL) for _ in range(rng.randint(0, 2))]:
            if o["uid"] not in seen:
                seen.add(o["uid"])
                objs.append(o)
        return {"method": "PUT", "path": cal, "as_collection": True, "body": "cal", "objs": objs}
    return {"method": "DELETE", "path": cal, "as_collection": True}


class InProcess:
    def __init__(self, conf):
        self.app = App(conf)
        self.folder = self.app.folder

    def send(self, client, m, path, body, env):
        return self.app.request(m, path, body, login="u:pw", **env)

    def close(self):
        self.app.close()


class MultiProcess:
    """several `python -m radicale` processes on one storage folder"""

    def __init__(self, conf, nproc, delay_us, separate_cache=False):
        """separate_cache: every instance has its own node-local cache folder (the multi-instance set-up of the documentation:
        one shared `filesystem_folder`, `filesystem_cache_folder` per node, caches in sub-folders)"""
        self.folder = tempfile.mkdtemp(prefix="rverif-mp-")
        self.rights = permissive_rights()["file"]
        self.procs = []
        self.ports = []
        env = dict(os.environ)
        env["RVERIF_LOG"] = os.path.join(self.folder, "syscalls.log")
        env["RVERIF_DELAY_US"] = str(delay_us)
        for i in range(nproc):
            s = socket.socket()
            s.bind(("127.0.0.1", 0))
            port = s.getsockname()[1]
            s.close()
            cfg = os.path.join(self.folder, "config%d.ini" % i)
            with open(cfg, "w") as f:
                f.write("[server]\nhosts = 127.0.0.1:%d\n[auth]\ntype = none\n[rights]\ntype = from_file\nfile = %s\n"
                        "[storage]\nfilesystem_folder = %s\n%s[logging]\nlevel = error\n" % (
                            port, self.rights, os.path.join(self.folder, "data"),
                            ("filesystem_cache_folder = %s\nuse_cache_subfolder_for_item = True\nuse_cache_subfolder_for_history = True\n"
                             "use_cache_subfolder_for_synctoken = True\n" % os.path.join(self.folder, "cache%d" % i)) if separate_cache else ""))
            if separate_cache:
                os.makedirs(os.path.join(self.folder, "cache%d" % i), exist_ok=True)
            self.procs.append(subprocess.Popen([sys.executable, "-m", "radicale", "--config", cfg], env=env,
                                               stdout=subprocess.DEVNULL, stderr=subprocess.DEVNULL))
            self.ports.append(port)
        for port in self.ports:
            for _ in range(200):
                try:
                    c = socket.create_connection(("127.0.0.1", port), timeout=0.2)
                    c.close()
                    break
                except OSError:
                    time.sleep(0.05)

    def send(self, client, m, path, body, env):
        port = self.ports[client % len(self.ports)]
        c = http.client.HTTPConnection("127.0.0.1", port, timeout=60)
        headers = {"Authorization": "Basic dTpwdw=="}
        for k, v in env.items():
            if k == "HTTP_DESTINATION":
                v = v.replace("http://127.0.0.1/", "http://127.0.0.1:%d/" % port)
            if k.startswith("HTTP_"):
                headers[k[5:].replace("_", "-").title()] = v
            elif k == "CONTENT_TYPE":
                headers["Content-Type"] = v
        b = body.encode("utf-8") if isinstance(body, str) else body
        c.request(m, path, body=b, headers=headers)
        r = c.getresponse()
        text = r.read().decode("utf-8", "replace")
        hd = {k: v for k, v in r.getheaders()}
        c.close()
        return r.status, hd, text

    def close(self):
        for p in self.procs:
            p.terminate()
        for p in self.procs:
            try:
                p.wait(timeout=10)
            except Exception:
                p.kill()
        import shutil
        shutil.rmtree(self.folder, ignore_errors=True)


def cid_of_body(text):
    m = re.search(r"SUMMARY:c(\d+)", text or "")
    if not m:
        return None
    cid = int(m.group(1))
    if "PRODID:-//verif pool//EN" not in text:
        cid += 1000000                      # split out of a whole-collection upload (re-serialised by the server)
    return cid


def observe(r, st, hd, text, etag_cid):
    o = {"status": st}
    if r["method"] == "GET" and st == 200 and not r.get("as_collection"):
        o["cid"] = cid_of_body(text)
        if hd.get("ETag") and o["cid"] is not None:
            etag_cid[hd["ETag"]] = o["cid"]
    if r["method"] == "PUT" and st in (201, 204) and not r.get("as_collection") and hd.get("ETag") and len(r["objs"]) == 1:
        etag_cid[hd["ETag"]] = r["objs"][0]["cid"]
    if st == 207 and r["method"] in ("PROPFIND", "MULTIGET"):
        ms, order, _ = parse_multistatus(text)
        rows = []
        for href in order:
            comps = [davsim.canon_href(c) for c in href.split("/") if c]
            props = ms[href]
            if isinstance(props, int):
                rows.append([comps, "missing", None])
                continue
            et = props.get("D:getetag")
            rt = props.get("D:resourcetype")
            is_coll = rt is not None and rt[0] == 200 and any(ch.tag == "{DAV:}collection" for ch in rt[1])
            if r["method"] == "MULTIGET":
                rows.append([comps, "item" if et is not None and et[0] == 200 else "missing", et[1].text if et is not None and et[0] == 200 else None])
            else:
                dn = props.get("D:displayname")
                rows.append([comps, "coll" if is_coll else "item", et[1].text if (et is not None and et[0] == 200 and not is_coll) else None,
                             (dn[1].text if dn is not None and dn[0] == 200 else None) if is_coll else None])
        o["rows"] = sorted(rows, key=lambda x: (x[0], x[1]))
    return o


def model_matches(r, obs, ans, etag_cid):
    if ans["status"] != obs["status"]:
        return False
    if "cid" in obs and obs["cid"] is not None and ans["etag"] is not None and ans["etag"] != obs["cid"]:
        return False
    if "rows" in obs:
        ments = sorted([[e["path"], e["type"], e.get("etag")] for e in ans["entries"]], key=lambda x: (x[0], x[1]))
        if [(x[0], x[1]) for x in ments] != [(x[0], x[1]) for x in obs["rows"]]:
            return False
        dns = {tuple(e["path"]): e.get("displayname") for e in ans["entries"] if e["type"] == "coll"}
        for a, b in zip(obs["rows"], ments):
            if a[1] == "item" and a[2] is not None and a[2] in etag_cid and isinstance(b[2], int) and etag_cid[a[2]] != b[2]:
                return False
            if a[1] == "coll" and len(a) > 3 and tuple(a[0]) in dns and (a[3] or None) != (dns[tuple(a[0])] or None):
                return False                  # the collection's display name is part of what a listing shows
    return True


class Linearizer:
    def __init__(self, ctx, hist, final_items, etag_cid, base_sid):
        self.ctx = ctx
        self.hist = hist
        self.final = final_items
        self.etag_cid = etag_cid
        self.base = base_sid
        self.seen = set()
        self.steps = 0

    def model_req(self, sid, r):
        req = dict(r, m="dav", op="request", sid=sid, user="u", rights_default="RrWw", rights=[], permit_delete=True, permit_overwrite=True)
        return self.ctx.driver.ask1(req)

    def final_ok(self, store):
        items = {}
        for e in store:
            for i in e["items"]:
                items["/".join(e["path"] + [i["href"]])] = i["cid"]
        colls = sorted("/".join(e["path"]) for e in store)
        return items == self.final["items"] and colls == self.final["colls"]

    def search(self, sid, store_key, done):
        self.steps += 1
        if self.steps > 20000:
            return None
        if len(done) == len(self.hist):
            return [] if self.final_ok(json.loads(store_key)) else None
        key = (frozenset(done), store_key)
        if key in self.seen:
            return None
        self.seen.add(key)
        pending = [i for i in range(len(self.hist)) if i not in done]
        first_resp = min(self.hist[i]["t1"] for i in pending)
        for i in pending:
            h = self.hist[i]
            if h["t0"] > first_resp:
                continue                       # some pending operation finished before this one started
            nsid = self.ctx.driver.ask1({"m": "dav", "op": "fork", "sid": sid})["sid"]
            ans = self.model_req(nsid, h["r"])
            if not model_matches(h["r"], h["obs"], ans, self.etag_cid):
                continue
            rest = self.search(nsid, json.dumps(ans["store"], sort_keys=True), done | {i})
            if rest is not None:
                return [i] + rest
        return None


SETUP = [{"method": "MKCALENDAR", "path": ["u", "c1"], "props": [], "bad_body": False},
         {"method": "MKCALENDAR", "path": ["u", "c2"], "props": [], "bad_body": False},
         {"method": "PUT", "path": ["u", "c1", "a.ics"], "body": "cal", "objs": [POOL[0]]},
         {"method": "PUT", "path": ["u", "c2", "b.ics"], "body": "cal", "objs": [POOL[2]]}]


def final_state(transport, sim, etag_cid):
    """hrefs and content ids of everything stored, read back one request at a time"""
    items = {}
    colls = [""]
    st, hd, text = transport.send(0, "PROPFIND", "/u/", davsim.PROPFIND_BODY, {"HTTP_DEPTH": "1"})
    found = []
    if st == 207:
        ms, order, _ = parse_multistatus(text)
        colls.append("u")
        for href in order:
            comps = [c for c in href.split("/") if c]
            if len(comps) == 2:
                found.append(comps)
    for comps in found:
        colls.append("/".join(comps))
        st, hd, text = transport.send(0, "PROPFIND", "/" + "/".join(comps) + "/", davsim.PROPFIND_BODY, {"HTTP_DEPTH": "1"})
        if st != 207:
            continue
        ms, order, _ = parse_multistatus(text)
        for href in order:
            c2 = [c for c in href.split("/") if c]
            if len(c2) == 3:
                s2, h2, t2 = transport.send(0, "GET", "/" + "/".join(c2), None, {})
                items["/".join(c2[:2] + [davsim.canon_href(c2[2])])] = cid_of_body(t2)
    return {"items": items, "colls": sorted(colls)}


def run_history(ctx, rng, hid, transport_kind, nclients, nops, delay_us):
    conf = {"auth": {"type": "none"}, "rights": permissive_rights()}
    sim = davsim.Sim.__new__(davsim.Sim)          # only the request translation is used
    transport = InProcess(conf) if transport_kind == "threads" else MultiProcess(conf, rng.choice([2, 3]), delay_us, separate_cache=rng.random() < 0.4)
    etag_cid = {}
    try:
        # sequential prefix, mirrored in the model
        base = ctx.driver.ask1({"m": "dav", "op": "new"})["sid"]
        lin0 = Linearizer(ctx, [], None, etag_cid, base)
        store = None
        for r in SETUP:
            m, path, body, env = davsim.Sim.http(sim, r)
            st, hd, text = transport.send(0, m, path, body, env)
            observe(r, st, hd, text, etag_cid)
            ans = lin0.model_req(base, r)
            store = ans["store"]
            if ans["status"] != st:
                ctx.disagree("sequential set-up request vs model", {"request": r}, st, ans["status"])
                return
        if rng.random() < 0.4:
            # readers listing a calendar while writers replace / refill it: a listing must show one state
            cal = rng.choice(CALS)
            nops = max(nops, 4)
            delay_us = max(delay_us, 2000)
            plans = []
            for ci in range(nclients):
                if ci % 3 == 0:
                    ops = []
                    for _ in range(nops):
                        q = rng.random()
                        if q < 0.6:
                            objs, seen = [], set()
                            for o in [rng.choice(POOL) for _ in range(rng.randint(1, 3))]:
                                if o["uid"] not in seen:
                                    seen.add(o["uid"])
                                    objs.append(o)
                            ops.append({"method": "PUT", "path": cal, "as_collection": True, "body": "cal", "objs": objs})
                        elif q < 0.8:
                            ops.append({"method": "PUT", "path": cal + [rng.choice(HREFS)], "body": "cal", "objs": [rng.choice(POOL)]})
                        else:
                            ops.append({"method": "DELETE", "path": cal + [rng.choice(HREFS)], "as_collection": False})
                    plans.append(ops)
                else:
                    plans.append([rng.choice([{"method": "PROPFIND", "path": cal, "as_collection": True, "depth1": True},
                                              {"method": "MULTIGET", "path": cal, "hrefs": [cal + [h] for h in HREFS + ["u1.ics", "u2.ics", "u3.ics"]],
                                               "book": False}]) for _ in range(nops + 1)])
        else:
            plans = [[gen_op(rng) for _ in range(nops)] for _ in range(nclients)]
        hist = []
        lock = threading.Lock()
        errors = []
        barrier = threading.Barrier(nclients)

        def client(ci):
            try:
                barrier.wait(timeout=30)
                for r in plans[ci]:
                    m, path, body, env = davsim.Sim.http(sim, r)
                    t0 = time.monotonic()
                    st, hd, text = transport.send(ci, m, path, body, env)
                    t1 = time.monotonic()
                    with lock:
                        hist.append({"client": ci, "r": r, "t0": t0, "t1": t1, "raw": (st, hd, text)})
            except Exception as e:       # pragma: no cover
                errors.append(repr(e))
        logpath = None
        if transport_kind == "threads" and delay_us > 0:
            # delays are injected only while the interposer is logging
            logpath = os.path.join(tempfile.gettempdir(), "rverif-c09-%d.log" % os.getpid())
            interposer.start(logpath)
            interposer.delay(delay_us, rng.randint(1, 10**6))
        ths = [threading.Thread(target=client, args=(i,), daemon=True) for i in range(nclients)]
        for t in ths:
            t.start()
        for t in ths:
            t.join(timeout=120)
        if logpath:
            interposer.delay(0, 1)
            interposer.stop()
            os.unlink(logpath)
        if errors or any(t.is_alive() for t in ths):
            raise RuntimeError("client failure: %s" % errors[:2])
        for h in hist:
            st, hd, text = h.pop("raw")
            h["obs"] = observe(h["r"], st, hd, text, etag_cid)
            if st >= 500:
                ctx.violation("a request was answered %d under concurrency" % st, {"request": h["r"], "transport": transport_kind})
        fin = final_state(transport, sim, etag_cid)
        overlap = sum(1 for a in hist for b in hist if a is not b and a["t0"] < b["t1"] and b["t0"] < a["t1"]) // 2
        case = {"transport": transport_kind, "clients": nclients, "ops": len(hist), "overlapping_pairs": overlap}
        ctx.case("%s:c%d" % (transport_kind, nclients), sample=case, key=[hid], nontrivial=overlap > 0)
        lin = Linearizer(ctx, hist, fin, etag_cid, base)
        order = lin.search(base, json.dumps(store, sort_keys=True), frozenset())
        if order is None and lin.steps > 20000:
            ctx.extra["search_gave_up"] = ctx.extra.get("search_gave_up", 0) + 1
            return
        if order is None:
            # is it concurrency, or does the model not even explain these requests one at a time?
            replay = {"transport": transport_kind, "history": [{"client": h["client"], "request": h["r"], "t0": round(h["t0"], 4),
                                                                  "t1": round(h["t1"], 4), "observed": h["obs"]} for h in sorted(hist, key=lambda x: x["t0"])],
                      "final": fin}
            seq_ok = sequential_explained(ctx, sorted(hist, key=lambda x: x["t1"]))
            if seq_ok:
                ctx.violation("no one-at-a-time order (respecting real time) explains the responses and the final state of this concurrent history",
                              replay)
            else:
                ctx.disagree("the sequential model does not explain these requests even one at a time", replay, "observed", "model")
    finally:
        transport.close()


def sequential_explained(ctx, ops, setup=None):
    """run the same requests one at a time on a fresh application and on the model: do they agree?"""
    sim = davsim.Sim(ctx, {"auth": {"type": "none"}})
    try:
        for r in (setup or SETUP) + [h["r"] for h in ops]:
            obs, ans, diffs = sim.step(r, "u")
            if diffs:
                return False
        return True
    finally:
        sim.close()


def run_targeted(ctx, rng, hid):
    """a reader is paused in the middle of walking a collection (at its k-th item read) while a writer request is
    started; with a correct lock the writer waits for the reader, otherwise it slips in and the reader's answer mixes
    two states.  The two-request history goes through the same linearizability search."""
    import radicale.storage.multifilesystem.get as mget
    conf = {"auth": {"type": "none"}, "rights": permissive_rights()}
    sim = davsim.Sim.__new__(davsim.Sim)
    transport = InProcess(conf)
    etag_cid = {}
    orig_get = mget.CollectionPartGet._get
    try:
        base = ctx.driver.ask1({"m": "dav", "op": "new"})["sid"]
        lin0 = Linearizer(ctx, [], None, etag_cid, base)
        cal = ["u", "c1"]
        setup = [SETUP[0], SETUP[1]] + [{"method": "PUT", "path": cal + [h], "body": "cal", "objs": [o]}
                                        for h, o in zip(["a.ics", "b.ics", "k.vcf"], [POOL[0], POOL[2], POOL[4]])]
        store = None
        for r in setup:
            m, path, body, env = davsim.Sim.http(sim, r)
            st, hd, text = transport.send(0, m, path, body, env)
            observe(r, st, hd, text, etag_cid)
            store = lin0.model_req(base, r)["store"]
        reader = rng.choice([{"method": "PROPFIND", "path": cal, "as_collection": True, "depth1": True},
                             {"method": "MULTIGET", "path": cal, "hrefs": [cal + [h] for h in ["a.ics", "b.ics", "k.vcf", "u1.ics", "u3.ics"]], "book": False}])
        objs, seen = [], set()
        for o in [rng.choice(POOL) for _ in range(rng.randint(1, 3))]:
            if o["uid"] not in seen:
                seen.add(o["uid"])
                objs.append(o)
        writer = rng.choice([{"method": "PUT", "path": cal, "as_collection": True, "body": "cal", "objs": objs},
                             {"method": "DELETE", "path": cal + [rng.choice(["a.ics", "b.ics"])], "as_collection": False},
                             {"method": "MOVE", "path": cal + ["a.ics"], "dest": cal + ["z.ics"], "overwrite": True}])
        pause_at = rng.randint(1, 3)
        hist = []
        state = {"n": 0, "writer": None, "reader_tid": None}

        def do(ci, r):
            m, path, body, env = davsim.Sim.http(sim, r)
            t0 = time.monotonic()
            st, hd, text = transport.send(ci, m, path, body, env)
            t1 = time.monotonic()
            hist.append({"client": ci, "r": r, "t0": t0, "t1": t1, "raw": (st, hd, text)})

        def paused_get(self, href, verify_href=True):
            if threading.get_ident() == state["reader_tid"]:
                state["n"] += 1
                if state["n"] == pause_at and state["writer"] is None:
                    state["writer"] = threading.Thread(target=do, args=(1, writer), daemon=True)
                    state["writer"].start()
                    state["writer"].join(timeout=0.3)       # a correct lock keeps the writer waiting: go on
            return orig_get(self, href, verify_href)
        mget.CollectionPartGet._get = paused_get
        state["reader_tid"] = threading.get_ident()
        do(0, reader)
        if state["writer"] is not None:
            state["writer"].join(timeout=30)
        mget.CollectionPartGet._get = orig_get
        for h in hist:
            st, hd, text = h.pop("raw")
            h["obs"] = observe(h["r"], st, hd, text, etag_cid)
            if st >= 500:
                ctx.violation("a request was answered %d when a writer was started in the middle of a listing" % st,
                              {"reader": reader, "writer": writer, "pause_at_item": pause_at})
        fin = final_state(transport, sim, etag_cid)
        case = {"reader": reader["method"], "writer": writer["method"], "pause_at_item": pause_at, "writer_started": state["writer"] is not None}
        ctx.case("targeted:%s/%s" % (reader["method"], writer["method"]), sample=case, key=[hid], nontrivial=state["writer"] is not None)
        lin = Linearizer(ctx, hist, fin, etag_cid, base)
        order = lin.search(base, json.dumps(store, sort_keys=True), frozenset())
        if order is None:
            replay = {"schedule": "reader paused at its item read #%d while the writer request is issued" % pause_at,
                      "history": [{"client": h["client"], "request": h["r"], "observed": h["obs"]} for h in hist], "final": fin}
            if sequential_explained(ctx, sorted(hist, key=lambda x: x["t1"]), setup):
                ctx.violation("a listing interrupted by a write shows a state no one-at-a-time order produces", replay)
            else:
                ctx.disagree("the sequential model does not explain these requests even one at a time", replay, "observed", "model")
    finally:
        mget.CollectionPartGet._get = orig_get
        transport.close()


def run_between_windows(ctx, rng, hid):
    """check-then-act: request A is held right before its n-th acquisition of the storage lock (n = 2, 3: after the gate's
    window, after a first handler window) while request B on the same name runs to completion; then A goes on.  Every
    request is allowed to take several lock windows — but the two answers and the final state must still be those of
    one of the two serial orders.  Conditional writes are where a split between check and act shows."""
    conf = {"auth": {"type": "none"}, "rights": permissive_rights()}
    sim = davsim.Sim.__new__(davsim.Sim)
    transport = InProcess(conf)
    etag_cid = {}
    storage = transport.app.storage
    orig_acquire = storage.acquire_lock
    try:
        base = ctx.driver.ask1({"m": "dav", "op": "new"})["sid"]
        lin0 = Linearizer(ctx, [], None, etag_cid, base)
        cal = ["u", "c1"]
        setup = [SETUP[0], {"method": "PUT", "path": cal + ["a.ics"], "body": "cal", "objs": [POOL[0]]},
                 {"method": "PUT", "path": cal + ["b.ics"], "body": "cal", "objs": [POOL[2]]}]
        store = None
        etag_a = None
        for r in setup:
            m, path, body, env = davsim.Sim.http(sim, r)
            st, hd, text = transport.send(0, m, path, body, env)
            observe(r, st, hd, text, etag_cid)
            if r["path"][-1] == "a.ics":
                etag_a = hd.get("ETag")
            store = lin0.model_req(base, r)["store"]
        same_uid = [o for o in POOL if o["uid"] == POOL[0]["uid"] and o["kind"] == POOL[0]["kind"] and o["cid"] != POOL[0]["cid"]] or [POOL[0]]
        cond = {"if_match_present": True, "if_match_value": etag_a, "if_match": POOL[0]["cid"]}
        a_req = rng.choice([dict({"method": "DELETE", "path": cal + ["a.ics"], "as_collection": False}, **cond),
                            dict({"method": "PUT", "path": cal + ["a.ics"], "body": "cal", "objs": [rng.choice(same_uid)]}, **cond),
                            {"method": "PUT", "path": cal + ["n.ics"], "body": "cal", "objs": [POOL[4] if POOL[4]["kind"] != "VCARD" else POOL[3]],
                             "if_none_match_star": True},
                            {"method": "MOVE", "path": cal + ["a.ics"], "dest": cal + ["m.ics"], "overwrite": False},
                            {"method": "DELETE", "path": cal + ["a.ics"], "as_collection": False}])
        b_req = rng.choice([dict({"method": "PUT", "path": cal + ["a.ics"], "body": "cal", "objs": [rng.choice(same_uid)]}, **cond),
                            {"method": "DELETE", "path": cal + ["a.ics"], "as_collection": False},
                            {"method": "PUT", "path": cal + ["n.ics"], "body": "cal", "objs": [POOL[4] if POOL[4]["kind"] != "VCARD" else POOL[3]]},
                            {"method": "MOVE", "path": cal + ["b.ics"], "dest": cal + ["m.ics"], "overwrite": False},
                            {"method": "MOVE", "path": cal + ["a.ics"], "dest": cal + ["z.ics"], "overwrite": False}])
        pause_before = rng.choice([2, 3, 3])
        hist = []
        state = {"n": 0, "b": None, "a_tid": None}

        def do(ci, r):
            m, path, body, env = davsim.Sim.http(sim, r)
            t0 = time.monotonic()
            st, hd, text = transport.send(ci, m, path, body, env)
            t1 = time.monotonic()
            hist.append({"client": ci, "r": r, "t0": t0, "t1": t1, "raw": (st, hd, text)})

        def gated_acquire(mode, user="", *a, **k):
            if threading.get_ident() == state["a_tid"]:
                state["n"] += 1
                if state["n"] == pause_before and state["b"] is None:
                    state["b"] = threading.Thread(target=do, args=(1, b_req), daemon=True)
                    state["b"].start()
                    state["b"].join(timeout=20)          # A holds no lock here: B runs to completion
            return orig_acquire(mode, user, *a, **k)
        storage.acquire_lock = gated_acquire
        state["a_tid"] = threading.get_ident()
        do(0, a_req)
        storage.acquire_lock = orig_acquire
        if state["b"] is not None:
            state["b"].join(timeout=30)
        for h in hist:
            st, hd, text = h.pop("raw")
            h["obs"] = observe(h["r"], st, hd, text, etag_cid)
        fin = final_state(transport, sim, etag_cid)
        case = {"held": a_req["method"] + (" If-Match" if a_req.get("if_match_present") else " If-None-Match:*" if a_req.get("if_none_match_star") else ""),
                "in_between": b_req["method"], "held_before_lock_acquisition": pause_before, "in_between_ran": state["b"] is not None}
        ctx.case("between-windows:%s/%s" % (case["held"], b_req["method"]), sample=case, key=[hid], nontrivial=state["b"] is not None)
        if state["b"] is None:
            return
        lin = Linearizer(ctx, hist, fin, etag_cid, base)
        order = lin.search(base, json.dumps(store, sort_keys=True), frozenset())
        if order is None:
            replay = {"schedule": "request A held before its lock acquisition #%d while request B runs completely" % pause_before,
                      "history": [{"client": h["client"], "request": {k: v for k, v in h["r"].items() if k != "objs"}, "observed": h["obs"]} for h in hist],
                      "final": fin}
            if sequential_explained(ctx, sorted(hist, key=lambda x: x["t1"]), setup):
                ctx.violation("two requests on one name: answers %s and the final state are those of neither serial order (a check in one lock "
                              "window, the act in another)" % [h["obs"]["status"] for h in hist], replay)
            else:
                ctx.disagree("the sequential model does not explain these requests even one at a time", replay, "observed", "model")
    finally:
        storage.acquire_lock = orig_acquire
        transport.close()


def run_queued_writers(ctx, rng, hid):
    """a reader is held inside its lock window while two conflicting writers arrive and queue behind it; then the reader goes on.
    The writers must still go one after the other (exactly one `If-None-Match: *` PUT of a new name can be carried out), on both
    back-ends — this is the schedule in which a readers-writer lock admits several waiting writers at once if it is wrong."""
    import radicale.storage.multifilesystem.get as mget
    nolock = rng.random() < 0.5
    conf = {"auth": {"type": "none"}, "rights": permissive_rights()}
    if nolock:
        conf["storage"] = {"type": "multifilesystem_nolock"}
    sim = davsim.Sim.__new__(davsim.Sim)
    transport = InProcess(conf)
    etag_cid = {}
    orig_get = mget.CollectionPartGet._get
    try:
        base = ctx.driver.ask1({"m": "dav", "op": "new"})["sid"]
        lin0 = Linearizer(ctx, [], None, etag_cid, base)
        cal = ["u", "c1"]
        setup = [SETUP[0], {"method": "PUT", "path": cal + ["a.ics"], "body": "cal", "objs": [POOL[0]]}]
        store = None
        for r in setup:
            m, path, body, env = davsim.Sim.http(sim, r)
            st, hd, text = transport.send(0, m, path, body, env)
            observe(r, st, hd, text, etag_cid)
            store = lin0.model_req(base, r)["store"]
        reader = {"method": "PROPFIND", "path": cal, "as_collection": True, "depth1": True}
        new_objs = [o for o in POOL if o["kind"] != "VCARD" and o["uid"] != POOL[0]["uid"]]
        o1, o2 = rng.choice(new_objs), rng.choice(new_objs)
        kind = rng.choice(["same-name", "same-uid", "whole-vs-item"])
        if kind == "same-name":
            writers = [{"method": "PUT", "path": cal + ["n.ics"], "body": "cal", "objs": [o1], "if_none_match_star": True},
                       {"method": "PUT", "path": cal + ["n.ics"], "body": "cal", "objs": [o2], "if_none_match_star": True}]
        elif kind == "same-uid":
            writers = [{"method": "PUT", "path": cal + ["n1.ics"], "body": "cal", "objs": [o1]},
                       {"method": "PUT", "path": cal + ["n2.ics"], "body": "cal", "objs": [o1]}]
        else:
            writers = [{"method": "PUT", "path": cal, "as_collection": True, "body": "cal", "objs": [o1]},
                       {"method": "PUT", "path": cal + ["n.ics"], "body": "cal", "objs": [o2]}]
        hist = []
        hlock = threading.Lock()
        state = {"started": False, "tid": None, "threads": []}

        def do(ci, r):
            m, path, body, env = davsim.Sim.http(sim, r)
            t0 = time.monotonic()
            st, hd, text = transport.send(ci, m, path, body, env)
            t1 = time.monotonic()
            with hlock:
                hist.append({"client": ci, "r": r, "t0": t0, "t1": t1, "raw": (st, hd, text)})

        def held_get(self, href, verify_href=True):
            if threading.get_ident() == state["tid"] and not state["started"]:
                state["started"] = True
                for ci, w in enumerate(writers):
                    t = threading.Thread(target=do, args=(ci + 1, w), daemon=True)
                    t.start()
                    state["threads"].append(t)
                time.sleep(0.25)                       # both writers are now waiting for the reader (or, wrongly, already inside)
            return orig_get(self, href, verify_href)
        mget.CollectionPartGet._get = held_get
        state["tid"] = threading.get_ident()
        do(0, reader)
        for t in state["threads"]:
            t.join(timeout=30)
        mget.CollectionPartGet._get = orig_get
        for h in hist:
            st, hd, text = h.pop("raw")
            h["obs"] = observe(h["r"], st, hd, text, etag_cid)
        fin = final_state(transport, sim, etag_cid)
        case = {"backend": "nolock" if nolock else "flock", "writers": kind, "statuses": sorted(h["obs"]["status"] for h in hist if h["client"] > 0)}
        ctx.case("queued-writers:%s:%s" % (case["backend"], kind), sample=case, key=[hid], nontrivial=state["started"])
        if any(h["obs"]["status"] >= 500 for h in hist):
            ctx.violation("a request was answered with a server error when two writers queued behind a reader", dict(case, history=[h["obs"] for h in hist]))
        lin = Linearizer(ctx, hist, fin, etag_cid, base)
        order = lin.search(base, json.dumps(store, sort_keys=True), frozenset())
        if order is None:
            replay = {"schedule": "a PROPFIND is held at its first item read; two writers arrive; the PROPFIND goes on", "backend": case["backend"],
                      "history": [{"client": h["client"], "request": {k: v for k, v in h["r"].items() if k != "objs"}, "observed": h["obs"]} for h in hist],
                      "final": fin}
            if sequential_explained(ctx, sorted(hist, key=lambda x: x["t1"]), setup):
                ctx.violation("two writers queued behind a reader: answers %s and the final state are those of no one-at-a-time order"
                              % case["statuses"], replay)
            else:
                ctx.disagree("the sequential model does not explain these requests even one at a time", replay, "observed", "model")
    finally:
        mget.CollectionPartGet._get = orig_get
        transport.close()


def run_crossprocess_sequence(ctx, rng, hid):
    """several server processes on one folder, requests strictly one after the other, each sent to a process chosen at random:
    every answer must be the sequential model's.  No schedule is involved — this is what catches state a process keeps across
    requests (property / listing caches) that another process's write does not invalidate."""
    sim = davsim.Sim.__new__(davsim.Sim)
    transport = MultiProcess({}, rng.choice([2, 3]), 0, separate_cache=rng.random() < 0.5)
    etag_cid = {}
    try:
        base = ctx.driver.ask1({"m": "dav", "op": "new"})["sid"]
        lin = Linearizer(ctx, [], None, etag_cid, base)
        cal = ["u", "c1"]
        reqs = [SETUP[0], {"method": "PUT", "path": cal + ["a.ics"], "body": "cal", "objs": [POOL[0]]}]
        procs = [0, 1 % len(transport.ports)]
        nproc = len(transport.ports)
        # rounds: one write on one process, then every process reads (each has read before: whatever it kept must be refreshed)
        for i in range(rng.randint(4, 7)):
            k = rng.random()
            if k < 0.45:
                w = {"method": "PROPPATCH", "path": cal, "as_collection": True, "set": [["D:displayname", "name%d" % i]], "remove": [],
                     "sets_type": False, "bad_body": False}
            elif k < 0.7:
                o = rng.choice([x for x in POOL if x["kind"] != "VCARD"])
                w = {"method": "PUT", "path": cal + [rng.choice(["a.ics", "b.ics"])], "body": "cal", "objs": [o]}
            elif k < 0.8:
                w = {"method": "DELETE", "path": cal + [rng.choice(["a.ics", "b.ics"])], "as_collection": False}
            elif k < 0.9:
                w = {"method": "DELETE", "path": cal, "as_collection": True}
            else:
                w = {"method": "MKCALENDAR", "path": cal, "props": [["D:displayname", "made%d" % i]], "bad_body": False}
            reqs.append(w)
            procs.append(rng.randrange(nproc))
            for pr in range(nproc):
                reqs.append(rng.choice([{"method": "PROPFIND", "path": cal, "as_collection": True, "depth1": True},
                                        {"method": "PROPFIND", "path": cal, "as_collection": True, "depth1": False},
                                        {"method": "PROPFIND", "path": ["u"], "as_collection": True, "depth1": True},
                                        {"method": "GET", "path": cal + ["a.ics"], "as_collection": False}]))
                procs.append(pr)
        sid = base
        done = []
        for i, r in enumerate(reqs):
            m, path, body, env = davsim.Sim.http(sim, r)
            proc = procs[i]
            st, hd, text = transport.send(proc, m, path, body, env)
            obs = observe(r, st, hd, text, etag_cid)
            ans = lin.model_req(sid, r)
            done.append({"process": proc, "request": {k2: v for k2, v in r.items() if k2 != "objs"}, "status": st})
            ctx.case("cross-process:%s:%d" % (r["method"], st), sample={"request": done[-1]}, key=[hid, i], nontrivial=i >= 2)
            if not model_matches(r, obs, ans, etag_cid):
                replay = {"processes": len(transport.ports), "history": done, "observed": obs,
                          "model": {"status": ans["status"], "entries": ans.get("entries")}}
                if sequential_explained(ctx, [{"r": x} for x in reqs[2:i + 1]], reqs[:2]):
                    ctx.violation("requests sent one after the other to %d processes sharing one folder: the answer of request %d differs from "
                                  "the one-process answer (state kept by a process across requests?)" % (len(transport.ports), i), replay)
                else:
                    ctx.disagree("the sequential model does not explain these requests even in one process", replay, obs, ans["status"])
                return
    finally:
        transport.close()


def witness_f6(ctx):
    """first login = three lock windows; a DELETE of the home between creation and handler"""
    from radicale import app as rapp
    conf = {"auth": {"type": "none"}}
    with App(conf) as a:
        storage = a.storage
        orig = storage.acquire_lock
        state = {"n": 0, "delete_status": None}

        import contextlib

        @contextlib.contextmanager
        def spy(mode, user="", *args, **kwargs):
            state["n"] += 1
            n = state["n"]
            if n == 3 and state["delete_status"] is None:
                # between the creation window and the handler's window: another client deletes the home
                state["delete_status"] = "pending"
                storage.acquire_lock = orig
                state["delete_status"] = a.request("DELETE", "/newuser/", login="newuser:pw")[0]
                storage.acquire_lock = spy
            with orig(mode, user, *args, **kwargs):
                yield
        storage.acquire_lock = spy
        try:
            st, _, _ = a.request("PROPFIND", "/newuser/", davsim.PROPFIND_BODY, login="newuser:pw", HTTP_DEPTH="0")
        finally:
            storage.acquire_lock = orig
    case = {"propfind_first_login": st, "delete_in_between": state["delete_status"]}
    ctx.case("witness:F6", sample=case, key="F6", nontrivial=True)
    if st == 404 and state["delete_status"] == 200:
        ctx.violation("first login: PROPFIND /newuser/ answered 404 while a concurrent DELETE /newuser/ answered 200 - no one-at-a-time order of "
                      "the two requests gives that (home creation and handler are separate lock windows)", case, finding="F6")


SYNC_BODY = '<?xml version="1.0"?><D:sync-collection xmlns:D="DAV:"><D:sync-token/><D:prop><D:getetag/></D:prop></D:sync-collection>'
QUERY_BODY = ('<?xml version="1.0"?><C:calendar-query xmlns:D="DAV:" xmlns:C="urn:ietf:params:xml:ns:caldav"><D:prop><D:getetag/></D:prop>'
              '<C:filter><C:comp-filter name="VCALENDAR"/></C:filter></C:calendar-query>')
TOKEN_PROPFIND = '<?xml version="1.0"?><D:propfind xmlns:D="DAV:"><D:prop><D:sync-token/><D:getetag/></D:prop></D:propfind>'


def strip_tokens(text):
    """sync tokens are opaque: what an answer says is its statuses, members and ETags (a token minted for objects without history
    entries contains fresh random seeds, so two such answers never agree on it)"""
    return re.sub(r"<(\w+:)?sync-token>[^<]*</(\w+:)?sync-token>", "<sync-token/>", text or "")


def run_overlapping_reads(ctx, rng, hid):
    """requests that only read - sync-collection, calendar-query, PROPFIND with sync-token - sent by several clients at once right
    after a write: reads commute, so every one-at-a-time order gives each of them the answer a single client gets afterwards.  (These
    reads are not pure inside the server: the first sync after a change writes a token and history entries, the first read after an
    upload by other means writes cache entries - under the shared lock, side by side.)  Outside the sequential model: the oracle is the
    sequential answer of the same server."""
    variant = rng.choice([None, {"storage": {"use_cache_subfolder_for_synctoken": "True", "use_cache_subfolder_for_history": "True"}}])
    conf = dict(variant or {}, auth={"type": "none"}, rights=permissive_rights())
    with App(conf) as app:
        login = "u:pw"
        app.request("MKCALENDAR", "/u/c/", login=login)
        n = rng.choice([4, 6, 8])
        for rnd in range(rng.randint(2, 4)):
            w = rng.random()
            if w < 0.6:
                app.request("PUT", "/u/c/e%d.ics" % rng.randint(0, 5), davsim.cal_text([rng.choice([o for o in davsim.POOL if o["kind"] == "VEVENT"])]), login=login)
            elif w < 0.8:
                app.request("DELETE", "/u/c/e%d.ics" % rng.randint(0, 5), login=login)
            else:
                objs, seen = [], set()
                for o in rng.sample([o for o in davsim.POOL if o["kind"] == "VEVENT"], 3):
                    if o["uid"] not in seen:
                        seen.add(o["uid"])
                        objs.append(o)
                app.request("PUT", "/u/c/", davsim.cal_text(objs), login=login, CONTENT_TYPE="text/calendar")
            kind = rng.choice(["sync-collection", "sync-collection", "calendar-query", "propfind-token"])
            method, body, env = {"sync-collection": ("REPORT", SYNC_BODY, {}), "calendar-query": ("REPORT", QUERY_BODY, {}),
                                 "propfind-token": ("PROPFIND", TOKEN_PROPFIND, {"HTTP_DEPTH": "1"})}[kind]
            go = threading.Barrier(n)
            got = [None] * n
            errors = []

            class Tap(logging.Handler):
                def emit(self, record):
                    if record.levelno >= logging.ERROR and len(errors) < 3:
                        errors.append((record.getMessage()[:300], "".join(traceback.format_exception(*record.exc_info))[-700:] if record.exc_info else ""))
            tap = Tap()
            rlog = logging.getLogger("radicale")
            old_level, old_disabled = rlog.level, rlog.disabled
            rlog.addHandler(tap)
            rlog.disabled = False
            rlog.setLevel(logging.ERROR)

            # the hypothesis of `concurrent_atomic_writes_never_fail` observed: the temporary names `_atomic_write` takes while the
            # clients overlap (a stand-in for `TemporaryDirectory` in the storage module records them) are pairwise different
            import radicale.storage.multifilesystem.base as rbase
            real_td = rbase.TemporaryDirectory
            tmp_names = []

            def recording_td(*a, **kw):
                d = real_td(*a, **kw)
                tmp_names.append(d.name)
                return d
            rbase.TemporaryDirectory = recording_td

            def client(k):
                try:
                    go.wait(10)
                    st, _, text = app.request(method, "/u/c/", body, login=login, **env)
                    got[k] = (st, strip_tokens(text))
                except Exception as e:      # noqa
                    got[k] = ("exception", repr(e))
            ts = [threading.Thread(target=client, args=(k,)) for k in range(n)]
            for t in ts:
                t.start()
            for t in ts:
                t.join(60)
            rbase.TemporaryDirectory = real_td
            rlog.removeHandler(tap)
            rlog.setLevel(old_level)
            rlog.disabled = old_disabled
            ref = app.request(method, "/u/c/", body, login=login, **env)
            ref = (ref[0], strip_tokens(ref[2]))
            case = {"history": hid, "round": rnd, "clients": n, "request": kind, "storage_options": (variant or {}).get("storage", {}),
                    "statuses": [g[0] if g else None for g in got], "sequential_status": ref[0], "server_errors": errors}
            case["writes_inside_the_shared_window"] = len(tmp_names)
            ctx.case("overlapping-reads:%s" % kind, sample=case, key=[hid, rnd], nontrivial=True)
            if len(set(tmp_names)) != len(tmp_names):
                ctx.violation("two writes inside one shared window used the same temporary name: %s" % sorted(n for n in tmp_names if tmp_names.count(n) > 1)[:2], case)
                return
            bad = [k for k, g in enumerate(got) if g != ref]
            if bad:
                g = got[bad[0]]
                ctx.violation("%d of %d %s requests sent at once after a write were answered differently from the same request sent alone "
                              "(%s vs %s) - no one-at-a-time order of read-only requests gives that" % (len(bad), n, kind, g[0] if g else None, ref[0]),
                              dict(case, an_answer=(g[1] or "")[:300] if g else None))
                return


def run(ctx):
    ctx.extra["rule"] = ("concurrent histories: 2-8 clients x 2-4 requests (PUT / GET / DELETE / MOVE / PROPFIND 1 / multiget / whole PUT / DELETE "
                         "collection on 2 calendars x 2 names), threads on one Application and 2-3 server processes on one folder, random delays "
                         "up to 300 us at file-system calls; each history must have a linearization in the sequential model; non-trivial = "
                         "some requests overlapped in time")
    ctx.trusted += ["harness/props/c09.py (clients, time stamps, linearizability search)", "the sequential Dav model (tied to the code by C01)",
                    "time.monotonic for real-time order", "kernel flock across processes"]
    ctx.assumptions += ["C10 (all access inside windows), C11 (the lock), C13 (shared windows do not change the abstract store)",
                        "requests of users whose home exists (first login is finding F6)"]
    if not ctx.driver:
        return
    rng = ctx.rng("conc")
    # (first: the levels below install delays and gates at system calls and lock acquisitions; this one wants none of them)
    orng = ctx.rng("overlapping-reads")
    for h in range(ctx.n(10, 300)):
        run_overlapping_reads(ctx, orng, ("o", h))
    n_threads = ctx.n(30, 1500)
    n_mp = ctx.n(3, 120)
    for h in range(n_threads):
        run_history(ctx, rng, ("t", h), "threads", rng.choice([2, 3, 4, 6, 8]), rng.randint(2, 4), rng.choice([0, 50, 300]))
    for h in range(n_mp):
        run_history(ctx, rng, ("p", h), "processes", rng.choice([2, 4, 6]), rng.randint(2, 3), rng.choice([50, 300]))
    for h in range(ctx.n(25, 600)):
        run_targeted(ctx, rng, ("x", h))
    for h in range(ctx.n(40, 800)):
        run_between_windows(ctx, rng, ("w", h))
    for h in range(ctx.n(16, 400)):
        run_queued_writers(ctx, rng, ("q", h))
    for h in range(ctx.n(3, 80)):
        run_crossprocess_sequence(ctx, rng, ("s", h))
    witness_f6(ctx)
    # several first requests at once through the entry point for external WSGI servers: one Application, one storage lock (level of C11)
    from props.c11 import wsgi_entry_level
    wsgi_entry_level(ctx)
